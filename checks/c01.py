"""C01 - DLT framing: complete, faithful recovery of messages between garbage (spec/Framing.tla, spec/FramingTrace.tla)"""
import json
import os
from . import common as c
from . import c04 as c04check

META = {
    "property_id": "C01",
    "technique": "TLC model checking of Framing.tla (the iterator's three-mode resynchronisation machine over both parse functions "
                 "on a scaled token grammar; every stream of one framing with marker-free garbage within the bounds; safety + "
                 "termination) + every TLC-enumerated stream shape concretised into real bytes (all 32 WEID/WSID/WTMS/UEH x MSBF header "
                 "shapes round robin, payload 0/1/random/maximal, random ids/counters/garbage, random start index), a deterministic grid "
                 "of scale classes the token model abstracts away (one garbage run of 65551/65552/65553/131072/200000 bytes leading, "
                 "between, in front of the last message or trailing x both framings x random bytes or partial frame markers at the "
                 "64 KiB / 65551 / 128 KiB boundaries x every front-end), a grid of trailing garbage runs of 7..9/15..17/19..21/35/36/39..41 "
                 "bytes behind 0/1/2/5 messages x both framings x every front-end, seeded random "
                 "streams and the repository's .dlt files run through the real DltMessageIterator (over slice, Cursor and "
                 "LowMarkBufReader, each with and without a logger attached), every recorded run validated by TLC against the contract FramingTrace.tla whose header carries "
                 "the generator's ground truth",
    "design_ref": "DESIGN.md section 6, C01",
    "level_text": "Exhaustive within bounds on the model (all segment sequences <= 4(5) segments / 9(12) tokens, both framings, with and "
                  "without the proposed repair), every such shape executed on the real code (2 concretisations each) with the contract "
                  "evaluated by TLC at every next(); random streams extend to 60(200) messages with payloads up to the 65535-byte limit and garbage runs up to 200000 bytes; "
                  "garbage-run lengths beyond the maximal message size are sampled at the listed scale classes only.",
    "level_note": "Trusted: TLC, the byte-level message generator of the driver (independent of adlt's writer) and its projection of "
                  "DltMessage fields. Narrowed: fields a framing does not carry are not compared (serial: reception time, ECU without "
                  "WEID); the session id is not observable in DltMessage; storage-header microseconds < 10^6; a stream without any "
                  "message may leave up to 19 bytes unconsumed in either framing (no framing is latched); repository files are "
                  "validated on their first 300(3000) messages.",
}

KFS = ["KF_C01_ShortSerial"]


def drive(binp, args, out, timeout=3000):
    p = c.run([binp, "--out", out] + args, timeout=timeout, check=False)
    if p.returncode != 0:
        raise c.ToolError("driver failed: " + (p.stdout or "")[-2000:])
    return json.loads(p.stdout.strip().splitlines()[-1])


def replay(ctx):
    c.EVIDENCE = ctx.path("replay-evidence")      # a replay run must not overwrite the evidence of the last full run
    o = json.load(open(ctx.replay))["replay"]
    tr = ctx.path("replay-trace.ndjson")
    with open(tr, "w") as f:
        for e in o["trace"]:
            f.write(json.dumps(e) + "\n")
    v = c.validate_trace(ctx, "replay", "FramingTrace.tla", tr, o.get("consts") or {})
    for e in o["trace"]:
        print(json.dumps(e)[:300])
    print("rejected:", v.rejected, "violations:", sorted(v.violations), "known:", v.known)
    if v.violations:
        ctx.violation("replayed case rejected", o)


def check(ctx):
    if getattr(ctx, "replay", None):
        return replay(ctx)
    quick = ctx.quick()
    binp = c.build_harness("c01")
    sw = c.kf_switches("C01", KFS)
    if os.environ.get("VERIF_NO_KF"):          # self-test only
        sw = {k: False for k in sw}
    # (a) model checking: the design model (with the repair of fix: e31fecc + follow-up, FixShortSerial = TRUE) satisfies the
    # property strictly; the model of the pinned snapshot (Framing_snapshot.cfg) must still exhibit the short-serial finding
    res = c.tlc_must_pass(ctx, "framing", "Framing.tla", "Framing_quick.cfg" if quick else "Framing_thorough.cfg", timeout=3000)
    snap = c.tlc(os.path.join(c.SPEC, "Framing.tla"), os.path.join(c.SPEC, "mc", "Framing_snapshot.cfg"), ctx.path("tlc-framing-snapshot"),
                 timeout=3000, keep_log=ctx.path("tlc-framing-snapshot.log"))
    ctx.extra["snapshot_model_exhibits_short_serial_finding"] = snap.violation == "Property"
    if snap.violation != "Property":
        raise c.ToolError("Framing.tla without the repair was expected to violate Property (model of the fixed finding); got %s" % snap.violation)
    # (b) scenarios = every stream shape of the bounded model (emitted by the same run)
    shapes = c.scn_lines(res)
    scn = ctx.path("scenarios.ndjson")
    with open(scn, "w") as f:
        for s in shapes:
            f.write(json.dumps(s) + "\n")
    if not shapes:
        raise c.ToolError("no scenarios emitted")
    # (c,d) real iterator on concretised shapes, random streams, repository files
    trace = ctx.path("trace.ndjson")
    nrand = 800 if quick else 8000
    info = drive(binp, ["--scenarios", scn, "--variants", "2" if quick else "4", "--max-l", "2" if quick else "3", "--random", str(nrand),
                        "--max-msgs", "60" if quick else "200", "--seed", str(ctx.seed), "--files", os.path.join(c.REPO, "tests"),
                        "--file-msgs", "300" if quick else "3000", "--scale", "1" if quick else "2", "--tails", "1"], trace)
    # (e) TLC validates every recorded run against the contract
    v = c.validate_trace(ctx, "framing", "FramingTrace.tla", trace, sw, timeout=6000, xmx="8g")
    ctx.add_tlc("trace-validation", v.res)
    cases = c.split_cases(trace)
    rej = {r[0]: r for r in v.rejected}
    for k in sorted(v.violations):
        r = rej.get(k)
        ctx.violation("case %d rejected by FramingTrace at line %s: %s" % (k, r[1] if r else "?", r[2] if r else "unfinished"),
                      {"case": k, "module": "FramingTrace.tla", "consts": sw, "trace": cases.get(k), "first_unmatched": r[2] if r else None,
                       "how": "bin/check C01 --replay <this file>"})
    okc = [k for k in cases if k not in v.violations and k not in v.known]

    def rec_field(field, fn):
        def f(evs):
            i = c04check.first_index(evs, "yield")
            evs[i]["rec"][field] = fn(evs[i]["rec"][field])
            return evs
        return f
    if not ctx.violations:
      c04check.binding_selftest(ctx, "framing", "FramingTrace.tla", {k: cases[k] for k in okc}, sw,
                              lambda evs: sum(1 for e in evs if e["ev"] == "yield") >= 2 and sum(evs[0]["hdr"]["garb"]) > 0 and len(evs) < 60,
                              [("yield.rec.payhash changed", rec_field("payhash", lambda x: (x + 1) % (1 << 31))),
                               ("yield.rec.mcnt changed", rec_field("mcnt", lambda x: (x + 1) % 256)),
                               ("first yield deleted", c04check.delete_first("yield")),
                               ("end.skipped changed", c04check.set_field("end", "skipped", lambda x: x + 1)),
                               ("yield.index shifted", c04check.set_field("yield", "index", lambda x: x + 1)),
                               ("end deleted", c04check.delete_first("end"))])
    kf_cases = [k for k in v.known if k not in v.violations]
    for k in kf_cases:
        for lab in v.known[k]:
            ctx.known(c.kf_text("C01", lab))
    # evidence
    ctx.evaluations = info["cases"]
    ctx.traces_validated = info["cases"] - len(v.violations)
    seen = set()
    for k, evs in cases.items():
        h = evs[0]["hdr"]
        if h["msgs"] and sum(h["garb"]) > 0:                       # at least one message and one garbage byte: resynchronisation happened
            seen.add((h["framing"], h["start"], h["total"], tuple(h["garb"]), tuple((m["off"], m["len"], m["rec"]["htyp"], m["rec"]["payhash"]) for m in h["msgs"][:50])))
    ctx.distinct_nontrivial = len(seen)
    ctx.rule = ("a case = one run of the real iterator over one byte stream; non-trivial = the stream has at least one message and at "
                "least one garbage byte; distinct by (framing, start, total, garbage run lengths, per-message offset/length/htyp/payload hash)")
    ctx.exhaustive = True
    ctx.extra["shapes_from_tlc"] = len(shapes)
    ctx.extra["model_predicted_kf_shapes"] = info["model_predicted_kf"]
    ctx.extra["kf_cases"] = len(kf_cases)
    ctx.extra["kf_switches"] = sw
    ctx.extra["paths_hit"] = {k: info[k] for k in ("shapes_storage", "shapes_serial", "garbage_before", "garbage_between", "garbage_after", "trailing_short_run",
                                                   "max_payload_msgs", "empty_payload_msgs", "serial_cases", "storage_cases", "msgs")}
    kinds = {}
    for evs in cases.values():
        for e in evs[1:]:
            key = evs[0]["hdr"]["framing"] + "." + e["ev"]
            kinds[key] = kinds.get(key, 0) + 1
    ctx.extra["trace_events_by_kind"] = kinds
    ctx.extra["long_garbage_cases"] = info["long_garbage"]
    ctx.extra["trailing_garbage_grid_cases"] = info["tail_grid_cases"]
    ctx.extra["refill_boundary_cases"] = info["refill_boundary_cases"]
    ctx.extra["cases_with_logger_attached"] = info["cases_with_logger"]
    if info["cases_with_logger"] == 0 and not ctx.violations:
        raise c.ToolError("vacuity: no case ran the iterator with a logger attached")
    ctx.extra["repository_files"] = info["files"]
    ctx.extra["trace_events"] = info["lines"]
    if ctx.violations:
        pass                                                        # a verdict was reached; vacuity counters are informational then
    elif info["shapes_storage"] < 32 or info["shapes_serial"] < 32:
        raise c.ToolError("vacuity: not every header shape was generated (%d storage, %d serial of 32)" % (info["shapes_storage"], info["shapes_serial"]))
    for need in ("garbage_before", "garbage_between", "garbage_after", "trailing_short_run", "max_payload_msgs", "empty_payload_msgs"):
        if info[need] == 0 and not ctx.violations:
            raise c.ToolError("vacuity: path %s never exercised" % need)
    if not ctx.violations:
        for need, n in info["long_garbage"].items():
            if n == 0:
                raise c.ToolError("vacuity: scale class %s (garbage run longer than the maximal message) never exercised" % need)
    if not any(f.get("used") for f in info["files"]):
        ctx.assumptions.append("no repository .dlt file could be used (none is a plain concatenation of storage-framed messages)")
    ks = list(cases)
    for k in ks[:1] + ks[len(ks) // 2:len(ks) // 2 + 1]:
        evs = cases[k]
        h = dict(evs[0]["hdr"])
        h["msgs"] = h["msgs"][:2]
        ctx.add_sample({"case": k, "hdr": h, "trace": evs[1:4]})
    ctx.assumptions += ["TLC 1.8.0 and CommunityModules are correct",
                        "the driver's message generator writes well-formed DLT messages (storage/serial framing per AUTOSAR layout) and its "
                        "sanitizer leaves no frame marker outside message starts (spurious_markers = 0 is recorded per case header)",
                        "31-bit FNV hash + length stand in for payload byte equality"]

# round 6 (DESIGN.md 11.10)
META["technique"] += ' Every third case of the buffered front-ends reads from a source that hands out at most 1 / 4097 / 6000 / 65536 bytes per call.'
