"""C17 - embedded file transfers are reassembled bit-exactly or not at all
(spec/FileTransfer.tla, FileTransferDefs.tla, FileTransferTrace.tla; driver harness/src/bin/c17.rs)"""
import json
import os
import subprocess
from . import common as c

META = {
    "property_id": "C17",
    "technique": "TLC model checking of FileTransfer.tla (the plugin's reassembly state machine as coded, driven by a sender that "
                 "injects every single fault at every position, two interleaved transfers, unrelated messages) + every finished "
                 "behaviour replayed on the real FileTransferPlugin with real verbose DLT messages (adlt's dlt_args! encoder, and for a quarter of the cases an independent raw encoder: "
                 "big / little endian per message, every integer width and signedness, ASCII / UTF-8 names) (prediction fast path on state kinds and saved bytes) + seeded random scripts with real sizes; all "
                 "slow-path and random runs validated by TLC against the contract FileTransferTrace.tla (the statement, decided "
                 "from the wire: complete => all packages arrived in order and saved bytes = original; all in order => complete; "
                 "auto-save confined, never overwriting)",
    "design_ref": "DESIGN.md section 6 C17, Appendix H, Appendix C #11 #16",
    "level_text": "Exhaustive within bounds on the model: one transfer of 1..4 packages (package size 1 or 3, last package "
                  "1..size) with every single fault (drop of any item, duplicate of any sent package at any later point, swap of "
                  "neighbours, resize to every other length) and one unrelated message anywhere; two interleaved transfers of 1..2 "
                  "packages, all interleavings, one fault in total (thorough: one fault per transfer, and 1..3 packages); one transfer "
                  "with a single fault plus one additional duplicate of any package that was on the wire; two fault-free interleaved "
                  "transfers with shared or distinct base names with the auto-save directory as state and a file appearing in it at "
                  "any point (the directory only grows; listing recorded after every message). Every "
                  "such behaviour is executed on the real plugin; zero drift is required for the fast path.",
    "level_note": "Narrower readings: with a LOST announcement only the safety half is required (observation #16: lost FLST + "
                  "shorter last package ends Incomplete); auto-save is only required to stay inside the configured directory "
                  "(any depth) and never to overwrite - that a complete transfer IS auto-saved is not required; only the state "
                  "KIND is projected from the public state JSON (label counters are stale between state changes); at most one "
                  "fault per transfer (the statement's quantifier) - recovery mode cannot detect a lost tail after a lost "
                  "announcement. Known finding KF_C17_DuplicateIncomplete (#11). Trusted: TLC, the driver's projection (tooltip "
                  "key parsing, iconPath/label prefix -> kind, byte equality with the original file).",
}

KFS = ["KF_C17_DuplicateIncomplete"]


def drive(binp, args, summary, timeout=3000):
    # the plugin prints to stdout (println!): the summary is passed through a file
    if os.path.exists(summary):
        os.remove(summary)
    try:
        p = subprocess.run([binp] + args + ["--summary", summary], stdout=subprocess.DEVNULL, stderr=subprocess.PIPE, timeout=timeout, text=True,
                           errors="replace")
    except subprocess.TimeoutExpired as ex:
        raise c.ToolError("driver timeout") from ex
    if p.returncode != 0 or not os.path.exists(summary):
        raise c.ToolError("driver failed (%s): %s" % (p.returncode, (p.stderr or "")[-3000:]))
    return json.load(open(summary))


def validate_chunked(ctx, name, module, trace, consts, max_lines=40000, timeout=3000):
    """TLC trace validation in chunks of whole cases (a single huge trace makes TLC's per-state cost grow and hits the
    30-minute checkpoint, which the StateDeque queue does not support); verdicts are merged (case numbers are global)"""
    chunks = []
    cur, n = None, 0
    idx = 0
    with open(trace) as f:
        for line in f:
            if cur is None or (n >= max_lines and '"ev":"reset"' in line):
                if cur:
                    cur.close()
                idx += 1
                p = "%s.chunk%d" % (trace, idx)
                chunks.append(p)
                cur, n = open(p, "w"), 0
            cur.write(line)
            n += 1
    if cur:
        cur.close()
    merged = None
    for i, p in enumerate(chunks):
        v = c.validate_trace(ctx, "%s-%d" % (name, i + 1), module, p, consts, timeout=timeout)
        ctx.add_tlc("%s-trace-validation-%d" % (name, i + 1), v.res)
        if merged is None:
            merged = v
        else:
            merged.violations |= v.violations
            for k, labs in v.known.items():
                merged.known.setdefault(k, set()).update(labs)
            merged.rejected += v.rejected
            merged.states += v.states
        os.remove(p)
    if merged is None:
        raise c.ToolError("empty trace " + trace)
    return merged


def binding_selftest(ctx, cases, v, kf):
    """corrupt accepted cases (one field each / one deleted event) and require that TLC rejects every one of them"""
    import copy
    good = [k for k in cases if k not in v.violations and k not in v.known and cases[k][-1]["ev"] == "end"]
    muts = []
    # a case with a transfer that never completes (damaged): claim it complete at the last message
    dmg = next((k for k in good if any(e["ev"] == "msg" for e in cases[k]) and
                any(not any("complete" in e["kinds"][t] for e in cases[k] if e["ev"] == "msg") and
                    any(not w["orig"] for w in cases[k][0]["hdr"]["wire"] if w["t"] == t + 1)
                    for t in range(len(cases[k][0]["hdr"]["tr"])))), None)
    if dmg is not None:
        t = copy.deepcopy(cases[dmg])
        h = t[0]["hdr"]
        ti = next(i for i in range(len(h["tr"])) if any(not w["orig"] for w in h["wire"] if w["t"] == i + 1))
        last = [e for e in t if e["ev"] == "msg"][-1]
        last["kinds"][ti] = ["complete"]
        muts.append(("damaged transfer reported complete", t))
    def announced(k):
        h = cases[k][0]["hdr"]
        return all(any(w["t"] == t + 1 and w["k"] == "FLST" for w in h["wire"]) for t in range(len(h["tr"])))
    ok = next((k for k in good if announced(k) and len(cases[k][0]["hdr"]["tr"]) == 1
               and any(e["ev"] == "saved" and e["ok"] for e in cases[k])), None)
    if ok is not None:
        t = copy.deepcopy(cases[ok]); e = next(e for e in t if e["ev"] == "saved" and e["ok"]); e["eq"] = False
        muts.append(("saved bytes differ from the original", t))
        t = copy.deepcopy(cases[ok]); e = next(e for e in t if e["ev"] == "saved" and e["ok"]); e["ok"] = False
        muts.append(("complete transfer could not be saved", t))
        t = copy.deepcopy(cases[ok]); es = [e for e in t if e["ev"] == "saved" and e["ok"] and e.get("list") != "top"]
        if es:
            es[0]["eq"] = False
            muts.append(("by-name entry saved another transfer's bytes", t))
        t = [e for e in copy.deepcopy(cases[ok]) if e["ev"] != "tree"]
        muts.append(("tree event deleted", t))
        t = copy.deepcopy(cases[ok]); ms = [e for e in t if e["ev"] == "msg"]
        for e in ms:
            e["kinds"] = [[x for x in ks if x != "complete"] or ["started"] for ks in e["kinds"]]
        muts.append(("in-order transfer never reported complete", t))
        muts.append(("unchanged (control: must be accepted)", copy.deepcopy(cases[ok])))
    # the auto-save directory only grows: a file seen once must keep its bytes and must not vanish
    def persisting(k):
        # a file that is listed in the last two listings of the auto-save directory (so removing it from the last one = it vanished)
        ms = [e for e in cases[k] if e["ev"] == "msg" and e["dir"]]
        return len(ms) >= 2 and ms[-1]["dir"][0]["name"] in [x["name"] for x in ms[-2]["dir"]]
    dk = next((k for k in good if persisting(k)), None)
    if dk is not None:
        t = copy.deepcopy(cases[dk]); ms = [e for e in t if e["ev"] == "msg" and e["dir"]]
        ms[-1]["dir"][0]["hash"] ^= 1
        muts.append(("file in the auto-save directory changed its bytes", t))
        t = copy.deepcopy(cases[dk]); ms = [e for e in t if e["ev"] == "msg" and e["dir"]]
        ms[-1]["dir"] = ms[-1]["dir"][1:]
        muts.append(("file in the auto-save directory vanished", t))
        t = copy.deepcopy(cases[dk]); ms = [e for e in t if e["ev"] == "msg"]
        ms[0]["dir"] = ms[0]["dir"] + [{"name": "stray.bin", "len": 3, "hash": 7}]
        muts.append(("unexplained file in the auto-save directory", t))
    elif not ctx.violations:
        raise c.ToolError("binding self-test: no accepted case with a populated auto-save directory")
    au = next((k for k in good if any(e["ev"] == "tree" and e["new"] for e in cases[k])), None)
    if au is not None:
        t = copy.deepcopy(cases[au]); e = next(e for e in t if e["ev"] == "tree"); e["new"][0]["inside"] = False
        muts.append(("auto-saved file outside the configured directory", t))
        t = copy.deepcopy(cases[au]); e = next(e for e in t if e["ev"] == "tree"); e["pre_ok"] = False
        muts.append(("pre-existing file overwritten", t))
    if len(muts) < 6:
        if ctx.violations:      # the code under test is broken so badly that no suitable accepted case exists: the verdict stands
            return {"skipped": "not enough accepted cases to corrupt (run has violations)"}
        raise c.ToolError("binding self-test: not enough accepted cases to corrupt")
    path = ctx.path("selftest.ndjson")
    with open(path, "w") as f:
        for i, (_, t) in enumerate(muts):
            for e in t:
                e = dict(e)
                if e["ev"] == "reset":
                    e["case"] = i
                f.write(json.dumps(e) + "\n")
    sv = c.validate_trace(ctx, "selftest", "FileTransferTrace.tla", path, kf, timeout=600)
    res = {}
    for i, (what, _) in enumerate(muts):
        rejected = i in sv.violations
        res[what] = "rejected" if rejected else "accepted"
        if rejected != (not what.startswith("unchanged")):
            raise c.ToolError("binding self-test: corrupted trace '%s' was %s by FileTransferTrace.tla" % (what, res[what]))
    return res


def check(ctx):
    quick = ctx.quick()
    binp = c.build_harness("c17")
    kf = c.kf_switches("C17", KFS)
    if os.environ.get("VERIF_KF_OFF"):      # self-test only: strict contract (validates the proposed fix / the KF's narrowness)
        kf = {k: False for k in kf}
    # (a)+(b) model checking (invariants incl. the cross-check contract classification == sender fault classes) and emission
    # dupalso: one duplicate of a package that was on the wire IN ADDITION to the single fault (safety must still hold; this is
    # what exposes regressions of the package-number logic that the file-size check masks under a single fault)
    # auto: the auto-save directory as state - two interleaved transfers that may SHARE a base name (different directory parts,
    # identical names), all interleavings, a file appearing in the directory at any point (environment action)
    cfgs = ["FileTransfer_single_emit.cfg", "FileTransfer_dupalso_emit.cfg", "FileTransfer_pair_emit.cfg", "FileTransfer_auto_emit.cfg",
            # names: three transfers (round-robin interleavings) with EVERY assignment of alphabetical name ranks (occurrence order, reverse,
            # shuffled, equal names): the state report lists every transfer by occurrence and sorted by name; the driver saves through
            # every entry of every list with the entry's own command context - the bytes must be those of the transfer the entry names
            "FileTransfer_names_emit.cfg"]
    if not quick:
        cfgs += ["FileTransfer_pair2_emit.cfg", "FileTransfer_pair3_emit.cfg"]
    scns = []
    seen = set()
    for cfg in cfgs:
        res = c.tlc_must_pass(ctx, cfg[13:-4], "FileTransfer.tla", cfg, timeout=3000)
        for s in c.scn_lines(res):
            key = json.dumps([s["shape"], s["wire"], s.get("auto"), s.get("base"), s.get("rank")], sort_keys=True)
            if key not in seen:
                seen.add(key)
                scns.append(s)
    if not scns:
        raise c.ToolError("FileTransfer emitted no scenarios")
    # the proposed repair of #11 on the model: safety kept (also with an extra duplicate on top of any fault), duplicates tolerated
    c.tlc_must_pass(ctx, "single_fixed-model", "FileTransfer.tla", "FileTransfer_single_fixed.cfg", timeout=3000)
    if not quick:
        c.tlc_must_pass(ctx, "pair_fixed-model", "FileTransfer.tla", "FileTransfer_pair_fixed.cfg", timeout=3000)
        c.tlc_must_pass(ctx, "dupalso-model", "FileTransfer.tla", "FileTransfer_dupalso.cfg", timeout=3000)
        c.tlc_must_pass(ctx, "dupalso_fixed-model", "FileTransfer.tla", "FileTransfer_dupalso_fixed.cfg", timeout=3000)
    scn_path = ctx.path("scenarios.ndjson")
    with open(scn_path, "w") as f:
        for s in scns:
            f.write(json.dumps(s) + "\n")
    # (c, d) replay + random
    trace = ctx.path("trace.ndjson")
    nrand = 500 if quick else 5000
    info = drive(binp, ["--scenarios", scn_path, "--random", str(nrand), "--seed", str(ctx.seed), "--out", trace,
                        "--tmp", ctx.path("tmp"), "--sample", "300" if quick else "3000",
                        "--max-pk", "6" if quick else "10", "--max-bs", "300" if quick else "2000"], ctx.path("summary.json"))
    # (e) trace validation
    v = validate_chunked(ctx, "ft", "FileTransferTrace.tla", trace, kf)
    cases = c.split_cases(trace)
    rej = {r[0]: r for r in v.rejected}
    for k in sorted(v.violations):
        r = rej.get(k)
        ctx.violation("case %d rejected by FileTransferTrace at line %s: %s" % (k, r[1] if r else "?", r[2] if r else "unfinished case"),
                      {"case": k, "trace": cases.get(k), "first_unmatched": r[2] if r else None, "kf_switches": kf,
                       "module": "FileTransferTrace.tla", "consts": kf,
                       "how": "bin/check C17 quick --replay <this file>"})
    for k, labels in v.known.items():
        if k not in v.violations:
            for lab in labels:
                ctx.known(c.kf_text("C17", lab))
    ctx.extra["binding_selftest"] = binding_selftest(ctx, cases, v, kf)
    ctx.evaluations = info["replayed"] + nrand
    ctx.traces_validated = info["fast_path"] + len(cases) - len(v.violations)
    # distinct non-trivial: scripts in which at least one fault, one interleaving of two transfers or an unrelated message occurs
    nontriv = 0
    for s in scns:
        if any(f != "none" for f in s["fault"]) or len(s["shape"]) > 1 or any(w["t"] == 0 for w in s["wire"]):
            nontriv += 1
    rseen = set()
    for k, evs in cases.items():
        h = evs[0]["hdr"]
        if h.get("src") == "random" and (len(h["tr"]) > 1 or any(not w["orig"] for w in h["wire"])):
            rseen.add(json.dumps([h["wire"], [t["lens"] for t in h["tr"]]], sort_keys=True))
    ctx.distinct_nontrivial = nontriv + len(rseen)
    ctx.rule = ("a case = one wire script (interleaved transfers with at most one fault each, unrelated messages) run through a fresh "
                "plugin; TLC cases = every finished behaviour of the bounded sender/plugin model (distinct by shape+wire); non-trivial "
                "when a fault, a second transfer or an unrelated message occurs; random cases distinct by (wire, package lengths)")
    ctx.exhaustive = True
    ctx.extra["replay"] = {k: info[k] for k in ("replayed", "fast_path", "slow_path", "drift", "predicted_not_ok", "cases", "lines")}
    ctx.extra["design_conformance"] = {"steps": info["replayed"], "mismatches": info["drift"]}
    ctx.extra["paths"] = info["paths"]
    ctx.extra["drift_samples"] = info.get("drift_samples", [])
    ctx.extra["kf_switches"] = kf
    ctx.extra["kf_cases"] = len([k for k in v.known if k not in v.violations])
    # contract actions fired (from the trace)
    fired = {"msg_complete_seen": 0, "saved_ok": 0, "saved_refused": 0, "tree_with_autosaved_file": 0, "preexisting_kept": 0,
             "saved_ok_through_by_name_entry": 0}
    for k, evs in cases.items():
        h = evs[0]["hdr"]
        for e in evs[1:]:
            if e["ev"] == "msg" and any("complete" in ks for ks in e["kinds"]):
                fired["msg_complete_seen"] += 1
            elif e["ev"] == "saved":
                fired["saved_ok" if e["ok"] else "saved_refused"] += 1
                if e["ok"] and e.get("list") != "top":
                    fired["saved_ok_through_by_name_entry"] += 1
            elif e["ev"] == "tree":
                if e["new"]:
                    fired["tree_with_autosaved_file"] += 1
                if any(t["pre"] for t in h["tr"]):
                    fired["preexisting_kept"] += 1
    ctx.extra["contract_paths"] = fired
    need = ["fault_dropFLST", "fault_dropFLFI", "fault_dropPkg", "fault_dup", "fault_swap", "fault_resize", "fault_none", "two_transfers",
            "with_unrelated_message", "last_package_shorter", "package_size_1", "file_of_one_package", "cfg_allow_save+auto_save",
            "cfg_auto_save_only", "rnd_interleaved_transfers", "rnd_dup", "rnd_swap", "rnd_resize", "rnd_foreign_apid_copy",
            "shared_base_name", "file_appears_in_auto_save_dir", "rnd_shared_base_name", "rnd_file_appears_in_auto_save_dir",
            "names_ranked_by_model", "name_order_differs_from_occurrence", "duplicate_names", "rnd_names_reverse_order", "rnd_names_all_equal"]
    missing = [k for k in need if not info["paths"].get(k)] + [k for k, n in fired.items() if n == 0]
    ctx.extra["paths_never_exercised"] = missing
    if missing and not ctx.violations:      # (with violations the code may be too broken to reach a path: the verdict stands)
        raise c.ToolError("vacuity: paths never exercised: %s" % missing)
    ks = list(cases)
    for k in ks[:1] + ks[len(ks) // 2:len(ks) // 2 + 1] + ks[-1:]:
        ctx.add_sample({"case": k, "trace": cases[k][:14]})
    ctx.assumptions = ["TLC 1.8.0 and CommunityModules are correct",
                       "driver projection is correct: transfer key parsed from the tooltip, kind from iconPath/label prefix, byte equality",
                       "at most one fault per transfer; with a lost announcement only safety is required",
                       "messages are verbose DLT messages: three quarters of the cases little endian with u32 / i32 numbers built by adlt's own dlt_args! encoder, one quarter (cfg.enc = 1) with mixed wire encodings from an independent raw encoder - per message big or little endian, every number in a random width / signedness in which it fits (u8..u64, i8..i64), file names with ASCII or UTF-8 coding"]
