"""C12 - filter sets: positive OR, negative veto, event AND; order and counts kept
(spec/FilterSet.tla, spec/mc/MCFilterSet.tla, spec/FilterSetTrace.tla)"""
import json
import os
from . import common as c

META = {
    "property_id": "C12",
    "technique": "TLC model checking of FilterSet.tla on the bounded universe of MCFilterSet.tla (every multiset of pool "
                 "filters of the four kinds, set-level rules + the stream filter stepped message by message on every "
                 "stream) + every TLC-enumerated filter set replayed on the real code: match_filters on the container "
                 "built by StreamContext::from(JSON) and on the enabled-only container the search/export code builds, and "
                 "filter_as_streams through real std::sync::mpsc channels (filter list from JSON, from a DLF file in which every "
                 "filter carries the full element set, or from a reduced DLF file in which later filters omit elements of "
                 "earlier ones; for every set without an enabled positive/negative filter and every 10th (25th) other set also with "
                 "the filter on its own thread and a producer that pauses between the first messages); the remote stream front-end "
                 "(StreamContext::from + process_stream_new_msgs, stream and query, messages arriving in 1..3 portions); the "
                 "export plugin (ExportPlugin with the filter set, with and without lifecyclesToKeep, lifecycle table behind a "
                 "read handle, every message before and after its lifecycle was looked up, exported file read back); "
                 "observations that differ from TLC's prediction, a random sample of the others and seeded random larger "
                 "sets/streams are validated by TLC against the contract FilterSetTrace.tla",
    "design_ref": "DESIGN.md section 6, C12",
    "level_text": "Exhaustive within bounds on the model: all multisets of <=3 (thorough: <=4) "
                  "filters drawn from 14 base filters (matching everything, disabled, literal/negated/regex id on ecu, apid, ctid, "
                  "ecu + apid, type alone, type + id, negated type, payload, lifecycle, disabled with criterion) as "
                  "positive/negative/event filters and 3 marker filters; 15 messages: for every field (ecu with and without "
                  "extended header, apid, ctid, type, verbose bit, text, lifecycle) two messages differ in exactly that field; "
                  "streams: an Euler circuit that makes every ordered pair of messages adjacent once (226 messages), all "
                  "messages in descending order (so every pair occurs in both orders of first occurrence), the empty stream "
                  "and short ones; model checking steps the "
                  "stream filter on sets of <=2 (3) filters; every set executed on both real implementations and compared "
                  "with TLC's prediction; random sets of up to 12 filters (a third of them with id/type criteria only) and "
                  "streams of up to 40 (200) messages with runs of messages sharing the address, decided by TLC.",
    "level_note": "Trusted: TLC, the driver's concretisation shared with C11 (abstract filter -> JSON / DLF text, abstract "
                  "message -> DltMessage) and its bookkeeping of stream positions (message index = input position). "
                  "Event filters are applied to match_filters only (streams and searches); filter_as_streams (convert) has no "
                  "event filters, so its runs are judged with Keep(.., withEvents = FALSE). Filter semantics beyond the pool "
                  "is C11's subject; literal case-sensitive payload texts are not loaded through DLF here (C11 known finding).",
}


def drive(binp, args, out):
    p = c.run([binp, "--out", out] + args, timeout=3000, check=False)
    if p.returncode != 0:
        raise c.ToolError("driver failed (%d): %s" % (p.returncode, (p.stdout or "")[-3000:]))
    return json.loads(p.stdout.strip().splitlines()[-1])


def replay(ctx):
    obj = json.load(open(ctx.replay))["replay"]
    trace = ctx.path("replay-trace.ndjson")
    with open(trace, "w") as f:
        for e in obj["trace"]:
            f.write(json.dumps(e) + "\n")
    v = c.validate_trace(ctx, "replay", "FilterSetTrace.tla", trace, timeout=600)
    for e in obj["trace"]:
        print(json.dumps(e))
    print("rejected:", v.rejected)
    for k in sorted(v.violations):
        ctx.violation("replayed case %d rejected by FilterSetTrace" % k, obj)


def binding_selftest(ctx, cases, v):
    """corrupt an accepted trace (flip a set decision, drop a forwarded message, change a count, swap two forwarded
    messages): TLC must reject each and accept the unchanged copy"""
    def ok(evs):
        return (any(e["ev"] == "set" for e in evs) and evs[-1]["ev"] == "end"
                and any(evs[i]["ev"] == "fwd" and evs[i + 1]["ev"] == "fwd" for i in range(len(evs) - 1)))
    good = [k for k in cases if k not in v.violations and ok(cases[k])]
    if not good and v.violations:
        return {"skipped": "no accepted case to corrupt (every candidate case was rejected)"}
    if not good:
        raise c.ToolError("binding self-test: no accepted case with set decisions and two consecutive forwarded messages")
    base = cases[good[0]]
    order = []
    for n, mut in enumerate(("set", "drop_fwd", "count", "swap", "unchanged")):
        evs = [json.loads(json.dumps(e)) for e in base]
        evs[0]["case"] = n
        i = next(i for i in range(len(evs) - 1) if evs[i]["ev"] == "fwd" and evs[i + 1]["ev"] == "fwd")
        if mut == "set":
            e = next(e for e in evs if e["ev"] == "set")
            e["kept"] = not e["kept"]
        elif mut == "drop_fwd":
            del evs[i]
        elif mut == "count":
            e = next(e for e in evs if e["ev"] == "send")
            e["filtered"] += 1
        elif mut == "swap":
            evs[i], evs[i + 1] = evs[i + 1], evs[i]
        order.append(evs)
    path = ctx.path("selftest-trace.ndjson")
    with open(path, "w") as f:
        for evs in order:
            for e in evs:
                f.write(json.dumps(e) + "\n")
    r = c.validate_trace(ctx, "selftest", "FilterSetTrace.tla", path, timeout=600)
    if r.violations != {0, 1, 2, 3}:
        raise c.ToolError("binding self-test failed: corrupted cases 0..3 must be rejected and the unchanged one accepted, got %s" % sorted(r.violations))
    return {"corrupted_rejected": 4, "unchanged_accepted": 1, "base_case": good[0]}


def check(ctx):
    if getattr(ctx, "replay", None):
        return replay(ctx)
    quick = ctx.quick()
    tier = "quick" if quick else "thorough"
    binp = c.build_harness("c12")
    # (a) model checking of the contract module on the bounded universe
    c.tlc_must_pass(ctx, "mc", "mc/MCFilterSet.tla", "MCFilterSet_%s.cfg" % tier, timeout=6000)
    # (b) scenario emission: one line per filter set with the predicted decisions / forwarding
    res = c.tlc_must_pass(ctx, "emit", "mc/MCFilterSet.tla", "MCFilterSet_emit_%s.cfg" % tier, timeout=6000)
    tabs = res.printed.get("TAB", [])
    if not tabs:
        raise c.ToolError("TLC printed no tables")
    tab = json.loads(json.loads(tabs[0]))
    with open(ctx.path("tables.json"), "w") as f:
        json.dump(tab, f)
    scn = ctx.path("scenarios.ndjson")
    n_scn = 0
    paths = {"no_active_positive": 0, "negative_veto_possible": 0, "event_filters_active": 0, "marker_or_disabled_present": 0,
             "all_four_kinds": 0, "kept_differs_with_events": 0, "nothing_forwarded": 0, "all_forwarded": 0, "some_forwarded": 0}
    distinct = 0
    # adjacent stream positions whose messages share the address (ecu, apid, ctid): a decision carried over from the
    # previous message is visible exactly where Keep differs on such a pair
    addr = [json.dumps([m["ecu"], m["ext"], m["apid"], m["ctid"]]) for m in tab["msgs"]]
    same_addr_adj = sorted({(st[i], st[i + 1]) for st in tab["streams"] for i in range(len(st) - 1)
                            if st[i] != st[i + 1] and addr[st[i] - 1] == addr[st[i + 1] - 1]})
    all_adj = {(st[i], st[i + 1]) for st in tab["streams"] for i in range(len(st) - 1)}
    nm = len(tab["msgs"])
    if len(all_adj) != nm * nm or not same_addr_adj:
        raise c.ToolError("vacuity: the streams do not make every ordered pair of messages adjacent (%d of %d)" % (len(all_adj), nm * nm))
    # every pair of messages occurs in some stream in both orders of first occurrence (a decision remembered for a whole
    # stream under a key that leaves out a field shows up whichever message comes first)
    first_before = set()
    for st_ in tab["streams"]:
        order = []
        for k in st_:
            if k not in order:
                order.append(k)
        first_before.update((order[i], order[j]) for i in range(len(order)) for j in range(i + 1, len(order)))
    if len(first_before) != nm * (nm - 1):
        raise c.ToolError("vacuity: not every pair of messages occurs in both orders of first occurrence (%d of %d)" % (len(first_before), nm * (nm - 1)))
    paths["message_pairs_both_orders_of_first_occurrence"] = len(first_before) // 2
    # pairs of messages that differ in exactly one field, per field
    one_field = {}
    flds = ("ecu", "ext", "apid", "ctid", "vmm", "text", "lc")
    for i in range(nm):
        for j in range(i + 1, nm):
            d = [f for f in flds if tab["msgs"][i][f] != tab["msgs"][j][f]]
            if len(d) == 1:
                key = d[0] + ("" if tab["msgs"][i]["ext"] else "_without_ext_header")
                one_field[key] = one_field.get(key, 0) + 1
    missing = [f for f in ("ecu", "ecu_without_ext_header", "apid", "ctid", "vmm", "text", "lc") if not one_field.get(f)]
    if missing:
        raise c.ToolError("vacuity: no two messages differ in exactly the field(s) %s" % missing)
    paths["message_pairs_differing_in_exactly_one_field"] = one_field
    paths["ordered_message_pairs_adjacent"] = len(all_adj)
    paths["same_address_pairs_adjacent"] = len(same_addr_adj)
    paths["sets_address_and_type_only"] = 0
    paths["same_address_adjacent_with_different_decision"] = 0
    with open(scn, "w") as f:
        for payload in res.printed.get("SCN", []):
            line = json.loads(payload)
            f.write(line + "\n")
            s = json.loads(line)
            n_scn += 1
            fl = [tab["pool"][j - 1] for j in s["items"]]
            act = [x for x in fl if x["enabled"] and x["kind"] != 2]
            if not any(x["kind"] == 0 for x in act):
                paths["no_active_positive"] += 1
            if any(x["kind"] == 1 for x in act):
                paths["negative_veto_possible"] += 1
            if any(x["kind"] == 3 for x in act):
                paths["event_filters_active"] += 1
            if len(act) != len(fl):
                paths["marker_or_disabled_present"] += 1
            if len({x["kind"] for x in fl}) == 4:
                paths["all_four_kinds"] += 1
            if s["keepEv"] != s["keepNo"]:
                paths["kept_differs_with_events"] += 1
            for w in s["fwd"]:
                k = "nothing_forwarded" if w["passed"] == 0 else "all_forwarded" if w["filtered"] == 0 else "some_forwarded"
                paths[k] += 1
            pn = [x for x in act if x["kind"] in (0, 1)]
            if pn and all(x["pay"]["k"] == "none" and x["lmin"] < 0 and x["lmax"] < 0 and x["lcs"]["k"] == "none" for x in pn) \
                    and any(x["type"]["k"] != "none" for x in pn):
                paths["sets_address_and_type_only"] += 1
            paths["same_address_adjacent_with_different_decision"] += sum(1 for (a, b) in same_addr_adj if s["keepNo"][a - 1] != s["keepNo"][b - 1])
            if act:
                distinct += 1
    res.out = ""
    res.printed = {}
    if n_scn == 0:
        raise c.ToolError("TLC emitted no scenarios")
    empty = [k for k, v in paths.items() if v == 0 and not (k == "all_four_kinds" and quick)]
    if empty:
        raise c.ToolError("vacuity: paths never enumerated: %s" % empty)
    # (c,d) replay on the real code + seeded random sets and streams
    trace = ctx.path("trace.ndjson")
    nrand = 400 if quick else 5000
    tmp = ctx.path("tmp")
    os.makedirs(tmp, exist_ok=True)
    info = drive(binp, ["--deviating-cap", "150", "--tmp", tmp, "--export-every", "2" if quick else "4", "--tables", ctx.path("tables.json"), "--scenarios", scn, "--seed", str(ctx.seed), "--random", str(nrand),
                        "--sample", "120" if quick else "600", "--paced-every", "10" if quick else "25", "--paced-random", "30" if quick else "100", "--max-len", "40" if quick else "200"], trace)
    st = info["stats"]
    for k in ("stream_context_runs_1_portions", "stream_context_runs_2_portions", "stream_context_runs_3_portions",
              "stream_context_runs_event_filters_only", "stream_context_runs_other_sets", "stream_context_runs_chunk_3000000",
              "stream_context_runs_chunk_4", "stream_context_runs_chunk_1", "export_runs_without_lifecycles_to_keep",
              "export_runs_with_lifecycles_to_keep", "export_runs_lifecycles_to_keep_and_negative_filter_with_lifecycles"):
        paths[k] = st.get(k, 0)
        if not paths[k]:
            raise c.ToolError("vacuity: no case of kind %s" % k)
    paths["stream_filter_lists_from_dlt_convert_list"] = st.get("stream_filters_from_convert_list", 0)
    if not paths["stream_filter_lists_from_dlt_convert_list"]:
        raise c.ToolError("vacuity: no filter set loaded from a dlt-convert list")
    paths["export_msgs_processed"] = st.get("export_msgs", 0)
    paths["export_msgs_exported"] = st.get("export_exported", 0)
    paths["paced_producer_runs_inert_only_sets"] = st.get("paced_runs_inert_only_sets", 0)
    paths["paced_producer_runs_active_sets"] = st.get("paced_runs_active_sets", 0)
    if not paths["paced_producer_runs_inert_only_sets"] or not paths["paced_producer_runs_active_sets"]:
        raise c.ToolError("vacuity: no filter_as_streams run with a paced producer (inert-only sets / active sets)")
    paths["dlf_files_minimal_filter_after_fuller"] = st.get("stream_filters_from_dlf_minimal_later_filter_omits_elements", 0)
    paths["dlf_files_full_element_set"] = st.get("stream_filters_from_dlf_full", 0)
    if not paths["dlf_files_minimal_filter_after_fuller"] or not paths["dlf_files_full_element_set"]:
        raise c.ToolError("vacuity: no multi-filter DLF file with a later filter that omits elements of an earlier one (or none with the full element set)")
    # (e) TLC validates every recorded case against the contract
    v = c.validate_trace(ctx, "filterset", "FilterSetTrace.tla", trace, timeout=3000, xmx="8g")
    ctx.add_tlc("trace-validation", v.res)
    cases = c.split_cases(trace)
    ctx.evaluations = st.get("set_decisions", 0) + st.get("stream_msgs", 0) + st.get("export_msgs", 0)
    ctx.traces_validated = info["cases_written"] - len(v.violations)
    ctx.distinct_nontrivial = distinct
    ctx.rule = ("an evaluation = one decision of the real code on one message (match_filters on one container, or one input "
                "message of a filter_as_streams run); a trace = one filter-set case whose recorded events TLC accepted; "
                "non-trivial = distinct TLC-enumerated filter sets with at least one enabled non-marker filter (each is run "
                "on 2 containers x 15 messages and on 8 streams, one of which makes every ordered pair of messages adjacent)")
    ctx.exhaustive = True
    ctx.extra["replayed"] = st.get("fast_path", 0) + st.get("drift", 0)
    ctx.extra["fast_path"] = st.get("fast_path", 0)
    ctx.extra["slow_path"] = st.get("slow_path", 0)
    ctx.extra["drift"] = st.get("drift", 0)
    ctx.extra["tlc_filter_sets"] = n_scn
    ctx.extra["driver_stats"] = st
    evk = {}
    for evs in cases.values():
        for e in evs:
            key = e["ev"] + (":" + e["impl"] if e["ev"] == "set" else "")
            evk[key] = evk.get(key, 0) + 1
    paths["trace_events"] = evk
    ctx.extra["paths"] = paths
    ctx.extra["binding_selftest"] = binding_selftest(ctx, cases, v)
    for need in ("set:match_filters_ctx", "set:match_filters_cont", "stream", "fwd", "send", "end"):
        if not evk.get(need):
            raise c.ToolError("vacuity: no `%s` event was validated" % need)
    ks = list(cases)
    for k in ks[:2] + ks[-2:]:
        ctx.add_sample({"case": k, "trace": cases[k][:10]})
    rej = {}
    for r in v.rejected:
        rej.setdefault(r[0], r)
    for k in sorted(v.violations):
        r = rej.get(k)
        ctx.violation("case %d rejected by FilterSetTrace at line %s: %s" % (k, r[1] if r else "?", r[2] if r else "unfinished"),
                      {"case": k, "trace": cases.get(k), "first_unmatched": r[2] if r else None, "how": "bin/check C12 --replay <this file>"})
    ctx.assumptions = ["TLC 1.8.0 and CommunityModules are correct",
                       "the driver's concretisation (shared with C11) is correct; stream positions are carried in DltMessage.index",
                       "event filters are part of the selection for match_filters (streams, searches, export) and not for filter_as_streams (convert)"]

# round 6 (DESIGN.md 11.10)
META["technique"] += ' Two further driver modes without prediction, always decided by TLC: the stream filter whose consumer hangs up after 0 / 1 / 2 kept messages (numbers, if reported, add up to what was taken from the input: StreamHangupOk) and one backlog of 140 000 messages handed to the stream context in a single call (summary per message, index list ascending: SetBig).'
