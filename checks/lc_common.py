"""Shared engine of the lifecycle-detector checks C05-C08 (spec/LcDetector.tla, CleanBoots.tla, LcTrace.tla, driver `lc`)."""
import json
import os
from . import common as c

KF_NAMES = ["KF_C08_Overlap"]
# behaviours replayed on a grid at the start of the Unix epoch (loggers without a real-time clock): timestamps beyond the reception time
EPOCH_CFGS = [("epoch4", "Lc_emit_epoch4.cfg", ["--epoch0"]), ("epoch2ecu", "Lc_emit_epoch2ecu.cfg", ["--epoch0"])]


def emit_and_check(ctx, name, module, cfg, timeout=3000):
    """one TLC run: invariants of the design model (the property on the model) + emission of every terminal behaviour"""
    res = c.tlc_must_pass(ctx, name, module, cfg, timeout=timeout)
    path = ctx.path("scn-%s.ndjson" % name)
    n = 0
    cov = ctx.extra.setdefault("model_paths_behaviours", {})     # code path (ghost variable `paths`) -> number of behaviours taking it
    with open(path, "w") as f:
        for payload in res.printed.get("SCN", []):
            line = json.loads(payload)
            f.write(line + "\n")
            n += 1
            i = line.find('"paths":[')
            if i >= 0:
                for t in json.loads(line[i + 8:line.index("]", i) + 1]):
                    cov[t] = cov.get(t, 0) + 1
    return path, n


RARE_QUICK = ["merge-into-confirmed-prev", "merge-into-buffered-prev", "flush-after-merge-send4", "send4-marks-unmarked-lifecycle",
              "merge-skipped-not-all-queued", "upd-absorb-unresume", "final-flush-marks-unmarked-published-lifecycle",
              "send4-marks-unmarked-lifecycle-of-other-ecu"]
RARE_THOROUGH = RARE_QUICK + ["merge-confirmed-into-buffered-prev", "merge-confirmed-into-confirmed-prev"]
MERGE_TAGS = {"merge-into-confirmed-prev", "merge-into-buffered-prev", "merge-confirmed-into-buffered-prev",
              "merge-confirmed-into-confirmed-prev"}


def scripted_scenarios(ctx, binp, nscripts):
    """deep scenarios: the driver composes streams (interleaved per-ECU boot scripts, late arrivals, 6-12 messages), TLC runs the
    design model on every script (spec/LcScripted.tla: invariants C05/C06/C07/NoPanic + prediction + path tags), the predictions
    of all iteration orders of one script are grouped, and the driver replays the scripts on the real detector"""
    scripts = ctx.path("scripts.ndjson")
    p = c.run([binp, "--gen-scripts", str(nscripts), "--seed", str(ctx.seed), "--out", scripts], timeout=600)
    res = c.tlc_must_pass(ctx, "scripted", "LcScripted.tla", "LcScripted.cfg", env={"SCRIPTS": scripts}, timeout=7000)
    by_sid = {}
    cov = ctx.extra.setdefault("model_paths_behaviours", {})
    scov = ctx.extra.setdefault("scripted_paths_scripts", {})
    for payload in res.printed.get("SCN", []):
        d = json.loads(json.loads(payload))
        by_sid.setdefault(d["sid"], []).append(d)
    path = ctx.path("scn-scripted.ndjson")
    with open(path, "w") as f:
        for sid in sorted(by_sid):
            alts = by_sid[sid]
            tags = set()
            for a in alts:
                tags.update(a["paths"])
            for t in tags:
                cov[t] = cov.get(t, 0) + 1
                scov[t] = scov.get(t, 0) + 1
            f.write(json.dumps({"sid": sid, "inputs": alts[0]["inputs"], "chain": bool(tags & MERGE_TAGS),
                                "alts": [{k: a[k] for k in ("delivered", "pub", "panic", "c05", "c06", "c07")} for a in alts]}) + "\n")
    if len(by_sid) != nscripts:
        raise c.ToolError("scripted: TLC produced predictions for %d of %d scripts" % (len(by_sid), nscripts))
    ctx.extra["scripted"] = {"scripts": nscripts, "predictions": sum(len(v) for v in by_sid.values()),
                             "scripts_with_several_iteration_order_outcomes": sum(1 for v in by_sid.values() if len(v) > 1),
                             "longest_script": max(len(v[0]["inputs"]) for v in by_sid.values())}
    os.remove(scripts)
    return path


def drive(ctx, binp, args, out):
    p = c.run([binp, "--out", out] + args, timeout=2400, check=False)
    if p.returncode != 0:
        # the driver catches panics of the code under test; a crash/abort here is reported as a tool error
        raise c.ToolError("driver failed (rc=%d): %s" % (p.returncode, (p.stdout or "")[-3000:]))
    return json.loads(p.stdout.strip().splitlines()[-1])


def run_lc(ctx, prop, emit_cfgs, mc_cfgs, driver_args, clean_cfgs=(), what="", scripted=0, extra_runs=()):
    binp = c.build_harness("lc")
    stats = {"replayed": 0, "fast_path": 0, "slow_path": 0, "drift": 0, "panics": 0, "cases_traced": 0, "lines": 0, "slow_path_not_recorded": 0}
    traces = []
    first_case = 0
    drift_samples = []
    # (a) pure model checking (no emission)
    for name, module, cfg in mc_cfgs:
        c.tlc_must_pass(ctx, name, module, cfg, timeout=7000)
    # (b)+(c)+(d) behaviours of the bounded design model, replayed on the real detector
    for ent in list(emit_cfgs) + list(clean_cfgs):
        name, cfg = ent[0], ent[1]
        extra = list(ent[2]) if len(ent) > 2 else []      # e.g. ["--epoch0"]: replay on a grid at the start of the Unix epoch
        scn, n = emit_and_check(ctx, name, "CleanBoots.tla" if ent in list(clean_cfgs) else "LcDetector.tla", cfg)
        out = ctx.path("trace-%s.ndjson" % name)
        st = drive(ctx, binp, ["--scenarios", scn, "--first-case", str(first_case), "--seed", str(ctx.seed)] + extra, out)
        os.remove(scn)
        first_case = st["cases_traced"]
        for k in ("replayed", "fast_path", "slow_path", "drift", "panics"):
            stats[k] += st[k]
        stats["slow_path_not_recorded"] += st.get("slow_path_not_recorded", 0)
        stats["lines"] += st["lines"]
        drift_samples += st.get("drift_samples", [])
        traces.append(out)
    # (d2) deep composed scenarios through the scripted design model
    if scripted:
        scn = scripted_scenarios(ctx, binp, scripted)
        out = ctx.path("trace-scripted.ndjson")
        st = drive(ctx, binp, ["--scenarios", scn, "--first-case", str(first_case), "--seed", str(ctx.seed)], out)
        os.remove(scn)
        first_case = st["cases_traced"]
        for k in ("replayed", "fast_path", "slow_path", "drift", "panics"):
            stats[k] += st[k]
        stats["slow_path_not_recorded"] += st.get("slow_path_not_recorded", 0)
        stats["lines"] += st["lines"]
        drift_samples += st.get("drift_samples", [])
        traces.append(out)
    # random / regression / example-file executions: always full traces
    out = ctx.path("trace-random.ndjson")
    st = drive(ctx, binp, driver_args + ["--first-case", str(first_case), "--seed", str(ctx.seed),
                                         "--files", os.path.join(c.REPO, "tests")], out)
    stats["panics"] += st["panics"]
    stats["lines"] += st["lines"]
    stats["cases_traced"] = st["cases_traced"]
    traces.append(out)
    # further driver runs with their own process-wide settings (e.g. a 1 ms grid): always full traces
    for k, xargs in enumerate(extra_runs):
        out = ctx.path("trace-extra%d.ndjson" % k)
        st = drive(ctx, binp, list(xargs) + ["--first-case", str(stats["cases_traced"]), "--seed", str(ctx.seed)], out)
        stats["panics"] += st["panics"]
        stats["lines"] += st["lines"]
        stats["cases_traced"] = st["cases_traced"]
        traces.append(out)
    # (e) one TLC trace validation over everything that was recorded
    trace = ctx.path("trace.ndjson")
    with open(trace, "w") as f:
        for t in traces:
            f.write(open(t).read())
            os.remove(t)
    consts = {"Check": prop}
    consts.update(c.kf_switches("C08", KF_NAMES))
    v = c.validate_trace(ctx, prop, "LcTrace.tla", trace, consts, timeout=7000)
    ctx.add_tlc("trace-validation", v.res)
    cases = c.split_cases(trace)
    ncases = len(cases)
    ctx.evaluations = stats["replayed"] - stats["slow_path_not_recorded"] + (ncases - stats["slow_path"])
    ctx.traces_validated = ncases - len(v.violations)
    # distinct non-trivial: distinct input streams (by content) that contain >= 2 lifecycles in the final table or a panic
    seen = set()
    for k, evs in cases.items():
        ins = tuple((e["ecu"], e.get("rx_ms"), e.get("ts"), e.get("kind")) for e in evs if e["ev"] == "in")
        tabs = [e for e in evs if e["ev"] == "table"]
        if (tabs and len(tabs[0]["t"]) >= 2) or any(e["ev"] == "panic" for e in evs):
            seen.add(ins)
    ctx.distinct_nontrivial = len(seen)
    nbig = sum(1 for evs in cases.values() if evs[0]["hdr"].get("kind") == "big")
    ctx.extra["huge_queue_cases"] = nbig
    if "--huge" in driver_args and nbig == 0 and not v.violations:
        raise c.ToolError("vacuity: no huge-queue case was recorded")
    ctx.rule = ("evaluations = behaviours of the bounded TLC model replayed on the real detector (fast path: observation equals "
                "TLC's prediction and TLC evaluated the contract TRUE on that behaviour) + recorded executions validated by TLC "
                "(slow path, random streams, clean-boot traces, example files); distinct_nontrivial = distinct recorded input "
                "streams whose final table has >= 2 lifecycles (or that panicked) - counted from the traces only, the fast-path "
                "behaviours are not included")
    ctx.exhaustive = True
    # vacuity: with zero drift the model's paths are the code's paths; the release paths and both merge variants must have been
    # taken by some replayed behaviour of this run (else the bounded-exhaustive claim would not cover them)
    if emit_cfgs:
        need = ["confirmed", "release-after-confirm-send1", "enqueue", "forward-direct-send3", "final-publish", "final-flush",
                "upd-new", "upd-absorb"]
        if any(len(e) > 2 and "--epoch0" in e[2] for e in emit_cfgs):
            need += ["new-lc-timestamp-beyond-reception-time", "upd-timestamp-beyond-reception-time"]
        if scripted:
            need += RARE_QUICK if ctx.quick() else RARE_THOROUGH
        miss = [t for t in need if not ctx.extra.get("model_paths_behaviours", {}).get(t)]
        if miss:
            raise c.ToolError("vacuity: no replayed behaviour takes the code paths %s" % miss)
    ctx.extra.update({"replay": stats, "design_conformance": {"behaviours": stats["replayed"], "mismatches": stats["drift"]},
                      "drift_samples": drift_samples[:2], "what": what})
    for k in list(cases)[-3:]:
        ctx.add_sample({"case": k, "trace": cases[k][:14]})
    rej = {r[0]: r for r in v.rejected}
    for k in sorted(v.violations):
        r = rej.get(k)
        ctx.violation("case %d (%s) rejected by LcTrace[Check=%s] at line %s: %s" % (
            k, cases[k][0]["hdr"].get("src"), prop, r[1] if r else "?", r[2] if r else "case did not end"),
            {"case": k, "check": prop, "trace": cases.get(k), "first_unmatched": r[2] if r else None})
    for k, labels in v.known.items():
        for lab in labels:
            ctx.known(c.kf_text("C08", lab))
    ctx.extra["known_finding_cases"] = len(v.known)
    if not v.violations:
        def corrupt(evs):
            if evs[0]["hdr"].get("prepop"):
                return False
            for e in evs:
                if prop == "C05" and e["ev"] == "out" and e["idx"] == 1:
                    e["idx"] = 0
                    return True
                if prop == "C06" and e["ev"] == "out":
                    e["visible"] = False
                    return True
                if prop == "C07" and e["ev"] == "table" and e["t"]:
                    e["t"][0]["nr"] += 1
                    return True
                if prop == "C08" and e["ev"] == "table" and e["t"] and evs[0]["hdr"]["kind"] == "clean":
                    e["t"][0]["end"] += 1
                    return True
            return False
        # the self-test runs with the known-finding switch OFF: inside the known-finding class KF_Table (correctly) accepts any
        # inexact table, so a corrupted in-class case would be "accepted"; strict validation rejects every corrupted case
        c.binding_selftest(ctx, "field", "LcTrace.tla", trace, dict(consts, KF_C08_Overlap=False), corrupt, max_cases=60)
    ctx.assumptions = ["TLC 1.8.0 / CommunityModules are correct", "evmap refresh semantics (a reader sees an entry after refresh())",
                       "driver projection: id renumbering relative to the smallest id of the case, field equality, tick conversion",
                       "1 tick = 1 s scaling preserves all threshold comparisons (values at and next to every threshold are in the alphabets)"]
    return v
