"""X07 (extra area, not a listed property) - control-message payloads: decoding (src/dlt/control_msgs.rs) and the text shown
for a control message (src/dlt/mod.rs, payload_as_text / header_as_text_to_write)
(spec/CtrlMsgsDefs.tla = encoder, grammar, contract, text function; spec/CtrlMsgs.tla = bounded scenario space + theorems +
emission; spec/CtrlMsgsTrace.tla = trace contract; driver harness/src/bin/x07.rs)"""
import copy
import json
import os
import shutil
import subprocess
import time
from . import common as c

META = {
    "property_id": "X07",
    "title": "Control-message payloads decode to exactly what was encoded, never beyond the payload, and are shown as a text that "
             "is a function of service, message type, status and decoded value",
    "statement": (
        "A get_log_info response parameter built according to the DLT layout [Dlt197] for status 3..7 (16-bit count of applications; "
        "per application a 4-byte id, a 16-bit count of contexts and - status 7 - a 16-bit length + description; per context a 4-byte "
        "id, the log level for status 4/6/7, the trace status for status 5/6/7 and - status 7 - a 16-bit length + description) from "
        "any list of applications decodes, in either byte order and with or without trailing bytes behind it (dlt-daemon appends "
        "'remo'), to exactly that list: the same ids in the same order, levels as signed bytes exactly where the status carries "
        "them, descriptions with one character per byte (CR/LF/TAB shown as blank, an empty description as none); any other status "
        "decodes to the empty list. A payload that ends before its counts and lengths are satisfied - cut at any byte, or with a "
        "count / length field larger than what follows - decodes to nothing or to a prefix-consistent part (complete applications "
        "in order, then at most the application being read with a prefix of its contexts and no description for what is cut); the "
        "decoder never reports an entry that is not in the payload's own reading, never reads outside the payload and never "
        "panics, whatever the bytes. get_software_version (32-bit length + text), unregister_context (3 ids, 12 bytes), "
        "connection_info (state + id, 5 bytes) and timezone (signed 32-bit offset + dst flag, 5 bytes) decode to exactly their "
        "fields when the payload has that size, and to nothing when it is shorter. "
        "The text of a non-verbose control message is a function of (service id, request/response, status byte, decoded value): "
        "'[<service name>' (the names dlt-viewer uses; 'service(<id>)' for others) + for a response ' <status>' (ok, not_supported, "
        "error, perm_denied, warning, no_matching_context_id, else two hex digits) + ']' followed by: the decoded get_log_info list "
        "as a JSON array of {apid, ctids:[{ctid, log_level, trace_status, desc}], desc}; the software version text; the "
        "unregister_context / connection_info / timezone fields as a JSON object; and a hex dump of the payload for requests, other "
        "services and payloads the service's decoder rejects; the header line says 'control request|response N <noar>'."),
    "quantifier": (
        "all get_log_info values of the bounded space (0..2 applications x 0..2 contexts, every description length 0..3 incl. LF and "
        "non-ASCII bytes, ids with NUL padding) x status 3..7 x both byte orders x {unchanged, 'remo' / NUL trailer, EVERY truncation "
        "point, EVERY count / length field set to 0, 1, actual-1, actual+1, actual+256, 0xffff}; status bytes that do not belong to the layout; "
        "software versions with good and corrupted 32-bit lengths and every truncation; the three dlt-daemon services with every "
        "truncation and one extra byte; every known service id and unknown ones x request/response x status bytes x no status byte x "
        "fewer than 4 payload bytes; seeded random values beyond the bounds (<= 4 applications x 5 contexts, arbitrary id bytes, "
        "descriptions up to 300 (1500) arbitrary bytes, random truncation / field values / flipped bytes / free byte strings)"),
    "technique": "TLC model checking of CtrlMsgs.tla (encoder/grammar theorems RoundTrip, TruncPrefix, FieldsInside; the decoders as "
                 "coded refine the contract on every mutation) with one state per encoding; every mutation emitted with TLC's predicted "
                 "decode result and text and replayed on the real decoders and the real payload_as_text (prediction fast path); "
                 "slow-path, sampled and all seeded random cases recorded and validated by TLC against CtrlMsgsTrace.tla",
    "design_ref": "BUILD_GUIDE.md (extra area; statement in META)",
    "level_text": "Exhaustive within bounds on the model: every value of the bounded space with every truncation point and every "
                  "listed field corruption, in both byte orders; each executed on the real code with zero drift required for the "
                  "fast path. Beyond the bounds: seeded random cases validated event by event.",
    "level_note": "Narrower readings: (1) for a payload that ends early the contract allows nothing OR any prefix-consistent part "
                  "(the code returns nothing when a context is cut and the complete applications when an application header is cut); "
                  "(2) a count / length field that is wrong but still fits into the payload is an undetectable corruption: the result "
                  "is then judged against the payload's own reading by the grammar, not against the original value; (3) which "
                  "character stands for C0 controls other than CR/LF/TAB, DEL and bytes 0x80..0x9F is left open (the code uses "
                  "Windows-1252; bytes 0xA0..0xFF must be Latin-1); (4) unregister_context / connection_info / timezone payloads "
                  "LONGER than their struct may decode to nothing or to the leading struct; a too short software version may show "
                  "nothing or the part that is there; (5) JSON bodies are compared as JSON values (member order, spacing and "
                  "escaping are left open); (6) only non-verbose control messages of type request/response with service ids below "
                  "2^31 are in the domain (control type 'time', verbose control messages and the PRS_Dlt_01040 multi-service form are "
                  "not). Known finding: KF_X07_DescLenOverrun. Trusted: TLC, the driver's projection (splitting the text at the first "
                  "']', generic JSON normalisation, byte surgery on encodings, the random encoder - which TLC re-checks against Enc).",
}

KFS = ["KF_X07_DescLenOverrun"]
TRACE_MODULE = "CtrlMsgsTrace.tla"
FAMS = ["loginfo", "swver", "unreg", "conn", "tz", "text"]


def tlc_stream(ctx, name, tier, fixed, emit, scn_out=None, timeout=3000, workers=None):
    """Model-check CtrlMsgs.tla (Tier, Fixed, Emit); TLC's output goes to a file and is parsed line by line.
    Returns dict(lines, cases, nontrivial, kf, notok)."""
    if workers is None:
        workers = int(os.environ.get("VERIF_TLC_WORKERS", max(2, c.NCPU - 2)))
    # spec/mc/CtrlMsgs_<tier>_asis.cfg (Fixed = FALSE, Emit = TRUE) is the template; the two switches follow the run
    txt = open(os.path.join(c.SPEC, "mc", "CtrlMsgs_%s_asis.cfg" % tier)).read()
    if "Fixed = FALSE" not in txt or "Emit = TRUE" not in txt:
        raise c.ToolError("unexpected template spec/mc/CtrlMsgs_%s_asis.cfg" % tier)
    txt = txt.replace("Fixed = FALSE", "Fixed = %s" % ("TRUE" if fixed else "FALSE")).replace("Emit = TRUE", "Emit = %s" % ("TRUE" if emit else "FALSE"))
    cfg = ctx.path("cfg-%s.cfg" % name)
    with open(cfg, "w") as f:
        f.write(txt)
    metadir = ctx.path("tlc-" + name)
    shutil.rmtree(metadir, ignore_errors=True)
    os.makedirs(metadir, exist_ok=True)
    log = ctx.path("tlc-%s.log" % name)
    cmd = ["java", "-XX:+UseParallelGC", "-Xmx8g", "-Xss512m", "-DTLA-Library=" + c.SPEC, "-cp", c.JARS, "tlc2.TLC",
           "-workers", str(workers), "-metadir", metadir, "-cleanup", "-noGenerateSpecTE", "-config", cfg,
           os.path.join(c.SPEC, "CtrlMsgs.tla")]
    t0 = time.time()
    with open(log, "w") as f:
        try:
            p = subprocess.run(cmd, cwd=c.SPEC, stdout=f, stderr=subprocess.STDOUT, timeout=timeout)
        except subprocess.TimeoutExpired as ex:
            raise c.ToolError("TLC %s timed out" % name) from ex
    res = c.TlcResult()
    res.cmd = " ".join(x for x in cmd if not x.startswith("-X") and not x.startswith("-D"))
    res.wall = time.time() - t0
    res.generated = res.distinct = res.depth = 0
    st = {"lines": 0, "cases": 0, "nontrivial": 0, "kf": 0, "notok": 0, "by_fam": {}}
    tail = []
    completed = False
    with open(log) as f:
        for line in f:
            if line.startswith('<<"SCN", '):
                inner = json.loads(line[9:line.rindex(">>")])
                if scn_out is not None:
                    scn_out.write(inner + "\n")
                o = json.loads(inner)
                n = len(o["muts"])
                st["lines"] += 1
                st["cases"] += n
                st["by_fam"][o["fam"]] = st["by_fam"].get(o["fam"], 0) + n
                if (o["fam"] == "loginfo" and o["val"]) or (o["fam"] != "loginfo" and o["enc"]):
                    st["nontrivial"] += n
                st["kf"] += sum(m[5] for m in o["muts"])
                st["notok"] += sum(1 - m[4] for m in o["muts"])
                continue
            tail.append(line)
            if len(tail) > 60:
                tail.pop(0)
            m = c._re_states.search(line)
            if m:
                res.generated, res.distinct = int(m.group(1)), int(m.group(2))
            m = c._re_depth.search(line)
            if m:
                res.depth = int(m.group(1))
            if "Model checking completed. No error has been found" in line:
                completed = True
    shutil.rmtree(metadir, ignore_errors=True)
    if p.returncode != 0 or not completed:
        raise c.ToolError("TLC run %s did not pass (rc=%s); log: %s\n%s" % (name, p.returncode, log, "".join(tail)[-3000:]))
    os.remove(log)
    ctx.add_tlc(name, res)
    return st


def validate_chunked(ctx, name, trace, consts, max_lines=30000, timeout=3000):
    """TLC trace validation in chunks of whole cases (cost is superlinear in the trace size)"""
    chunks, cur, n, idx = [], None, 0, 0
    with open(trace) as f:
        for line in f:
            if cur is None or (n >= max_lines and '"ev":"reset"' in line[:40]):
                if cur:
                    cur.close()
                idx += 1
                p = "%s.chunk%d" % (trace, idx)
                chunks.append(p)
                cur, n = open(p, "w"), 0
            cur.write(line)
            n += 1
    if cur:
        cur.close()
    merged, stat = None, {}
    for i, p in enumerate(chunks):
        v = c.validate_trace(ctx, "%s-%d" % (name, i + 1), TRACE_MODULE, p, consts, timeout=timeout)
        ctx.add_tlc("%s-trace-validation-%d" % (name, i + 1), v.res)
        last = json.loads(json.loads(v.res.printed["VERDICT"][-1]))
        stx = last.get("stat") or {}
        if isinstance(stx, dict):
            for k, x in stx.items():
                stat[k] = stat.get(k, 0) + int(x)
        if merged is None:
            merged = v
        else:
            merged.violations |= v.violations
            for k, labs in v.known.items():
                merged.known.setdefault(k, set()).update(labs)
            merged.rejected += v.rejected
            merged.states += v.states
        os.remove(p)
    if merged is None:
        raise c.ToolError("empty trace " + trace)
    merged.stat = stat
    return merged


def make_corrupter():
    """corrupt one logged field of a case (for common.binding_selftest); cycles through the kinds of corruption"""
    state = {"n": 0, "kinds": {}}

    def corrupt(evs):
        dec = next((e for e in evs if e["ev"] == "dec"), None)
        txt = next((e for e in evs if e["ev"] == "text"), None)
        if dec is None or txt is None or evs[-1]["ev"] != "end":
            return False
        hdr = evs[0]["hdr"]
        order = ["dec_value", "text_head", "text_body", "end_missing", "payload", "flags"]
        for step in range(len(order)):
            kind = order[(state["n"] + step) % len(order)]
            done = False
            if kind == "dec_value":
                if dec["svc"] == "loginfo" and dec["apps"]:
                    dec["apps"][0]["id"][0] ^= 1
                    done = True
                elif dec["svc"] == "loginfo" and hdr["bind"] == 1 and hdr["mut"][0] == 0 and hdr["val"] and hdr["lay"] == hdr["pl"][0]:
                    done = False
                elif dec["svc"] == "swver" and dec["some"] == 1:
                    dec["t"].append(120)
                    done = True
                elif dec["svc"] == "tz" and dec["some"] == 1:
                    dec["off"] += 1
                    done = True
                elif dec["svc"] == "conn" and dec["some"] == 1:
                    dec["state"] = (dec["state"] + 1) % 256
                    done = True
                elif dec["svc"] == "unreg" and dec["some"] == 1:
                    dec["ids"][1][0] ^= 1
                    done = True
            elif kind == "text_head":
                txt["head"] = txt["head"][:-1] + " ]" if txt["head"] else "[x]"
                done = True
            elif kind == "text_body":
                if txt["json"]:
                    txt["json"] = [{"t": "a", "v": [txt["json"][0]]}]
                else:
                    txt["rest"] = txt["rest"] + [33]
                done = True
            elif kind == "end_missing":
                evs.pop()
                done = True
            elif kind == "payload":
                if hdr["bind"] == 1 and len(hdr["pl"]) >= 3:
                    hdr["pl"][-1] = (hdr["pl"][-1] + 1) % 256       # the driver did not feed what it claims
                    done = True
            elif kind == "flags":
                txt["req"], txt["resp"] = txt["resp"], txt["req"]
                done = True
            if done:
                state["n"] += step + 1
                state["kinds"][kind] = state["kinds"].get(kind, 0) + 1
                return True
        return False
    return corrupt, state


def kf_narrowness(ctx, cases, v, kf):
    """cases accepted only through the finding: (a) with the switch off the same traces are violations, (b) with the
    switch on a further corruption of the reported value is still rejected (the deviation is narrow)"""
    ks = [k for k in v.known if k not in v.violations][:12]
    if not ks:
        return {"cases": 0}
    path = ctx.path("selftest-kf.ndjson")
    with open(path, "w") as f:
        for i, k in enumerate(ks):
            t = copy.deepcopy(cases[k])
            t[0]["case"] = i
            for e in t:
                f.write(json.dumps(e) + "\n")
        for i, k in enumerate(ks):
            t = copy.deepcopy(cases[k])
            t[0]["case"] = 100 + i
            d = next(e for e in t if e["ev"] == "dec")
            if d["apps"]:
                d["apps"][-1]["id"][3] = (d["apps"][-1]["id"][3] + 1) % 256
            else:
                d["apps"] = [{"id": [88, 88, 88, 88], "cs": [], "d": []}]
            for e in t:
                f.write(json.dumps(e) + "\n")
    saved = ctx.replay_module
    off = c.validate_trace(ctx, "selftest-kf-off", TRACE_MODULE, path, {k: False for k in kf})
    on = c.validate_trace(ctx, "selftest-kf-on", TRACE_MODULE, path, kf)
    ctx.replay_module = saved
    n = len(ks)
    want_off = set(range(n)) | set(range(100, 100 + n))
    want_on = set(range(100, 100 + n))
    if off.violations != want_off or on.violations != want_on:
        raise c.ToolError("known-finding self-test: switch off rejects %s (want %s), switch on rejects %s (want %s)" % (
            sorted(off.violations), sorted(want_off), sorted(on.violations), sorted(want_on)))
    return {"cases": n, "switch_off_rejected": n, "switch_on_corrupted_rejected": n}


def check(ctx):
    quick = ctx.quick()
    binp = c.build_harness("x07")
    kf = c.kf_switches("X07", KFS)
    if os.environ.get("VERIF_KF_OFF"):      # self-test only: strict contract (validates the proposed fix / the finding's narrowness)
        kf = {k: False for k in kf}
    tier = "quick" if quick else "thorough"
    # the model follows the tree: the deviation is modelled as coded while its finding is open and as repaired once it is closed
    fixed = not kf["KF_X07_DescLenOverrun"]
    # (a)+(b) theorems + design-refines-contract + scenario emission, one run; then the same space with the repair: strict contract
    scn_path = ctx.path("scenarios.ndjson")
    with open(scn_path, "w") as f:
        st = tlc_stream(ctx, "design-" + tier, tier, fixed, True, f)
    if st["cases"] == 0:
        raise c.ToolError("CtrlMsgs emitted no scenarios")
    if not fixed:
        tlc_stream(ctx, "design-fixed-" + ("tiny" if quick else "quick"), "tiny" if quick else "quick", True, False)
    # (c, d) replay + seeded random cases
    trace = ctx.path("trace.ndjson")
    summary = ctx.path("summary.json")
    nrand = 400 if quick else 6000
    if os.path.exists(summary):
        os.remove(summary)
    p = c.run([binp, "--scenarios", scn_path, "--n-cases", str(st["cases"]), "--random", str(nrand), "--seed", str(ctx.seed), "--out", trace,
               "--summary", summary, "--sample", "600" if quick else "3000", "--max-desc", "300" if quick else "1500"], timeout=3000, check=False)
    if p.returncode != 0 or not os.path.exists(summary):
        raise c.ToolError("driver failed (%s): %s" % (p.returncode, (p.stdout or "")[-3000:]))
    info = json.load(open(summary))
    os.remove(scn_path)
    # (e) trace validation
    v = validate_chunked(ctx, "cm", trace, kf)
    cases = c.split_cases(trace)
    rej = {r[0]: r for r in v.rejected}
    for k in sorted(v.violations):
        r = rej.get(k)
        h = cases[k][0]["hdr"] if k in cases else {}
        ctx.violation("case %d (%s %s id=%s %s) rejected by CtrlMsgsTrace at line %s: %s" % (
            k, h.get("src"), h.get("fam"), h.get("id"), h.get("typ"), r[1] if r else "?", r[2] if r else "unfinished case"),
            {"case": k, "trace": cases.get(k), "first_unmatched": r[2] if r else None, "kf_switches": kf, "module": TRACE_MODULE, "consts": kf,
             "how": "bin/check X07 quick --replay <this file>"})
    known_cases = {}
    for k, labels in v.known.items():
        if k not in v.violations:
            for lab in labels:
                ctx.known(c.kf_text("X07", lab))
                known_cases[lab] = known_cases.get(lab, 0) + 1
    # binding self-tests
    if not ctx.violations:
        corrupt, cstate = make_corrupter()
        c.binding_selftest(ctx, "cm", TRACE_MODULE, trace, kf, corrupt, max_cases=60, skip=set(v.violations) | set(v.known))
        ctx.extra["binding_selftest"]["cm"]["kinds"] = cstate["kinds"]
        if len(cstate["kinds"]) < 5:
            raise c.ToolError("binding self-test: only %s kinds of corruption could be applied" % cstate["kinds"])
        ctx.extra["binding_selftest"]["known_finding"] = kf_narrowness(ctx, cases, v, kf)
    else:
        ctx.extra["binding_selftest"] = {"skipped": "run has violations"}
    ctx.evaluations = info["replayed"] + nrand
    ctx.traces_validated = info["fast_path"] + len(cases) - len(v.violations)
    rseen = set()
    for k, evs in cases.items():
        h = evs[0]["hdr"]
        if h["src"] == "random" and len(h["pl"]) > 1:
            rseen.add(json.dumps([h["id"], h["be"], h["typ"], h["pl"]]))
    ctx.distinct_nontrivial = st["nontrivial"] + len(rseen)
    ctx.rule = ("a case = one control message (service id, byte order, request/response, payload) decoded by the service's decoder and "
                "rendered as text; TLC cases = every mutation of every encoding of the bounded model (distinct by construction: "
                "different value, byte order or mutation); random cases seeded; non-trivial = a get_log_info payload encoding at "
                "least one application / any other payload with at least one byte behind the status byte")
    ctx.exhaustive = True
    ctx.extra["replay"] = {k: info[k] for k in ("replayed", "fast_path", "slow_path", "drift", "drift_not_traced", "predicted_not_ok", "predicted_kf",
                                                "cases", "lines", "scenario_lines")}
    ctx.extra["design_conformance"] = {"steps": info["replayed"], "mismatches": info["drift"]}
    ctx.extra["drift_samples"] = info.get("drift_samples", [])[:3]
    ctx.extra["model"] = {"tier": tier, "fixed": fixed, "encodings": st["lines"], "cases": st["cases"], "cases_by_family": st["by_fam"],
                          "predicted_contract_violations": st["notok"], "predicted_known_finding": st["kf"]}
    ctx.extra["driver_paths"] = info["paths"]
    ctx.extra["contract_paths"] = v.stat
    ctx.extra["kf_switches"] = kf
    ctx.extra["kf_cases"] = known_cases
    ctx.extra["open_findings_not_met"] = [lab for lab in KFS if kf[lab] and not known_cases.get(lab)]
    # vacuity: every family / mutation kind was replayed and every part of the contract judged at least one case
    need_driver = (["scn_%s_mut%s" % (f, m) for f in ("loginfo", "swver", "unreg", "conn", "tz") for m in ("0", "0t", "1")]
                   + ["scn_loginfo_mut2", "scn_text_mut0", "scn_request", "scn_big_endian", "random_cases", "rnd_swver", "rnd_unreg", "rnd_conn", "rnd_tz",
                      "rnd_text"] + ["rnd_loginfo_mut%d" % m for m in (0, 1, 2, 9)] + ["rnd_loginfo_lay%d" % s for s in (3, 4, 5, 6, 7)]
                   + ["scn_w_" + w for w in ("complete", "status", "count", "apphdr", "ctx", "cdlen", "cdesc", "adlen", "adesc")])
    need_contract = (["loginfo:complete:value", "loginfo:complete:empty", "loginfo:status:empty"]
                     + ["loginfo:%s:" % w for w in ("count", "apphdr", "ctx", "cdlen", "cdesc", "adlen", "adesc")]
                     + ["%s:%s" % (s, x) for s in ("swver", "unreg", "conn", "tz") for x in ("some", "none")]
                     + ["text:response:json", "text:response:swver", "text:response:dump", "text:request:dump", "text:response:nostatus",
                        "text:request:short", "text:response:short", "none"])
    # (the finding's own paths loginfo:cdesc:kf / loginfo:adesc:kf are informational: see open_findings_not_met)
    missing = [k for k in need_driver if not info["paths"].get(k)]
    missing += [k for k in need_contract if not any(x == k or (k.endswith(":") and x.startswith(k)) for x in v.stat)]
    if not any(x.split(":")[-1] in ("prefix", "partial") for x in v.stat if x.startswith("loginfo:")):
        missing.append("loginfo:*:prefix|partial")
    if info["replayed"] != st["cases"]:
        missing.append("replayed %d of %d cases" % (info["replayed"], st["cases"]))
    ctx.extra["paths_never_exercised"] = missing
    if missing and not ctx.violations:      # (with violations the code may be too broken to reach a path: the verdict stands)
        raise c.ToolError("vacuity: paths never exercised: %s" % missing)
    ks = list(cases)
    for k in ks[:1] + ks[len(ks) // 2:len(ks) // 2 + 1] + ks[-1:]:
        s = copy.deepcopy(cases[k])
        if len(json.dumps(s)) < 5000:
            ctx.add_sample({"case": k, "trace": s})
        else:
            ctx.add_sample({"case": k, "src": s[0]["hdr"]["src"], "fam": s[0]["hdr"]["fam"], "payload_bytes": len(s[0]["hdr"]["pl"]), "events": len(s)})
    ctx.assumptions = ["TLC and CommunityModules are correct",
                       "driver: splitting the text at the first ']', the generic JSON normalisation and the byte surgery on encodings are correct "
                       "(the random encoder is re-checked by TLC against Enc for every traced case)",
                       "service ids below 2^31; payloads shorter than 65536 bytes (TLC integers are 32 bit)",
                       "the harness is built with overflow checks (dev profile): an arithmetic overflow of the code shows as a panic"]
