"""X04 (extra area, not a listed property) - text-log converters: CAN ASC, Android logcat and generic logs -> DLT messages
(spec/TextConvDefs.tla = contract, spec/TextConv.tla = line-driven design model, spec/TextConvTrace.tla; driver x04.rs)"""
import copy
import json
import os
import subprocess
from . import common as c

META = {
    "property_id": "X04",
    "statement": (
        "Converting a well-formed CAN ASC, Android logcat or generic log file yields, in file order and numbered consecutively from "
        "the start index, exactly one message per record line (CAN / CAN FD data frame, CAN FD error frame, bus-mapping comment; log "
        "record) plus, for logcat and generic logs, one announcement carrying the tag immediately before the first record of each "
        "tag, and nothing for any other line (headers, comments, trigger blocks, continuation and blank lines). "
        "Each message's reception time is the line's time in the file's time base (ASC: last date line + signed offset, bus mappings "
        "at the date itself; logcat up-time format: file time + up-time; logcat date format: the calendar time in the file's year, or "
        "the previous year if that date would lie after the file's date, with clock readings of the first half of 1 January taken as "
        "up-time; generic logs: the absolute time), its time stamp is that time relative to the file's origin in 0.1 ms (ASC: offset "
        "(+ date - reference time), negative offsets counted from the first negative one; logcat absolute times counted from the "
        "first one at 10000 s or the last up-time; generic: from the first record), and its content is the record's (frame id and "
        "data bytes, error-frame marker, bus name; log level and text). "
        "Within one namespace equal bus names / tags get equal ECU / application ids and distinct ones get distinct ids, also across "
        "files; channels without bus name get an ECU id of their own per file."),
    "quantifier": (
        "all cases = 1..3 files converted one after the other in one fresh namespace, each file a list of abstract lines rendered "
        "as text: ASC date lines (12-hour clock, with/without milliseconds), header/comment/trigger-block/blank lines, bus mappings "
        "(CAN/CANFD), CAN frames (standard/extended id, lower/upper-case hex, Rx/Tx, dlc 0..8, compact or padded layout, with or "
        "without trailing fields), CAN FD frames (dlc/length up to 64 bytes), CAN FD error frames, signed offsets, optional "
        "reference time before every date, files without date line; logcat up-time lines (3 or 6 fraction digits) and date lines "
        "(every month/day incl. 29 Feb, year change, 1 January before/after 12:00), padded or compact columns, levels V D I W E F, "
        "tags with colliding abbreviations; generic records with all levels, repeated/colliding tags, non-record lines; start "
        "indices incl. the 255->0 wrap of the message counter; LF/CRLF, with/without final newline; three ways of constructing the "
        "iterator (direct with BufReader / LowMarkBufReader, by file extension)"),
    "technique": "TLC model checking of TextConv.tla (the three converters as line-driven state machines incl. the exact "
                 "get_apid_for_tag / get_ecuid_for_namespace naming) against the declarative contract of TextConvDefs.tla on every "
                 "bounded case; every case emitted with predicted messages and replayed on the real iterators (prediction fast "
                 "path); slow-path and seeded random cases recorded and validated by TLC against TextConvTrace.tla",
    "design_ref": "DESIGN.md section 8 item 6 (text converters as line-state machines)",
    "level_text": "Exhaustive within bounds on the model: every file of <= 3 (thorough 4..5) lines over a curated line alphabet per "
                  "converter (16..26 ASC lines x 3 headers, 10 logcat date lines x 3 file dates + 7 up-time lines, 10 generic lines) "
                  "and pairs of files in one namespace; each such case executed on the real code, zero drift required for the fast "
                  "path; random files up to 60 (200) lines with real magnitudes validated event by event.",
    "level_note": "Narrower readings: only 'base hex / timestamps absolute' ASC files with one blank between dlc and data, lower-case "
                  "CAN FD dlc, channels <= 255, offsets non-decreasing per date section (else the time stamp of negative offsets is "
                  "left open), reference time before every date line, a bus mapping that follows frames of its channel leaves the "
                  "ECU id of that channel open; logcat: one format per file, three-digit milliseconds in the date format, levels "
                  "V D I W E F, tags without ': ' and without leading/trailing blanks, non-empty; dates the year rule covers; spans "
                  "below 2^31 x 0.1 ms (TLC integers). Reception time of an ASC file without date line is only checked relative to "
                  "the iterator's construction time. Known findings: KF_X04_AscUpperHexId, KF_X04_AscNoTrailData, "
                  "KF_X04_LogcatPrevYear. Trusted: TLC, the driver's rendering of abstract lines and its field-copy projection.",
}

KFS = ["KF_X04_AscUpperHexId", "KF_X04_AscNoTrailData", "KF_X04_LogcatPrevYear"]
KINDS = ["asc", "logcat", "genlog"]


def drive(binp, args, summary, timeout=3000):
    if os.path.exists(summary):
        os.remove(summary)
    try:
        p = subprocess.run([binp] + args + ["--summary", summary], stdout=subprocess.DEVNULL, stderr=subprocess.PIPE, timeout=timeout,
                           text=True, errors="replace")
    except subprocess.TimeoutExpired as ex:
        raise c.ToolError("driver timeout") from ex
    if p.returncode != 0 or not os.path.exists(summary):
        raise c.ToolError("driver failed (%s): %s" % (p.returncode, (p.stderr or "")[-3000:]))
    return json.load(open(summary))


def validate_chunked(ctx, name, trace, consts, max_lines=30000, timeout=3000):
    """TLC trace validation in chunks of whole cases (see tlc-and-sandbox notes: cost is superlinear in the trace size)"""
    chunks, cur, n, idx = [], None, 0, 0
    with open(trace) as f:
        for line in f:
            if cur is None or (n >= max_lines and '"ev":"reset"' in line[:40]):
                if cur:
                    cur.close()
                idx += 1
                p = "%s.chunk%d" % (trace, idx)
                chunks.append(p)
                cur, n = open(p, "w"), 0
            cur.write(line)
            n += 1
    if cur:
        cur.close()
    merged, stat = None, {}
    for i, p in enumerate(chunks):
        v = c.validate_trace(ctx, "%s-%d" % (name, i + 1), "TextConvTrace.tla", p, consts, timeout=timeout)
        ctx.add_tlc("%s-trace-validation-%d" % (name, i + 1), v.res)
        last = json.loads(json.loads(v.res.printed["VERDICT"][-1]))
        st = last.get("stat") or {}
        if isinstance(st, dict):
            for k, x in st.items():
                stat[k] = stat.get(k, 0) + int(x)
        if merged is None:
            merged = v
        else:
            merged.violations |= v.violations
            for k, labs in v.known.items():
                merged.known.setdefault(k, set()).update(labs)
            merged.rejected += v.rejected
            merged.states += v.states
        os.remove(p)
    if merged is None:
        raise c.ToolError("empty trace " + trace)
    merged.stat = stat
    return merged


def binding_selftest(ctx, cases, v, kf):
    """corrupt accepted cases (one field each / one deleted or added event) and require that TLC rejects every one of them"""
    good = [k for k in cases if k not in v.violations and k not in v.known and cases[k][-1]["ev"] == "eof"]

    def dated(h):      # (an ASC file without date line has no absolute time base: its first reception time is free)
        return h["kind"] != "asc" or all(fh["lines"] and fh["lines"][0]["k"] == "date" for fh in h["files"])

    def pick(kind, pred):
        for k in good:
            evs = cases[k]
            if evs[0]["hdr"]["kind"] == kind and dated(evs[0]["hdr"]) and any(pred(e) for e in evs):
                return k
        return None
    muts = []

    def add(what, k, fn):
        if k is None:
            return
        t = copy.deepcopy(cases[k])
        if fn(t) is not False:
            muts.append((what, t))

    def first(t, pred):
        return next(e for e in t if pred(e))
    is_can = lambda e: e["ev"] == "msg" and e["mstp"] == "nw" and e["plen"] > 4
    is_log = lambda e: e["ev"] == "msg" and e["mstp"] == "log"
    is_ann = lambda e: e["ev"] == "msg" and e["mstp"] == "ctrl"
    ka = pick("asc", is_can)
    add("asc: reception time off by 1 us", ka, lambda t: first(t, is_can).__setitem__("rx_us", (first(t, is_can)["rx_us"] + 1) % 1000000))
    add("asc: time stamp off by one", ka, lambda t: first(t, is_can).__setitem__("dms", first(t, is_can)["dms"] + 1))
    add("asc: a data byte changed", ka, lambda t: first(t, is_can)["data"].__setitem__(0, (first(t, is_can)["data"][0] + 1) % 256))
    add("asc: frame id changed", ka, lambda t: first(t, is_can).__setitem__("id", first(t, is_can)["id"] + 1))
    add("asc: message deleted", ka, lambda t: t.remove(first(t, is_can)))
    add("asc: index not consecutive", ka, lambda t: first(t, is_can).__setitem__("index", first(t, is_can)["index"] + 1))
    k2 = next((k for k in good if cases[k][0]["hdr"]["kind"] == "asc" and dated(cases[k][0]["hdr"]) and len({e["ecu"] for e in cases[k] if e["ev"] == "msg"}) >= 2), None)

    def same_ecu(t):
        ms = [e for e in t if e["ev"] == "msg"]
        for e in ms:
            e["ecu"] = ms[0]["ecu"]
    add("asc: two channels share one ECU id", k2, same_ecu)
    kl = pick("logcat", is_ann)
    add("logcat: announcement missing", kl, lambda t: t.remove(first(t, is_ann)))
    add("logcat: text changed", kl, lambda t: first(t, is_log).__setitem__("text", first(t, is_log)["text"] + "x"))
    add("logcat: level changed", kl, lambda t: first(t, is_log).__setitem__("mtin", first(t, is_log)["mtin"] % 6 + 1))
    add("logcat: reception time one second off", kl, lambda t: first(t, is_log).__setitem__("rx_s", first(t, is_log)["rx_s"] + 1))
    k3 = next((k for k in good if cases[k][0]["hdr"]["kind"] in ("logcat", "genlog")
               and len({e["apid"] for e in cases[k] if e["ev"] == "msg"}) >= 2), None)

    def same_apid(t):
        ms = [e for e in t if e["ev"] == "msg"]
        for e in ms:
            e["apid"] = ms[0]["apid"]
            if e["mstp"] == "ctrl":
                e["papid"] = ms[0]["apid"]
    add("log: two tags share one application id", k3, same_apid)
    kg = pick("genlog", is_log)
    add("genlog: a message yielded twice", kg, lambda t: t.insert(t.index(first(t, is_log)), copy.deepcopy(first(t, is_log))))
    add("genlog: time stamp off by one", kg, lambda t: [e for e in t if is_log(e)][-1].__setitem__("dms", [e for e in t if is_log(e)][-1]["dms"] + 1))
    add("genlog: eof missing", kg, lambda t: t.pop())
    add("unchanged (control: must be accepted)", kg, lambda t: None)
    if len(muts) < 12:
        if ctx.violations:
            return {"skipped": "not enough accepted cases to corrupt (run has violations)"}
        raise c.ToolError("binding self-test: not enough accepted cases to corrupt (%d)" % len(muts))
    path = ctx.path("selftest.ndjson")
    with open(path, "w") as f:
        for i, (_, t) in enumerate(muts):
            for e in t:
                e = dict(e)
                if e["ev"] == "reset":
                    e["case"] = i
                f.write(json.dumps(e) + "\n")
    saved = ctx.replay_module
    sv = c.validate_trace(ctx, "selftest", "TextConvTrace.tla", path, kf, timeout=600)
    ctx.replay_module = saved
    res = {}
    for i, (what, _) in enumerate(muts):
        rejected = i in sv.violations
        res[what] = "rejected" if rejected else "accepted"
        if rejected != (not what.startswith("unchanged")):
            raise c.ToolError("binding self-test: corrupted trace '%s' was %s by TextConvTrace.tla" % (what, res[what]))
    return res


def check(ctx):
    quick = ctx.quick()
    binp = c.build_harness("x04")
    kf = c.kf_switches("X04", KFS)
    if os.environ.get("VERIF_KF_OFF"):      # self-test only: strict contract (validates the proposed fixes / the KFs' narrowness)
        kf = {k: False for k in kf}
    tier = "quick" if quick else "thorough"
    # (a)+(b) model checking of the design model against the contract + scenario emission, per converter. The model follows the
    # tree: a deviation is modelled as coded while its finding is open (FixX = FALSE) and as repaired once the entry is closed.
    fix = {"FixUpper": not kf["KF_X04_AscUpperHexId"], "FixTrail": not kf["KF_X04_AscNoTrailData"], "FixPrevYear": not kf["KF_X04_LogcatPrevYear"]}

    def design(name, cfg, timeout=3000):
        txt = open(os.path.join(c.SPEC, "mc", cfg)).read()
        for k, val in fix.items():
            txt = txt.replace("%s = FALSE" % k, "%s = %s" % (k, "TRUE" if val else "FALSE"))
        p = ctx.path("cfg-" + cfg)
        with open(p, "w") as f:
            f.write(txt)
        res = c.tlc(os.path.join(c.SPEC, "mc", "MCTextConv.tla"), p, ctx.path("tlc-" + name), keep_log=ctx.path("tlc-" + name + ".log"), timeout=timeout)
        if not res.ok:
            raise c.ToolError("TLC run %s did not pass (rc=%s, violation=%s); log: %s\n%s" % (
                name, res.rc, res.violation, ctx.path("tlc-" + name + ".log"), res.out[-3000:]))
        ctx.add_tlc(name, res)
        return res
    scns = []
    for kind in KINDS:
        res = design("design-" + kind, "TextConv_%s_%s.cfg" % (kind, tier))
        got = c.scn_lines(res)
        if not got:
            raise c.ToolError("TextConv emitted no scenarios for " + kind)
        scns += got
        # the same model with all three repairs: the strict contract holds on every case
        c.tlc_must_pass(ctx, "design-fixed-" + kind, "mc/MCTextConv.tla", "TextConv_%s_fixed%s.cfg" % (kind, "" if not quick else "_tiny"), timeout=3000)
        if not quick:
            design("design-live-" + kind, "TextConv_%s_tiny.cfg" % kind)   # + termination
    scn_path = ctx.path("scenarios.ndjson")
    with open(scn_path, "w") as f:
        for s in scns:
            f.write(json.dumps(s) + "\n")
    # (c, d) replay + seeded random cases
    trace = ctx.path("trace.ndjson")
    nrand = 240 if quick else 3000
    info = drive(binp, ["--scenarios", scn_path, "--random", str(nrand), "--seed", str(ctx.seed), "--out", trace,
                        "--max-lines", "60" if quick else "200", "--sample-every", "25" if quick else "100"], ctx.path("summary.json"))
    # (e) trace validation
    v = validate_chunked(ctx, "tc", trace, kf)
    cases = c.split_cases(trace)
    rej = {r[0]: r for r in v.rejected}
    for k in sorted(v.violations):
        r = rej.get(k)
        ctx.violation("case %d rejected by TextConvTrace at line %s: %s" % (k, r[1] if r else "?", r[2] if r else "unfinished case"),
                      {"case": k, "trace": cases.get(k), "first_unmatched": r[2] if r else None, "kf_switches": kf,
                       "module": "TextConvTrace.tla", "consts": kf, "how": "bin/check X04 quick --replay <this file>"})
    known_cases = {}
    for k, labels in v.known.items():
        if k not in v.violations:
            for lab in labels:
                ctx.known(c.kf_text("X04", lab))
                known_cases[lab] = known_cases.get(lab, 0) + 1
    ctx.extra["binding_selftest"] = binding_selftest(ctx, cases, v, kf)
    ctx.evaluations = info["replayed"] + nrand
    ctx.traces_validated = info["fast_path"] + len(cases) - len(v.violations)
    nontriv = set()
    for s in scns:
        if sum(len(p) for p in s["pred"]) >= 2 or len(s["files"]) > 1:
            nontriv.add(json.dumps(s["files"], sort_keys=True))
    for k, evs in cases.items():
        h = evs[0]["hdr"]
        if h.get("src") == "random" and sum(1 for e in evs if e["ev"] == "msg") >= 2:
            nontriv.add(json.dumps(h["files"], sort_keys=True))
    ctx.distinct_nontrivial = len(nontriv)
    ctx.rule = ("a case = 1..3 abstract files rendered as text and converted by fresh iterators in one fresh namespace; TLC cases = every "
                "case of the bounded model (distinct by content); random cases seeded; non-trivial = at least two messages or two files")
    ctx.exhaustive = True
    ctx.extra["replay"] = {k: info[k] for k in ("replayed", "fast_path", "slow_path", "drift", "predicted_not_ok", "forced_slow", "cases", "lines")}
    ctx.extra["design_conformance"] = {"steps": info["replayed"] - info["forced_slow"], "mismatches": info["drift"]}
    ctx.extra["drift_samples"] = info.get("drift_samples", [])
    ctx.extra["driver_paths"] = info["paths"]
    ctx.extra["contract_paths"] = v.stat
    ctx.extra["kf_switches"] = kf
    ctx.extra["kf_cases"] = known_cases
    # vacuity: every kind of line was rendered and every contract action / interesting path fired
    need_driver = ["scn_asc_date", "scn_asc_map", "scn_asc_can", "scn_asc_canfd", "scn_asc_err", "scn_asc_other", "scn_asc_two_files",
                   "scn_logcat_mono", "scn_logcat_tt", "scn_logcat_other", "scn_logcat_two_files", "scn_genlog_rec", "scn_genlog_other",
                   "scn_genlog_two_files", "rnd_asc_can", "rnd_asc_canfd", "rnd_asc_err", "rnd_asc_map", "rnd_asc_negative_offset",
                   "rnd_asc_reference_time", "rnd_asc_several_files", "rnd_logcat_monotonic", "rnd_logcat_date_plain",
                   "rnd_logcat_date_no_rtc", "rnd_logcat_several_files", "rnd_genlog_file", "rnd_genlog_several_files", "rnd_crlf"]
    need_contract = ["asc:can", "asc:can:neg", "asc:can:ref", "asc:can:negref", "asc:err", "asc:map", "asc:eof",
                     "logcat:ann:mono", "logcat:log:mono", "logcat:log:up", "logcat:ann:abs", "logcat:log:abs", "logcat:eof",
                     "genlog:ann", "genlog:log", "genlog:eof"]       # prefixes of kind:class[:time rule][:nodate][:anyts][:anyname|:newname]
    missing = [k for k in need_driver if not info["paths"].get(k)]
    missing += [k for k in need_contract if not any(x == k or x.startswith(k + ":") for x in v.stat)]
    missing += [k for k in ("nodate", "newname", "anyname", "anyts") if not any(k in x.split(":") for x in v.stat)]
    # informational (a repaired tree no longer meets a finding that is still listed as open)
    ctx.extra["open_findings_not_met"] = [lab for lab in KFS if kf[lab] and not known_cases.get(lab)]
    ctx.extra["model_fix_switches"] = fix
    ctx.extra["paths_never_exercised"] = missing
    if missing and not ctx.violations:      # (with violations the code may be too broken to reach a path: the verdict stands)
        raise c.ToolError("vacuity: paths never exercised: %s" % missing)
    ks = list(cases)
    for k in ks[:1] + ks[len(ks) // 2:len(ks) // 2 + 1] + ks[-1:]:
        ev = copy.deepcopy(cases[k][:8])
        for fh in ev[0]["hdr"]["files"]:
            fh["lines"] = fh["lines"][:6]
        ctx.add_sample({"case": k, "trace": ev})
    ctx.assumptions = ["TLC 1.8.0 and CommunityModules are correct",
                       "driver: rendering of abstract lines as text and the field-copy projection of messages are correct",
                       "harness is built with overflow checks (dev profile): an arithmetic overflow of the code shows as a panic",
                       "little-endian host (native-endian payload fields)"]
