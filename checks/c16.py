"""C16 - remote streams deliver exactly the requested window of the filtered log
(spec/StreamIndex.tla + StreamIndexTrace.tla: library layer; spec/RemoteStreams.tla + StreamTrace.tla: server layer;
driver harness/src/bin/c16.rs)"""
import collections
import json
import random
from . import common as c

META = {
    "property_id": "C16",
    "technique": "library layer: TLC model checking of StreamIndex.tla (all match sets x stream/query x windows x chunk sizes x "
                 "arrival batchings) and replay of EVERY behaviour of the bounded model on the real process_stream_new_msgs "
                 "(prediction fast path, samples + random batchings validated by TLC against StreamIndexTrace.tla); server "
                 "layer: TLC model checking of the delivery design RemoteStreams.tla, its scenarios (windows, window change, "
                 "search paging, lookups on tiny logs, with predictions) and seeded random sessions on generated logs of up "
                 "to 1500(6000) messages replayed against the real `adlt remote` binary under three parser pacings; every "
                 "session validated by TLC against the contract StreamTrace.tla, which computes the expected filtered "
                 "sequence itself from the message fields",
    "design_ref": "DESIGN.md section 6 C16, Appendix K, Appendix C #9 #10",
    "level_text": "Library layer: exhaustive within bounds on the model (4(5)-message logs, all 16(32) match sets, windows 0-2, chunk "
                  "sizes 1-3, every batching over 4(5) steps) and the same bounded space executed on the real code with "
                  "(filtered_msgs, all_msgs_last_processed_len) compared after every step. Server layer: delivery design "
                  "exhaustive on 3(4)-message logs; against the binary a seeded sample of these scenarios plus random "
                  "sessions; window content, order, multiplicity, id, field equality, completeness at quiescence, search "
                  "pages and lookups are decided by TLC per event.",
    "level_note": "Narrowed: compared fields are index, reception time, timestamp, ecu/apid/ctid, message counter and payload "
                  "text (hash); filters are literal ecu/apid/ctid criteria in filter sets over all kind combinations (positive OR, negative veto, "
                  "event AND, disabled and marker filters inert - the semantics of match_filters); a query is required "
                  "to be complete only when created on a completely parsed file (a query created during parsing ends when a "
                  "loop iteration sees no new message); on the big uniform log (70 000 messages, windows larger than 64 Ki) "
                  "(periodic ecu/apid/ctid, filter sets of every shape, binary and text) and for text streams frame summaries are "
                  "checked: first/last index and index sum of every frame are those of the expected positions and the driver "
                  "established equality of every delivered message with the generated one and its window is changed only while the session is paused; searches "
                  "and lookups are made on streams after quiescence (numeric parameters also with the classes 0, small, len-1, len, "
                  "len+1, u32::MAX, u32::MAX+1, u64::MAX/1000+1, 2^62, u64::MAX with saturating meaning; an index beyond the file may be "
                  "answered err: or with the stream length; malformed numbers are left to C15), strictly increasing message times "
                  "(time = reception time = lifecycle start + timestamp); 'eventually' = all messages of the file reported "
                  "(FileInfo) and three consecutive sentinel round trips (each forces a full server loop iteration) without "
                  "a stream frame, limit 90 s. Window ends beyond the stream (up to u64::MAX) mean 'to the end' for the initial window and for every change "
                  "(the contract uses the window REQUESTED, not the reply's echo). Files opened with sort:true: stream order = timestamp order "
                  "(generated logs: one lifecycle per ECU, distinct timestamps, some messages delivered late); time lookups only where the "
                  "stream is ordered by time. A stalling client (no reads for 3-6 s with tens of MB pending) must still get the whole window. "
                  "One-pass streams are not covered.",
}

KFS = ["KF_C16_SearchNextSkips", "KF_C16_SearchUnfiltered", "KF_C16_IndexLookupUnfiltered"]


def drive(binp, args, timeout=3000):
    p = c.run([binp] + args, timeout=timeout, check=False)
    if p.returncode != 0:
        raise c.ToolError("driver failed: " + (p.stdout or "")[-3000:])
    return json.loads(p.stdout.strip().splitlines()[-1])


def binding_selftest(ctx, lib_cases, vl, srv_cases, vs, sw, trace_srv):
    """corrupt one field / delete one event of accepted traces of both layers and require that TLC rejects them"""
    import copy
    res = {}
    # library layer: drop the last index entry of a process event; delete the first arrive event
    for k, evs in lib_cases.items():
        tgt = [i for i, e in enumerate(evs) if e["ev"] == "process" and e["f"]]
        arr = [i for i, e in enumerate(evs) if e["ev"] == "arrive" and e["k"] > 0]
        total = sum(e["k"] for e in evs if e["ev"] == "arrive")
        if k in vl.violations or not tgt or not arr or not any(e["ev"] == "process" and e["p"] == total for e in evs):
            continue
        a = copy.deepcopy(evs)
        a[0]["case"] = 0
        a[tgt[-1]]["f"] = a[tgt[-1]]["f"][:-1]
        b = copy.deepcopy(evs)
        b[0]["case"] = 1
        del b[arr[0]]
        path = ctx.path("selftest-lib.ndjson")
        with open(path, "w") as f:
            for e in a + b:
                f.write(json.dumps(e) + "\n")
        sv = c.validate_trace(ctx, "selftest-lib", "StreamIndexTrace.tla", path, timeout=600)
        if sv.violations != {0, 1}:
            raise c.ToolError("binding self-test: corrupted library traces accepted (%s)" % sv.violations)
        res["library"] = {"case": k, "corrupted_field_rejected": True, "deleted_event_rejected": True}
        break
    # server layer: change the index of one delivered message; delete one data frame
    logs = [json.loads(l) for l in open(trace_srv) if l.startswith('{"ev":"log"') or '"ev":"log"' in l[:40]]
    for k, evs in srv_cases.items():
        tgt = [i for i, e in enumerate(evs) if e["ev"] == "bin_msgs" and e["n"] > 0]
        if k in vs.violations or k in vs.known or not tgt or not any(e["ev"] == "quiescent" for e in evs):
            continue
        a = copy.deepcopy(evs)
        a[0]["case"] = 0
        a[tgt[0]]["msgs"][0]["i"] += 1
        b = copy.deepcopy(evs)
        b[0]["case"] = 1
        del b[tgt[0]]
        path = ctx.path("selftest-srv.ndjson")
        with open(path, "w") as f:
            for e in logs + a + b:
                f.write(json.dumps(e) + "\n")
        sv = c.validate_trace(ctx, "selftest-srv", "StreamTrace.tla", path, sw, timeout=600)
        if sv.violations != {0, 1}:
            raise c.ToolError("binding self-test: corrupted server traces accepted (%s)" % sv.violations)
        res["server"] = {"case": k, "corrupted_field_rejected": True, "deleted_event_rejected": True}
        break
    if len(res) != 2:
        raise c.ToolError("binding self-test: no suitable accepted case (%s)" % list(res))
    return res


def check(ctx):
    quick = ctx.quick()
    binp = c.build_harness("c16")
    adlt = c.build_adlt_bin()
    rnd = random.Random(ctx.seed)
    # ------------------------------------------------------------------------------------------- library layer
    if not quick:
        c.tlc_must_pass(ctx, "index-model", "StreamIndex.tla", "StreamIndex_thorough.cfg", timeout=3000)
    res = c.tlc_must_pass(ctx, "index-emit", "StreamIndex.tla",
                          "StreamIndex_quick.cfg" if quick else "StreamIndex_emit_thorough.cfg", timeout=3000)
    scn = ctx.path("lib-scenarios.ndjson")
    nlib = 0
    with open(scn, "w") as f:
        for payload in res.printed.get("SCN", []):
            f.write(json.loads(payload) + "\n")
            nlib += 1
    trace_lib = ctx.path("trace-lib.ndjson")
    li = drive(binp, ["lib", "--scenarios", scn, "--random", "40" if quick else "300", "--max-n", "300" if quick else "1000",
                      "--seed", str(ctx.seed), "--out", trace_lib, "--sample-every", "400"])
    if li["replayed"] != nlib:
        raise c.ToolError("library replay incomplete: %s of %s" % (li["replayed"], nlib))
    vl = c.validate_trace(ctx, "lib", "StreamIndexTrace.tla", trace_lib, timeout=3000)
    ctx.add_tlc("trace-validation-lib", vl.res)
    # ------------------------------------------------------------------------------------------- server layer
    res = c.tlc_must_pass(ctx, "streams-model", "mc/MCRemoteStreams.tla",
                          "RemoteStreams_quick.cfg" if quick else "RemoteStreams_thorough.cfg", timeout=3000)
    scns = c.scn_lines(res)
    # sample round-robin over (stream/query, created late, window change, filter-set shape, delivers something): every shape of
    # filter set (pos / neg / event / their combinations / disabled / marker / empty) is replayed for streams and queries;
    # scenarios that deliver something are taken twice as often
    groups = collections.defaultdict(list)
    for s in scns:
        key = (s["kind"], s["late"], bool(s["chg"]), s["shape"], any(len(d) > 0 for d in s["pred"]["d"]))
        groups[key].append(s)
    cap = 330 if quick else 4000
    order = sorted(groups, key=str)
    for key in order:
        rnd.shuffle(groups[key])
    rnd.shuffle(order)
    picked = []
    while len(picked) < cap and any(groups[k] for k in order):
        for key in order:
            for _ in range(2 if key[4] else 1):
                if groups[key] and len(picked) < cap:
                    picked.append(groups[key].pop())
    sscn = ctx.path("srv-scenarios.ndjson")
    with open(sscn, "w") as f:
        for s in picked:
            f.write(json.dumps(s) + "\n")
    trace_srv = ctx.path("trace-srv.ndjson")
    nrand = 75 if quick else 600
    si = drive(binp, ["server", "--adlt", adlt, "--work", ctx.work, "--scenarios", sscn, "--random", str(nrand), "--seed", str(ctx.seed),
                      "--out", trace_srv, "--conns", "10", "--logs", "4" if quick else "8", "--throttles", "32:2,8:4,2:3", "--big", "70000", "--bigsearch", "300000", "--extremes", "--sorted", "--fat", "40000"] + ([] if quick else ["--all-stalls"]) + [ "--max-n", "1500" if quick else "6000"])
    sw = c.kf_switches("C16", KFS)
    vs = c.validate_trace(ctx, "srv", "StreamTrace.tla", trace_srv, sw, timeout=3000, xmx="8g")
    ctx.add_tlc("trace-validation-server", vs.res)
    # ------------------------------------------------------------------------------------------- evidence
    lib_cases = c.split_cases(trace_lib)
    srv_cases = c.split_cases(trace_srv)
    ctx.evaluations = li["steps"] + si["delivered"] + si["pages"] + si["lookups"]
    ctx.traces_validated = (len(lib_cases) - len(vl.violations)) + (len(srv_cases) - len(vs.violations))
    ctx.rule = ("evaluations = index steps executed on the real library function + messages delivered by the server and compared "
                "+ search pages + lookups; a library case is non-trivial when the index is non-empty at the end, a server case "
                "when at least one message was delivered or a search page returned a hit; distinct by the scenario parameters "
                "(library: match vector, kind, window, operations; server: log, kind, filters, windows, searches)")
    seen = set()
    paths = collections.Counter()
    for k, evs in lib_cases.items():
        procs = [e for e in evs if e["ev"] == "process"]
        if procs and procs[-1]["f"]:
            seen.add(json.dumps([evs[0]["hdr"]["m"], evs[0]["hdr"]["s"], evs[0]["hdr"]["w"], [(e["ev"], e.get("k")) for e in evs[1:]]]))
        paths["lib_" + ("stream" if evs[0]["hdr"]["s"] else "query")] += 1
        paths["lib_grow"] += sum(1 for e in evs if e["ev"] == "grow")
    nontrivial_lib_fast = li["fast_path"]     # every fast-path behaviour is a distinct TLC behaviour (counted, not stored)
    for k, evs in srv_cases.items():
        hit = False
        multi = collections.Counter()
        combo = ""
        src = str(evs[0]["hdr"].get("src", ""))
        if src.startswith("extreme:"):
            paths["extreme_sessions"] += 1
        if src == "stalling-client":
            paths["stalling_client_sessions"] += 1
        if evs[0]["hdr"].get("sort"):
            paths["sorted_open_sessions"] += 1
            if src == "sorted":
                paths["sorted_with_late_messages"] += 1
                paths["sorted_index_lookups"] += sum(1 for e in evs if e["ev"] == "ok_bsearch" and e["key"] == "index")
        for e in evs:
            if e["ev"] == "bin_msgs":
                if e["n"]:
                    hit = True
                    multi[e["id"]] += 1
                    paths["data_frames"] += 1
                else:
                    paths["query_end_marker"] += 1
            elif e["ev"] in ("bin_sum", "txt_sum"):
                hit = True
                multi[e["id"]] += 1
                if e["ev"] == "txt_sum":
                    paths["text_stream_runs"] += 1
                    if e["n"] >= 4096:
                        paths["text_run_4096_or_more"] += 1
                else:
                    paths["big_window_frames"] += 1
                    if e["n"] > 65536:
                        paths["frame_over_64Ki_msgs"] += 1
                    if e["n"] >= 4096 and combo != "none":
                        paths["filtered_frame_4096_or_more"] += 1
            elif e["ev"] == "ok_search":
                paths["search_page"] += 1
                paths["search_on_" + combo] += 1
                paths["search_with_" + ("+".join(sorted({f["k"] for f in e["filt"] if f["on"] and f["k"] != "marker"})) or "none")] += 1
                paths["search_page_size_%d" % min(e["max"], 6)] += 1
                if e["idxs"]:
                    hit = True
                if e["next"] >= 0:
                    paths["search_continued"] += 1
            elif e["ev"] in ("ok_change", "quiescent", "ok_bsearch", "err_bsearch", "stopped", "ok_stream"):
                paths[e["ev"]] += 1
                if e["ev"] == "ok_bsearch":
                    paths["lookup_on_" + combo] += 1
                if e["ev"] == "ok_stream":
                    paths["kind_" + e["kind"]] += 1
                    if not e["parsed"]:
                        paths["created_during_parsing"] += 1
                    if e["win"][0] >= e["win"][1]:
                        paths["window_empty"] += 1
                    # which kinds of enabled filters make up the stream's filter set
                    combo = "+".join(sorted({f["k"] for f in e["filt"] if f["on"] and f["k"] != "marker"})) or "none"
                    paths["filters_%s_%s" % (e["kind"], combo)] += 1
                    if any(not f["on"] for f in e["filt"]):
                        paths["filters_with_disabled"] += 1
                    if any(f["k"] == "marker" for f in e["filt"]):
                        paths["filters_with_marker"] += 1
                    if combo == "none":
                        paths["unfiltered"] += 1
        paths["window_in_several_frames"] += sum(1 for n in multi.values() if n >= 2)   # batch boundaries inside a window
        if hit:
            seen.add(json.dumps([e for e in evs if e["ev"] in ("ok_stream", "ok_change")][:4] + [evs[0]["hdr"]["logline"]], sort_keys=True))
    ctx.distinct_nontrivial = len(seen)
    ctx.exhaustive = True
    ctx.extra["library"] = {"tlc_behaviours": nlib, "replayed": li["replayed"], "fast_path": li["fast_path"], "slow_path": li["slow_path"],
                            "drift": li["drift"], "steps": li["steps"], "random_cases": 40 if quick else 300,
                            "distinct_behaviours_fast_path": nontrivial_lib_fast}
    ctx.extra["server"] = {"tlc_scenarios_emitted": len(scns), "tlc_scenarios_replayed": len(picked), "random_sessions": nrand,
                           "replayed": si["cases"], "fast_path": 0, "slow_path": si["cases"], "drift": si["drift"], "drift_delivery": si["drift_delivery"], "drift_pages": si["drift_pages"],
                           "drift_lookups": si["drift_lookups"], "predicted": si["predicted"],
                           "messages_delivered": si["delivered"], "search_pages": si["pages"], "lookups": si["lookups"],
                           "server_panics": si["panics"], "server_exit": si["server_exit"]}
    ctx.extra["replayed"] = li["replayed"] + si["cases"]
    ctx.extra["fast_path"] = li["fast_path"]
    ctx.extra["slow_path"] = li["slow_path"] + si["cases"]
    ctx.extra["drift"] = li["drift"] + si["drift"]
    ctx.extra["path_hits"] = dict(sorted(paths.items()))
    ctx.extra["kf_switches"] = sw
    needed = ["data_frames", "query_end_marker", "ok_change", "quiescent", "search_continued", "ok_bsearch", "created_during_parsing",
              "window_empty", "window_in_several_frames", "big_window_frames", "filtered_frame_4096_or_more", "text_stream_runs", "text_run_4096_or_more", "extreme_sessions", "stalling_client_sessions", "sorted_with_late_messages", "sorted_index_lookups", "filters_with_disabled", "filters_with_marker",
              "search_on_event", "lookup_on_event", "search_with_event", "lib_stream", "lib_query", "lib_grow"] + ["search_page_size_%d" % k for k in range(1, 6)]
    for kd in ("stream", "query"):      # every combination of filter kinds, for streams and for queries
        needed += ["filters_%s_%s" % (kd, cb) for cb in ("none", "pos", "neg", "event", "event+pos", "event+neg", "neg+pos", "event+neg+pos")]
    missing = [n for n in needed if paths[n] == 0]
    for k in list(srv_cases)[:1] + list(srv_cases)[-2:]:
        ctx.add_sample({"layer": "server", "case": k, "trace": [({kk: vv for kk, vv in e.items() if kk != "msgs"}) for e in srv_cases[k][:12]]})
    for k in list(lib_cases)[-2:]:
        ctx.add_sample({"layer": "library", "case": k, "trace": lib_cases[k][:10]})
    for k, labels in sorted(vs.known.items()):
        if k not in vs.violations:
            for lab in labels:
                ctx.known(c.kf_text("C16", lab))
    log_events = {}
    for n, line in enumerate(open(trace_srv), 1):
        if not line.startswith('{"ev":"log"'):
            break
        log_events[n] = json.loads(line)
    for name, v, cases, mod, consts in (("library", vl, lib_cases, "StreamIndexTrace.tla", {}), ("server", vs, srv_cases, "StreamTrace.tla", dict(sw))):
        rej = {r[0]: r for r in v.rejected}
        ctx.replay_module = (mod, consts)
        for k in sorted(v.violations):
            r = rej.get(k)
            tr = cases.get(k)
            if name == "server" and tr:      # self-contained replay trace: the log event first, the case refers to line 1
                tr = json.loads(json.dumps(tr))
                lg = log_events.get(tr[0]["hdr"]["logline"])
                tr[0]["hdr"]["logline"] = 1
                tr = [lg] + tr
            ctx.violation("%s case %d rejected by %s at line %s: %s" % (name, k, mod, r[1] if r else "?", r[2] if r else "unfinished"),
                          {"layer": name, "case": k, "trace": tr, "first_unmatched": r[2] if r else None,
                           "server_panics": si["panics"],
                           "how": "bin/check C16 --replay <this file> re-validates the recorded session; re-run with VERIF_SEED=%d bin/check C16 %s "
                                  "(the log files are regenerated under work/C16/files)" % (ctx.seed, ctx.tier)})
    if not ctx.violations:          # tool-level sanity only when there is no verdict to report (never masks a violation)
        if missing:
            raise c.ToolError("vacuity: paths never hit: %s" % missing)
        if si["server_exit"]:
            raise c.ToolError("a server process exited during the run: %s" % si["server_exit"])
        ctx.extra["binding_selftest"] = binding_selftest(ctx, lib_cases, vl, srv_cases, vs, sw, trace_srv)
    ctx.assumptions = ["TLC and CommunityModules are correct", "the driver's projection (frame decoding with the repo's own bincode types, "
                       "field extraction, 31-bit text hash) is correct", "websocket frames are received in the order the server wrote them",
                       "the generated logs have one lifecycle per ECU with reception time = start + timestamp (no time sorting needed)"]

# round 6 (DESIGN.md 11.10)
META["technique"] += ' Searches on a periodic log of 300 000 messages (pages filled only far into the stream or never) are recorded as page summaries and decided by the periodic count of OkSearchSum.'
