"""X05 (extra area, not a listed property) - lifecycle / statistics side channel of `adlt remote`
(spec/RemoteLc.tla: design = LcDetector composed with publication by refresh index, server poll, client fold;
 spec/RemoteLcTrace.tla: contract + trace validation; driver harness/src/bin/x05.rs)"""
import collections
import json
import os
from . import common as c

META = {
    "property_id": "X05",
    "statement": "While a file is open the remote server reports message counts (FileInfo) that never decrease, and once parsing "
                 "has finished and the connection is idle the last reported count equals the number of messages in the file and "
                 "the last ECU/APID/CTID statistics (EacInfo) equal the true histogram of the file's messages. At that point the "
                 "union of all lifecycle frames the client received (last write wins per lifecycle id, an entry with 0 messages "
                 "withdraws the id) equals exactly the lifecycle table that a local run of the lifecycle detector produces for the "
                 "same file, restricted to lifecycles with at least one message that is not a control request: same ids (relative "
                 "to the first), ECU, start/end time, message count, resume flag and time, software version - none missing, none "
                 "stale, none listed in excess - and each listed lifecycle's message count is the number of delivered messages "
                 "carrying its id.",
    "quantifier": "all DLT files of 1..5 messages over the bounded alphabets of the detector model (1-2 ECUs, reception-time steps "
                  "0/1/11/61 s, timestamps 0/70 s, normal messages and control requests) under the parser pacings 'none', 'pause "
                  "before every message', 'pause before every 2nd message' (exhaustively, TLC-enumerated and replayed on the real "
                  "binary); seeded random files of up to 1500(6000) messages with 2-4 ECUs, reboots, suspend/resume, buffering "
                  "delays, garbage timestamps, control requests, software-version responses, messages without extended header, "
                  "non-monotonic reception times, under random pacings (ADLT_VERIF_PARSE_THROTTLE n:ms) and pause/resume commands; "
                  "thorough: files of > 100 000 messages (regular refresh cadence, timer-driven EacInfo). One file per open, "
                  "collect=all, unsorted, no plugins, one connection per server process at a time.",
    "technique": "TLC model checking of RemoteLc.tla (detector model x refresh-index publication x server poll at arbitrary points x "
                 "client fold; invariants = the statement at idle, liveness of the end-of-parsing notice; the proposed fix as a "
                 "constant) + every behaviour of the bounded emission configs replayed through the real `adlt remote` binary "
                 "(prediction fast path: successive client tables, FileInfo counts, EacInfo, per-lifecycle delivered counts and the "
                 "local detector's table equal TLC's prediction for one of the modelled schedules) + regression inputs + seeded "
                 "random files; every slow-path/random/sample run validated by TLC against the contract RemoteLcTrace.tla",
    "design_ref": "DESIGN.md section 8 items 1-3 (growing the specification); BUILD_GUIDE.md",
    "level_text": "Exhaustive within bounds on the model (free poll points: 1 ECU <= 5 messages, 2 ECUs + control requests <= 3(4) "
                  "messages, partial channel reads and the statistics timer nondeterministic) and the bounded emission spaces "
                  "executed on the real binary; beyond the bounds seeded sampling with the contract evaluated by TLC per frame.",
    "level_note": "Narrowed: lifecycles that consist only of control requests are not part of the expected table (the server "
                  "deliberately does not send them); 'parsing has finished and the connection is idle' = the server repeated the "
                  "final FileInfo count (its end-of-parsing notice, the last frame of that pass) and two further complete loop "
                  "iterations passed (fallbacks: final count seen once + 3 s silence, or 20 s silence - TLC then judges what was "
                  "recorded); statistics entries with count 0 and descriptions are ignored; lifecycle ids are compared relative to "
                  "the smallest id of the table (process-global counter); plugin-state, progress and stream frames are out of "
                  "scope; sorted mode, one-pass mode, archives and several files are not covered. Known finding "
                  "KF_X05_RemovedLcStaysListed: an announced lifecycle that is merged into its predecessor later is never "
                  "withdrawn. Trusted: TLC, the driver's projection (frame decoding with the repo's own bincode types, field "
                  "copies, last-write-wins fold for the fast path, counting), the local detector run as the reference table.",
}

KFS = ["KF_X05_RemovedLcStaysListed"]
TRACE_MODULE = "RemoteLcTrace.tla"


def drive(binp, args, timeout=5400):
    p = c.run([binp] + args, timeout=timeout, check=False)
    if p.returncode != 0:
        raise c.ToolError("driver failed: " + (p.stdout or "")[-3000:])
    return json.loads(p.stdout.strip().splitlines()[-1])


def validate_chunked(ctx, name, trace, consts, max_lines=30000, timeout=3000):
    chunks, cur, n, idx = [], None, 0, 0
    with open(trace) as f:
        for line in f:
            if cur is None or (n >= max_lines and line.startswith('{"case"')):
                if cur:
                    cur.close()
                idx += 1
                p = "%s.chunk%d" % (trace, idx)
                chunks.append(p)
                cur, n = open(p, "w"), 0
            cur.write(line)
            n += 1
    if cur:
        cur.close()
    merged = None
    for i, p in enumerate(chunks):
        v = c.validate_trace(ctx, "%s-%d" % (name, i + 1), TRACE_MODULE, p, consts, timeout=timeout, xmx="8g")
        ctx.add_tlc("trace-validation-%d" % (i + 1), v.res)
        if merged is None:
            merged = v
        else:
            merged.violations |= v.violations
            for k, labs in v.known.items():
                merged.known.setdefault(k, set()).update(labs)
            merged.rejected += v.rejected
            merged.states += v.states
        os.remove(p)
    if merged is None:
        raise c.ToolError("empty trace " + trace)
    return merged


def check(ctx):
    quick = ctx.quick()
    binp = c.build_harness("x05")
    adlt = c.build_adlt_bin()
    sw = c.kf_switches("X05", KFS)
    if os.environ.get("X05_KF_OFF"):           # self-test of the deviation's narrowness: with the switch off the same traces must be violations
        sw = {k: False for k in sw}
    # ---------------------------------------------------------------- (a) model checking of the design module
    import time
    t_phase = time.time()
    mc = ["free_quick", "free2_quick", "kfwitness"] if quick else ["free_thorough", "free_timer", "free2_thorough", "refresh", "fix_thorough", "kfwitness", "live"]
    kf_states = 0
    for name in mc:
        res = c.tlc_must_pass(ctx, name, "RemoteLc.tla", "RemoteLc_%s.cfg" % name, timeout=3000)
        kf_states += len(res.printed.get("KFHIT", []))
    if quick:
        # vacuity: the quick model-checking config must reach idle states with an entry in excess (the known finding's shape)
        ctx.extra["model_idle_states_with_removed_lifecycle_listed"] = kf_states
        if kf_states == 0:
            raise c.ToolError("vacuity: RemoteLc_kfwitness.cfg reaches no idle state with a lifecycle listed in excess")
    else:
        # the model of the code as it is must exhibit the finding (informational, like the *_snapshot configs of other areas)
        res = c.tlc(os.path.join(c.SPEC, "RemoteLc.tla"), os.path.join(c.SPEC, "mc", "RemoteLc_asis_noextra.cfg"), ctx.path("tlc-asis"),
                    keep_log=ctx.path("tlc-asis.log"), timeout=3000)
        ctx.extra["model_as_is_violates_NoExtra"] = (res.violation == "NoExtra")
        if res.violation != "NoExtra":
            raise c.ToolError("RemoteLc_asis_noextra.cfg: expected the NoExtra counterexample of the known finding, got %s" % res.violation)
    ctx.extra["wall_model_checking_s"] = round(time.time() - t_phase, 1)
    t_phase = time.time()
    # ---------------------------------------------------------------- (b) scenario emission
    emits = ["emit_1ecu3", "emit_2ecu3"] if quick else ["emit_1ecu4", "emit_1ecu5", "emit_2ecu4"]
    groups = collections.OrderedDict()      # inputs -> {"alts": {json: pred}, "ks": set}
    nlines = 0
    kf_predicted = 0
    for name in emits:
        res = c.tlc_must_pass(ctx, name, "RemoteLc.tla", "RemoteLc_%s.cfg" % name, timeout=3000)
        for s in c.scn_lines(res):
            nlines += 1
            key = json.dumps(s["inputs"], sort_keys=True)
            g = groups.setdefault(key, {"inputs": s["inputs"], "alts": {}, "ks": set()})
            g["alts"][json.dumps(s["pred"], sort_keys=True)] = s["pred"]
            g["ks"].add(s["k"])
            if not s["pred"]["ok"]:
                if s["pred"]["kf"] != "KF_X05_RemovedLcStaysListed":
                    raise c.ToolError("the design model violates the contract outside the known finding: %s" % json.dumps(s)[:600])
                kf_predicted += 1
    scn = ctx.path("scenarios.ndjson")
    ncases_tlc = 0
    with open(scn, "w") as f:
        for g in groups.values():
            for k in sorted(g["ks"]):
                f.write(json.dumps({"inputs": g["inputs"], "k": k, "alts": list(g["alts"].values())}) + "\n")
                ncases_tlc += 1
    if not quick and kf_predicted == 0:
        raise c.ToolError("vacuity: no emitted behaviour exhibits the known finding (the model should)")
    ctx.extra["wall_emission_s"] = round(time.time() - t_phase, 1)
    t_phase = time.time()
    # ---------------------------------------------------------------- (c,d) replay on the real binary + random files
    trace = ctx.path("trace.ndjson")
    nrand = 60 if quick else 500
    args = ["--adlt", adlt, "--work", ctx.work, "--scenarios", scn, "--regressions", "--random", str(nrand), "--seed", str(ctx.seed),
            "--max-n", "300" if quick else "1500", "--workers", "12", "--pace-ms", "30", "--sample-every", "25" if quick else "60",
            "--out", trace]
    if not quick:
        args += ["--big", "105000", "--big-cases", "3"]
    info = drive(binp, args)
    if info["replayed"] != ncases_tlc:
        raise c.ToolError("replay incomplete: %s of %s" % (info["replayed"], ncases_tlc))
    ctx.extra["wall_driver_s"] = round(time.time() - t_phase, 1)
    t_phase = time.time()
    # ---------------------------------------------------------------- (e) TLC validates every recorded run against the contract
    v = validate_chunked(ctx, "x05", trace, sw)
    ctx.extra["wall_trace_validation_s"] = round(time.time() - t_phase, 1)
    cases = c.split_cases(trace)
    # ---------------------------------------------------------------- evidence
    ctx.evaluations = info["cases"]
    ctx.traces_validated = len(cases) - len(v.violations)
    ctx.distinct_nontrivial = info["nontrivial"]
    ctx.rule = ("evaluation = one file opened through the real server binary and judged at idle (fast path: equality with TLC's "
                "prediction on a behaviour where the model satisfies the contract; else TLC trace validation); non-trivial = the "
                "client received at least two lifecycle frames or the final table has at least two lifecycles; distinct by "
                "(message sequence, pacing): TLC behaviours are distinct by construction, random files by seed")
    ctx.exhaustive = True
    paths = collections.Counter()
    for k, evs in cases.items():
        h = evs[0]["hdr"]
        lcs = [e for e in evs if e["ev"] == "lcs"]
        paths["case_src_" + h["src"].split("-")[0]] += 1
        if len(lcs) >= 2:
            paths["several_lifecycle_frames"] += 1
        if any(len(e["items"]) >= 2 for e in lcs):
            paths["frame_with_several_lifecycles"] += 1
        if h["ctrl_only"] > 0:
            paths["control_only_lifecycle_not_listed"] += 1
        if any(r["res"] for r in h["final"]):
            paths["resumed_lifecycle"] += 1
        if any(r["su"] == 1 for r in h["final"]):
            paths["resumed_start_adjusted_1us"] += 1
        if any(r["sw"] for r in h["final"]):
            paths["software_version"] += 1
        if len({r["ecu"] for r in h["final"]}) >= 2:
            paths["several_ecus"] += 1
        if len(h["final"]) >= 3:
            paths["three_or_more_lifecycles"] += 1
        if any(m[1] == "" for m in h.get("msgs", [])):
            paths["message_without_extended_header"] += 1
        if sum(1 for e in evs if e["ev"] == "eac") >= 2:
            paths["several_statistics_frames"] += 1
        if sum(1 for e in evs if e["ev"] == "fi") >= 3:
            paths["several_fileinfo_frames"] += 1
        if h.get("paused"):
            paths["pause_resume_during_parsing"] += 1
        if h.get("sorted"):
            paths["opened_with_time_sorting"] += 1
        if h["n"] > 100000:
            paths["more_than_100000_messages"] += 1
            last_fi = 0
            for e in evs:
                if e["ev"] == "fi":
                    last_fi = e["nr"]
                elif e["ev"] == "lcs" and 100000 < last_fi < h["n"]:
                    paths["lifecycle_frame_between_100000_messages_and_end"] += 1     # regular refresh cadence of the detector
                    break
        if h["how"] != "finished":
            paths["idle_by_fallback_" + h["how"]] += 1
        ids_final = {r["id"] for r in h["final"]}
        seen = set()
        for e in lcs:
            seen |= {r["id"] for r in e["items"]}
        if seen - ids_final:
            paths["announced_lifecycle_not_in_final_table"] += 1
        # an entry of the final table re-sent with changed values (update of an already listed lifecycle)
        first = {}
        for e in lcs:
            for r in e["items"]:
                if r["id"] in first and first[r["id"]] != r["nr"]:
                    paths["listed_lifecycle_updated"] += 1
                    break
                first.setdefault(r["id"], r["nr"])
    ctx.extra.update({
        "tlc_behaviours_emitted": nlines, "tlc_cases": ncases_tlc, "tlc_behaviours_with_known_finding": kf_predicted,
        "random_files": nrand, "replayed": info["replayed"], "fast_path": info["fast_path"], "slow_path": info["slow_path"],
        "drift": info["drift"], "drift_only_in_batching": info["drift"] - info["drift_final"], "drift_in_final_observables": info["drift_final"],
        "predicted_contract_violation": info["predicted_contract_violation"],
        "frames_received": info["frames"], "lifecycle_frames": info["lcs_frames"], "messages_in_files": info["messages"],
        "server_panics": info["panics"], "server_exit": info["server_exit"], "kf_switches": sw, "path_hits": dict(sorted(paths.items())),
    })
    for k in list(cases)[:1] + list(cases)[-2:]:
        ctx.add_sample({"case": k, "trace": [({kk: vv for kk, vv in e.items() if kk != "hdr"} if e["ev"] != "reset" else
                                              {"ev": "reset", "src": e["hdr"]["src"], "n": e["hdr"]["n"], "final": e["hdr"]["final"][:4]}) for e in cases[k][:10]]})
    for k, labels in sorted(v.known.items()):
        if k not in v.violations:
            for lab in labels:
                ctx.known(c.kf_text("X05", lab))
    rej = {r[0]: r for r in v.rejected}
    for k in sorted(v.violations):
        r = rej.get(k)
        tr = cases.get(k)
        if tr and len(tr[0]["hdr"].get("msgs", [])) > 400:
            tr = json.loads(json.dumps(tr))
        ctx.violation("case %d (%s, pacing %s) rejected by %s at line %s: %s" % (
            k, tr[0]["hdr"]["src"] if tr else "?", tr[0]["hdr"].get("throttle") if tr else "?", TRACE_MODULE, r[1] if r else "?", r[2] if r else "unfinished"),
            {"case": k, "trace": tr, "first_unmatched": r[2] if r else None, "server_panics": info["panics"],
             "how": "bin/check X05 --replay <this file> re-validates the recorded session against the contract"})
    if not ctx.violations:            # tool-level sanity only when there is no verdict to report (never masks a violation)
        needed = ["several_lifecycle_frames", "frame_with_several_lifecycles", "control_only_lifecycle_not_listed", "resumed_lifecycle",
                  "several_ecus", "three_or_more_lifecycles", "listed_lifecycle_updated", "case_src_random", "case_src_tlc", "software_version",
                  "message_without_extended_header", "pause_resume_during_parsing", "opened_with_time_sorting"]
        if sw["KF_X05_RemovedLcStaysListed"]:
            needed.append("announced_lifecycle_not_in_final_table")
        if not quick:
            needed += ["more_than_100000_messages", "several_statistics_frames", "resumed_start_adjusted_1us", "lifecycle_frame_between_100000_messages_and_end"]
        missing = [n for n in needed if paths[n] == 0]
        if missing:
            raise c.ToolError("vacuity: paths never hit: %s" % missing)
        if info["server_exit"]:
            raise c.ToolError("a server process exited during the run: %s" % info["server_exit"])
        skip = set(v.known) | {k for k, evs in cases.items() if evs[-1]["ev"] != "end" or not any(e["ev"] == "lcs" for e in evs)}

        # binding self-test: every second accepted case gets one corruption (the kind rotates); TLC must reject exactly those
        kinds_hit = collections.Counter()
        state = {"i": 0}

        def corrupt(evs):
            kind = state["i"] % 4
            state["i"] += 1
            if kind == 0:            # a lifecycle entry of the last frame with another message count -> table differs
                for e in reversed(evs):
                    if e["ev"] == "lcs":
                        e["items"][-1]["nr"] += 1
                        kinds_hit["lifecycle_field"] += 1
                        return True
            elif kind == 1:          # every entry of one listed lifecycle is lost (frames that become empty are deleted) -> missing
                ids = [r["id"] for r in evs[0]["hdr"]["final"]]
                if ids:
                    victim = max(ids)
                    for e in evs:
                        if e["ev"] == "lcs":
                            e["items"] = [r for r in e["items"] if r["id"] != victim]
                    evs[:] = [e for e in evs if not (e["ev"] == "lcs" and not e["items"])]
                    kinds_hit["lifecycle_entries_dropped"] += 1
                    return True
            elif kind == 2:          # the last FileInfo count one lower -> decreasing / wrong final count
                fis = [i for i, e in enumerate(evs) if e["ev"] == "fi"]
                if fis:
                    evs[fis[-1]]["nr"] -= 1
                    kinds_hit["fileinfo_count"] += 1
                    return True
            else:                    # the last statistics frame counts one message more
                for e in reversed(evs):
                    if e["ev"] == "eac" and e["ecus"]:
                        e["ecus"][0][1] += 1
                        kinds_hit["statistics_count"] += 1
                        return True
            return False
        c.binding_selftest(ctx, "corrupt", TRACE_MODULE, trace, sw, corrupt, max_cases=24, skip=skip)
        ctx.extra["binding_selftest"]["kinds"] = dict(kinds_hit)
        if len(kinds_hit) < 4:
            raise c.ToolError("binding self-test: not every corruption kind could be applied: %s" % dict(kinds_hit))
    ctx.assumptions = ["TLC and CommunityModules are correct",
                       "the driver's projection is correct (frame decoding with the repo's own bincode types, field copies, seconds/microseconds split, "
                       "relative lifecycle ids, per-id counting of delivered messages, histogram of the parsed file for files > 1500 messages)",
                       "websocket frames are received in the order the server wrote them",
                       "the local run of parse_lifecycles_buffered_from_stream on the same file (same iterator as the server's parser thread) is the reference table",
                       "one file is opened per server process at a time (lifecycle ids are consecutive per file)"]
