"""C15 - the `adlt remote` websocket server survives any command sequence and always answers
(spec/RemoteTable.tla, spec/Remote.tla, spec/RemoteTrace.tla; driver harness/src/bin/c15.rs)"""
import collections
import json
import os
import random
from . import common as c

META = {
    "property_id": "C15",
    "technique": "TLC model checking of the session model Remote.tla (reply table RemoteTable.tla, pipelining, liveness "
                 "'every command is answered, close also while parsing') + every sampled TLC history, scripted histories "
                 "and seeded random long histories (awaited and pipelined, during throttled parsing) replayed on fresh "
                 "websocket connections against the real `adlt remote` binary built from the working tree; every "
                 "recorded session validated by TLC against the contract RemoteTrace.tla",
    "design_ref": "DESIGN.md section 6 C15 (reply table), Appendix M, Appendix C #8 #19 #20",
    "level_text": "The reply-polarity table is exhaustive within bounds on the model (all histories <= 4(5) commands, "
                  "pipelining depth 2; thorough also the full parameter-shape alphabet, <= 4 commands). Against the binary: a seeded sample of the TLC-enumerated histories of <= 3 "
                  "commands (quick) / all 2-command histories over the full parameter-shape alphabet + samples of 3- and "
                  "4-command histories (thorough), plus random histories of 20-200 commands; each observed session is "
                  "checked event by event by TLC (FIFO matching, exactly one reply, polarity per tracked state, id "
                  "lifetime, connection and server alive).",
    "level_note": "Narrowed: outcomes that depend on parsing progress (index lookups), searches on one-pass streams and "
                  "fs on a fake archive accept ok: or err: (the statement only demands a reply). A query id is live "
                  "until its end marker frame is received (frame order on the websocket is the server's write order). "
                  "A double reply is detected through a final sentinel command (no idle waiting). Trusted: TLC, the "
                  "driver's command concretisation table and reply classification (prefix, named verb, announced id).",
}

KFS = ["KF_C15_SearchNoBody", "KF_C15_FsFakeArchive", "KF_C15_OnePassDrained", "KF_C15_OnePassLateStream",
       "KF_C15_OnePassChangeWindow"]


def letters(res):
    """distinct histories printed by Remote.tla's Emit"""
    seen = set()
    out = []
    for payload in res.printed.get("SCN", []):
        if payload in seen:
            continue
        seen.add(payload)
        out.append(json.loads(json.loads(payload)))
    return out


def sample_multi(hists, cap, rnd):
    """multi-stream histories: first those that change the window of a stream that is not the newest one and address the
    renewed id afterwards, then the rest"""
    def interesting(h):
        created = 0
        for i, x in enumerate(h):
            v, a, t, e = x.split("|")
            if v == "stream" and e == "ok":
                created += 1
            if v == "stream_change_window" and e == "ok" and t.startswith("h") and int(t[1:]) < created:
                if any(y.split("|")[2] == t for y in h[i + 1:]):
                    return True
        return False
    good = [h for h in hists if interesting(h)]
    rest = [h for h in hists if not interesting(h)]
    rnd.shuffle(good)
    rnd.shuffle(rest)
    return (good[:cap * 3 // 4] + rest)[:cap]


def sample_onepass(hists, cap, rnd):
    """collect-mode histories: first those in one-pass mode that request a stream/query after a resume ... pause, then the rest"""
    def score(h):
        v = [x.split("|") for x in h]
        if v[0][1] != "ok_onepass":
            # other collect modes: several queries registered while paused end in the same pass after the resume
            paused, nq = False, 0
            for verb, arg, tgt, exp in v[1:]:
                if verb == "pause":
                    paused, nq = True, 0
                elif verb == "query" and paused and exp == "ok":
                    nq += 1
                elif verb == "resume":
                    if paused and nq >= 2:
                        return 5
                    paused = False
            return 0
        sc = 1
        seen_resume = seen_pause_after = False
        for verb, arg, tgt, exp in v[1:]:
            if verb == "resume":
                if seen_pause_after == "created":
                    return 4            # ... stream created while paused after a release, then resumed
                seen_resume = True
            elif verb == "pause" and seen_resume:
                seen_pause_after = True
            elif verb in ("stream", "query") and arg == "ok_onepass":
                if seen_pause_after:
                    seen_pause_after = "created"
                    sc = 3
                elif seen_resume:
                    sc = max(sc, 2)
        return sc
    groups = collections.defaultdict(list)
    for h in hists:
        groups[score(h)].append(h)
    picked = []
    for sc, share in ((5, cap // 8), (4, cap * 3 // 8), (3, cap // 8), (2, cap // 8), (1, cap // 8), (0, cap // 8)):
        g = groups[sc]
        rnd.shuffle(g)
        picked += g[:share]
    return picked[:cap]


def sample_failuse(hists, cap, rnd):
    """fail-then-use histories: first those in which a command on a handle fails (predicted err) and a later command uses the same handle"""
    def good(h):
        v = [x.split("|") for x in h]
        for i, (verb, arg, tgt, exp) in enumerate(v):
            if tgt.startswith("h") and exp == "err" and any(t == tgt and e in ("ok", "any") for _, _, t, e in v[i + 1:]):
                return True
        return False
    a = [h for h in hists if good(h)]
    b = [h for h in hists if not good(h)]
    rnd.shuffle(a)
    rnd.shuffle(b)
    # every failing shape at least once
    seen, first = set(), []
    for h in a:
        k = frozenset((x.split("|")[0], x.split("|")[1]) for x in h if x.endswith("|err"))
        if not k <= seen:
            seen |= k
            first.append(h)
    rest = [h for h in a if h not in first]
    return (first + rest[:cap * 3 // 4] + b)[:cap]


def sample_histories(hists, cap, rnd):
    """all histories that address a live handle, then histories starting with a successful open, then the rest"""
    def score(h):
        s = 0
        if any("|h" in x for x in h):
            s += 4
        if h[0].startswith("open|ok"):
            s += 2
        if any(x.split("|")[0] in ("stream", "query") and x.endswith("|ok") for x in h):
            s += 1
        return s
    groups = collections.defaultdict(list)
    for h in hists:
        groups[score(h)].append(h)
    picked = []
    quota = {7: cap // 2, 6: cap // 8, 3: cap // 8, 2: cap // 8}
    for sc in sorted(groups, reverse=True):
        g = groups[sc]
        rnd.shuffle(g)
        picked += g[:quota.get(sc, cap // 16)]
    rest = [h for sc in groups for h in groups[sc][quota.get(sc, cap // 16):]]
    rnd.shuffle(rest)
    picked += rest[:max(0, cap - len(picked))]
    return picked[:cap]


def binding_selftest(ctx, cases, v, sw):
    """a trace module that accepts a corrupted trace is a broken check: flip one reply polarity / delete one reply of an
    accepted session and require that TLC rejects both variants"""
    import copy
    for k, evs in cases.items():
        if k in v.violations or k in v.known or evs[0]["hdr"]["src"] != "tlc":
            continue
        pend, target = [], None
        for i, e in enumerate(evs):
            if e["ev"] == "cmd":
                pend.append(e)
            elif e["ev"] == "reply" and pend:
                cm = pend.pop(0)
                if cm["exp"] in ("ok", "err") and cm["verb"] != "unknown" and target is None:
                    target = i
        if target is None:
            continue
        a = copy.deepcopy(evs)
        a[0]["case"] = 0
        a[target]["pol"] = "err" if a[target]["pol"] == "ok" else "ok"
        b = copy.deepcopy(evs)
        b[0]["case"] = 1
        del b[target]
        path = ctx.path("selftest.ndjson")
        with open(path, "w") as f:
            for e in a + b:
                f.write(json.dumps(e) + "\n")
        sv = c.validate_trace(ctx, "selftest", "RemoteTrace.tla", path, sw, timeout=600)
        if sv.violations != {0, 1}:
            raise c.ToolError("binding self-test: corrupted traces accepted by RemoteTrace (%s)" % sv.violations)
        return {"case": k, "corrupted_field_rejected": True, "deleted_event_rejected": True}
    raise c.ToolError("binding self-test: no suitable accepted case")


def driver_args(ctx, binp, adlt, scn, trace, nrand):
    quick = ctx.quick()
    return [binp, "--adlt", adlt, "--work", ctx.work, "--scenarios", scn, "--random", str(nrand), "--seed", str(ctx.seed),
            "--out", trace, "--conns", "12", "--long-max", "120" if quick else "200", "--big", "6000" if quick else "40000",
            "--huge", "560000", "--huge-wait-ms", "5000", "--random-numeric", "10" if quick else "150"] + ([] if quick else ["--all-sizes"])      # > 512 Ki messages: more than the server's bounded channels hold


def check(ctx):
    quick = ctx.quick()
    binp = c.build_harness("c15")
    adlt = c.build_adlt_bin()
    rnd = random.Random(ctx.seed)
    nrand = 45 if quick else 400
    # (a) model checking of the session model (reply table total and consistent, liveness)
    c.tlc_must_pass(ctx, "model", "Remote.tla", "Remote_quick.cfg" if quick else "Remote_thorough.cfg", timeout=3000)
    if not quick:
        c.tlc_must_pass(ctx, "model-full", "Remote.tla", "Remote_thorough_full.cfg", timeout=3000)
    # (b) scenario emission
    hists = []
    plan = [("Remote_emit_quick.cfg", 900), ("Remote_emit_multi.cfg", 200), ("Remote_emit_onepass.cfg", 200),
            ("Remote_emit_numeric.cfg", 400), ("Remote_emit_plugin.cfg", 150), ("Remote_emit_failuse.cfg", 200)] if quick else [("Remote_emit_numeric4.cfg", 3000),
        ("Remote_emit_failuse.cfg", 3000),
        ("Remote_emit_plugin.cfg", 3000),
        ("Remote_emit_full2.cfg", 8000), ("Remote_emit_quick.cfg", 6000), ("Remote_emit_core4.cfg", 6000), ("Remote_emit_multi.cfg", 3000),
        ("Remote_emit_onepass.cfg", 3000)]
    emitted = 0
    for cfg, cap in plan:
        res = c.tlc_must_pass(ctx, "emit-" + cfg.split("_emit_")[1].split(".")[0], "Remote.tla", cfg, timeout=3000)
        hs = letters(res)
        emitted += len(hs)
        if "failuse" in cfg:
            hists += sample_failuse(hs, cap, rnd)
        elif "numeric" in cfg or "plugin" in cfg:
            rnd.shuffle(hs)
            hists += hs[:cap]
        else:
            hists += sample_multi(hs, cap, rnd) if "multi" in cfg else sample_onepass(hs, cap, rnd) if "onepass" in cfg else sample_histories(hs, cap, rnd)
    scn = ctx.path("scenarios.ndjson")
    with open(scn, "w") as f:
        for h in hists:
            f.write(json.dumps(h) + "\n")
    # (c,d) replay on the real binary + scripted + random long histories
    trace = ctx.path("trace.ndjson")
    p = c.run(driver_args(ctx, binp, adlt, scn, trace, nrand), timeout=3000, check=False)
    if p.returncode != 0:
        raise c.ToolError("driver failed: " + (p.stdout or "")[-3000:])
    info = json.loads(p.stdout.strip().splitlines()[-1])
    # (e) TLC validates every session against the contract
    sw = c.kf_switches("C15", KFS)
    v = c.validate_trace(ctx, "remote", "RemoteTrace.tla", trace, sw, timeout=3000, xmx="8g")
    ctx.add_tlc("trace-validation", v.res)
    cases = c.split_cases(trace)
    ncases = len(cases)
    ctx.evaluations = info["cmds"]
    ctx.traces_validated = ncases - len(v.violations)
    ctx.rule = ("a case = one websocket connection with one command history (TLC-enumerated, scripted or seeded random); "
                "evaluations = commands sent; non-trivial = the session reached an open file and at least one command "
                "addressed a stream id; distinct by the sequence of (verb, parameter shape, target kind, reply polarity)")
    seen = set()
    paths = collections.Counter()
    for k, evs in cases.items():
        sig = []
        opened = False
        targeted = False
        pend = collections.deque()
        for e in evs:
            if e["ev"] == "cmd":
                pend.append(e)
            elif e["ev"] == "reply" and pend:
                cm = pend.popleft()
                sig.append((cm["verb"], cm["arg"], cm["tk"], e["pol"]))
                paths["%s/%s/%s" % (cm["verb"], "file" if opened else "nofile", e["pol"])] += 1
                if cm["verb"] == "open" and e["pol"] == "ok":
                    opened = True
                if cm["verb"] == "close" and e["pol"] == "ok":
                    opened = False
                    paths["close_ok"] += 1
                if cm["tk"] == "id" and opened:
                    targeted = True
            elif e["ev"] == "bin":
                paths["bin_DltMsgs" if e["n"] else "query_end_marker"] += 1
            elif e["ev"] in ("async_text", "bin_other", "conn_closed", "timeout"):
                paths[e["ev"]] += 1
        if targeted:
            seen.add(json.dumps(sig))
    ctx.distinct_nontrivial = len(seen)
    ctx.exhaustive = True
    ctx.extra["tlc_histories_emitted"] = emitted
    ctx.extra["tlc_histories_replayed"] = len(hists)
    ctx.extra["random_histories"] = nrand
    ctx.extra["trace_events"] = info["lines"]
    ctx.extra["replayed"] = ncases
    ctx.extra["fast_path"] = 0
    ctx.extra["slow_path"] = ncases
    ctx.extra["drift"] = info["drift"]
    ctx.extra["path_hits"] = dict(sorted(paths.items()))
    ctx.extra["server_panics"] = info["panics"]
    ctx.extra["kf_switches"] = sw
    needed = ["open/nofile/ok", "open/file/err", "close/file/ok", "close/nofile/err", "stream/file/ok", "stop/file/ok",
              "stream_change_window/file/ok", "stream_search/file/ok", "stream_binary_search/file/ok", "query_end_marker", "bin_DltMsgs"]
    missing = [n for n in needed if paths[n] == 0]
    for k in list(cases)[:2] + list(cases)[-3:-1]:
        ctx.add_sample({"case": k, "trace": cases[k][:14]})
    for k, labels in sorted(v.known.items()):
        if k not in v.violations:
            for lab in labels:
                ctx.known(c.kf_text("C15", lab))
    rej = {r[0]: r for r in v.rejected}
    ctx.replay_module = ("RemoteTrace.tla", dict(sw))
    for k in sorted(v.violations):
        r = rej.get(k)
        ctx.violation("case %d rejected by RemoteTrace at line %s: %s" % (k, r[1] if r else "?", r[2] if r else "unfinished"),
                      {"case": k, "trace": cases.get(k), "first_unmatched": r[2] if r else None,
                       "server_panics": info["panics"], "server_stderr": info["stderr"],
                       "how": "bin/check C15 --replay <this file> re-validates the recorded session; the cmd events carry the exact text "
                              "frames sent; re-run with VERIF_SEED=%d bin/check C15 %s (driver option --only-case %d)" % (ctx.seed, ctx.tier, k)})
    if not ctx.violations:          # tool-level sanity only when there is no verdict to report (never masks a violation)
        if missing:
            raise c.ToolError("vacuity: paths never hit: %s" % missing)
        ctx.extra["binding_selftest"] = binding_selftest(ctx, cases, v, sw)
    ctx.assumptions = ["TLC and CommunityModules are correct",
                       "the driver's concretisation table (abstract command -> text) and reply classification are correct",
                       "websocket frames are received in the order the server wrote them",
                       "reply time-outs are 60 s per command"]

# round 6 (DESIGN.md 11.10)
META["technique"] += ' Argument shapes include file-metadata shapes for `fs` (times before 1970 / beyond 2500, symlinks, fifo, non-UTF-8 names) and archive opens whose extraction stays pending for several 100 ms, with every stream verb fired right behind the open.'
