"""X03 (extra area, not a listed property) - the export plugin behind a real lifecycle stage
(spec/ExportPlugin.tla, spec/mc/MCExportPlugin.tla, spec/ExportPluginTrace.tla; driver harness/src/bin/x03.rs)"""
import copy
import json
import os
import subprocess
from . import common as c

META = {
    "property_id": "X03",
    "title": "Export plugin: forwards everything, writes exactly the selected messages of the kept lifecycles",
    "statement": "In a pipeline assembled as adlt assembles it (lifecycle detection feeding the plugin stage through a channel, shared "
                 "lifecycle table), the export plugin hands on every message it receives exactly once, in order and unchanged, and never "
                 "fails: whenever a message reaches it, the message's lifecycle is already listed in the shared table under the "
                 "message's ECU. When the run ends the export file exists exactly if some message was selected; it then holds the "
                 "creation note and one message per non-empty info text, followed by exactly the selected messages, each once, in "
                 "stream order and re-readable with identical ECU, reception time, timestamp, counter, headers and payload, and the "
                 "plugin's reported counts equal the messages seen and written. A message is selected exactly when the plugin is enabled, "
                 "it passes the configured filters (some positive filter or none configured, no negative filter, some event filter or "
                 "none configured; disabled and marker filters ignored), its reception time lies within the configured recorded-time "
                 "bounds (inclusive) and - if lifecycles to keep are configured - its lifecycle is kept; a lifecycle is kept exactly "
                 "when, at the moment its first message arrives, its table entry lies inside a not yet used lifecycle-to-keep of the "
                 "same ECU (start not earlier, end not later; a resumed lifecycle only matches an entry with a resume time less than "
                 "1.9 s from its own, a plain one only an entry without), which is thereby used up.",
    "quantifier": {
        "over": ["inputs", "configurations", "schedules"],
        "text": "all message streams (1..3 ECUs, boots, shrinking buffering delay, suspend/resume, quick reboots, merges and relabelling "
                "in the lifecycle stage, messages with and without extended header / timestamp, both payload byte orders, payloads "
                "0..3 kB, up to ~600 messages, spans < 1350 s) x all configurations (enabled or not; 0..5 filters of every kind over "
                "ECU/APID/CTID, negated, disabled; lifecyclesToKeep absent, empty, taken from a previous run's final lifecycle table, "
                "perturbed by +-1 us at every bound, +-1.9 s at the resume time, other ECU, duplicated, reordered; recorded-time bounds "
                "on and beside message times; info texts incl. empty ones; numbers as JSON numbers or bigint strings) x schedules "
                "(lock-step hand-over and free-running stages with channel capacities 1..8192 and stalls on either side)",
    },
    "technique": "TLC model checking of ExportPlugin.tla (the plugin's process_msg / keep_lifecycle / filter rewrite / lazy file creation "
                 "as coded, composed with an environment model of the lifecycle stage for streams whose lifecycles are published by "
                 "the final publication; the contract as invariant on every finished behaviour) on four bounded universes; every "
                 "finished behaviour replayed on the REAL pipeline (parse_lifecycles_buffered_from_stream -> sync_channel -> "
                 "plugins_process_msgs with the real ExportPlugin, real files re-read with adlt's parser) with TLC's predicted table "
                 "entries, kept lifecycles, written positions, info messages and state counters (prediction fast path, equality only); "
                 "mismatches, a sample and all seeded random runs are validated by TLC against the contract ExportPluginTrace.tla",
    "design_ref": "DESIGN.md section 8 item 4 (export plugin: the consumer side of C06); BUILD_GUIDE.md",
    "level_text": "Exhaustive within bounds on the model: match (1..3 lifecycles of 2 ECUs, lists of 0..2 entries out of 13 incl. every "
                  "+-1 tick combination of both bounds), resume (resumed vs plain lifecycle x entries with/without resume time at "
                  "+-1.8 s / +-1.9 s), filters (0..2 of 9 filters x 3 message kinds x 4 lifecycle lists), window (7 windows x "
                  "enabled x 3 info lists); every behaviour is executed on the real code and must equal the prediction, else TLC "
                  "decides on the recorded run. Random runs extend to real magnitudes (microseconds), long streams, early decisions "
                  "(table entry at the first message differs from the final one) and free-running schedules.",
    "level_note": "Narrower readings: (1) which of several containing lifecycles-to-keep is used up is left open (the code takes the "
                  "first); (2) in free-running schedules the table entry the plugin decides on is not observable, so only 'a lifecycle is "
                  "written as a whole or not at all' and everything that does not depend on the decision is required there; (3) the info "
                  "messages' own header fields (they copy ECU and times of the first exported message) and the creation text beyond its "
                  "fixed prefix are not required; (4) filters are restricted to the ECU/APID/CTID criteria (C11 covers the criteria, "
                  "C12 the set rule); (5) the state of a disabled plugin is not required. NOT claimed: that re-exporting with lifecycles "
                  "picked from a previous run over the same stream reproduces exactly those lifecycles' messages - the early decision "
                  "misses resumed lifecycles whose resume flag / resume time is revised later (measured, see two_pass in the evidence). "
                  "Trusted: TLC, the driver's projection (position tag in the payload, field equality, lifecycle id renumbering, "
                  "microseconds relative to a base), the harness wrapper plugin that delegates to the real plugin.",
}

NSHARD = 4


def drive_shards(binp, args, outprefix, timeout=3000):
    """run the driver in NSHARD processes (cases are sharded by number; case numbers are global) and merge the results"""
    procs = []
    for k in range(NSHARD):
        summ = "%s.summary%d.json" % (outprefix, k)
        if os.path.exists(summ):
            os.remove(summ)
        cmd = [binp] + args + ["--shard", str(k), "--of", str(NSHARD), "--out", "%s.part%d" % (outprefix, k), "--summary", summ]
        # the plugin prints to stdout (println!): the summary goes through a file
        procs.append((k, summ, subprocess.Popen(cmd, stdout=subprocess.DEVNULL, stderr=subprocess.PIPE, text=True, errors="replace")))
    total = None
    for k, summ, p in procs:
        try:
            _, err = p.communicate(timeout=timeout)
        except subprocess.TimeoutExpired as ex:
            for _, _, q in procs:
                q.kill()
            raise c.ToolError("driver timeout") from ex
        if p.returncode != 0 or not os.path.exists(summ):
            raise c.ToolError("driver failed (%s): %s" % (p.returncode, (err or "")[-3000:]))
        s = json.load(open(summ))
        os.remove(summ)
        if total is None:
            total = s
        else:
            for key, v in s.items():
                if isinstance(v, int):
                    total[key] += v
                elif key == "paths":
                    for pk, pv in v.items():
                        total["paths"][pk] = total["paths"].get(pk, 0) + pv
                elif key == "drift_samples":
                    total[key] = (total[key] + v)[:4]
    with open(outprefix, "w") as out:
        for k in range(NSHARD):
            part = "%s.part%d" % (outprefix, k)
            with open(part) as f:
                for line in f:
                    out.write(line)
            os.remove(part)
    return total


def validate_chunked(ctx, name, module, trace, consts, max_lines=30000, timeout=3000):
    """TLC trace validation in chunks of whole cases; verdicts are merged (case numbers are global)"""
    chunks = []
    cur, n, idx = None, 0, 0
    with open(trace) as f:
        for line in f:
            if cur is None or (n >= max_lines and '"ev":"reset"' in line):
                if cur:
                    cur.close()
                idx += 1
                p = "%s.chunk%d" % (trace, idx)
                chunks.append(p)
                cur, n = open(p, "w"), 0
            cur.write(line)
            n += 1
    if cur:
        cur.close()
    merged = None
    tpdiff = set()
    for i, p in enumerate(chunks):
        v = c.validate_trace(ctx, "%s-%d" % (name, i + 1), module, p, consts, timeout=timeout)
        ctx.add_tlc("%s-trace-validation-%d" % (name, i + 1), v.res)
        last = json.loads(json.loads(v.res.printed["VERDICT"][-1]))
        tpdiff |= {int(x) for x in last.get("tpdiff", [])}
        if merged is None:
            merged = v
        else:
            merged.violations |= v.violations
            merged.rejected += v.rejected
            merged.states += v.states
        os.remove(p)
    if merged is None:
        raise c.ToolError("empty trace " + trace)
    merged.tpdiff = tpdiff
    return merged


def binding_selftest(ctx, cases, v):
    """corrupt accepted recorded cases (one field each / one deleted event) and require that TLC rejects every one of them"""
    good = [k for k in sorted(cases) if k not in v.violations and cases[k][-1]["ev"] == "end"]

    def find(pred):
        return next((k for k in good if pred(cases[k])), None)

    def lockcase(evs):
        return evs[0]["hdr"]["mode"] == "lock"

    muts = []
    k1 = find(lambda e: lockcase(e) and sum(1 for x in e if x["ev"] == "wr") >= 2 and e[0]["hdr"]["lcis"] and any(x["ev"] == "proc" and
              not any(w["ev"] == "wr" and w["i"] == x["i"] for w in e) for x in e))
    if k1 is not None:
        t = copy.deepcopy(cases[k1]); w = [x for x in t if x["ev"] == "wr"]; w[0]["i"], w[1]["i"] = w[1]["i"], w[0]["i"]
        muts.append(("two written messages swapped", t))
        t = copy.deepcopy(cases[k1]); w = next(x for x in t if x["ev"] == "wr"); w["same"] = False
        muts.append(("re-read message differs from the original", t))
        t = copy.deepcopy(cases[k1]); i = next(j for j, x in enumerate(t) if x["ev"] == "wr"); del t[i]
        for j, x in enumerate([x for x in t if x["ev"] == "wr"]):
            x["k"] = j + 1
        e = t[-1]; e["st_exp"] -= 1
        muts.append(("a selected message is missing in the file", t))
        t = copy.deepcopy(cases[k1])
        wr = {x["i"] for x in t if x["ev"] == "wr"}
        miss = next(x for x in t if x["ev"] == "proc" and x["i"] not in wr)
        ws = [x for x in t if x["ev"] == "wr"]
        pos = sum(1 for x in ws if x["i"] < miss["i"])
        ins = {"ev": "wr", "k": 0, "i": miss["i"], "same": True}
        idx = t.index(ws[pos]) if pos < len(ws) else len(t) - 1
        t.insert(idx, ins)
        for j, x in enumerate([x for x in t if x["ev"] == "wr"]):
            x["k"] = j + 1
        t[-1]["st_exp"] += 1
        muts.append(("an unselected message is in the file", t))
        t = copy.deepcopy(cases[k1]); t[-1]["st_proc"] += 1
        muts.append(("state reports a wrong number of processed messages", t))
        t = copy.deepcopy(cases[k1]); t[-1]["ninfo"] += 1
        muts.append(("an info message too many", t))
        muts.append(("unchanged (control: must be accepted)", copy.deepcopy(cases[k1])))
    k2 = find(lambda e: lockcase(e) and any(x["ev"] == "out" for x in e))
    if k2 is not None:
        t = copy.deepcopy(cases[k2]); i = next(j for j, x in enumerate(t) if x["ev"] == "out"); del t[i]
        muts.append(("a message never left the plugin stage", t))
        t = copy.deepcopy(cases[k2]); x = next(x for x in t if x["ev"] == "out"); x["intact"] = False
        muts.append(("a forwarded message was changed", t))
        t = copy.deepcopy(cases[k2]); x = next(x for x in t if x["ev"] == "proc"); x["ret"] = False
        muts.append(("the plugin asked to drop a message", t))
        t = copy.deepcopy(cases[k2]); x = next(x for x in t if x["ev"] == "proc"); x["snap"]["ok"] = False
        muts.append(("lifecycle of a delivered message not in the table", t))
        t = copy.deepcopy(cases[k2]); i = next(j for j, x in enumerate(t) if x["ev"] == "proc"); t.insert(i + 1, {"ev": "panic", "where": "process_msg", "msg": "x"})
        muts.append(("panic", t))
    # a kept lifecycle whose entry is moved out of the containing lifecycle-to-keep: the file must no longer be accepted
    k3 = find(lambda e: lockcase(e) and e[0]["hdr"]["enabled"] and e[-1]["st_lcs"] and any(x["ev"] == "wr" for x in e))
    if k3 is not None:
        t = copy.deepcopy(cases[k3])
        kept = t[-1]["st_lcs"][0]
        for x in t:
            if x["ev"] == "proc" and x["lc"] == kept:
                x["snap"]["end"] = 2000000000
        muts.append(("kept lifecycle not contained in any lifecycle-to-keep", t))
    k4 = find(lambda e: not lockcase(e) and e[0]["hdr"]["lcis"] and sum(1 for x in e if x["ev"] == "wr") >= 2)
    if k4 is not None:
        t = copy.deepcopy(cases[k4]); i = next(j for j, x in enumerate(t) if x["ev"] == "wr"); del t[i]
        for j, x in enumerate([x for x in t if x["ev"] == "wr"]):
            x["k"] = j + 1
        t[-1]["st_exp"] -= 1
        lcof = {x["i"]: x["lc"] for x in t if x["ev"] == "proc"}
        gone = lcof[cases[k4][i]["i"]]
        if any(lcof[x["i"]] == gone for x in t if x["ev"] == "wr"):
            muts.append(("free mode: a lifecycle written only in part", t))
    if len(muts) < 10:
        if ctx.violations:
            return {"skipped": "not enough accepted cases to corrupt (run has violations)"}
        raise c.ToolError("binding self-test: not enough accepted cases to corrupt (%d)" % len(muts))
    path = ctx.path("selftest.ndjson")
    with open(path, "w") as f:
        for i, (_, t) in enumerate(muts):
            for e in t:
                e = dict(e)
                if e["ev"] == "reset":
                    e["case"] = i
                f.write(json.dumps(e) + "\n")
    saved = ctx.replay_module
    sv = c.validate_trace(ctx, "selftest", "ExportPluginTrace.tla", path, {}, timeout=600)
    ctx.replay_module = saved
    res = {}
    for i, (what, _) in enumerate(muts):
        rejected = i in sv.violations
        res[what] = "rejected" if rejected else "accepted"
        if rejected != (not what.startswith("unchanged")):
            raise c.ToolError("binding self-test: corrupted trace '%s' was %s by ExportPluginTrace.tla" % (what, res[what]))
    return res


def check(ctx):
    quick = ctx.quick()
    binp = c.build_harness("x03")
    workers = int(os.environ["VERIF_TLC_WORKERS"]) if os.environ.get("VERIF_TLC_WORKERS") else None
    # (a)+(b) model checking (TypeOK, the contract on every finished behaviour) and scenario emission in one run per universe
    fams = ["match", "resume", "filters", "window"]
    scns = []
    for fam in fams:
        res = c.tlc_must_pass(ctx, fam, "mc/MCExportPlugin.tla", "ExportPlugin_%s%s.cfg" % (fam, "_quick" if quick else ""),
                              timeout=3000, workers=workers)
        got = c.scn_lines(res)
        if not got:
            raise c.ToolError("ExportPlugin_%s emitted no scenarios" % fam)
        for s in got:
            s["fam"] = fam
        if any(not s["pred"]["ok"] for s in got):
            raise c.ToolError("the design model violates its own contract in universe %s" % fam)
        scns += got
    scn_path = ctx.path("scenarios.ndjson")
    with open(scn_path, "w") as f:
        for s in scns:
            f.write(json.dumps(s) + "\n")
    # (c, d) replay on the real pipeline + seeded random cases
    tmp = ctx.path("tmp")
    os.makedirs(tmp, exist_ok=True)
    trace = ctx.path("trace.ndjson")
    nrand = 600 if quick else 12000
    info = drive_shards(binp, ["--scenarios", scn_path, "--random", str(nrand), "--seed", str(ctx.seed), "--tmp", tmp,
                               "--sample", "300" if quick else "2000", "--max-len", "60" if quick else "80"], trace)
    # (e) trace validation against the contract
    v = validate_chunked(ctx, "export", "ExportPluginTrace.tla", trace, {})
    cases = c.split_cases(trace)
    rej = {r[0]: r for r in v.rejected}
    for k in sorted(v.violations):
        r = rej.get(k)
        ctx.violation("case %d rejected by ExportPluginTrace at line %s: %s" % (k, r[1] if r else "?", r[2] if r else "unfinished case"),
                      {"case": k, "trace": cases.get(k), "first_unmatched": r[2] if r else None,
                       "module": "ExportPluginTrace.tla", "consts": {},
                       "how": "bin/check X03 quick --replay <this file>"})
    ctx.extra["binding_selftest"] = binding_selftest(ctx, cases, v)
    ctx.evaluations = info["replayed"] + info["random"]
    ctx.traces_validated = info["fast_path"] + len(cases) - len(v.violations)
    nontriv = 0
    for s in scns:
        if s["cfg"]["lcis"] or s["cfg"]["filters"] or s["cfg"]["hasfrom"] or s["cfg"]["hasto"] or not s["cfg"]["enabled"]:
            nontriv += 1
    rseen = set()
    for k, evs in cases.items():
        h = evs[0]["hdr"]
        if h.get("src") == "random" and (h["lcis"] or h["filters"] or h["hasfrom"] or h["hasto"]):
            rseen.add(json.dumps([h["lcis"], h["filters"], h["from"], h["to"], h["n"]], sort_keys=True))
    ctx.distinct_nontrivial = nontriv + len(rseen)
    ctx.rule = ("a case = one message stream run through a fresh pipeline (real lifecycle stage -> channel -> plugins_process_msgs with a "
                "fresh export plugin and a fresh export file); TLC cases = every finished behaviour of the four bounded universes; "
                "non-trivial when the configuration restricts the export (lifecycles to keep, filters, window, disabled); random cases "
                "distinct by configuration and stream length")
    ctx.exhaustive = True
    ctx.extra["replay"] = {k: info[k] for k in ("replayed", "fast_path", "slow_path", "drift", "env_drift", "predicted_not_ok", "cases", "lines")}
    ctx.extra["design_conformance"] = {"steps": info["replayed"], "mismatches": info["drift"], "environment_mismatches": info["env_drift"]}
    ctx.extra["paths"] = info["paths"]
    ctx.extra["drift_samples"] = info.get("drift_samples", [])[:2]
    # contract paths fired (from the recorded traces)
    fired = {"lock_cases": 0, "free_cases": 0, "first_sight_decisions": 0, "kept_lifecycles": 0, "lifecycle_not_kept": 0,
             "written_messages": 0, "selected_but_lifecycle_not_kept": 0, "cases_without_file": 0, "cases_with_info_texts": 0,
             "resumed_lifecycle_kept": 0, "window_excludes_message": 0, "filter_excludes_message": 0, "disabled_plugin": 0,
             "ambiguous_entry_choice": 0, "free_mode_written_messages": 0}
    for k, evs in cases.items():
        h = evs[0]["hdr"]
        fired["lock_cases" if h["mode"] == "lock" else "free_cases"] += 1
        if not h["enabled"]:
            fired["disabled_plugin"] += 1
        end = evs[-1] if evs[-1]["ev"] == "end" else None
        wr = {e["i"] for e in evs if e["ev"] == "wr"}
        fired["written_messages"] += len(wr)
        if h["mode"] != "lock":
            fired["free_mode_written_messages"] += len(wr)
        if end is not None and not end["file"]:
            fired["cases_without_file"] += 1
        if end is not None and end["file"] and h["ninfo"] > 0:
            fired["cases_with_info_texts"] += 1
        seen = set()
        kept = set(end["st_lcs"]) if end is not None else set()
        for e in evs:
            if e["ev"] != "proc":
                continue
            if h["lcis"] and h["mode"] == "lock" and h["enabled"] and e["lc"] not in seen:
                seen.add(e["lc"])
                fired["first_sight_decisions"] += 1
                if e["lc"] in kept:
                    fired["kept_lifecycles"] += 1
                    if e["snap"]["isres"]:
                        fired["resumed_lifecycle_kept"] += 1
                else:
                    fired["lifecycle_not_kept"] += 1
                n_cont = sum(1 for lc in h["lcis"] if lc["ecu"] == e["ecu"] and lc["hasres"] == e["snap"]["isres"]
                             and (e["snap"]["rstart"] if lc["hasres"] else e["snap"]["start"]) >= lc["start"] and e["snap"]["end"] <= lc["end"])
                if n_cont >= 2:
                    fired["ambiguous_entry_choice"] += 1
            if h["enabled"] and e["i"] not in wr:
                if (h["hasfrom"] and e["rx"] < h["from"]) or (h["hasto"] and e["rx"] > h["to"]):
                    fired["window_excludes_message"] += 1
                elif h["lcis"] and e["lc"] not in kept:
                    fired["selected_but_lifecycle_not_kept"] += 1
                elif h["filters"]:
                    fired["filter_excludes_message"] += 1
    ctx.extra["contract_paths"] = fired
    tp = [k for k, evs in cases.items() if evs[0]["hdr"].get("twopass")]
    ctx.extra["two_pass"] = {"cases": len(tp), "file_differs_from_previous_run_lifecycles": len(v.tpdiff & set(tp)),
                             "note": "observation, not part of the contract (see level_note)"}
    need = ["scn_with_lcis", "scn_lc_kept", "scn_lc_not_kept", "scn_resume_lc", "scn_with_filters", "scn_with_window", "scn_disabled",
            "scn_no_file", "rnd_lockstep", "rnd_free", "rnd_with_resume_lc", "rnd_multi_lc", "rnd_early_snapshot_differs_from_final"]
    missing = [k for k in need if not info["paths"].get(k)] + [k for k, n in fired.items() if n == 0]
    ctx.extra["paths_never_exercised"] = missing
    if missing and not ctx.violations:      # (with violations the code may be too broken to reach a path: the verdict stands)
        raise c.ToolError("vacuity: paths never exercised: %s" % missing)
    if info["replayed"] != len(scns) and not ctx.violations:
        raise c.ToolError("driver replayed %d of %d scenarios" % (info["replayed"], len(scns)))
    ks = sorted(cases)
    for k in ks[:1] + ks[len(ks) // 2:len(ks) // 2 + 1] + ks[-1:]:
        ctx.add_sample({"case": k, "trace": cases[k][:10]})
    ctx.assumptions = ["TLC 1.8.0 and CommunityModules are correct",
                       "driver projection is correct: position tag in the payload, field equality, lifecycle ids renumbered by first "
                       "appearance, microseconds relative to a fixed base; the lock-step wrapper only delegates to the real plugin",
                       "lock-step schedule: the lifecycle stage waits until the plugin stage has finished a message, so the table entry "
                       "read by the wrapper is the one the plugin reads",
                       "filters restricted to ECU/APID/CTID criteria; streams shorter than 1350 s with timestamps below 500 s"]
