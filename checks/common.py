"""Shared infrastructure of the adlt verification framework.

Only TLC decides (see DESIGN.md section 2): this module builds the harness from /repo's current working tree,
runs TLC (model checking of design modules, scenario emission, trace validation against contract modules),
keeps the books (evidence, replay files, known findings) and prints the VIOLATION / KNOWN-FINDING lines.

Exit codes of a check: 0 = property held on everything explored, 1 = VIOLATION, 2 = tool error.
"""
import json
import os
import re
import shutil
import subprocess
import sys
import time

VERIF = os.path.dirname(os.path.dirname(os.path.abspath(__file__)))
# the overrides exist only for self-tests against a mutated scratch worktree (bin/mk-scratch); registered commands never set them
REPO = os.environ.get("VERIF_REPO", "/repo")
SPEC = os.path.join(VERIF, "spec")
HARNESS = os.environ.get("VERIF_HARNESS", os.path.join(VERIF, "harness"))
WORK = os.environ.get("VERIF_WORK", os.path.join(VERIF, "work"))
EVIDENCE = os.environ.get("VERIF_EVIDENCE", os.path.join(VERIF, "evidence"))
JARS = "/opt/veriftools/tla/tla2tools.jar:/opt/veriftools/tla/CommunityModules-deps.jar"
NCPU = os.cpu_count() or 4


class ToolError(Exception):
    pass


def log(*a):
    print(*a, file=sys.stderr, flush=True)


# ----------------------------------------------------------------------------------------------- run context
class Ctx:
    def __init__(self, pid, tier, seed):
        self.pid = pid
        self.tier = tier
        self.seed = seed
        self.t0 = time.time()
        self.work = os.path.join(WORK, pid)
        os.makedirs(self.work, exist_ok=True)
        self.replay_dir = os.path.join(self.work, "replay")
        os.makedirs(self.replay_dir, exist_ok=True)
        self.states = 0
        self.transitions = 0
        self.tlc_runs = []
        self.traces_validated = 0
        self.evaluations = 0
        self.distinct_nontrivial = 0
        self.samples = []
        self.extra = {}
        self.assumptions = []
        self.violations = []      # list of dicts {what, replay}
        self.known_hit = []       # list of strings
        self.rule = ""
        self.exhaustive = False
        self.replay_module = None     # (trace module, constants) used by `bin/check Cxx --replay file`

    def path(self, *p):
        return os.path.join(self.work, *p)

    def quick(self):
        return self.tier == "quick"

    def add_tlc(self, name, res):
        self.states += res.distinct
        self.transitions += res.generated
        self.tlc_runs.append({"name": name, "distinct_states": res.distinct, "states_generated": res.generated,
                              "depth": res.depth, "wall_s": round(res.wall, 1), "cmd": res.cmd})

    def add_sample(self, s, cap=6):
        if len(self.samples) < cap:
            self.samples.append(s)

    def violation(self, what, replay_obj):
        n = len(self.violations) + 1
        if n > 5:                      # keep the report readable: 5 replay files, the rest only counted
            self.more_violations = getattr(self, "more_violations", 0) + 1
            return None
        p = os.path.join(self.replay_dir, "%s-%s-%d.json" % (self.pid, self.tier, n))
        with open(p, "w") as f:
            json.dump({"property": self.pid, "what": what, "replay": replay_obj,
                       "trace_module": self.replay_module[0] if self.replay_module else None,
                       "consts": self.replay_module[1] if self.replay_module else None}, f, indent=1, default=str)
        self.violations.append({"what": what, "replay": p})
        return p

    def known(self, what):
        if what not in self.known_hit:
            self.known_hit.append(what)

    def finish(self):
        wall = time.time() - self.t0
        cov = {
            "states": max(self.states, 0),
            "transitions": max(self.transitions, 0),
            "traces_validated_against_impl": self.traces_validated,
            "samples": self.samples if self.samples else ["(none)"],
            "evaluations": self.evaluations,
            "distinct_nontrivial": self.distinct_nontrivial,
            "rule": self.rule,
            "exhaustive": self.exhaustive,
            "tlc_runs": self.tlc_runs,
            "known_findings_hit": self.known_hit,
            "checker_cmd": "bin/check %s %s" % (self.pid, self.tier),
        }
        cov.update(self.extra)
        ev = {
            "property_id": self.pid,
            "tier": self.tier,
            "seed": self.seed,
            "level": "model_checking",
            "coverage": cov,
            "assumptions": self.assumptions,
            "wall_s": round(wall, 2),
            "violations": len(self.violations) + getattr(self, "more_violations", 0),
        }
        os.makedirs(EVIDENCE, exist_ok=True)
        with open(os.path.join(EVIDENCE, self.pid + ".json"), "w") as f:
            json.dump(ev, f, indent=1, default=str)
        for k in self.known_hit:
            print("KNOWN-FINDING: property=%s %s" % (self.pid, k))
        for v in self.violations:
            print("VIOLATION property=%s replay=%s" % (self.pid, v["replay"]))
            log("  ", v["what"])
        sys.stdout.flush()
        log("[%s %s] states=%d transitions=%d traces=%d evaluations=%d violations=%d known=%d wall=%.1fs" % (
            self.pid, self.tier, self.states, self.transitions, self.traces_validated, self.evaluations,
            len(self.violations), len(self.known_hit), wall))
        return 1 if self.violations else 0


# ----------------------------------------------------------------------------------------------- known findings
def load_known_findings(pid):
    """entries of /verif/known_findings.jsonl for property pid with status 'open' (status 'fixed' suppresses nothing)"""
    res = []
    p = os.path.join(VERIF, "known_findings.jsonl")
    if os.path.exists(p):
        for line in open(p):
            line = line.strip()
            if not line or line.startswith("#") or line.startswith("fixed:"):
                continue
            e = json.loads(line)
            if e.get("property") == pid and e.get("status") == "open":
                res.append(e)
    return res


def kf_switches(pid, names):
    """map every known-finding switch name of a trace module to TRUE iff an open finding with that key exists"""
    have = {e["key"] for e in load_known_findings(pid)}
    return {n: (n in have) for n in names}


def kf_text(pid, key):
    for e in load_known_findings(pid):
        if e["key"] == key:
            return e["what"]
    return key


# ----------------------------------------------------------------------------------------------- build
def run(cmd, cwd=None, env=None, timeout=None, check=True, capture=True):
    e = dict(os.environ)
    if env:
        e.update(env)
    t0 = time.time()
    try:
        p = subprocess.run(cmd, cwd=cwd, env=e, timeout=timeout, stdout=subprocess.PIPE if capture else None,
                           stderr=subprocess.STDOUT if capture else None, text=True, errors="replace")
    except subprocess.TimeoutExpired as ex:
        raise ToolError("timeout after %ss: %s" % (timeout, cmd)) from ex
    if check and p.returncode != 0:
        raise ToolError("command failed (%d): %s\n%s" % (p.returncode, cmd, (p.stdout or "")[-4000:]))
    p.wall = time.time() - t0
    return p


def sync_lockfile():
    """the harness resolves adlt's dependencies with adlt's own lock file"""
    src = os.path.join(REPO, "Cargo.lock")
    dst = os.path.join(HARNESS, "Cargo.lock")
    if not os.path.exists(dst):
        shutil.copy(src, dst)


EXTRA_RUSTFLAGS = os.environ.get("VERIF_EXTRA_RUSTFLAGS", "")


def build_harness(binname):
    """(re)build one driver binary against /repo's CURRENT working tree (path dependency), hooks on"""
    sync_lockfile()
    env = {"CARGO_NET_OFFLINE": "true", "VERIF_REPO": REPO}
    if EXTRA_RUSTFLAGS:  # audit builds only (bin/coverage-audit): same cfg as harness/.cargo/config.toml plus the extra flags
        env["RUSTFLAGS"] = "--cfg adlt_verif --check-cfg cfg(adlt_verif) " + EXTRA_RUSTFLAGS
    p = run(["cargo", "build", "--offline", "--bin", binname], cwd=HARNESS, env=env, timeout=1800, check=False)
    if p.returncode != 0:
        raise ToolError("harness build failed (does /repo compile?):\n" + (p.stdout or "")[-6000:])
    return os.path.join(HARNESS, "target", "debug", binname)


def build_adlt_bin():
    """build the adlt binary from /repo's working tree with the hook guard on, into a /verif-owned target dir"""
    tdir = os.path.join(HARNESS, "target")
    env = {"CARGO_NET_OFFLINE": "true", "CARGO_TARGET_DIR": tdir,
           "RUSTFLAGS": ("--cfg adlt_verif --check-cfg cfg(adlt_verif) " + EXTRA_RUSTFLAGS).strip()}
    p = run(["cargo", "build", "--offline", "--bin", "adlt", "--config", "profile.dev.opt-level=1",
             "--config", "profile.dev.debug=false"], cwd=REPO, env=env, timeout=1800, check=False)
    if p.returncode != 0:
        raise ToolError("adlt binary build failed:\n" + (p.stdout or "")[-6000:])
    return os.path.join(tdir, "debug", "adlt")


# ----------------------------------------------------------------------------------------------- TLC
class TlcResult:
    pass


_re_states = re.compile(r"(\d+) states generated, (\d+) distinct states found, (\d+) states left on queue")
_re_depth = re.compile(r"The depth of the complete state graph search is (\d+)")
_re_printed = re.compile(r'^<<"([A-Z_]+)", (.*)>>\s*$')


def tlc(module_path, cfg_path, metadir, workers=None, timeout=1800, xmx="8g", env=None, simulate=None, depth=None,
        deque=False, coverage=False, seed=None, keep_log=None, extra_args=None):
    """run TLC; returns TlcResult with .generated .distinct .depth .printed {tag: [payload strings]} .ok .violation .out"""
    if workers is None:
        workers = max(2, NCPU - 2)
    shutil.rmtree(metadir, ignore_errors=True)
    os.makedirs(metadir, exist_ok=True)
    jopts = ["-XX:+UseParallelGC", "-Xmx" + xmx, "-Xss512m", "-DTLA-Library=" + SPEC]
    if deque:
        jopts.append("-Dtlc2.tool.queue.IStateQueue=StateDeque")
    cmd = ["java"] + jopts + ["-cp", JARS, "tlc2.TLC", "-workers", str(workers), "-metadir", metadir, "-cleanup",
                              "-noGenerateSpecTE", "-config", cfg_path]
    if coverage:
        cmd += ["-coverage", "1"]
    if simulate:
        cmd += ["-simulate", "num=%d" % simulate]
        if depth:
            cmd += ["-depth", str(depth)]
    if seed is not None:
        cmd += ["-seed", str(seed)]
    if extra_args:
        cmd += extra_args
    cmd.append(module_path)
    t0 = time.time()
    p = run(cmd, cwd=os.path.dirname(module_path), env=env, timeout=timeout, check=False)
    out = p.stdout or ""
    if keep_log:
        with open(keep_log, "w") as f:
            f.write(out)
    r = TlcResult()
    r.cmd = " ".join(cmd[:1] + [c for c in cmd[1:] if not c.startswith("-X") and not c.startswith("-D")])
    r.out = out
    r.rc = p.returncode
    r.wall = time.time() - t0
    r.generated = r.distinct = r.depth = 0
    for m in _re_states.finditer(out):
        r.generated, r.distinct = int(m.group(1)), int(m.group(2))
    m = _re_depth.search(out)
    if m:
        r.depth = int(m.group(1))
    r.printed = {}
    for line in out.splitlines():
        m = _re_printed.match(line)
        if m:
            r.printed.setdefault(m.group(1), []).append(m.group(2))
    r.violation = None
    m = re.search(r"Error: Invariant (\S+) is violated", out)
    if m:
        r.violation = m.group(1)
    m2 = re.search(r"Error: (Action property|Temporal properties|Deadlock) .*", out)
    if m2 and not r.violation:
        r.violation = m2.group(0)
    r.finished = ("Model checking completed" in out) or (simulate is not None and "Finished in" in out) or r.violation is not None
    r.ok = r.finished and r.violation is None and p.returncode == 0
    shutil.rmtree(metadir, ignore_errors=True)
    return r


def tlc_must_pass(ctx, name, module, cfg, **kw):
    """model-check a design/contract module; any failure here is a tool/spec error, not a verdict about the code"""
    res = tlc(os.path.join(SPEC, module), os.path.join(SPEC, "mc", cfg), ctx.path("tlc-" + name),
              keep_log=ctx.path("tlc-" + name + ".log"), **kw)
    if not res.ok:
        raise ToolError("TLC run %s did not pass (rc=%s, violation=%s); log: %s\n%s" % (
            name, res.rc, res.violation, ctx.path("tlc-" + name + ".log"), res.out[-3000:]))
    ctx.add_tlc(name, res)
    return res


def scn_lines(res, tag="SCN"):
    """PrintT(<<"SCN", ToJson(x)>>) lines -> python objects"""
    out = []
    for payload in res.printed.get(tag, []):
        out.append(json.loads(json.loads(payload)))
    return out


def tla_value(v):
    if isinstance(v, bool):
        return "TRUE" if v else "FALSE"
    if isinstance(v, int):
        return str(v)
    if isinstance(v, str):
        return '"%s"' % v
    if isinstance(v, (list, tuple)):
        return "<<" + ", ".join(tla_value(x) for x in v) + ">>"
    if isinstance(v, (set, frozenset)):
        return "{" + ", ".join(tla_value(x) for x in sorted(v)) + "}"
    raise ValueError(v)


class Verdict:
    pass


def validate_trace(ctx, name, module, trace_path, consts=None, timeout=1800, xmx="6g"):
    """TLC trace validation: module is a trace module in /verif/spec with in-spec recovery (Reject / SkipRest).
    Returns Verdict: .violations (set of case numbers), .known (dict case->set of kf labels), .rejected (list of
    (case, line, event-text)), .consumed (bool), .states"""
    consts = consts or {}
    ctx.replay_module = (module, dict(consts))
    cfg = ctx.path("trace-%s.cfg" % name)
    with open(cfg, "w") as f:
        f.write("SPECIFICATION Spec\nCHECK_DEADLOCK FALSE\nPOSTCONDITION Accepted\nCONSTRAINT Report\n")
        if consts:
            f.write("CONSTANTS\n")
            for k, v in consts.items():
                f.write("  %s = %s\n" % (k, tla_value(v)))
    res = tlc(os.path.join(SPEC, module), cfg, ctx.path("tlc-trace-" + name), workers=1, timeout=timeout, xmx=xmx,
              env={"TRACE": trace_path}, deque=True, keep_log=ctx.path("tlc-trace-%s.log" % name))
    v = Verdict()
    v.res = res
    v.consumed = "TRACE_NOT_CONSUMED" not in res.out and res.rc == 0 and "VERDICT" in res.printed
    v.violations = set()
    v.known = {}
    v.rejected = []
    if not v.consumed:
        raise ToolError("trace validation %s did not consume the trace (rc=%d); log %s\n%s" % (
            name, res.rc, ctx.path("tlc-trace-%s.log" % name), res.out[-3000:]))
    last = json.loads(json.loads(res.printed["VERDICT"][-1]))
    v.violations = {int(x) for x in last.get("violations", [])}
    for e in last.get("known", []):          # set of [case |-> n, kf |-> "label"]
        v.known.setdefault(int(e["case"]), set()).add(e["kf"])
    for payload in res.printed.get("CASE_REJECTED", []):
        mm = re.match(r'(-?\d+), (\d+), (".*")$', payload, re.S)
        if mm:
            v.rejected.append((int(mm.group(1)), int(mm.group(2)), json.loads(mm.group(3))[:800]))
    v.states = res.distinct
    return v


# ----------------------------------------------------------------------------------------------- traces
def binding_selftest(ctx, name, module, trace_path, consts, corrupt, max_cases=40, skip=()):
    """Binding self-test (DESIGN.md 3.3): take accepted cases of a recorded trace, corrupt one logged field (function
    corrupt(list_of_events) -> bool, returning True if it changed something) and require that TLC now rejects exactly the
    corrupted cases. A trace module that accepts a corrupted trace is a broken check => ToolError."""
    cases = split_cases(trace_path)
    out = ctx.path("selftest-%s.ndjson" % name)
    corrupted = set()
    n = 0
    with open(out, "w") as f:
        for k, evs in cases.items():
            if n >= max_cases:
                break
            if k in skip:
                continue
            evs = json.loads(json.dumps(evs))
            if n % 2 == 0 and corrupt(evs):
                corrupted.add(k)
            n += 1
            for e in evs:
                f.write(json.dumps(e) + "\n")
    saved = ctx.replay_module
    v = validate_trace(ctx, "selftest-" + name, module, out, consts)
    ctx.replay_module = saved
    missed = corrupted - v.violations
    ctx.extra.setdefault("binding_selftest", {})[name] = {"corrupted_cases": len(corrupted), "rejected": len(corrupted & v.violations),
                                                          "uncorrupted_rejected": len(v.violations - corrupted)}
    if missed or not corrupted:
        raise ToolError("binding self-test %s: corrupted cases %s were accepted by %s (or nothing could be corrupted)" % (name, sorted(missed)[:5], module))
    return v


def split_cases(trace_path):
    """ndjson trace -> {case: [lines]} (each case starts with an 'ev':'reset' line)"""
    cases = {}
    cur = None
    for line in open(trace_path):
        line = line.rstrip("\n")
        if not line:
            continue
        o = json.loads(line)
        if o.get("ev") == "reset":
            cur = o["case"]
            cases[cur] = []
        if cur is not None:
            cases[cur].append(o)
    return cases


def replay_file(ctx, path):
    """re-validate the recorded observation of one violating case against its trace module and show TLC's verdict"""
    d = json.load(open(path))
    rp = d.get("replay") or {}
    trace = rp.get("trace")
    d["trace_module"] = d.get("trace_module") or rp.get("module")
    d["consts"] = d.get("consts") or rp.get("consts")
    if not trace or not d.get("trace_module"):
        print(json.dumps(d, indent=1)[:6000])
        print("(this replay file carries no recorded trace; the text above is the complete record)")
        return 0
    tp = ctx.path("replay-trace.ndjson")
    with open(tp, "w") as f:
        for e in trace:
            f.write(json.dumps(e) + "\n")
    v = validate_trace(ctx, "replay", d["trace_module"], tp, d.get("consts") or {})
    for e in trace[:60]:
        print(json.dumps(e)[:300])
    if v.violations:
        for r in v.rejected:
            print("REJECTED by %s at trace line %d: %s" % (d["trace_module"], r[1], r[2]))
        print("VIOLATION property=%s replay=%s" % (ctx.pid, path))
        return 1
    print("accepted by %s (known: %s)" % (d["trace_module"], dict(v.known)))
    return 0


def main_wrapper(pid, fn):
    """entry point of a check module: fn(ctx) does the work"""
    import argparse
    ap = argparse.ArgumentParser()
    ap.add_argument("tier", nargs="?", default=os.environ.get("VERIF_TIER", "quick"), choices=["quick", "thorough"])
    ap.add_argument("--replay", default=None)
    a = ap.parse_args(sys.argv[2:])
    seed = int(os.environ.get("VERIF_SEED", "20261003"))
    ctx = Ctx(pid, a.tier, seed)
    ctx.replay = a.replay
    try:
        if a.replay:
            sys.exit(replay_file(ctx, a.replay))
        fn(ctx)
        rc = ctx.finish()
    except ToolError as ex:
        log("TOOL ERROR in check %s: %s" % (pid, ex))
        rc = 2
    sys.exit(rc)
