"""C10 - time sorting is a permutation, and ordered under bounded delay (spec/Sorter.tla, spec/SorterTrace.tla)"""
import json
import os
from . import common as c

META = {
    "property_id": "C10",
    "technique": "TLC model checking of the sorter design model Sorter.tla (heap, per-ECU sliding delay windows, release "
                 "threshold; invariants threshold >= D, permutation, ordered under the bound) + every complete behaviour of "
                 "the bounded model replayed on the real adlt::utils::buffer_sort_messages (observed output order compared "
                 "with the model's prediction, fast path) + seeded random streams with driver-built and detector-built "
                 "lifecycle tables; every recorded run validated by TLC against the contract SorterTrace.tla, which "
                 "computes each message's calculated time and the bound itself",
    "design_ref": "DESIGN.md section 6, C10 and Appendix I",
    "level_text": "Exhaustive within bounds on the model (2 ECUs, 3 lifecycles in parallel, window 1-3 s, <=3(4,5) messages, "
                  "reception deltas incl. backwards, delays inside/at/beyond the bound, control requests, timestamps beyond "
                  "rx) with zero tolerated unexplained drift between model and code on all those behaviours; random streams "
                  "(<=120(400) messages, 1-4 ECUs, windows 1-5 s, D 0-20 s, ticks of 1 s and 0.1 s) are validated one by "
                  "one by TLC against the property-shaped contract.",
    "level_note": "Trusted: TLC, the driver projection (position tag in the payload, full-field equality = intact). "
                  "A message's identity in the traces is a uid tagged in the payload, independent of its index field; the "
                  "permutation part is checked for every input incl. unset / repeated / per-source index fields. "
                  "Narrow readings: 'ties in original order' is checked only when the index fields increase strictly "
                  "along the input (what one producer in adlt delivers); otherwise only 'ordered by calculated time'; the lifecycle table is complete and fixed before sorting starts "
                  "(the code caches a start time on first sight); the ordering claim is only checked when every message's "
                  "lifecycle is in the table, reception times never decrease and rx - calc <= D for every message "
                  "(evaluated by TLC from the logged fields); outside of that only the permutation part is checked. "
                  "window size 0 is outside the statement (>= 1 s). Calculated times are compared at full us resolution (sub-tick "
                  "scenarios with 50 us ticks and random streams with 1 us ticks: lifecycle starts / reception times off the 0.1 ms "
                  "timestamp grid by 0,1,49,50,99,100,101 us, control requests and capped messages among normal ones). Burst cases (up to 1.2 * 2^20 messages inside the "
                  "buffering window, more than the sorter preallocates) are judged by TLC on a driver-computed summary (count, "
                  "multiset hash in/out, altered messages, first (calc, index) inversion of the output) instead of 10^6 out "
                  "events; the bound is evaluated by TLC from the linear input families; small bursts are additionally "
                  "recorded as full traces (twins) so that the summary scan is tied to TLC's own judgement.",
}

EMIT_QUICK = [("emit", "Sorter_emit.cfg"), ("emit-w1", "Sorter_emit_w1.cfg"), ("emit-dup", "Sorter_emit_dup.cfg"),
              ("emit-sub", "Sorter_emit_sub.cfg")]
EMIT_THOROUGH = EMIT_QUICK + [("emit-back", "Sorter_emit_back.cfg"), ("emit-4", "Sorter_emit_thorough.cfg"),
                              ("emit-w3", "Sorter_emit_w3.cfg"), ("emit-dup2", "Sorter_emit_dup2.cfg")]


def drive(binp, args, out):
    p = c.run([binp, "--out", out] + args, timeout=3000, check=False)
    if p.returncode != 0:
        raise c.ToolError("driver failed: " + (p.stdout or "")[-2000:])
    return json.loads(p.stdout.strip().splitlines()[-1])


def case_stats(cases, bound_of, ordered_of):
    """coverage counters from the recorded traces (information only, never a verdict)"""
    st = {"cases_bound_ok": 0, "cases_outside_bound": 0, "bound_ok_and_reordered": 0, "ctrl_requests": 0,
          "missing_lifecycle_msgs": 0, "cases_with_equal_calc_and_index": 0, "cases_index_not_increasing": 0, "burst_cases_over_2pow20_bound_ok": 0, "burst_max_messages": 0,
          "burst_twins_reordered": 0, "cases_sub_100us_pair_received_reversed_bound_ok": 0, "by_kind": {}, "max_len": 0, "windows": {}, "delays_D": {}}
    for k, evs in cases.items():
        h = evs[0]["hdr"]
        st["by_kind"][h["kind"]] = st["by_kind"].get(h["kind"], 0) + 1
        st["max_len"] = max(st["max_len"], len(h["msgs"]))
        st["windows"][str(h["W"])] = st["windows"].get(str(h["W"]), 0) + 1
        dsec = h["D"] * h["tick_us"] // 1000000
        st["delays_D"][str(dsec)] = st["delays_D"].get(str(dsec), 0) + 1
        ids = {t["id"] for t in h["table"]}
        st["ctrl_requests"] += sum(1 for m in h["msgs"] if m["ctrl"])
        st["missing_lifecycle_msgs"] += sum(1 for m in h["msgs"] if m["lc"] not in ids)
        order = [e["uid"] for e in evs[1:] if e["ev"] == "out"]
        b = bound_of.get(k)
        if h["kind"] == "burst":
            st["burst_max_messages"] = max(st["burst_max_messages"], h["n"])
            st["burst_cases_over_2pow20_bound_ok"] += 1 if (h["n"] > 2 ** 20 and b) else 0
        if h["kind"] == "burst-twin" and b and order != sorted(order):
            st["burst_twins_reordered"] += 1
        # (coverage only) does the input contain two messages with equal calculated time AND equal index field?
        start = {t["id"]: t["start"] for t in h["table"]}
        keys = [((m["rx"] if m["ctrl"] else min(start[m["lc"]] + m["ts"], m["rx"])), m["index"]) for m in h["msgs"] if m["lc"] in start]
        if len(set(keys)) < len(keys):
            st["cases_with_equal_calc_and_index"] += 1
        # (coverage only) two calculated times inside one 0.1 ms bucket, different, the later one received first
        if b and h["tick_us"] < 100 and len(keys) == len(h["msgs"]):
            us = [kk[0] * h["tick_us"] for kk in keys]
            if any(us[i] > us[j] and us[i] // 100 == us[j] // 100 for i in range(len(us)) for j in range(i + 1, min(len(us), i + 12))):
                st["cases_sub_100us_pair_received_reversed_bound_ok"] += 1
        if not ordered_of.get(k, True):
            st["cases_index_not_increasing"] += 1
        if b:
            st["cases_bound_ok"] += 1
            if order != sorted(order):
                st["bound_ok_and_reordered"] += 1
        else:
            st["cases_outside_bound"] += 1
    return st


def binding_selftest(ctx, cases, bound_of, ordered_of, accepted):
    """corrupt accepted traces (swap two outputs of a bound-ok case, delete an output, duplicate one, flip `intact`) and
    require that TLC rejects every corrupted copy while the untouched copy is still accepted"""
    pick = [k for k in sorted(cases) if k in accepted and bound_of.get(k) and ordered_of.get(k) and sum(1 for e in cases[k] if e["ev"] == "out") >= 2][:3]
    if not pick:
        raise c.ToolError("binding self-test: no accepted bound-ok case with two outputs")
    out, expect_rej, expect_ok, n = [], set(), set(), 0
    for k in pick:
        evs = cases[k]
        outs = [i for i, e in enumerate(evs) if e["ev"] == "out"]
        variants = {"control": list(evs)}
        v = list(evs); v[outs[0]], v[outs[1]] = v[outs[1]], v[outs[0]]; variants["swap"] = v
        v = list(evs); del v[outs[-1]]; variants["delete"] = v
        v = list(evs); v.insert(outs[1], dict(evs[outs[0]])); variants["duplicate"] = v
        v = list(evs); v[outs[0]] = dict(evs[outs[0]], intact=False); variants["altered"] = v
        for name, vv in variants.items():
            hdr = dict(vv[0], case=n)
            out.append(hdr)
            out.extend(vv[1:])
            (expect_ok if name == "control" else expect_rej).add(n)
            n += 1
    for k in [k for k in sorted(cases) if k in accepted and cases[k][0]["hdr"]["kind"] == "burst" and bound_of.get(k)][-1:]:
        evs = cases[k]
        bi = [i for i, e in enumerate(evs) if e["ev"] == "burst_out"][0]
        variants = {"control": list(evs)}
        for name, ch in (("inversion", {"first_inv": 17}), ("lost", {"count": evs[bi]["count"] - 1}),
                         ("other-multiset", {"hash": (evs[bi]["hash"] + 1) % 2147483647}), ("altered", {"not_intact": 1})):
            v = list(evs); v[bi] = dict(evs[bi], **ch); variants[name] = v
        v = list(evs); del v[bi]; variants["no-summary"] = v
        for name, vv in variants.items():
            out.append(dict(vv[0], case=n))
            out.extend(vv[1:])
            (expect_ok if name == "control" else expect_rej).add(n)
            n += 1
    path = ctx.path("selftest.ndjson")
    with open(path, "w") as f:
        for e in out:
            f.write(json.dumps(e) + "\n")
    v = c.validate_trace(ctx, "selftest", "SorterTrace.tla", path)
    if v.violations != expect_rej:
        raise c.ToolError("binding self-test failed: SorterTrace rejected %s, expected %s" % (sorted(v.violations), sorted(expect_rej)))
    ctx.extra["binding_selftest"] = {"corrupted_rejected": len(expect_rej), "controls_accepted": len(expect_ok)}


def check(ctx):
    quick = ctx.quick()
    binp = c.build_harness("c10")
    trace = ctx.path("trace.ndjson")
    # (a) model checking of the design module: threshold >= D, permutation, ordered under the bound
    res = c.tlc_must_pass(ctx, "design", "mc/MCSorter.tla", "Sorter_quick.cfg" if quick else "Sorter_thorough.cfg", timeout=3000)
    c.tlc_must_pass(ctx, "design-dup", "mc/MCSorter.tla", "Sorter_dup.cfg", timeout=3000)     # index field never assigned (all 0)
    c.tlc_must_pass(ctx, "design-sub", "mc/MCSorter.tla", "Sorter_sub.cfg", timeout=3000)     # 50 us ticks, lifecycles off the timestamp grid
    # (b) scenario emission: every complete behaviour of the bounded models, with predicted output and contract verdict
    scn = ctx.path("scenarios.ndjson")
    nscn = 0
    cov_dup = 0
    cov = {"roll": 0, "lc_switch": 0, "capped": 0, "ctrl": 0, "bound": 0, "not_bound": 0, "contract_not_ok": 0, "len_ge2": 0}
    with open(scn, "w") as f:
        for name, cfg in (EMIT_QUICK if quick else EMIT_THOROUGH):
            r = c.tlc_must_pass(ctx, name, "mc/MCSorter.tla", cfg, timeout=3000)
            for s in c.scn_lines(r):
                f.write(json.dumps(s) + "\n")
                nscn += 1
                cov_dup += s.get("index_mode") != "pos"
                ms = s["msgs"]
                cov["roll"] += any(m["roll"] for m in ms)
                cov["lc_switch"] += any(m["sw"] for m in ms)
                cov["capped"] += any(m["capped"] for m in ms)
                cov["ctrl"] += any(m["ctrl"] for m in ms)
                cov["bound" if s["bound"] else "not_bound"] += 1
                cov["contract_not_ok"] += 0 if s["contract_ok"] else 1
                cov["len_ge2"] += len(ms) >= 2
            r.out = ""
            r.printed = {}
    cov["dup_index"] = cov_dup
    for k in ("roll", "lc_switch", "capped", "ctrl", "bound", "not_bound", "dup_index"):
        if cov[k] == 0:
            raise c.ToolError("vacuous scenario set: no TLC scenario exercises path '%s'" % k)
    # (c,d) replay on the real code (prediction fast path) + random streams (always traced)
    nrand, ndet, maxlen = (1500, 300, 120) if quick else (8000, 2000, 400)
    ndup = 600 if quick else 3000
    info = drive(binp, ["--scenarios", scn, "--sample-every", str(max(1, nscn // (400 if quick else 2000))), "--random", str(nrand), "--det", str(ndet), "--dup", str(ndup), "--subtick", "400" if quick else "3000", "--burst", "4", "--nowriter", "60" if quick else "400",
                        "--seed", str(ctx.seed), "--max-len", str(maxlen)], trace)
    # (e) TLC validates every recorded run against the contract
    v = c.validate_trace(ctx, "sorter", "SorterTrace.tla", trace, timeout=3000)
    bound_of, ordered_of = {}, {}
    for payload in v.res.printed.get("BOUND", []):
        k, b, o = payload.split(", ")
        bound_of[int(k)] = (b.strip() == "TRUE")
        ordered_of[int(k)] = (o.strip() == "TRUE")
    v.res.out = ""
    ctx.add_tlc("trace-validation", v.res)
    cases = c.split_cases(trace)
    ctx.evaluations = info["replayed"] + info["random"] + info["det"] + info["dup"] + info["subtick"] + info["nowriter"] + 2 * 4 + len(info["burst_sizes"])
    ctx.traces_validated = info["cases"] - len(v.violations)
    ctx.rule = ("a case = one call of buffer_sort_messages on one (stream, lifecycle table, window, D); TLC scenarios: every "
                "complete behaviour of the bounded Sorter models, executed on the real code, judged by the model-checked "
                "contract verdict when observation = prediction (fast path) and by TLC trace validation otherwise / when "
                "sampled; random cases always by trace validation; non-trivial = at least two messages (an ordering "
                "decision exists); distinct by construction for TLC scenarios (distinct histories) and by header for traces")
    seen = set()
    for k, evs in cases.items():
        h = evs[0]["hdr"]
        if h["kind"] != "scn" and len(h["msgs"]) >= 2:
            seen.add(json.dumps([h["W"], h["D"], h["table"], h["msgs"]], sort_keys=True))
    ctx.distinct_nontrivial = cov["len_ge2"] + len(seen)
    ctx.exhaustive = True
    for k in ("replayed", "fast_path", "slow_path", "drift", "drift_dup_index", "drift_untraced", "sampled", "random", "det", "det_skipped", "dup", "subtick", "nowriter"):
        ctx.extra[k] = info[k]
    ctx.extra["design_conformance"] = {"steps": info["replayed"], "mismatches": info["drift"],
                                       "expected_tie_order_drifts_with_repeated_index": info["drift_dup_index"]}
    ctx.extra["tlc_scenarios"] = nscn
    ctx.extra["scenario_paths"] = cov
    st = case_stats(cases, bound_of, ordered_of)
    ctx.extra["trace_paths"] = st
    ctx.extra["trace_events"] = info["lines"]
    ks = list(cases)
    for k in ks[:2] + ks[-2:]:
        smp = {"case": k, "hdr": dict(cases[k][0]["hdr"]), "events": cases[k][1:10]}
        smp["hdr"]["msgs"] = smp["hdr"]["msgs"][:8]
        ctx.add_sample(smp)
    if not v.violations:      # vacuity / self-test failures are tool errors; they never mask a verdict
        if (st["bound_ok_and_reordered"] == 0 or st["cases_outside_bound"] == 0 or st["ctrl_requests"] == 0
                or st["cases_with_equal_calc_and_index"] == 0 or st["burst_cases_over_2pow20_bound_ok"] == 0
                or st["burst_twins_reordered"] == 0 or st["cases_sub_100us_pair_received_reversed_bound_ok"] == 0):
            raise c.ToolError("vacuous traces: %s" % st)
        binding_selftest(ctx, cases, bound_of, ordered_of, set(cases))
    rej = {r[0]: r for r in v.rejected}
    for k in sorted(v.violations):
        r = rej.get(k)
        ctx.violation("case %d rejected by SorterTrace at line %s: %s (bound_ok=%s)" % (
            k, r[1] if r else "?", r[2] if r else "unfinished", bound_of.get(k)),
            {"case": k, "trace": cases.get(k), "first_unmatched": r[2] if r else None, "bound_ok": bound_of.get(k),
             "how": "bin/check C10 --replay <this file> re-validates this recorded trace; to re-run the case on the code: harness/target/debug/c10 --scenarios <file with {w,d,table,msgs,out:[],contract_ok:false,tick_us,base,kind} taken from hdr>"})
    ctx.assumptions = ["TLC and CommunityModules are correct",
                       "driver projection (payload position tag, full-field equality) is correct",
                       "times are on a 1 s / 0.1 s grid relative to a fixed base (all comparisons in the code are linear)",
                       "the lifecycle table is complete before sorting starts (static table)"]
