"""C11 - a filter matches exactly the conjunction of its criteria, via every front-end
(spec/Filter.tla, spec/mc/MCFilter.tla, spec/FilterTrace.tla)"""
import json
import os
from . import common as c

META = {
    "property_id": "C11",
    "technique": "TLC model checking of Filter.tla on the bounded universe of MCFilter.tla (every enumerated (filter, message) "
                 "pair, invariants = what the statement says about Match) + TLC-enumerated (filter, messages, predicted "
                 "decisions) scenarios replayed on the real Filter::matches through every front-end that can express the "
                 "filter (JSON with/without ...IsRegex keys, DLF alone with every element / DLF with only its own elements as "
                 "2nd or 3rd filter of a file after fully specified other filters, dlt-convert list, "
                 "ECU:APID:CTID through the `adlt convert --eac` binary, public fields) incl. the to_json/from_json round "
                 "trip; messages with real payloads (all verbose argument kinds, non-verbose data) whose text is the one the code base "
                 "renders, with search texts cut out of that text (lengths below, equal to, above the raw payload length; plain, "
                 "ignore-case, regex, negated; JSON, DLF, public fields, the stream filter; text rendered on demand / already present); "
                 "observations that differ from TLC's prediction, a random sample of the others and seeded random "
                 "filters/messages are validated by TLC against the contract FilterTrace.tla",
    "design_ref": "DESIGN.md section 6, C11",
    "level_text": "Exhaustive within bounds on the model: every criterion alone over its full variant set x the full field "
                  "universe (ids of length 1..4 over a 2(3)-letter alphabet incl. short/over-long literals and 5 regex classes, "
                  "all 256 type bytes, both extended-header cases, 8 texts differing in case, lifecycle ids), all pairs "
                  "(thorough: also triples) of criteria over reduced sets, negation, enabled; every such (filter, message) "
                  "pair executed on the real code through every expressible front-end and compared with TLC's prediction.",
    "level_note": "Trusted: TLC, the driver's concretisation (token -> ASCII maps, front-end renderers; its regex syntax is "
                  "checked against the specification's Syn operator). Narrowed: messages without lifecycle are not put to a "
                  "non-empty lifecycle list; empty id/payload strings, ids with non-printable bytes, '-' in dlt-convert ids "
                  "and un-decodable payloads are outside the enumerated domain; `not` and case-insensitive literals cannot "
                  "be built through public fields; the ECU:APID:CTID front-end is observed through one `adlt convert` run per "
                  "filter (a seeded subset in quick). Bounded: combinations of more than 2 (3) criteria are only sampled. "
                  "At most 12 prediction-differing events per case and signature and at most 150 differing cases per front-end "
                  "family are handed to TLC (the rest is counted in drift_not_written_cap / deviating_cases_not_written_family_cap): "
                  "the verdict needs only some, and a tree that deviates everywhere is answered quickly.",
}

KFS = ["KF_C11_DlfIgnoreCase", "KF_C11_ToJsonDropsType"]


def kf_consts():
    """switches of the known-finding deviation actions; VERIF_C11_KF=none|all exists only for the self-tests of this check"""
    sw = c.kf_switches("C11", KFS)
    o = os.environ.get("VERIF_C11_KF")
    if o == "none":
        sw = {k: False for k in KFS}
    elif o == "all":
        sw = {k: True for k in KFS}
    elif o:
        sw = {k: (k in o.split(",")) for k in KFS}
    return sw


def known_cases(v):
    """FilterTrace prints a KF_USED line for every deviation action it takes (instead of keeping them in the state)"""
    import re
    for payload in v.res.printed.get("KF_USED", []):
        mm = re.match(r'(-?\d+), "(.*)"$', payload)
        if mm:
            v.known.setdefault(int(mm.group(1)), set()).add(mm.group(2))


def drive(binp, args, out):
    p = c.run([binp, "--out", out] + args, timeout=3000, check=False)
    if p.returncode != 0:
        raise c.ToolError("driver failed (%d): %s" % (p.returncode, (p.stdout or "")[-3000:]))
    return json.loads(p.stdout.strip().splitlines()[-1])


def nspec(f):
    return sum(1 for k in ("ecu", "apid", "ctid", "type", "pay", "lcs") if f[k]["k"] != "none") + (f["lmin"] >= 0) + (f["lmax"] >= 0)


def replay(ctx):
    """bin/check C11 --replay <file>: validate the recorded case again and print what TLC says"""
    obj = json.load(open(ctx.replay))["replay"]
    trace = ctx.path("replay-trace.ndjson")
    with open(trace, "w") as f:
        for e in obj["trace"]:
            f.write(json.dumps(e) + "\n")
    v = c.validate_trace(ctx, "replay", "FilterTrace.tla", trace, kf_consts(), timeout=600)
    known_cases(v)
    for e in obj["trace"]:
        print(json.dumps(e))
    print("rejected:", v.rejected, "known:", v.known)
    for k in sorted(v.violations):
        ctx.violation("replayed case %d rejected by FilterTrace" % k, obj)


def binding_selftest(ctx, cases, v, sw):
    """corrupt an accepted trace (flip a decision, flip a round-trip result, drop the end event): TLC must reject each"""
    good = [k for k in cases if k not in v.violations and k not in v.known
            and any(e["ev"] == "decide" for e in cases[k]) and any(e["ev"] == "roundtrip" for e in cases[k]) and cases[k][-1]["ev"] == "end"]
    if not good and v.violations:
        return {"skipped": "no accepted case to corrupt (every candidate case was rejected)"}
    if not good:
        raise c.ToolError("binding self-test: no accepted case with decide and roundtrip events")
    base = cases[good[0]]
    variants = []
    for n, mut in enumerate(("decide", "roundtrip", "drop_end", "unchanged")):
        evs = [json.loads(json.dumps(e)) for e in base]
        evs[0]["case"] = n
        if mut == "decide":
            e = next(e for e in evs if e["ev"] == "decide")
            e["result"] = not e["result"]
        elif mut == "roundtrip":
            e = next(e for e in evs if e["ev"] == "roundtrip")
            e["after"] = not e["after"]
        elif mut == "drop_end":
            evs = evs[:-1]
        variants.append(evs)
    # the unchanged copy goes first... and last, so that a dropped `end` is followed by a reset
    order = [variants[3], variants[0], variants[1], variants[2], [dict(variants[3][0], case=4)] + variants[3][1:]]
    path = ctx.path("selftest-trace.ndjson")
    with open(path, "w") as f:
        for evs in order:
            for e in evs:
                f.write(json.dumps(e) + "\n")
    r = c.validate_trace(ctx, "selftest", "FilterTrace.tla", path, sw, timeout=600)
    known_cases(r)
    if r.violations != {0, 1, 2}:
        raise c.ToolError("binding self-test failed: corrupted cases 0,1,2 must be rejected and the unchanged ones accepted, got %s" % sorted(r.violations))
    return {"corrupted_rejected": 3, "unchanged_accepted": 2, "base_case": good[0]}


def check(ctx):
    if getattr(ctx, "replay", None):
        return replay(ctx)
    quick = ctx.quick()
    tier = "quick" if quick else "thorough"
    binp = c.build_harness("c11")
    adlt = c.build_adlt_bin()
    # (a) model checking: every (filter, message) pair of the bounded universe against the invariants
    c.tlc_must_pass(ctx, "mc", "mc/MCFilter.tla", "MCFilter_%s.cfg" % tier, timeout=3000)
    # (b) scenario emission: one line per filter with its messages and the predicted decisions
    res = c.tlc_must_pass(ctx, "emit", "mc/MCFilter.tla", "MCFilter_emit_%s.cfg" % tier, timeout=3000)
    scn = ctx.path("scenarios.ndjson")
    n_scn = n_pairs = n_nontrivial = 0
    fes = {}
    vmm_seen = set()
    noext = neg_pairs = neg_match = disabled = 0
    kinds = {}
    with open(scn, "w") as f:
        for payload in res.printed.get("SCN", []):
            line = json.loads(payload)
            f.write(line + "\n")
            s = json.loads(line)
            n_scn += 1
            n = len(s["ms"])
            n_pairs += n
            ff = s["f"]
            if nspec(ff) >= 1 and ff["enabled"]:
                n_nontrivial += n
            for fe in s["fes"]:
                fes[fe] = fes.get(fe, 0) + n
            if ff["type"]["k"] != "none" or ff["lmin"] >= 0 or ff["lmax"] >= 0:
                vmm_seen.update(m["m"]["vmm"] for m in s["ms"] if m["m"]["ext"])
            noext += sum(1 for m in s["ms"] if not m["m"]["ext"])
            if ff["not"]:
                neg_pairs += n
                neg_match += sum(1 for m in s["ms"] if m["exp"])
            if not ff["enabled"]:
                disabled += n
            for k in ("ecu", "apid", "ctid", "pay"):
                if ff[k]["k"] != "none":
                    key = "%s:%s%s" % (k, ff[k]["k"], (":" + ff[k]["cls"]) if ff[k]["cls"] else "")
                    kinds[key] = kinds.get(key, 0) + n
            if ff["type"]["k"] != "none":
                kinds["type:" + ff["type"]["k"]] = kinds.get("type:" + ff["type"]["k"], 0) + n
            for k in ("lmin", "lmax"):
                if ff[k] >= 0:
                    kinds[k] = kinds.get(k, 0) + n
            if ff["lcs"]["k"] != "none":
                kinds["lcs"] = kinds.get("lcs", 0) + n
    res.out = ""
    res.printed = {}
    if n_scn == 0:
        raise c.ToolError("TLC emitted no scenarios")
    missing = [fe for fe in ("json", "jsona", "dlf", "dlfa", "conv", "eac", "api") if not fes.get(fe)]
    if missing or len(vmm_seen) != 256:
        raise c.ToolError("vacuity: front-ends without scenario %s, type bytes covered %d/256" % (missing, len(vmm_seen)))
    # (c,d) replay on the real code + seeded random cases
    trace = ctx.path("trace.ndjson")
    tmp = ctx.path("tmp")
    os.makedirs(tmp, exist_ok=True)
    nrand = 500 if quick else 2500
    info = drive(binp, ["--scenarios", scn, "--seed", str(ctx.seed), "--random", str(nrand), "--random-msgs", "10" if quick else "12",
                        "--random-eac", "30" if quick else "300", "--sample", "200" if quick else "600",
                        "--adlt", adlt, "--tmp", tmp, "--eac-max", "80" if quick else "1500",
                        "--nchars", "3" if quick else "4", "--drift-cap", "12", "--family-cap", "150",
                        "--real-payload", "10" if quick else "30"], trace)
    st = info["stats"]
    for k in ("cases_binary_eac", "cases_binary_conv", "cases_binary_dlf"):
        if not st.get(k):
            raise c.ToolError("vacuity: no case through the adlt binary of kind %s" % k)
    if not st.get("cases_dlfa") or not st.get("cases_dlf"):
        raise c.ToolError("vacuity: no DLF case (alone with all elements / minimal after fully specified other filters)")
    # (e) TLC validates every recorded case against the contract (strict or with the known-finding deviations)
    sw = kf_consts()
    v = c.validate_trace(ctx, "filter", "FilterTrace.tla", trace, sw, timeout=3000, xmx="8g")
    ctx.add_tlc("trace-validation", v.res)
    if "DOMAIN_ERROR" in v.res.printed:
        raise c.ToolError("driver left the domain of a front-end: %s" % v.res.printed["DOMAIN_ERROR"][0][:600])
    known_cases(v)
    cases = c.split_cases(trace)
    ctx.evaluations = st.get("events_observed", 0)
    ctx.traces_validated = info["cases_written"] - len(v.violations)
    ctx.distinct_nontrivial = n_nontrivial
    ctx.rule = ("an evaluation = one decision of the real code (Filter::matches of a filter built through one front-end, or of its "
                "to_json/from_json image, or the selection made by `adlt convert --eac`) on one message; a trace = one "
                "(front-end, filter) case whose recorded events TLC accepted; non-trivial = distinct TLC-enumerated (filter, "
                "message) pairs whose filter is enabled and has at least one criterion (each is executed through every "
                "expressible front-end)")
    ctx.exhaustive = True
    ctx.extra["replayed"] = st.get("fast_path", 0) + st.get("drift", 0)
    ctx.extra["fast_path"] = st.get("fast_path", 0)
    ctx.extra["slow_path"] = st.get("slow_path", 0)
    ctx.extra["drift"] = st.get("drift", 0)
    ctx.extra["tlc_filters"] = n_scn
    ctx.extra["tlc_filter_message_pairs"] = n_pairs
    ctx.extra["pairs_per_front_end"] = fes
    ctx.extra["driver_stats"] = st
    evk = {}
    for evs in cases.values():
        for e in evs:
            evk[e["ev"]] = evk.get(e["ev"], 0) + 1
    # messages with real payloads: search texts cut out of the text the code base renders, both states of the message text
    real = {"cases": 0, "cases_via_filter_as_streams": 0, "decides_text_rendered_on_demand": 0, "decides_text_already_present": 0,
            "plain_search_text_longer_than_raw_payload_contained_on_demand": 0, "plain_search_text_longer_than_raw_payload_contained_present": 0,
            "search_text_longer_than_raw_payload": 0, "negated": 0, "ignore_case": 0, "regex": 0, "front_ends": {}}
    for evs in cases.values():
        h = evs[0]["hdr"]
        if h.get("src") != "real-payload":
            continue
        f = h["f"]
        real["cases"] += 1
        real["cases_via_filter_as_streams"] += h.get("via") == "filter_as_streams"
        real["front_ends"][h["fe"]] = real["front_ends"].get(h["fe"], 0) + 1
        real["negated"] += f["not"]
        real["ignore_case"] += f["pay"]["ic"]
        real["regex"] += f["pay"]["k"] == "re"
        for e in evs:
            if e["ev"] != "decide":
                continue
            real["decides_text_already_present" if e["cached"] else "decides_text_rendered_on_demand"] += 1
            if len(f["pay"]["w"]) > e["raw_len"]:
                real["search_text_longer_than_raw_payload"] += 1
                # coverage statistic about the inputs only (the verdict is TLC's): the search text occurs in the rendered text
                if f["pay"]["k"] == "sub" and not f["pay"]["ic"] and h["needle"] in h["msgs"][e["mi"]]["rendered"]:
                    real["plain_search_text_longer_than_raw_payload_contained_" + ("present" if e["cached"] else "on_demand")] += 1
    for need in ("cases_via_filter_as_streams", "plain_search_text_longer_than_raw_payload_contained_on_demand",
                 "plain_search_text_longer_than_raw_payload_contained_present", "negated", "ignore_case", "regex"):
        if not real[need]:
            raise c.ToolError("vacuity: real-payload cases: no %s" % need)
    for fe in ("json", "dlf", "dlfa", "api"):
        if not real["front_ends"].get(fe):
            raise c.ToolError("vacuity: no real-payload case through front-end %s" % fe)
    ctx.extra["real_payload"] = dict(real, messages=st.get("real_msgs", 0), messages_text_longer_than_raw=st.get("real_msgs_text_longer_than_raw", 0),
                                     messages_skipped=st.get("real_msgs_skipped_text_not_printable_ascii", 0) + st.get("real_msgs_skipped_text_not_rendered", 0))
    ctx.extra["paths"] = {"type_bytes_covered": len(vmm_seen), "dlf_cases_minimal_filter_after_fuller_filters": st.get("cases_dlfa", 0),
                          "dlf_cases_alone_all_elements": st.get("cases_dlf", 0),
                          "cases_through_adlt_convert": {k: st.get("cases_binary_" + k, 0) for k in ("eac", "conv", "dlf")}, "pairs_without_ext_header": noext, "pairs_negated": neg_pairs, "pairs_negated_matching": neg_match,
                          "pairs_disabled": disabled, "pairs_per_criterion_form": kinds, "trace_events": evk,
                          "kf_switches": sw, "kf_cases": sum(1 for k in v.known)}
    ctx.extra["binding_selftest"] = binding_selftest(ctx, cases, v, sw)
    for need in ("decide", "roundtrip", "end"):
        if not evk.get(need):
            raise c.ToolError("vacuity: no `%s` event was validated" % need)
    for k in list(cases)[:1] + [k for k in cases if cases[k][0]["hdr"]["fe"] == "eac"][:1] + [k for k in cases if cases[k][0]["hdr"].get("src") == "random"][:2]:
        ctx.add_sample({"case": k, "trace": cases[k][:4]})
    rej = {}
    for r in v.rejected:
        rej.setdefault(r[0], r)
    for k in sorted(v.violations):
        r = rej.get(k)
        h = cases[k][0]["hdr"] if k in cases else {}
        ctx.violation("case %d (front-end %s, loaded from %s) rejected by FilterTrace at line %s: %s" % (
            k, h.get("fe"), (h.get("text") or "")[:300], r[1] if r else "?", r[2] if r else "unfinished"),
            {"case": k, "trace": cases.get(k), "first_unmatched": r[2] if r else None, "how": "bin/check C11 --replay <this file>"})
    used = set()
    for k, labels in v.known.items():
        if k not in v.violations:
            used.update(labels)
    for label in sorted(used):
        ctx.known(c.kf_text("C11", label))
    ctx.assumptions = ["TLC 1.8.0 and CommunityModules are correct",
                       "the driver's concretisation and front-end renderers are correct (regex syntax cross-checked with the specification)",
                       "log level bounds compare MTIN arithmetically for every MTIN 0..15 of a log message (MSTP 0)",
                       "regex classes are limited to contains / prefix / suffix / alternation / any-char over letters"]

# round 6 (DESIGN.md 11.10)
META["technique"] += ' Payload regex classes include three that start with a group modifier (non-capturing alternation, flag group, named group); DLF payload texts include blanks at their edges.'
