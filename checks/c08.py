"""C08 - cleanly separated power cycles are detected exactly"""
from . import lc_common as lc

META = {
    "property_id": "C08",
    "technique": "TLC model checking of CleanBoots.tla = clean-boot environment composed with LcDetector.tla (invariant ExactOutsideKF over all "
                 "boots/delays/off-times/arrival orders in bounds) + replay of TLC-generated clean traces and seeded random clean traces on the real "
                 "detector + TLC trace validation against the ground truth in LcTrace.tla[Check=C08]",
    "design_ref": "DESIGN.md section 6, C05-C08 and Appendix G",
    "level_text": "Exactness on clean traces is checked exhaustively on the composed model (1-2 ECUs, <=3 boots, <=4 messages, all arrival orders) "
                  "and on the real code against generator ground truth (boot per message, start = boot time + delay, end = start + max timestamp). "
                  "The one failing class - a boot whose start estimate does not exceed the previous boot's end estimate - is a recorded known "
                  "finding (inherent to the membership test); everything outside that class must be exact.",
    "level_note": "Trusted: TLC, the clean-trace generator (it must only produce traces inside the statement's class), tick-exact start/end "
                  "comparison for on-grid times. Known finding KF_C08_Overlap in /verif/known_findings.jsonl.",
}


def check(ctx):
    q = ctx.quick()
    lc.run_lc(ctx, "C08",
              emit_cfgs=[],
              mc_cfgs=[] if q else [("clean1", "CleanBoots.tla", "Clean_thorough.cfg"), ("clean2", "CleanBoots.tla", "Clean2_thorough.cfg")],
              clean_cfgs=[("clean-a", "Clean_quick.cfg"), ("clean-ab", "Clean2_quick.cfg")],
              driver_args=["--clean", "600" if q else "12000", "--max-boots", "4" if q else "6", "--max-per-boot", "5" if q else "9"],
              # the same contract on a 1 ms grid: boots of minutes to hours followed by off-times of a few ms
              extra_runs=[["--tick-us", "1000", "--clean-fine", "--clean", "300" if q else "6000", "--max-boots", "4" if q else "6",
                           "--max-per-boot", "4" if q else "8"],
                          # and at the very start of the epoch: boot time + delay = 0, a timestamp equal to the reception time
                          ["--epoch0", "--clean-zero", "--clean", "200" if q else "4000", "--max-boots", "3" if q else "5",
                           "--max-per-boot", "4" if q else "8"]],
              what="exact lifecycle detection on cleanly separated power cycles")
