"""C04 - parsing depends only on the bytes, not on read chunking or position
(spec/LowMarkBuf.tla, LowMarkBufTrace.tla, BufParse.tla, ChunkTrace.tla)"""
import json
import os
import re
from . import common as c

META = {
    "property_id": "C04",
    "technique": "TLC model checking of LowMarkBuf.tla (the buffering reader with nondeterministic short reads, one action per code "
                 "step: invariants window/low-mark/no-early-EOF/monotone/seek-content) and of BufParse.tla (storage parser composed "
                 "with the reader's visibility guarantee, every stream <= 7 tokens x every visibility schedule); every terminal "
                 "behaviour of the bounded reader model is replayed on the real LowMarkBufReader through a scripted short-read "
                 "source (scaled by 4096/CL, prediction fast path), recorded runs (all random ones, all deviating ones, a sample "
                 "of agreeing ones) are validated by TLC against the contract LowMarkBufTrace.tla with real numbers; the real "
                 "DltMessageIterator over LowMarkBufReader (low mark as configured at the adlt call sites) is run over generated "
                 "streams under many read schedules/capacities and on message-aligned suffixes, each run validated by TLC against "
                 "ChunkTrace.tla (reference = parse of the whole slice); FramingTail.tla (exact 4-byte-token model of the iterator: every "
                 "tail <= 5(6) tokens - truncated messages, messages of either framing embedded in truncated messages or garbage - "
                 "behind 0/1/2/5 complete messages of either framing) is model-checked for prefix independence, every (framing, tail) "
                 "replayed on the real iterator (prediction fast path) and a byte-granular grid of tails of 19/20/21/35/36/39..41/59..61 "
                 "(serial: 7..9/15..17/19..21/39..41) bytes x 6 tail classes x 0/1/2/5 preceding messages validated against ChunkTrace.tla",
    "design_ref": "DESIGN.md section 6, C04; Appendix B, Appendix L",
    "level_text": "Exhaustive within bounds on the models (reader: CL=2, LM<=4, capacity LM+CL..LM+CL+2, source <= 11 model bytes, all "
                  "interleavings of fill/consume/read/seek with all short-read schedules; parser o visibility: all 21845 token "
                  "streams <= 7 tokens). Every terminal behaviour of the emission configs executed on the real reader with "
                  "observation = prediction (drift reported) and the contract evaluated by TLC on the recorded runs; chunk/prefix "
                  "independence of the real iterator is sampled (seeded streams incl. 65551-byte messages and embedded "
                  "markers x 13+ schedules x 2 capacities, TLC-generated read schedules included).",
    "level_note": "The accessors buffer()/capacity() (event peek) and SeekFrom::End are driven after every replayed scenario resp. in the random op "
                  "sequences and judged by LowMarkBufTrace.tla; half of the iterator runs attach a logger. Trusted: TLC, the ScriptedReader and the driver's projection (Debug output of the reader, hash31 of slices vs. "
                  "source). Narrowed: consume() only within the last fill_buf slice (BufRead contract); seeks stay within [0, source "
                  "length] and only seeks into the window handed out last are required to succeed; prefix independence is checked on "
                  "streams without markers of the *other* framing (auto-detection makes those position dependent by design) and not on "
                  "serial suffixes whose first message starts within the last 19 bytes (C01's known finding); for tails the "
                  "comparison 'tail alone (fresh iterator) = tail behind complete messages' is claimed iff the tail holds no frame marker of the "
                  "other framing, or the stream is storage-framed and the tail starts with a truncated storage message whose 20 header bytes "
                  "are complete (any iterator must stop there) - 'behind 1 = behind 2 = behind 5 messages' is claimed for every tail; chunk independence "
                  "compares the yielded messages (index, offset, length, content hash), not the end counters. The low mark is "
                  "taken from the call sites in src/bin/adlt/convert.rs and remote.rs (text match); the BufParse model is not replayed "
                  "token by token (its read schedules are; its streams have no faithful byte concretisation).",
}

KFS = ["KF_C04_MaxMsgWindow", "KF_C04_SeekGap"]


def caller_low_mark_extra(ctx):
    """low mark the adlt call sites configure, as an offset to DLT_MAX_STORAGE_MSG_SIZE (the property is about that configuration)"""
    extras = []
    for f in ("src/bin/adlt/convert.rs", "src/bin/adlt/remote.rs"):
        try:
            src = re.sub(r"//[^\n]*", "", open(os.path.join(c.REPO, f)).read())
        except OSError:
            continue
        for m in re.finditer(r"LowMarkBufReader::new\(\s*fi\s*,\s*BUFREADER_CAPACITY\s*,\s*([^;]*?)\s*,?\s*\)\s*;", src, re.S):
            expr = re.sub(r"\s+", "", m.group(1))
            mm = re.fullmatch(r"DLT_MAX_STORAGE_MSG_SIZE(?:\+(\d+))?", expr)
            if mm:
                extras.append(int(mm.group(1) or 0))
            else:
                ctx.assumptions.append("low mark expression at a call site in %s not understood (%s): assumed DLT_MAX_STORAGE_MSG_SIZE" % (f, expr))
                extras.append(0)
    if not extras:
        ctx.assumptions.append("no LowMarkBufReader call site found in convert.rs/remote.rs: assumed low mark DLT_MAX_STORAGE_MSG_SIZE")
        return 0
    return min(extras)


def drive(binp, args, out, timeout=3000):
    p = c.run([binp, "--out", out] + args, timeout=timeout, check=False)
    if p.returncode != 0:
        raise c.ToolError("driver failed: " + (p.stdout or "")[-2000:])
    return json.loads(p.stdout.strip().splitlines()[-1])


def report(ctx, v, cases, module, consts, label):
    rej = {r[0]: r for r in v.rejected}
    for k in sorted(v.violations):
        r = rej.get(k)
        ctx.violation("%s case %d rejected by %s at line %s: %s" % (label, k, module, r[1] if r else "?", r[2] if r else "unfinished"),
                      {"case": k, "module": module, "consts": consts, "trace": cases.get(k), "first_unmatched": r[2] if r else None,
                       "how": "bin/check C04 --replay <this file>"})
    for k, labels in v.known.items():
        if k in v.violations:
            continue
        for lab in labels:
            ctx.known(c.kf_text("C04", lab))


def binding_selftest(ctx, name, module, cases, consts, pick, corruptions):
    """binding self-test (BUILD_GUIDE 'Testing your check' 3): an accepted recorded case is copied, each copy gets ONE corruption
    (a changed field / a deleted event); TLC must accept the original and reject every corrupted copy - else the check is broken"""
    import copy
    base = None
    for k, evs in cases.items():
        if pick(evs):
            base = evs
            break
    if base is None:
        raise c.ToolError("binding self-test %s: no suitable accepted case" % name)
    tr = ctx.path("selftest-%s.ndjson" % name)
    with open(tr, "w") as f:
        for i, (lab, fn) in enumerate([("original", lambda e: e)] + corruptions):
            evs = fn(copy.deepcopy(base))
            evs[0]["case"] = i
            for e in evs:
                f.write(json.dumps(e) + "\n")
    v = c.validate_trace(ctx, "selftest-" + name, module, tr, consts, timeout=600)
    want = set(range(1, len(corruptions) + 1))
    ctx.extra.setdefault("binding_selftest", {})[name] = {"corruptions": [l for l, _ in corruptions], "rejected": sorted(v.violations)}
    if v.violations != want:
        raise c.ToolError("binding self-test %s: TLC rejected %s, expected exactly the corrupted copies %s" % (name, sorted(v.violations), sorted(want)))


def first_index(evs, kind):
    return next(i for i, e in enumerate(evs) if e.get("ev") == kind)


def set_field(kind, field, fn):
    def f(evs):
        i = first_index(evs, kind)
        evs[i][field] = fn(evs[i][field])
        return evs
    return f


def delete_first(kind):
    def f(evs):
        del evs[first_index(evs, kind)]
        return evs
    return f


def replay(ctx):
    c.EVIDENCE = ctx.path("replay-evidence")      # a replay run must not overwrite the evidence of the last full run
    o = json.load(open(ctx.replay))["replay"]
    tr = ctx.path("replay-trace.ndjson")
    with open(tr, "w") as f:
        for e in o["trace"]:
            f.write(json.dumps(e) + "\n")
    v = c.validate_trace(ctx, "replay", o["module"], tr, o.get("consts") or {})
    for e in o["trace"]:
        print(json.dumps(e)[:300])
    print("rejected:", v.rejected, "violations:", sorted(v.violations), "known:", v.known)
    if v.violations:
        ctx.violation("replayed case rejected", o)


def check(ctx):
    if getattr(ctx, "replay", None):
        return replay(ctx)
    quick = ctx.quick()
    binp = c.build_harness("c04")
    sw = c.kf_switches("C04", KFS)
    if os.environ.get("VERIF_NO_KF"):          # self-test only: show that the known findings are violations without their switch
        sw = {k: False for k in sw}
    # (a) model checking (models of the repaired tree: FixSeekGap = TRUE, callers' low mark = MaxMsg + 1 token)
    c.tlc_must_pass(ctx, "reader-inv", "LowMarkBuf.tla", "LowMarkBuf_inv_quick.cfg" if quick else "LowMarkBuf_inv_thorough.cfg", timeout=3000)
    c.tlc_must_pass(ctx, "bufparse-callers", "BufParse.tla", "BufParse_fixed.cfg" if quick else "BufParse_fixed_thorough.cfg", timeout=3000)
    # the model of the pinned snapshot (low mark = MaxMsg exactly) must still exhibit the (repaired) max-message-window finding
    snap = c.tlc(os.path.join(c.SPEC, "BufParse.tla"), os.path.join(c.SPEC, "mc", "BufParse_snapshot.cfg"), ctx.path("tlc-bufparse-snapshot"),
                 timeout=3000, keep_log=ctx.path("tlc-bufparse-snapshot.log"))
    ctx.extra["snapshot_model_exhibits_maxmsg_window_finding"] = snap.violation == "ChunkIndependent"
    if snap.violation != "ChunkIndependent":
        raise c.ToolError("BufParse with LM = MaxMsg was expected to violate ChunkIndependent (model of the repaired finding); got %s" % snap.violation)
    # (b) scenario emission: every terminal behaviour of the bounded reader model
    scn = ctx.path("scenarios.ndjson")
    n_scn = 0
    nontrivial = set()
    sched_sample = []
    with open(scn, "w") as f:
        for name, cfg in (("emit", "LowMarkBuf_emit_quick.cfg" if quick else "LowMarkBuf_emit_thorough.cfg"),
                          ("emit-seek", "LowMarkBuf_emit_seek_quick.cfg" if quick else "LowMarkBuf_emit_seek_thorough.cfg")):
            res = c.tlc_must_pass(ctx, name, "LowMarkBuf.tla", cfg, timeout=6000)
            for payload in res.printed.get("SCN", []):
                line = json.loads(payload)
                f.write(line + "\n")
                n_scn += 1
                if '"seek' in line or re.search(r'"reads":\[\d+,', line):     # a short read inside one fill, or a seek
                    nontrivial.add(line)
                if n_scn % 37 == 0 and len(sched_sample) < 3000:
                    sched_sample.append(line)
            res.printed = {}
    if n_scn == 0:
        raise c.ToolError("no scenarios emitted")
    sscn = ctx.path("sched-scenarios.ndjson")
    with open(sscn, "w") as f:
        f.write("\n".join(sched_sample) + "\n")
    # (c,d) replay on the real reader + random op sequences
    tr1 = ctx.path("trace-reader.ndjson")
    nrand = 150 if quick else 3000
    info1 = drive(binp, ["--mode", "reader", "--scenarios", scn, "--random", str(nrand), "--seed", str(ctx.seed),
                         "--sample-every", str(max(1, n_scn // 300)), "--max-ops", "80" if quick else "200"], tr1)
    # (e) TLC validates the recorded reader runs against the contract
    consts1 = {"KF_C04_SeekGap": sw["KF_C04_SeekGap"]}
    v1 = c.validate_trace(ctx, "reader", "LowMarkBufTrace.tla", tr1, consts1, timeout=6000)
    ctx.add_tlc("trace-validation-reader", v1.res)
    cases1 = c.split_cases(tr1)
    report(ctx, v1, cases1, "LowMarkBufTrace.tla", consts1, "reader")
    ok1 = [k for k in cases1 if k not in v1.violations and k not in v1.known]
    if not ctx.violations:
      binding_selftest(ctx, "reader", "LowMarkBufTrace.tla", {k: cases1[k] for k in ok1}, consts1,
                     lambda evs: sum(1 for e in evs if e["ev"] == "consume") >= 2 and any(e["ev"] == "fill" for e in evs)
                     and evs[first_index(evs, "fill")]["len"] > 0,
                     [("fill.hash changed", set_field("fill", "hash", lambda x: (x + 1) % (1 << 31))),
                      ("first consume deleted", delete_first("consume")),
                      ("fill.len set to 0 (low mark / early end)", set_field("fill", "len", lambda x: 0)),
                      ("fill.at shifted", set_field("fill", "at", lambda x: x + 1)),
                      ("end deleted", delete_first("end"))])
    # chunk / prefix independence of the real iterator, low mark as the callers configure it
    lm_extra = caller_low_mark_extra(ctx)
    tr2 = ctx.path("trace-chunk.ndjson")
    nstreams = 24 if quick else 400
    info2 = drive(binp, ["--mode", "chunk", "--scenarios", sscn, "--streams", str(nstreams), "--seed", str(ctx.seed), "--lm-extra", str(lm_extra),
                         "--rand-scheds", "2" if quick else "4"], tr2)
    consts2 = {"KF_C04_MaxMsgWindow": sw["KF_C04_MaxMsgWindow"]}
    v2 = c.validate_trace(ctx, "chunk", "ChunkTrace.tla", tr2, consts2, timeout=6000)
    ctx.add_tlc("trace-validation-chunk", v2.res)
    cases2 = c.split_cases(tr2)
    report(ctx, v2, cases2, "ChunkTrace.tla", consts2, "chunk")
    ok2 = [k for k in cases2 if k not in v2.violations and k not in v2.known]
    if not ctx.violations:
      binding_selftest(ctx, "chunk", "ChunkTrace.tla", {k: cases2[k] for k in ok2}, consts2,
                     lambda evs: sum(1 for e in evs if e["ev"] == "msg") >= 4 and len(evs) < 4000,
                     [("msg.hash changed", set_field("msg", "hash", lambda x: (x + 1) % (1 << 31))),
                      ("first msg deleted", delete_first("msg")),
                      ("msg.off shifted", set_field("msg", "off", lambda x: x + 1)),
                      ("msg.index shifted", set_field("msg", "index", lambda x: x + 1))])
    # tails: what is recognised in the tail of a stream does not depend on the complete messages in front of it
    # (spec/FramingTail.tla: exact 4-byte-token model, every tail <= NT tokens incl. truncated messages that embed messages of
    # either framing; its off-by-one variant of the "short storage probe" rule must violate PrefixIndep)
    rt = c.tlc_must_pass(ctx, "framing-tail", "FramingTail.tla", "FramingTail_quick.cfg" if quick else "FramingTail_thorough.cfg", timeout=3000)
    offb = c.tlc(os.path.join(c.SPEC, "FramingTail.tla"), os.path.join(c.SPEC, "mc", "FramingTail_offbyone.cfg"), ctx.path("tlc-framing-tail-offbyone"),
                 timeout=3000, keep_log=ctx.path("tlc-framing-tail-offbyone.log"))
    ctx.extra["tail_model_offbyone_variant_violates"] = offb.violation == "PrefixIndep"
    if offb.violation != "PrefixIndep":
        raise c.ToolError("FramingTail with Rule = gt was expected to violate PrefixIndep; got %s" % offb.violation)
    tscn = ctx.path("tail-scenarios.ndjson")
    n_tail = 0
    with open(tscn, "w") as f:
        for payload in rt.printed.get("SCN", []):
            f.write(json.loads(payload) + "\n")
            n_tail += 1
    rt.printed = {}
    if n_tail == 0:
        raise c.ToolError("no tail scenarios emitted")
    tr3 = ctx.path("trace-tails.ndjson")
    info3 = drive(binp, ["--mode", "tails", "--scenarios", tscn, "--seed", str(ctx.seed), "--lm-extra", str(lm_extra),
                         "--sample-every", str(max(1, n_tail // 300))], tr3)
    consts3 = {"KF_C04_MaxMsgWindow": False}
    v3 = c.validate_trace(ctx, "tails", "ChunkTrace.tla", tr3, consts3, timeout=6000)
    ctx.add_tlc("trace-validation-tails", v3.res)
    cases3 = c.split_cases(tr3)
    report(ctx, v3, cases3, "ChunkTrace.tla", consts3, "tails")
    ctx.extra["tails"] = {k: v for k, v in info3.items() if k not in ("cases", "lines")}
    ctx.extra["accessor_and_logger_paths"] = {"peeks_buffer_capacity": info1["peeks"], "seek_from_end_calls": info1["seek_end_calls"],
                                              "bulk_read_then_seek_back_patterns": info1["bulk_read_then_seek_back"],
                                              "iterator_runs_with_logger": info2["iterator_runs_with_logger"] + info3["iterator_runs_with_logger"]}
    if not ctx.violations:
        for k, v in ctx.extra["accessor_and_logger_paths"].items():
            if v == 0:
                raise c.ToolError("vacuity: path %s never exercised" % k)
    ctx.extra["tails"]["design_conformance"] = {"steps": info3["replayed"], "mismatches": info3["drift"]}
    if info3["slow_dropped"] and not ctx.violations:
        raise c.ToolError("%d deviating tail scenarios were not validated (more than --max-slow) and the validated ones were accepted: "
                          "the bounded-exhaustive claim cannot be made" % info3["slow_dropped"])
    if not ctx.violations:
        if info3["tail_alone_runs"] == 0 or info3["latched_suffix_runs"] == 0 or info3["claimed_tails"] == 0:
            raise c.ToolError("vacuity: no tail-alone / latched suffix runs in the tails part")
        for need in ("storage.trunc+other.claimed", "storage.trunc+same.claimed", "storage.trunc.claimed", "storage.garbage.claimed", "serial.trunc.claimed",
                     "serial.trunc+same.claimed", "serial.garbage.claimed"):
            if not info3["grid"].get(need):
                raise c.ToolError("vacuity: tail class %s never generated" % need)
    # evidence
    runs2 = info2["chunk_runs"] + info2["suffix_runs"]
    runs3 = info3["chunk_runs"] + info3["latched_suffix_runs"] + info3["tail_alone_runs"]
    ctx.evaluations = info1["replayed"] + info1["random"] + runs2 + info3["replayed"] + runs3
    ctx.traces_validated = (info1["cases"] - len(v1.violations)) + (info2["cases"] - len(v2.violations)) + (info3["cases"] - len(v3.violations))
    distinct_runs = set()
    for k, evs in cases2.items():
        for e in evs:
            if e.get("ev") == "run":
                distinct_runs.add((evs[0]["hdr"]["stream_hash"], e["kind"], e["sched"], e["cap"], e["drop"]))
    ctx.distinct_nontrivial = len(nontrivial) + len(distinct_runs)
    ctx.rule = ("reader: one evaluation = one behaviour of the bounded LowMarkBuf model (or one random op sequence) executed on the real reader; "
                "non-trivial = contains a fill with at least one short read or a seek, distinct by the scenario text. chunk: one evaluation = one run "
                "of the real iterator over one stream under one (schedule, capacity) or on one suffix; distinct by (stream hash, kind, schedule, capacity, drop)")
    ctx.exhaustive = True
    ctx.extra["reader_replay"] = {k: info1[k] for k in ("replayed", "fast_path", "slow_path", "slow_dropped", "drift", "random", "panics")}
    if info1["slow_dropped"] and not ctx.violations:
        raise c.ToolError("%d deviating reader runs were not validated (more than --max-slow) and the validated ones were accepted: "
                          "the bounded-exhaustive claim cannot be made" % info1["slow_dropped"])
    ctx.extra["design_conformance"] = {"steps": info1["replayed"], "mismatches": info1["drift"]}
    ctx.extra["paths_hit"] = {k: info1[k] for k in ("compaction_offset_nonzero", "seeks_inside_window", "short_reads", "one_byte_reads", "fills_at_exactly_lm")}
    ctx.extra["chunk"] = {k: v for k, v in info2.items() if k not in ("cases", "lines")}
    kinds = {}
    for evs in cases1.values():
        for e in evs:
            key = "reader." + e["ev"] + (".stale" if e["ev"] in ("fill", "read") and e["hash"] != e["src_hash"] else "") + (".failed" if e["ev"] == "seek" and not e["ok"] else "")
            kinds[key] = kinds.get(key, 0) + 1
    for evs in cases2.values():
        kind = "?"
        for e in evs:
            if e["ev"] == "run":
                kind = e["kind"]
            key = "chunk." + (kind + "." if e["ev"] in ("msg", "end") else "") + e["ev"]
            kinds[key] = kinds.get(key, 0) + 1
    ctx.extra["trace_events_by_kind"] = kinds
    ctx.extra["caller_low_mark"] = "DLT_MAX_STORAGE_MSG_SIZE + %d" % lm_extra
    ctx.extra["kf_switches"] = sw
    ctx.extra["kf_cases"] = {"reader": len([k for k in v1.known if k not in v1.violations]), "chunk": len([k for k in v2.known if k not in v2.violations])}
    for need in ("compaction_offset_nonzero", "seeks_inside_window", "short_reads", "one_byte_reads", "fills_at_exactly_lm"):
        if info1[need] == 0 and not ctx.violations:
            raise c.ToolError("vacuity: path %s never exercised" % need)
    if ctx.violations:
        pass
    elif info2["streams_with_max_msg"] == 0 or info2["streams_with_embedded_marker"] == 0 or info2["one_byte_reads"] == 0:
        raise c.ToolError("vacuity: chunk streams lack max-size messages / embedded markers / 1-byte reads")
    for s in info1.get("samples", [])[:2]:
        ctx.add_sample({"reader_scenario": s})
    for k in list(cases1)[-1:]:
        ctx.add_sample({"reader_case": k, "trace": cases1[k][:8]})
    for k in list(cases2)[:1]:
        h = dict(cases2[k][0]["hdr"])
        h["ref"] = h["ref"][:3]
        ctx.add_sample({"chunk_case": k, "hdr": h, "trace": cases2[k][1:8]})
    ctx.assumptions += ["TLC 1.8.0 and CommunityModules are correct",
                        "ScriptedReader returns exactly the scheduled read sizes; LowMarkBufReader's Debug output reflects pos/cap/abs_pos/empty_last_read",
                        "31-bit FNV hashes stand in for byte equality of slices (sources are seeded random bytes)",
                        "cache-line arithmetic scales linearly from CL=2 model bytes to 4096 real bytes (zero drift measured)"]
