"""X02 (extra area, not a listed property) - adlt::utils::progress::ProgressNonAsyncFuture as a concurrent object
(spec/ProgressContract.tla, Progress.tla, ProgressTrace.tla, mc/MCProgress.tla; driver harness/src/bin/x02.rs)"""
import copy
import json
import os
from . import common as c

META = {
    "property_id": "X02",
    "statement": "While a background job started through the progress object runs, the owner's calls to read the progress, "
                 "to request cancellation and to ask for the result always return without waiting for the job, and every "
                 "progress reading shows a (current, total) pair exactly as the job last reported it (initially 0/0), never "
                 "a pair older than one the owner has already seen and never a mixture of two reports. "
                 "Once the job has ended, the next request for the result delivers exactly the value the job returned (or the "
                 "failure indication if the job crashed), exactly once, and from then on progress readings show the job's "
                 "last report. A cancellation request becomes visible to every step of the job that starts after the request "
                 "returned, stays visible, and by itself neither ends the job nor changes its progress or result - a job that "
                 "stops when it sees the request therefore ends, and its result is still delivered.",
    "quantifier": "all jobs that are finite scripts of progress reports (arbitrary 32-bit pairs, monotone or not), reads of "
                  "the cancellation request (ignored / early exit / loop until requested) ending in a return value or a crash; "
                  "all owner call sequences of result requests, progress reads, cancellation requests and a final drop of the "
                  "object; all interleavings of owner calls with job steps (exhaustively within the model bounds: <=2(3) steps "
                  "before the last one, <=3 owner calls, step-atomic and with <=2(3) steps racing with the owner's calls; "
                  "randomly beyond: <=400 steps, bursts of <=200 steps racing with up to thousands of result requests)",
    "technique": "TLC model checking of Progress.tla (object as coded + scripted worker + observer; every interleaving; the "
                 "contract ProgressContract.tla carried as a state function = refinement check; independent invariants; "
                 "liveness under fairness: worker never blocked by the owner, cancel => every scripted worker ends, the unit "
                 "tests' poll loops terminate with the result; a negative run documents that a worker that only ends on cancel "
                 "outlives an object dropped without cancel) + every maximal step-atomic behaviour of the bounded model replayed "
                 "on the real object with a worker closure gated by channels (prediction fast path = equality of all observed "
                 "events) + seeded random cases (long scripts, bursts racing with the owner) recorded as traces; every written "
                 "trace decided by TLC against the contract (ProgressTrace.tla)",
    "design_ref": "DESIGN.md section 8 item 5 (extra area)",
    "level_text": "Exhaustive within bounds on the model and on the real code for step-atomic interleavings (zero drift means the "
                  "bounded result carries over); races between the owner's calls and running worker steps are explored "
                  "exhaustively on the model (sequentially consistent atomics) and only sampled on the real code.",
    "level_note": "Narrower readings: nothing is claimed about what the job sees of the cancellation request after the object "
                  "was dropped without a request (the code leaves it unset, so a job that only ends on request then never ends: "
                  "shown by TLC on the model, not a violation), about whether dropping waits for the job (the driver drops on a "
                  "helper thread), and about what a request for the result answers after delivery beyond 'no second result' "
                  "(progress with the final pair, as coded, or the failure indication). 'Job has ended' is observed through a "
                  "thread-local destructor of the job's thread (calibrated on plain std threads at every run; if the calibration "
                  "fails the promptness rule R4 is switched off and the result is only required eventually). Trusted: TLC, the "
                  "driver's projection (pair -> value identifier by equality, event logging in one observer thread), std mpsc "
                  "channels as happens-before edges.",
}

MODS = "mc/MCProgress.tla"


def drive(binp, args, timeout):
    p = c.run([binp] + args, timeout=timeout, check=False)
    lines = (p.stdout or "").strip().splitlines()
    if p.returncode != 0 or not lines:
        raise c.ToolError("driver failed (%s): %s" % (p.returncode, (p.stdout or "")[-3000:]))
    return json.loads(lines[-1])


def validate_chunked(ctx, name, trace, consts, max_lines=40000, timeout=3000):
    """TLC trace validation in chunks of whole cases; verdicts are merged (case numbers are global)"""
    chunks = []
    cur, n, idx = None, 0, 0
    with open(trace) as f:
        for line in f:
            if cur is None or (n >= max_lines and '"ev":"reset"' in line):
                if cur:
                    cur.close()
                idx += 1
                p = "%s.chunk%d" % (trace, idx)
                chunks.append(p)
                cur, n = open(p, "w"), 0
            cur.write(line)
            n += 1
    if cur:
        cur.close()
    merged = None
    for i, p in enumerate(chunks):
        v = c.validate_trace(ctx, "%s-%d" % (name, i + 1), "ProgressTrace.tla", p, consts, timeout=timeout)
        ctx.add_tlc("%s-trace-validation-%d" % (name, i + 1), v.res)
        if merged is None:
            merged = v
        else:
            merged.violations |= v.violations
            merged.rejected += v.rejected
            merged.states += v.states
        os.remove(p)
    if merged is None:
        raise c.ToolError("empty trace " + trace)
    return merged


def path_counters(cases):
    """which contract paths the recorded executions exercised (counted from the traces, for the vacuity guard)"""
    k = dict(cases=0, racing_reads=0, reads_after_result=0, result_done=0, result_err=0, polls_between_return_and_result=0,
             flag_seen_true=0, flag_seen_false=0, flag_seen_in_cancel_window=0, early_exit_taken=0, wait_spins=0, wait_released=0,
             cancel_calls=0, drops=0, drop_while_running=0, fin_then_result=0, steps_after_drop=0, value_changes_seen=0)
    for evs in cases.values():
        k["cases"] += 1
        out = 0
        cancelled = dropped = delivered = term = fin = False
        c_out = 0
        last = None
        for e in evs[1:]:
            ev = e["ev"]
            if ev == "go":
                out += 1
                if dropped:
                    k["steps_after_drop"] += 1
            elif ev == "ack":
                if e["op"] in ("chk", "chkx", "wait"):
                    k["flag_seen_true" if e["seen"] else "flag_seen_false"] += 1
                    if cancelled and c_out > 0:
                        k["flag_seen_in_cancel_window"] += 1
                    if e["op"] == "chkx" and e["seen"]:
                        k["early_exit_taken"] += 1
                    if e["op"] == "wait":
                        k["wait_released" if e["seen"] else "wait_spins"] += 1
                if e["op"] in ("ret", "panic"):
                    term = True
                out = max(0, out - 1)
                c_out = max(0, c_out - 1)
            elif ev == "fin":
                fin = True
            elif ev in ("poll", "cur"):
                if ev == "poll" and e["res"] == "done":
                    k["result_done"] += 1
                    delivered = True
                    if fin:
                        k["fin_then_result"] += 1
                elif ev == "poll" and e["res"] == "err":
                    if not delivered:
                        k["result_err"] += 1
                        if fin:
                            k["fin_then_result"] += 1
                    delivered = True
                else:
                    if out > 0:
                        k["racing_reads"] += 1
                    if delivered:
                        k["reads_after_result"] += 1
                    if ev == "poll" and term and not delivered:
                        k["polls_between_return_and_result"] += 1
                    if last is not None and e["v"] != last:
                        k["value_changes_seen"] += 1
                    last = e["v"]
            elif ev == "cancel":
                k["cancel_calls"] += 1
                if not cancelled:
                    c_out = out
                cancelled = True
            elif ev == "drop":
                k["drops"] += 1
                dropped = True
                if not term:
                    k["drop_while_running"] += 1
    return k


def selftest(ctx, cases, bad, consts):
    """binding self-test: corrupt accepted cases (one field / one deleted event each) and require rejection of exactly those"""
    good = [k for k in cases if k not in bad and cases[k][-1]["ev"] == "end"]
    muts = []

    def find(pred):
        for k in good:
            for i, e in enumerate(cases[k]):
                if i > 0 and pred(cases[k], i, e):
                    return k, i
        return None

    def add(what, hit, fn):
        if hit is None:
            return
        k, i = hit
        t = copy.deepcopy(cases[k])
        fn(t, i)
        muts.append((what, t))

    def racefree(evs, i):        # no released-but-unacknowledged step at event i
        out = 0
        for e in evs[1:i]:
            out += 1 if e["ev"] == "go" else (-1 if e["ev"] == "ack" else 0)
        return out == 0

    add("progress reading shows another value",
        find(lambda evs, i, e: e["ev"] == "poll" and e["res"] == "progress" and racefree(evs, i)),
        lambda t, i: t[i].__setitem__("v", t[i]["v"] + 1))
    add("cur_progress shows another value", find(lambda evs, i, e: e["ev"] == "cur" and racefree(evs, i)),
        lambda t, i: t[i].__setitem__("v", t[i]["v"] + 1))
    add("result differs from the returned value", find(lambda evs, i, e: e["ev"] == "poll" and e["res"] == "done"),
        lambda t, i: t[i].__setitem__("v", t[i]["v"] + 1))
    add("result delivered twice", find(lambda evs, i, e: e["ev"] == "poll" and e["res"] == "done"),
        lambda t, i: t.insert(i + 1, dict(t[i])))
    add("failure reported for a job that returned",
        find(lambda evs, i, e: e["ev"] == "poll" and e["res"] == "done"),
        lambda t, i: t[i].update({"res": "err", "v": 0}))
    add("result before the job was released to return",
        find(lambda evs, i, e: e["ev"] == "poll" and e["res"] == "progress" and racefree(evs, i)
             and not any(x["ev"] == "ack" and x["op"] in ("ret", "panic") for x in evs[1:i])
             and evs[0]["hdr"]["script"][-1]["op"] == "ret"),
        lambda t, i: t[i].update({"res": "done", "v": t[0]["hdr"]["script"][-1]["v"]}))
    add("cancel request not seen by a step released after cancel()",
        find(lambda evs, i, e: e["ev"] == "ack" and e["op"] == "chk" and e["seen"] and evs[i - 1]["ev"] == "go"
             and racefree(evs, i - 1) and any(x["ev"] == "cancel" for x in evs[1:i - 1])),
        lambda t, i: t[i].__setitem__("seen", False))
    add("cancel request seen although never requested",
        find(lambda evs, i, e: e["ev"] == "ack" and e["op"] == "chk" and not e["seen"]
             and not any(x["ev"] in ("cancel", "drop") for x in evs[1:i])),
        lambda t, i: t[i].__setitem__("seen", True))
    add("progress answered after the job's thread had ended",
        find(lambda evs, i, e: e["ev"] == "poll" and e["res"] in ("done", "err") and evs[i - 1]["ev"] == "fin"),
        lambda t, i: t.insert(i, {"ev": "poll", "res": "progress", "v": last_val(t, i), "n": 1}))
    add("call did not return", find(lambda evs, i, e: e["ev"] == "cancel"),
        lambda t, i: t.__setitem__(i, {"ev": "hang", "op": "cancel"}))
    add("report of an executed step deleted",
        find(lambda evs, i, e: e["ev"] == "ack" and e["op"] == "upd"
             and any(x["ev"] == "ack" and x["op"] in ("ret", "panic") for x in evs[i:])),
        lambda t, i: t.__delitem__(i))
    add("unchanged (control: must be accepted)", (good[0], 1) if good else None, lambda t, i: None)
    if len(muts) < 9:
        if ctx.violations:
            return {"skipped": "not enough accepted cases to corrupt (run has violations)"}
        raise c.ToolError("binding self-test: only %d corruptions applicable" % len(muts))
    path = ctx.path("selftest.ndjson")
    with open(path, "w") as f:
        for n, (_, t) in enumerate(muts):
            for e in t:
                e = dict(e)
                if e["ev"] == "reset":
                    e["case"] = n
                f.write(json.dumps(e) + "\n")
    saved = ctx.replay_module
    sv = c.validate_trace(ctx, "selftest", "ProgressTrace.tla", path, consts, timeout=600)
    ctx.replay_module = saved
    res = {}
    for n, (what, _) in enumerate(muts):
        rejected = n in sv.violations
        res[what] = "rejected" if rejected else "accepted"
        if rejected != (not what.startswith("unchanged")):
            raise c.ToolError("binding self-test: corrupted trace '%s' was %s by ProgressTrace.tla" % (what, res[what]))
    return res


def last_val(t, i):
    """the value the trace itself showed last before event i (for an inserted, otherwise plausible progress answer)"""
    v = 0
    for e in t[1:i]:
        if e["ev"] == "ack" and e["op"] == "upd":
            v = e["v"]
    return v


def check(ctx):
    quick = ctx.quick()
    binp = c.build_harness("x02")
    # (a) model checking of the design module: safety on all interleavings with racing steps, step-atomic variant, liveness
    c.tlc_must_pass(ctx, "design-racing", MODS, "Progress_quick.cfg" if quick else "Progress_thorough.cfg", timeout=3000)
    c.tlc_must_pass(ctx, "design-atomic", MODS, "Progress_sync_quick.cfg", timeout=3000)
    sfx = ".cfg" if quick else "_thorough.cfg"
    c.tlc_must_pass(ctx, "live-free", MODS, "Progress_live" + sfx, timeout=3000)
    c.tlc_must_pass(ctx, "live-loop-cancel", MODS, "Progress_loop" + sfx, timeout=3000)
    c.tlc_must_pass(ctx, "live-loop", MODS, "Progress_loop_nocancel" + sfx, timeout=3000)
    # documented limit, shown on the model: dropping does not cancel => a cancel-only worker never ends (TLC must find it)
    leak = c.tlc(os.path.join(c.SPEC, MODS), os.path.join(c.SPEC, "mc", "Progress_dropleak.cfg"), ctx.path("tlc-dropleak"),
                 timeout=3000, keep_log=ctx.path("tlc-dropleak.log"))
    ctx.add_tlc("drop-leak (expected counter-example)", leak)
    if "DropNeverLeaks" not in leak.out or "violated" not in leak.out:
        raise c.ToolError("the model no longer shows the drop-without-cancel leak (log %s)" % ctx.path("tlc-dropleak.log"))
    if not quick:
        # the variant of proposed_fixes/X02-drop-cancels.diff on the model: no leak, contract and all other properties kept
        c.tlc_must_pass(ctx, "drop-cancels-variant", MODS, "Progress_dropfix.cfg", timeout=3000)
    ctx.extra["drop_without_cancel_leaks_cancel_only_worker"] = "counter-example found by TLC on the model (documented limit, not claimed)"
    # (b) scenario emission: every maximal behaviour of the step-atomic model with the predicted observations
    res = c.tlc_must_pass(ctx, "emit", MODS, "Progress_emit_quick.cfg" if quick else "Progress_emit_thorough.cfg", timeout=3000)
    scn = ctx.path("scenarios.ndjson")
    nscn = 0
    with open(scn, "w") as f:
        for payload in res.printed.get("SCN", []):
            f.write(json.loads(payload) + "\n")
            nscn += 1
    res.out = ""
    res.printed = {}
    if nscn == 0:
        raise c.ToolError("Progress.tla emitted no scenarios")
    # (c, d) replay on the real object + random cases
    trace = ctx.path("trace.ndjson")
    nrand = 800 if quick else 12000
    lanes = max(2, min(8, c.NCPU // 2))
    info = drive(binp, ["--scenarios", scn, "--random", str(nrand), "--seed", str(ctx.seed), "--out", trace,
                        "--sample-every", str(max(1, nscn // (300 if quick else 3000))), "--lanes", str(lanes)], timeout=3000)
    strict = info["calibration_failures"] == 0
    consts = {"StrictFin": strict}
    # (e) TLC decides every written trace
    v = validate_chunked(ctx, "progress", trace, consts)
    cases = c.split_cases(trace)
    rej = {r[0]: r for r in v.rejected}
    for k in sorted(v.violations):
        r = rej.get(k)
        ctx.violation("case %d rejected by ProgressTrace at line %s: %s" % (k, r[1] if r else "?", r[2] if r else "unfinished case"),
                      {"case": k, "trace": cases.get(k), "first_unmatched": r[2] if r else None, "module": "ProgressTrace.tla",
                       "consts": consts, "how": "bin/check X02 quick --replay <this file>"})
    ctx.evaluations = info["cases"]
    ctx.traces_validated = len(cases) - len(v.violations)
    ctx.exhaustive = True
    ctx.rule = ("a case = one life of one real ProgressNonAsyncFuture with a scripted, gated worker: all maximal step-atomic "
                "behaviours of the bounded TLC model (fast path: every observed event equals the model's prediction, on which TLC "
                "evaluated the contract) + seeded random cases; traces_validated counts the cases written as full traces "
                "(drifting, sampled and all random cases) that TLC accepted; non-trivial = at least two owner observations "
                "(every TLC scenario has owner calls; random cases counted by the driver)")
    ctx.distinct_nontrivial = info["replayed"] + info["random_nontrivial"]
    pc = path_counters(cases)
    ctx.extra.update({"replayed": info["replayed"], "fast_path": info["fast_path"], "slow_path": info["slow_path"],
                      "drift": info["drift"], "model_not_ok": info["model_not_ok"], "random_cases": info["random"],
                      "hangs": info["hangs"], "driver_aborted_after_hangs": info["aborted"], "lanes": info["lanes"],
                      "events_on_real_object": info["events"], "trace_lines": info["lines"],
                      "thread_end_signal_calibration": {"runs": info["calibration_runs"], "failures": info["calibration_failures"]},
                      "strict_fin_rule_R4": strict, "paths_in_validated_traces": pc})
    for k in list(cases)[:1] + list(cases)[-2:]:
        ctx.add_sample({"case": k, "trace": cases[k][:40]})
    if not ctx.violations:
        # vacuity guards (tool errors, never masking a violation)
        if info["drift"] != 0:
            ctx.extra["note"] = "model drift without contract violation: the bounded exhaustive claim degrades to the observed traces"
        ev = info["events"]
        empty = [k for k, n in ev.items() if n == 0]
        need = ["racing_reads", "reads_after_result", "result_done", "result_err", "flag_seen_true", "flag_seen_false",
                "early_exit_taken", "wait_spins", "wait_released", "cancel_calls", "drops", "drop_while_running",
                "fin_then_result", "steps_after_drop", "value_changes_seen", "flag_seen_in_cancel_window"]
        empty += [k for k in need if pc[k] == 0]
        if empty:
            raise c.ToolError("vacuity: paths never exercised: %s" % empty)
        if info["model_not_ok"]:
            raise c.ToolError("the design model violates its own contract on %d emitted behaviours" % info["model_not_ok"])
    ctx.extra["binding_selftest"] = selftest(ctx, cases, v.violations, consts)
    ctx.assumptions = ["TLC 1.8.0 and CommunityModules are correct",
                       "std mpsc channels order send before receive (happens-before edges of the observer)",
                       "the driver's projection (pair -> value identifier by equality against the case's table) is correct",
                       "a thread-local destructor of the worker thread runs after the closure's result was stored (calibrated per run)",
                       "races between owner calls and worker steps on the real code are sampled, not enumerated"]
