"""X06 (extra area, not a listed property) - the Rewrite plugin and the plugin factory
(spec/RewritePluginDefs.tla = contract operators, spec/RewritePlugin.tla + spec/mc/MCRewritePlugin.tla = design model and bounded
universes, spec/RewritePluginTrace.tla = contract on recorded runs; driver harness/src/bin/x06.rs)"""
import json
import os
import subprocess
from . import common as c

KF = "KF_X06_TextGroupUnset"

META = {
    "property_id": "X06",
    "title": "Rewrite plugin and plugin factory: which configurations yield which plugin, and exactly what a rule rewrites",
    "statement": "A chain of plugins run by plugins_process_msgs hands on every message exactly once, in the order received; a Rewrite "
                 "plugin never asks to drop a message, never fails, and changes nothing but a message's time stamp and payload text. "
                 "Its rules are applied in configured order, each to the message as the previous rule (or plugin) left it; a rule applies "
                 "exactly when its filter matches the message (all criteria that are set, inverted by `not`, never when the filter is "
                 "disabled; the filter type is irrelevant) and its payload regex matches the message's current text (the payload text if one "
                 "is set, else the decoded payload; leftmost match). Then the named group `text`, if it took part in the match, becomes the "
                 "payload text, and the named group `timeStamp`, if it took part and captured a decimal number of seconds, sets the time "
                 "stamp to that number times 10000 rounded to the nearest 0.1 ms; groups of any other name, unnamed groups and groups that "
                 "took no part change nothing, a capture that is no number leaves the time stamp as it is, and a disabled plugin does "
                 "nothing. Every later rule sees the rewritten text. The plugin's state reports the configured name and the rule names in "
                 "configured order (generation not 0) and does not change while messages are processed. "
                 "The factory get_plugin yields a plugin exactly for a configuration object whose `name` is one of SomeIp, Rewrite, "
                 "NonVerbose, CAN, FileTransfer, Muniic, Export (exact spelling), whose `enabled` is absent or true and which the named "
                 "plugin accepts; it yields nothing - and never panics - for every other name, a missing or non-string name, enabled "
                 "false or not a boolean, or a malformed body; the result for one configuration does not depend on the others, so the "
                 "chain is the list of accepted configurations in list order. RewritePlugin::from_json accepts exactly: `name` a string, "
                 "`enabled` absent or a boolean, `rewrites` an array of objects each with a string `name`, an object `filter` that is a "
                 "valid filter (type absent = positive, or 0..3) and a string `payloadRegex` that compiles; the plugin then reports that "
                 "name and that enabled flag.",
    "quantifier": {
        "over": ["inputs", "configurations"],
        "text": "all configuration lists of 1..3 entries (7 plugin names, wrong-case / unknown / empty / missing / non-string names; enabled "
                "absent, true, false, null, string, number; Rewrite bodies with 0..4 rules, missing / non-array `rewrites`, rules that are "
                "not objects or lack name / filter / payloadRegex, filter types 0..4 / string, invalid regex; other plugins with minimal "
                "valid, incomplete and ill-typed bodies) on both construction paths (factory as remote.rs, from_json as convert.rs) x all "
                "rule lists over filters (ECU / APID / CTID / payload contains / payload starts with, not, disabled) and anchored / "
                "unanchored patterns of literal words, one-token, decimal, optional and rest-of-text groups (with / without the separating blank) named text, timeStamp, other "
                "names or unnamed (0..4 groups, both named-group spellings) x message streams of 1..5 messages (texts of 0..9 tokens as "
                "separate or single string arguments, empty payload, non-verbose, without extended header, payload text preset by an "
                "earlier plugin; time stamps 0, 2^31, u32::MAX) x captured numbers (integers and decimals with 0..9 fractional digits, "
                "signs, leading zeros, exact rounding ties, values at and around u32::MAX * 0.1 ms, beyond it by up to 12 digits, negative, "
                "exponent / inf / nan / hex spellings, words, several tokens)",
    },
    "technique": "TLC model checking of RewritePlugin.tla (get_plugin / from_json / process_msg / plugins_process_msgs as coded, stepping "
                 "configuration by configuration and rule by rule; the contract of RewritePluginDefs.tla as invariant on every finished "
                 "behaviour) on bounded universes; every finished behaviour is replayed on the REAL code through the public API and the "
                 "recorded events must equal the events the model predicts (prediction fast path, equality only); mismatches, a sample, all "
                 "behaviours that need the known-finding deviation and all seeded random cases are validated by TLC against the contract "
                 "RewritePluginTrace.tla. Texts are token sequences and patterns are element lists in the model; the driver only "
                 "concretises them (regex string, JSON, DltMessage).",
    "design_ref": "BUILD_GUIDE.md (extra area, pattern of X03)",
    "level_text": "Exhaustive within bounds on the model: every sequence of 1..2 different rules out of 20 (thorough: also 3 out of 13) x 15 "
                  "messages, the same rules split over two (three) plugins, streams of two (three) messages, 48 (quick 34) captured numbers x "
                  "4 (2) current time stamps x 3 capture shapes, configuration lists of 1..2 (thorough 3) entries out of 59 (14); every "
                  "behaviour is executed on the real code and must equal the prediction, else TLC decides on the recorded run. Random cases "
                  "extend to 1..3 plugins with 0..4 random rules each, random texts and numbers.",
    "level_note": "Narrower readings (recorded here, checked less): (1) a time stamp capture exactly half-way between two 0.1 ms values, or "
                  "with more than 9 fractional digits, may go to either neighbour; (2) a captured number outside 0..u32::MAX * 0.1 ms "
                  "(negative, too large) may leave the time stamp unchanged or set it to the nearest bound (the code saturates) - wrapping is "
                  "a violation; (3) captures that only some float parsers read as numbers (exponent, inf, nan, a leading letter i or n, any "
                  "capture not starting with a letter that is no plain decimal) leave the time stamp unconstrained; (4) `enabled: null` "
                  "(the factory reads it as enabled, every plugin refuses it) is not required either way; (5) of the state only the name, "
                  "the rule labels and generation # 0 are required (tooltips not); labels of the other plugins are not looked at; (6) regex "
                  "semantics are relied on only for the pattern family above, on texts where literal words occur as whole tokens - the "
                  "token-level matcher in the contract is the regex engine's leftmost / greedy / backtracking-order reading on that family; "
                  "one group per effective name and pattern (duplicate names: last one wins in the code, not required); (7) chains contain "
                  "only Rewrite plugins and harness pass-through plugins (the other plugins are only created, their processing belongs to "
                  "C17 / C19 / X03); filter criteria beyond those listed belong to C11. Known finding KF_X06_TextGroupUnset: see "
                  "known_findings.jsonl. Trusted: TLC, the driver's concretisation and projection (tokens <-> text, [s, f] <-> u32, field "
                  "equality by DltMessage's PartialEq).",
}


def validate_chunked(ctx, name, module, trace, consts, max_lines=30000, timeout=3000):
    """TLC trace validation in chunks of whole cases; verdicts and path statistics are merged (case numbers are global)"""
    chunks = []
    cur, n, idx = None, 0, 0
    with open(trace) as f:
        for line in f:
            if cur is None or (n >= max_lines and '"ev":"reset"' in line):
                if cur:
                    cur.close()
                idx += 1
                p = "%s.chunk%d" % (trace, idx)
                chunks.append(p)
                cur, n = open(p, "w"), 0
            cur.write(line)
            n += 1
    if cur:
        cur.close()
    merged = None
    stat = {}
    for i, p in enumerate(chunks):
        v = c.validate_trace(ctx, "%s-%d" % (name, i + 1), module, p, consts, timeout=timeout)
        ctx.add_tlc("%s-trace-validation-%d" % (name, i + 1), v.res)
        last = json.loads(json.loads(v.res.printed["VERDICT"][-1]))
        for k, n_ in last.get("stat", {}).items():
            stat[k] = stat.get(k, 0) + int(n_)
        if merged is None:
            merged = v
        else:
            merged.violations |= v.violations
            merged.rejected += v.rejected
            merged.states += v.states
            for k, s in v.known.items():
                merged.known.setdefault(k, set()).update(s)
        os.remove(p)
    if merged is None:
        raise c.ToolError("empty trace " + trace)
    merged.stat = stat
    return merged


def has_ts_group(hdr):
    return any(e.get("g") == "timeStamp" for cf in hdr["cfgs"] for r in cf.get("rules", []) if isinstance(r.get("pat"), dict)
               for e in r["pat"].get("el", []))


class Corruptor:
    """one logged field corrupted per case (rotating over the kinds); every corruption contradicts the contract for certain"""

    def __init__(self):
        self.n = 0
        self.done = {}

    def __call__(self, evs):
        hdr = evs[0]["hdr"]
        msgs = [e for e in evs if e["ev"] == "msg"]
        some = [e for e in evs if e["ev"] == "create" and e["res"] == "some"]
        end = evs[-1] if evs[-1]["ev"] == "end" else None
        kinds = ["not_same", "idx", "text_changed", "lost", "nfwd", "name", "gen0", "ts_changed", "labels", "panic", "dup"]
        for off in range(len(kinds)):
            kind = kinds[(self.n + off) % len(kinds)]
            if kind == "not_same" and msgs:
                msgs[-1]["out"]["same"] = False
            elif kind == "idx" and msgs:
                msgs[0]["idx"] += 1
            elif kind == "text_changed" and msgs:
                o = msgs[0]["out"]
                o["pthas"] = True
                o["pt"] = o["pt"] + [[120, 120, 120]]
                o["text"] = o["pt"]
            elif kind == "lost" and msgs and end:
                evs.remove(msgs[0])
                end["nfwd"] -= 1
            elif kind == "nfwd" and end:
                end["nfwd"] += 1
            elif kind == "name" and some:
                some[0]["name"] += "x"
            elif kind == "gen0" and some and end:
                end["states"][0]["gen"] = 0
            elif kind == "ts_changed" and msgs and not has_ts_group(hdr):
                o = msgs[0]["out"]
                o["ts"]["f"] = (o["ts"]["f"] + 1) % 10000
            elif kind == "labels" and some and len(set(some[0]["labels"])) >= 2:
                some[0]["labels"] = some[0]["labels"][::-1]
            elif kind == "panic" and end:
                evs.insert(len(evs) - 1, {"ev": "panic", "where": "x", "msg": "x"})
            elif kind == "dup" and msgs:
                evs.insert(evs.index(msgs[0]), json.loads(json.dumps(msgs[0])))
            else:
                continue
            self.n += 1
            self.done[kind] = self.done.get(kind, 0) + 1
            return True
        return False


def check(ctx):
    quick = ctx.quick()
    binp = c.build_harness("x06")
    workers = int(os.environ["VERIF_TLC_WORKERS"]) if os.environ.get("VERIF_TLC_WORKERS") else None
    kf = c.kf_switches("X06", [KF])
    # the model follows the tree: with the finding open the design erases the payload text as the code does; once the entry is
    # closed (fix committed) the design is the repaired one and the contract no longer has the deviation
    variant = "asis" if kf[KF] else "fixed"
    # (a)+(b) model checking (TypeOK, the contract on every finished behaviour) and scenario emission in one run
    res = c.tlc_must_pass(ctx, "design", "mc/MCRewritePlugin.tla", "RewritePlugin_%s_%s.cfg" % ("quick" if quick else "thorough", variant),
                          timeout=3000, workers=workers)
    scns = c.scn_lines(res)
    if not scns:
        raise c.ToolError("RewritePlugin emitted no scenarios")
    if any(not s["pred"]["ok"] for s in scns):
        raise c.ToolError("the design model violates its own contract")
    if not kf[KF] and any(s["pred"]["kf"] for s in scns):
        raise c.ToolError("the repaired design needs the known-finding deviation")
    scn_path = ctx.path("scenarios.ndjson")
    with open(scn_path, "w") as f:
        for s in scns:
            f.write(json.dumps(s) + "\n")
    # (c, d) replay on the real code + seeded random cases
    tmp = ctx.path("tmp")
    os.makedirs(tmp, exist_ok=True)
    trace = ctx.path("trace.ndjson")
    summ = ctx.path("summary.json")
    if os.path.exists(summ):
        os.remove(summ)
    nrand = 1500 if quick else 100000
    cmd = [binp, "--scenarios", scn_path, "--random", str(nrand), "--seed", str(ctx.seed), "--tmp", tmp, "--out", trace, "--summary", summ,
           "--sample", "300" if quick else "3000"]
    # the factory prints to stdout (println!): the summary goes through a file
    p = subprocess.run(cmd, stdout=subprocess.DEVNULL, stderr=subprocess.PIPE, text=True, errors="replace", timeout=3000)
    if p.returncode != 0 or not os.path.exists(summ):
        raise c.ToolError("driver failed (%s): %s" % (p.returncode, (p.stderr or "")[-3000:]))
    info = json.load(open(summ))
    # (e) trace validation against the contract
    consts = {KF: kf[KF]}
    v = validate_chunked(ctx, "rewrite", "RewritePluginTrace.tla", trace, consts)
    cases = c.split_cases(trace)
    rej = {r[0]: r for r in v.rejected}
    for k in sorted(v.violations):
        r = rej.get(k)
        ctx.violation("case %d rejected by RewritePluginTrace at line %s: %s" % (k, r[1] if r else "?", r[2] if r else "unfinished case"),
                      {"case": k, "trace": cases.get(k), "first_unmatched": r[2] if r else None,
                       "module": "RewritePluginTrace.tla", "consts": consts, "how": "bin/check X06 quick --replay <this file>"})
    known_cases = sorted(k for k, s in v.known.items() if k not in v.violations)
    if known_cases:
        ctx.known(c.kf_text("X06", KF))
    ctx.extra["known_finding_cases"] = {"count": len(known_cases), "first": known_cases[:5]}
    # the deviation is narrow: with the switch off the same recorded cases must be violations
    if known_cases and not ctx.violations:
        kp = ctx.path("kf-cases.ndjson")
        with open(kp, "w") as f:
            for k in known_cases[:40]:
                for e in cases[k]:
                    f.write(json.dumps(e) + "\n")
        saved = ctx.replay_module
        kv = c.validate_trace(ctx, "kf-off", "RewritePluginTrace.tla", kp, {KF: False}, timeout=600)
        ctx.replay_module = saved
        missed = set(known_cases[:40]) - kv.violations
        ctx.extra["known_finding_switch_off"] = {"cases": len(known_cases[:40]), "rejected": len(set(known_cases[:40]) & kv.violations)}
        if missed:
            raise c.ToolError("cases %s are accepted only through %s but are not rejected with the switch off" % (sorted(missed)[:5], KF))
    # binding self-test on a mix of TLC and random cases
    if not ctx.violations:
        good = [k for k in sorted(cases) if k not in v.violations and cases[k][-1]["ev"] == "end"]
        tl = [k for k in good if k < 10_000_000]
        rn = [k for k in good if k >= 10_000_000]
        pick = tl[:: max(1, len(tl) // 30)][:30] + rn[:: max(1, len(rn) // 30)][:30]
        sp = ctx.path("selftest-input.ndjson")
        with open(sp, "w") as f:
            for k in pick:
                for e in cases[k]:
                    f.write(json.dumps(e) + "\n")
        cor = Corruptor()
        c.binding_selftest(ctx, "fields", "RewritePluginTrace.tla", sp, consts, cor, max_cases=len(pick))
        ctx.extra["binding_selftest"]["fields"]["kinds"] = cor.done
        if len(cor.done) < 8:
            raise c.ToolError("binding self-test exercised only %s" % sorted(cor.done))
    # evidence
    ctx.evaluations = info["replayed"] + info["random"]
    ctx.traces_validated = info["fast_path"] + len(cases) - len(v.violations)
    effect = {"text_set", "ts_zero", "ts_exact", "ts_rounded_up", "ts_rounded_down", "ts_exactly_max", "ts_beyond_max", "ts_negative", "ts_tie",
              "ts_negative_zero", "ts_other_spelling", "text_group_unset_erasable"}
    nontriv = sum(1 for s in scns if set(s["pred"]["tags"]) & effect or any(e["ev"] == "create" and e["res"] == "none" for e in s["pred"]["events"]))
    rseen = set()
    for k, evs in cases.items():
        if evs[0]["hdr"].get("src") == "random" and any(e["ev"] == "msg" and (e["out"]["pthas"] != e["inp"]["pthas"] or e["out"]["pt"] != e["inp"]["pt"]
                                                          or e["out"]["ts"] != e["inp"]["ts"]) or (e["ev"] == "create" and e["res"] == "none") for e in evs):
            rseen.add(json.dumps([evs[0]["hdr"]["cfgs"], [e.get("inp") for e in evs if e["ev"] == "msg"]], sort_keys=True))
    ctx.distinct_nontrivial = nontriv + len(rseen)
    ctx.rule = ("a case = one configuration list turned into plugins (factory or from_json) and one message stream run through the chain by "
                "plugins_process_msgs; TLC cases = every finished behaviour of the bounded universes; non-trivial when a rule changes the message "
                "or a configuration is refused; random cases distinct by configurations and messages")
    ctx.exhaustive = True
    ctx.extra["replay"] = {k: info[k] for k in ("replayed", "fast_path", "slow_path", "drift", "predicted_not_ok", "cases", "lines", "random")}
    ctx.extra["design_conformance"] = {"steps": info["replayed"], "mismatches": info["drift"]}
    ctx.extra["drift_samples"] = info.get("drift_samples", [])[:2]
    ctx.extra["model_variant"] = variant
    # vacuity: every branch of the rule semantics and every creation outcome must have been exercised on the real code
    tags = {}
    for s in scns:
        for t in s["pred"]["tags"]:
            tags[t] = tags.get(t, 0) + 1
    paths = dict(info["paths"])
    fired = {"tlc_scenarios_by_tag": tags, "validated_messages_by_tag": v.stat}
    cr = {"factory_some": 0, "factory_none": 0, "direct_some": 0, "direct_none": 0, "direct_disabled_plugin": 0, "enabled_null": 0,
          "chains_of_2_or_more_rewrite_plugins": 0, "cases_with_taps": 0, "random_text_rewritten": 0, "random_ts_rewritten": 0,
          "random_unchanged_messages": 0, "streams_of_2_or_more": 0}
    names_some = set()
    for s in scns:
        for e, cf in zip(s["pred"]["events"], s["cfgs"]):
            cr["%s_%s" % (s["path"], e["res"])] += 1
            if e["res"] == "some":
                names_some.add(e["name"])
    for k, evs in cases.items():
        h = evs[0]["hdr"]
        ncre = 0
        for e in evs:
            if e["ev"] == "create":
                if h["src"] == "random":
                    cr["%s_%s" % (h["path"], e["res"] if e["res"] in ("some", "none") else "none")] += 1
                if e["res"] == "some":
                    names_some.add(e["name"])
                    ncre += 1 if (h["path"] == "direct" or e["name"] == "Rewrite") else 0
                    if h["path"] == "direct" and not e["enabled"]:
                        cr["direct_disabled_plugin"] += 1
                if h["cfgs"][e["i"] - 1]["en"] == "null":
                    cr["enabled_null"] += 1
            elif e["ev"] == "msg" and h["src"] == "random":
                ch_t = e["out"]["pthas"] != e["inp"]["pthas"] or e["out"]["pt"] != e["inp"]["pt"]
                ch_s = e["out"]["ts"] != e["inp"]["ts"]
                cr["random_text_rewritten"] += ch_t
                cr["random_ts_rewritten"] += ch_s
                cr["random_unchanged_messages"] += (not ch_t and not ch_s)
        cr["chains_of_2_or_more_rewrite_plugins"] += ncre >= 2
        cr["cases_with_taps"] += bool(h.get("taps"))
        cr["streams_of_2_or_more"] += h["n"] >= 2
    cr["plugin_names_created"] = sorted(names_some)
    fired["creation_and_chain"] = cr
    ctx.extra["contract_paths"] = fired
    ctx.extra["scenario_universes"] = {k[4:]: n for k, n in paths.items() if k.startswith("scn_") and k != "scn_needs_known_finding"}
    all_tags = ["filter_no", "regex_no", "match_without_effect", "text_set", "text_group_unset", "text_group_unset_erasable", "ts_group_unset",
                "ts_not_one_token", "ts_negative", "ts_beyond_max", "ts_tie", "ts_negative_zero", "ts_exactly_max", "ts_zero", "ts_rounded_up",
                "ts_rounded_down", "ts_exact", "ts_word", "ts_other_spelling", "rule_sees_rewritten_text"]
    missing = [t for t in all_tags if not tags.get(t)] + ["validated:" + t for t in all_tags if not v.stat.get(t)]
    missing += [k for k, n in cr.items() if isinstance(n, int) and n == 0]
    missing += ["created:" + n for n in ("SomeIp", "Rewrite", "NonVerbose", "CAN", "FileTransfer", "Muniic", "Export") if n not in names_some]
    ctx.extra["paths_never_exercised"] = missing
    if missing and not ctx.violations:      # (with violations the code may be too broken to reach a path: the verdict stands)
        raise c.ToolError("vacuity: paths never exercised: %s" % missing)
    if info["replayed"] != len(scns) and not ctx.violations:
        raise c.ToolError("driver replayed %d of %d scenarios" % (info["replayed"], len(scns)))
    ks = sorted(cases)
    for k in ks[:1] + ks[len(ks) // 2:len(ks) // 2 + 1] + ks[-1:]:
        ctx.add_sample({"case": k, "trace": cases[k][:8]})
    ctx.assumptions = ["TLC and CommunityModules are correct",
                       "driver concretisation / projection is correct: pattern elements -> regex string, configuration classes -> JSON, "
                       "tokens <-> text (joined / split at single blanks, character codes), time stamp <-> [s, f], other fields compared by "
                       "DltMessage's PartialEq",
                       "on the pattern family and texts of the domain the regex engine's match is the token-level match of the contract "
                       "(literal words only as whole tokens; measured: zero drift between model and real code on every bounded behaviour)",
                       "the other plugins are only created (empty fibex / json directories, export file never written), never run"]
