"""C14 - convert selects exactly what its options say, and writes what it selected
(spec/Convert.tla, spec/ConvertOpts.tla, spec/ConvertTrace.tla)"""
import json
import os
import random
from concurrent.futures import ThreadPoolExecutor
from . import common as c

META = {
    "property_id": "C14",
    "technique": "TLC model checking of Convert.tla (Sel = window x lifecycle set x filter set; output contract per sink; "
                 "determinism without --sort) + TLC-enumerated abstract option space and input-set shapes (ConvertOpts.tla) "
                 "replayed on the real `adlt convert` binary (fresh process per run) over driver-generated DLT files; every "
                 "recorded run (stdout lines, re-read -o file, exit code) validated by TLC against ConvertTrace.tla",
    "design_ref": "DESIGN.md section 6, C14",
    "level_text": "Exhaustive on the model (all streams of <=2 messages x product option space). On the binary: the option space "
                  "(6 window classes x 9 lifecycle-list classes incl. descending / mixed order / duplicate / unknown ids x 80 --eac sets "
                  "(shadowing / ECU-qualified entries; the grid absent | 4-char literal | short literal | regex for each of the three "
                  "parts; alternation, prefix, anchored prefix and character-class regexes on every level) x 21 -f files (DLF and "
                  "dlt-convert format, ids of 1..4 characters, 1..10 000 entries with the matching entry last / straddling byte 8192, "
                  "16384, 65536, CRLF / no final newline / trailing partial record) x 3 orders of the entries of the multi-valued "
                  "options x sort x 4 styles x -o) "
                  "is covered pairwise-complete per input set plus every option alone (quick), and as a seeded sample of 30 000 "
                  "combinations on one input set (thorough); input sets: 1-3 files, same/different ECUs, reboots, garbage, messages without "
                  "extended header, timestamps not monotone in reception order (so --sort permutes, also across -e), tied "
                  "first reception times; every run uses a rotated permutation of the file arguments and is judged against the "
                  "reference stream obtained with the identity order.",
    "level_note": "The unfiltered annotated stream A (indices, ids, lifecycle membership) is obtained black-box from the same "
                  "binary: `-a` without selection, the lifecycle listing, and one `--lcs=k -s` run per listed lifecycle; the "
                  "contract checks these reference runs for consistency (all generated messages once, numbered 0.., lifecycles "
                  "partition the stream with the listed counts and ECUs). Narrow readings: in the permuted input sets reception times are unique "
                  "over all input files (no heap ties between parallel streams); input sets whose files share an IDENTICAL first "
                  "reception time (same and different ECU sets) are run with one fixed argument order - the main clause (exactly "
                  "Sel, each once, on every sink; reference run = all generated messages) is checked there, the permutation clause "
                  "is not; untied shapes may name the first file twice (legitimately de-duplicated; not combined with tied first times, where the unchanged tool reads the duplicated file twice - reported, outside the statement); with --sort only the set of emitted messages is checked "
                  "(order of sorted output may depend on thread timing), so PermuteFiles is 'identical sequence' without --sort "
                  "and 'identical set' with --sort; -f filters are literal ECU/APID/CTID filters, --eac parts literal or the regex forms alternation / prefix / anchored "
                  "prefix / character class with the unanchored is_match semantics of the unchanged tree (the full criterion language "
                  "is C11); the dlt-convert format has fixed 10-byte records, so no line-ending variants exist for it; control "
                  "messages are not generated (C05/C07 known defects of the lifecycle detector are out of scope here). "
                  "Trusted: TLC, the text projection of stdout lines (index, timestamp column as message key, ids), hash31.",
}

PARAMS = ["winc", "lcsc", "eac", "f", "ord", "sort", "style", "ofile", "extra", "args"]
DEFAULT = {"winc": "none", "lcsc": "none", "eac": [], "f": {"fmt": "none", "ff": []}, "ord": "asc", "sort": False, "style": "a",
           "ofile": False, "extra": "none", "args": "list"}


def vkey(v):
    return json.dumps(v, sort_keys=True)


def pairs_of(o):
    ks = [(p, vkey(o[p])) for p in PARAMS]
    return {(ks[i], ks[j]) for i in range(len(ks)) for j in range(i + 1, len(ks))}


def space_size(dims):
    n = 1
    for p in PARAMS:
        n *= len(dims[p])
    return n


def random_combo(dims, rnd):
    return {p: rnd.choice(dims[p]) for p in PARAMS}


def pairwise(dims, rnd):
    """greedy pairwise-complete covering array over the product of the TLC-emitted dimensions (a sampling decision, not a verdict)"""
    allpairs = set()
    for i in range(len(PARAMS)):
        for j in range(i + 1, len(PARAMS)):
            for a in dims[PARAMS[i]]:
                for b in dims[PARAMS[j]]:
                    allpairs.add(((PARAMS[i], vkey(a)), (PARAMS[j], vkey(b))))
    uncovered = set(allpairs)
    rows = []
    while uncovered:
        best, gain = None, -1
        for _ in range(300):
            o = random_combo(dims, rnd)
            g = len(pairs_of(o) & uncovered)
            if g > gain:
                best, gain = o, g
        if gain <= 0:       # rare: the sample missed every uncovered pair -> build a combination around one of them
            (p1, v1), (p2, v2) = next(iter(uncovered))
            best = random_combo(dims, rnd)
            best[p1], best[p2] = json.loads(v1), json.loads(v2)
        rows.append(best)
        uncovered -= pairs_of(best)
    return rows, len(allpairs)


def singles(dims, core):
    """every option value alone (all other options at their default), on screen and into a file"""
    res, seen = [], set()
    for p in PARAMS:
        for v in dims[p]:
            big = p in ("eac", "f") and vkey(v) not in core.get(p, ())
            for extra in (({},) if big else ({}, {"ofile": True, "style": "none"})):
                o = dict(DEFAULT)
                o.update(extra)
                o[p] = v
                if vkey(o) not in seen:
                    seen.add(vkey(o))
                    res.append(o)
    return res


def sample_space(dims, n, rnd):
    res, seen = [], set()
    while len(res) < n:
        o = random_combo(dims, rnd)
        if vkey(o) not in seen:
            seen.add(vkey(o))
            res.append(o)
    return res


FEATS = ("ecus", "boots", "garbage", "noext", "dup", "jitter")


def pick_tied(shapes, k, rnd):
    """k shapes whose files share the first reception time: alternately files of the SAME ECU set (one stream, read one
    after the other) and of DIFFERENT ECU sets (parallel streams), 2 and 3 files"""
    def same(s):
        return len(set(s["ecus"])) < len(s["ecus"])
    tied = [s for s in shapes if s["tie"] != "none"]
    res = []
    for i in range(k):
        want_same = i % 2 == 0
        want_n = 2 if (i // 2) % 2 == 0 else 3
        cand = [s for s in tied if same(s) == want_same and len(s["ecus"]) == want_n and s not in res
                and (s["tie"] == "all" or want_same)]
        res.append(rnd.choice(cand))
    return res


def pick_shapes(shapes, k, rnd):
    """k shapes covering 1, 2 and 3 files, every ECU pattern class, garbage / noext / boots values"""
    shapes = [s for s in shapes if s["tie"] == "none"]
    by_n = {}
    for s in shapes:
        by_n.setdefault(len(s["ecus"]), []).append(s)
    res = []
    order = [3, 2, 1, 2, 3, 1]
    i = 0
    while len(res) < k:
        n = order[i % len(order)]
        i += 1
        cand = [s for s in by_n[n] if s not in res]
        # prefer shapes adding new (feature,value) pairs
        have = {(f, vkey(s[f])) for s in res for f in FEATS}
        rnd.shuffle(cand)
        cand.sort(key=lambda s: -len({(f, vkey(s[f])) for f in FEATS} - have))
        res.append(cand[0])
    return res


def drive(binp, args):
    p = c.run([binp] + args, timeout=7200, check=False)
    if p.returncode != 0:
        raise c.ToolError("driver failed: " + (p.stdout or "")[-3000:])
    return json.loads(p.stdout.strip().splitlines()[-1])


def corrupt_selftest(ctx, cases_of_file):
    """binding self-test: an accepted case must be rejected after (a) deleting one output event, (b) corrupting one field"""
    ref, good = None, None
    for k, evs in cases_of_file.items():
        if evs[0]["hdr"]["kind"] == "ref":
            ref = evs
        elif ref is not None and sum(1 for e in evs if e["ev"] == "line") >= 3 and any(e["ev"] == "filemsg" for e in evs) \
                and not evs[0]["hdr"]["opts"]["sort"]:
            good = evs
            break
    if not good:
        return None
    variants = {}
    li = [i for i, e in enumerate(good) if e["ev"] == "line"]
    fi = [i for i, e in enumerate(good) if e["ev"] == "filemsg"]
    variants["intact"] = list(good)
    variants["line_deleted"] = good[:li[1]] + good[li[1] + 1:]
    variants["line_swapped"] = good[:li[0]] + [good[li[1]], good[li[0]]] + good[li[1] + 1:]
    v = [dict(e) for e in good]
    v[fi[0]]["hash"] = (v[fi[0]]["hash"] + 1) % 2147483647
    variants["hash_corrupted"] = v
    v = [dict(e) for e in good]
    v[li[-1]]["index"] = v[li[-1]]["index"] + 1
    variants["index_corrupted"] = v
    variants["line_duplicated"] = good[:li[0] + 1] + [good[li[0]]] + good[li[0] + 1:]
    path = ctx.path("selftest.ndjson")
    expect = {}
    with open(path, "w") as f:
        n = 0
        for name, evs in variants.items():
            for e in ref:
                e2 = dict(e)
                if e2["ev"] == "reset":
                    e2["case"] = 9000 + 2 * n
                f.write(json.dumps(e2) + "\n")
            first = dict(evs[0])
            first["case"] = 9001 + 2 * n
            f.write(json.dumps(first) + "\n")
            for e in evs[1:]:
                f.write(json.dumps(e) + "\n")
            expect[9001 + 2 * n] = (name, name != "intact")
            n += 1
    v = c.validate_trace(ctx, "selftest", "ConvertTrace.tla", path, timeout=600, xmx="2g")
    res = {}
    for case, (name, must_reject) in expect.items():
        rejected = case in v.violations
        res[name] = "rejected" if rejected else "accepted"
        if rejected != must_reject:
            raise c.ToolError("binding self-test failed: variant %s was %s" % (name, res[name]))
    return res


def check(ctx):
    quick = ctx.quick()
    rnd = random.Random(ctx.seed)
    binp = c.build_harness("c14")
    adlt = c.build_adlt_bin()
    # (a) model checking of the contract/design module
    wk = int(os.environ.get("VERIF_TLC_WORKERS", "0")) or None       # development only: fewer TLC workers
    c.tlc_must_pass(ctx, "convert", "mc/MCConvert.tla", "Convert_quick.cfg" if quick else "Convert_thorough.cfg", timeout=3000,
                    workers=wk)
    # (b) TLC enumerates the abstract option space and the input-set shapes
    dims_l = c.scn_lines(c.tlc_must_pass(ctx, "opts", "ConvertOpts.tla", "ConvertOpts_opt.cfg", timeout=600))
    shapes = c.scn_lines(c.tlc_must_pass(ctx, "shapes", "ConvertOpts.tla", "ConvertOpts_shape.cfg", timeout=600))
    if len(dims_l) != 1:
        raise c.ToolError("expected one line with the dimensions of the option space")
    dims = {p: sorted(dims_l[0][p], key=vkey) for p in PARAMS}
    # the pairwise arrays use the core subsets of the two big dimensions; every value of the full dimensions is run alone
    dims_core = dict(dims)
    dims_core["eac"] = sorted(dims_l[0]["eaccore"], key=vkey)
    dims_core["f"] = sorted(dims_l[0]["fcore"], key=vkey)
    shapes.sort(key=vkey)
    nshapes = 4 if quick else 12
    # the first set has two ECUs with three boots each: >= 4 lifecycles for the multi-id --lcs selections
    # ... and its files have ECU sets that are subsets of each other (AB next to A / B): the stream partition must not merge them
    many = [s for s in shapes if s["tie"] == "none" and s["boots"] == 3 and s["ecus"] in (["AB", "B"], ["A", "B", "AB"]) and not s["dup"]]
    first = rnd.choice(many)
    chosen = [first] + [s for s in pick_shapes(shapes, nshapes, rnd) if s != first][:nshapes - 1] + pick_tied(shapes, 2 if quick else 8, rnd)
    plan = []
    npairs = 0
    for k, sh in enumerate(chosen):
        rows, npairs = pairwise(dims_core, rnd)
        if k >= 2:
            rows = rows[::2]        # full arrays on the first two sets, half arrays on the others (tied sets are about the input side)
        if k == 0:
            rows = singles(dims, {q: {vkey(x) for x in dims_core[q]} for q in ("eac", "f")}) + rows
        plan.append({"set": k + 1, "shape": sh, "opts": rows, "mode": "pairwise"})
    if not quick:
        full_shape = [s for s in shapes if len(s["ecus"]) == 3 and s["garbage"] and s["noext"] and s["boots"] == 2
                      and s["tie"] == "none" and not s["dup"]][rnd.randrange(3)]
        plan.append({"set": len(plan) + 1, "shape": full_shape, "opts": sample_space(dims, 30000, rnd), "mode": "sample of the product"})
    planf = ctx.path("plan.ndjson")
    with open(planf, "w") as f:
        for e in plan:
            f.write(json.dumps(e) + "\n")
    # (c, d) run the real binary
    for fn in os.listdir(ctx.work):
        if fn.startswith("trace-set"):
            os.remove(ctx.path(fn))
    jobs = max(2, min(12, c.NCPU - 4))
    info = drive(binp, ["--adlt", adlt, "--work", ctx.work, "--plan", planf, "--seed", str(ctx.seed), "--jobs", str(jobs), "--tests", os.path.join(c.REPO, "tests"),
                        "--chunk", "4000"])
    if info["tool_errors"]:
        raise c.ToolError("driver reported: %s" % info["tool_errors"][:3])
    traces = sorted(fn for fn in os.listdir(ctx.work) if fn.startswith("trace-set") and fn.endswith(".ndjson"))
    # (e) TLC validates every recorded run against the contract

    def val(fn):
        return fn, c.validate_trace(ctx, fn[:-7], "ConvertTrace.tla", ctx.path(fn), timeout=3000, xmx="3g")
    with ThreadPoolExecutor(max_workers=4) as ex:
        verdicts = list(ex.map(val, traces))
    counters = {"cases": 0, "ref_cases": 0, "sel_cases": 0, "winc": {}, "lcsc": {}, "ffmt": {}, "neac": {}, "style": {}, "sort": 0,
                "ofile": 0, "perm_non_identity": 0, "multi_file_cases": 0, "empty_output": 0, "partial_output": 0,
                "full_output": 0, "lines": 0, "filemsgs": 0, "lifecycles_per_set": {}, "msgs_per_set": {}, "skipped_noref": 0,
                "ord": {}, "extra": {}, "args": {}, "eac_part_classes": {}, "eac_regex_then_short_literal_cases": 0, "filter_file_entries": {}, "filter_file_eol": {},
                "filter_file_real_entry_at": {}, "lcs_unsorted_list_cases_with_output": 0, "lcs_duplicate_id_cases_with_output": 0,
                "lcs_unknown_mixed_cases_with_output": 0, "eac_three_expression_cases": 0, "sets_with_4_or_more_lifecycles": 0, "jitter_sets": 0, "sorted_output_differs_from_index_order": 0, "sorted_and_e_window_cases": 0,
                "sort_permutes_across_e_boundary": 0, "tied_first_rx_same_ecu_set_cases": 0, "tied_first_rx_different_ecu_sets_cases": 0, "dup_file_argument_cases": 0}
    seen_nontrivial = set()
    seen_ref = set()
    shape_of = {e["set"]: e["shape"] for e in plan}
    first_cases = None
    validated = 0
    for fn, v in verdicts:
        ctx.add_tlc("trace-" + fn, v.res)
        cases = c.split_cases(ctx.path(fn))
        if first_cases is None:
            first_cases = cases
        rej = {r[0]: r for r in v.rejected}
        last = json.loads(json.loads(v.res.printed["VERDICT"][-1]))
        skipped = set(int(x) for x in last.get("skipped", []))
        counters["skipped_noref"] += len(skipped)
        nmsgs = 0
        for k, evs in cases.items():
            h = evs[0]["hdr"]
            if h["kind"] == "ref":
                nmsgs = len(h["gen"])
                key2idx = {e["key"]: e["index"] for e in evs if e["ev"] == "refline"}
                sorted_order = next((e.get("sorted_order", []) for e in evs if e["ev"] == "end"), [])
                if h["set"] not in seen_ref:       # the ref case is repeated at the head of every chunk file: count it once
                    seen_ref.add(h["set"])
                    counters["cases"] += 1
                    counters["ref_cases"] += 1
                    counters["lifecycles_per_set"][str(h["set"])] = sum(1 for e in evs if e["ev"] == "lc")
                    if counters["lifecycles_per_set"][str(h["set"])] >= 4:
                        counters["sets_with_4_or_more_lifecycles"] += 1
                    if shape_of.get(h["set"], {}).get("jitter"):
                        counters["jitter_sets"] += 1
                    counters["msgs_per_set"][str(h["set"])] = nmsgs
                    if k not in v.violations:
                        validated += 1
                elif k in v.violations:
                    continue               # reported through the first copy
                else:
                    continue
            else:
                counters["cases"] += 1
                counters["sel_cases"] += 1
                o = h["opts"]
                for f in ("winc", "lcsc", "ffmt", "style", "ord", "extra", "args"):
                    counters[f][o[f]] = counters[f].get(o[f], 0) + 1
                counters["neac"][str(len(o["eac"]))] = counters["neac"].get(str(len(o["eac"])), 0) + 1
                counters["sort"] += 1 if o["sort"] else 0
                counters["ofile"] += 1 if o["ofile"] else 0
                if h["perm"] != sorted(h["perm"]):
                    counters["perm_non_identity"] += 1
                if len(h["perm"]) > 1:
                    counters["multi_file_cases"] += 1
                sh = shape_of.get(h["set"], {})
                if sh.get("tie", "none") != "none":
                    pats = sh["ecus"]
                    if len(set(pats)) < len(pats):
                        counters["tied_first_rx_same_ecu_set_cases"] += 1
                    if len(set(pats)) > 1 and sh["tie"] == "all":
                        counters["tied_first_rx_different_ecu_sets_cases"] += 1
                if sh.get("dup"):
                    counters["dup_file_argument_cases"] += 1
                nl = sum(1 for e in evs if e["ev"] == "line")
                nf = sum(1 for e in evs if e["ev"] == "filemsg")
                counters["lines"] += nl
                counters["filemsgs"] += nf
                if o["sort"]:
                    seq = [e["index"] for e in evs if e["ev"] == "line"] or \
                          [key2idx.get(e["key"], -1) for e in evs if e["ev"] == "filemsg"]
                    if any(a > b for a, b in zip(seq, seq[1:])):
                        counters["sorted_output_differs_from_index_order"] += 1
                    if o["e"] < 2147483647:
                        counters["sorted_and_e_window_cases"] += 1
                        # in the unselected sorted order some message beyond -e comes before one inside the window
                        beyond = False
                        for ix in sorted_order:
                            if ix > o["e"]:
                                beyond = True
                            elif beyond and ix >= o["b"]:
                                counters["sort_permutes_across_e_boundary"] += 1
                                break
                nout = max(nl, nf)
                if nout > 0:
                    lst = o["lcs"]
                    if any(a > b for a, b in zip(lst, lst[1:])):
                        counters["lcs_unsorted_list_cases_with_output"] += 1
                    if len(set(lst)) < len(lst):
                        counters["lcs_duplicate_id_cases_with_output"] += 1
                    if o["lcsc"] == "unknownmixed":
                        counters["lcs_unknown_mixed_cases_with_output"] += 1
                for f in o["eac"]:
                    cls = []
                    for part in ("ecu", "apid", "ctid"):
                        if f["rx"][part]["t"] != "none":
                            cls.append("rx:" + f["rx"][part]["t"])
                        elif f[part] == "":
                            cls.append("-")
                        else:
                            cls.append("lit4" if len(f[part]) == 4 else "short")
                    ck = "/".join(cls)
                    counters["eac_part_classes"][ck] = counters["eac_part_classes"].get(ck, 0) + 1
                    for a in range(3):
                        if cls[a].startswith("rx") and "short" in cls[a + 1:]:
                            counters["eac_regex_then_short_literal_cases"] += 1
                            break
                if o["ffmt"] != "none":
                    fk = "%s:%d" % (o["ffmt"], o.get("fn", 0))
                    counters["filter_file_entries"][fk] = counters["filter_file_entries"].get(fk, 0) + 1
                    counters["filter_file_eol"][o.get("feol", "lf")] = counters["filter_file_eol"].get(o.get("feol", "lf"), 0) + 1
                    counters["filter_file_real_entry_at"][o.get("fat", "end")] = counters["filter_file_real_entry_at"].get(o.get("fat", "end"), 0) + 1
                if len(o["eac"]) >= 3:
                    counters["eac_three_expression_cases"] += 1
                if o["style"] != "none" or o["ofile"]:
                    if nout == 0:
                        counters["empty_output"] += 1
                    elif nout < nmsgs:
                        counters["partial_output"] += 1
                        seen_nontrivial.add((h["set"], vkey(o)))
                    else:
                        counters["full_output"] += 1
                if k not in v.violations and k not in skipped:
                    validated += 1
            if k in v.violations:
                r = rej.get(k)
                ctx.violation("case %d (%s) rejected by ConvertTrace at line %s: %s" % (
                    k, "reference runs" if h["kind"] == "ref" else "adlt convert " + " ".join(h.get("argv", [])),
                    r[1] if r else "?", r[2] if r else "unfinished case"),
                    {"case": k, "trace_file": ctx.path(fn), "hdr": {x: h[x] for x in h if x != "gen"}, "events": evs[1:60],
                     "first_unmatched": r[2] if r else None,
                     "how": "the input files of the set are kept under %s/set<k>; run the argv with TZ=UTC" % ctx.work})
    ctx.evaluations = counters["cases"]
    ctx.traces_validated = validated
    ctx.distinct_nontrivial = len(seen_nontrivial)
    ctx.rule = ("a case = one run of the adlt binary (one option combination on one input set with one order of the file "
                "arguments) or the reference runs of one input set; non-trivial = the run emitted some but not all messages of "
                "its input set (a real selection happened); distinct by (input set, options)")
    ctx.exhaustive = True
    ctx.extra["option_space"] = space_size(dims)
    ctx.extra["option_dimensions"] = {p: len(dims[p]) for p in PARAMS}
    ctx.extra["pairs_covered_per_set"] = npairs
    ctx.extra["input_sets"] = [{"set": e["set"], "shape": e["shape"], "mode": e["mode"], "runs": len(e["opts"])} for e in plan]
    ctx.extra["binary_runs"] = info["runs"]
    ctx.extra["trace_events"] = info["lines"]
    ctx.extra["path_hits"] = counters
    # vacuity: every class of every option must have been exercised, and real selections must have happened
    missing = [f + ":" + x for f, dom in (("winc", ["none", "b", "e", "in", "empty", "beyond"]),
                                          ("lcsc", ["none", "first", "last", "firstlast", "lastfirst", "perm3", "dup", "unknownmixed", "absent"]),
                                          ("ord", ["asc", "rev", "dup"]), ("extra", ["none", "decoders", "ft", "debug"]),
                                          ("args", ["list", "glob", "plus_empty", "plus_garbage", "plus_missing"]),
                                          ("ffmt", ["none", "dlf", "conv"]), ("style", ["a", "x", "s", "none"]),
                                          ("neac", ["0", "1", "2", "3"])) for x in dom if counters[f].get(x, 0) == 0]
    if ctx.violations:
        return          # a violating run is reported as such; vacuity and self-test only judge clean runs
    if missing or counters["partial_output"] == 0 or counters["perm_non_identity"] == 0 or counters["filemsgs"] == 0 \
            or max(counters["lifecycles_per_set"].values() or [0]) < 2 or counters["tied_first_rx_same_ecu_set_cases"] == 0 \
            or len([k for k in counters["eac_part_classes"] if "rx:" in k or "short" in k or "lit4" in k]) < 60 \
            or counters["eac_regex_then_short_literal_cases"] == 0 \
            or any(counters["filter_file_entries"].get(k, 0) == 0 for k in ("conv:30", "conv:819", "conv:820", "conv:900", "conv:2000",
                                                                             "conv:10000", "dlf:30", "dlf:820", "dlf:2000", "dlf:10000")) \
            or any(counters["filter_file_real_entry_at"].get(k, 0) == 0 for k in ("end", "b8192", "b16384", "b65536")) \
            or any(counters["filter_file_eol"].get(k, 0) == 0 for k in ("lf", "crlf", "nonl", "trail")) \
            or counters["lcs_unsorted_list_cases_with_output"] == 0 or counters["lcs_duplicate_id_cases_with_output"] == 0 \
            or counters["lcs_unknown_mixed_cases_with_output"] == 0 or counters["sets_with_4_or_more_lifecycles"] == 0 \
            or counters["sorted_output_differs_from_index_order"] == 0 or counters["sort_permutes_across_e_boundary"] == 0 \
            or counters["jitter_sets"] == 0 or counters["tied_first_rx_different_ecu_sets_cases"] == 0 or counters["dup_file_argument_cases"] == 0:
        raise c.ToolError("vacuous run: missing=%s counters=%s" % (missing, counters))
    st = corrupt_selftest(ctx, first_cases)
    if st is None:
        raise c.ToolError("binding self-test found no suitable accepted case")
    ctx.extra["binding_selftest"] = st
    if first_cases:
        ks = list(first_cases)
        for k in ks[1:3]:
            ctx.add_sample({"case": k, "argv": first_cases[k][0]["hdr"].get("argv"), "events": first_cases[k][1:8]})
    ctx.assumptions = ["TLC 1.8.0 and CommunityModules are correct",
                       "the text projection (index = first column, message key = timestamp column, ids = ECU/APID/CTID columns) is correct",
                       "the reference stream A is what the same binary prints without selection (checked for consistency with the generated input)",
                       "TZ=UTC, fresh process per run; reception times unique over all input files except the deliberately tied first messages"]

# round 6 (DESIGN.md 11.10)
META["technique"] += ' Every other -o path exists before the run and is larger than anything the run can write.'
