"""C20 - archives: volumes read as one file; extraction is faithful and confined
(spec/SeekChain.tla, SeekChainTrace.tla, ExtractDefs.tla, Extract.tla, ExtractTrace.tla; driver harness/src/bin/c20.rs)"""
import json
import os
from . import common as c

META = {
    "property_id": "C20",
    "technique": "TLC model checking of SeekChain.tla (the chain as coded next to a reference cursor over the concatenation; "
                 "all volume size vectors incl. empty volumes, unbounded operation sequences on the finite machine) and of "
                 "Extract.tla (specified extraction result for all bounded archives x patterns); every transition "
                 "(distinct state x operation) of the chain model replayed on the real SeekableChain with TLC-predicted "
                 "results (prediction fast path), seeded random splits/operation sequences (1-200 ops, read_to_end, "
                 "file-backed volumes, the repository's test_volume10k.zip.00x set) and every enumerated archive x pattern "
                 "written as a real zip file and extracted with extract_archives / extract_to_dir; all recorded runs "
                 "validated by TLC against the contracts SeekChainTrace.tla / ExtractTrace.tla",
    "design_ref": "DESIGN.md section 6 C20, Appendix J, Appendix C #13 #15",
    "level_text": "Exhaustive within bounds on the models: volume vectors of <=3 (thorough 4) volumes of 0..3 bytes x every "
                  "reachable chain state x every operation (read(0..4), seek Start/Current/End inside [0,len]); archives of "
                  "<=2 members (thorough: also 3) over names of <=3 components from {name, .., ., empty, absolute} x 5 pattern "
                  "classes; histories of 2 (thorough: 3) requests over 4 pattern classes against one archive (9-name universe) with the "
                  "per-archive temp dir reused. Every such transition is executed on the real chain (zero drift required for the fast path); "
                  "quick: all 3.6k archives x patterns of the small name universe plus a seeded sample of the medium one; thorough: all 30k of small+medium plus a 60k sample of the two large enumerations.",
    "level_note": "Narrower readings: seeks only to targets inside [0,len] (seeking beyond the end is clamped by design); "
                  "archives with two members of the same raw name are outside the driver's domain (the zip writer refuses "
                  "duplicates); members denoting the same target path (aliases) are driven: the file must hold the bytes of exactly "
                  "one requested alias (which one is not fixed by the statement); file "
                  "members end in a plain file name; symlink members and non-zip (libarchive) formats are not driven. "
                  "Glob semantics is specified in ExtractDefs.tla for five pattern classes only. Known findings: "
                  "KF_C20_EmptyVolume (#13), KF_C20_ReportedPreexisting (#15). Trusted: TLC, the driver's projection "
                  "(byte equality with the reference slice, canonicalisation of reported paths, directory walks).",
}

KFS = ["KF_C20_EmptyVolume", "KF_C20_ReportedPreexisting"]


def drive(binp, args, timeout=1500):
    p = c.run([binp] + args, timeout=timeout, check=False)
    if p.returncode != 0:
        raise c.ToolError("driver failed: " + (p.stdout or "")[-3000:])
    return json.loads(p.stdout.strip().splitlines()[-1])


def write_scn(path, scns):
    with open(path, "w") as f:
        for s in scns:
            f.write(json.dumps(s) + "\n")


def report(ctx, part, v, cases, kf):
    """map TLC's verdict on one trace file to violations / known findings; returns number of accepted cases"""
    rej = {r[0]: r for r in v.rejected}
    for k in sorted(v.violations):
        r = rej.get(k)
        ctx.violation("%s case %d rejected by the contract at line %s: %s" % (part, k, r[1] if r else "?", r[2] if r else "unfinished case"),
                      {"part": part, "case": k, "trace": cases.get(k), "first_unmatched": r[2] if r else None,
                       "kf_switches": kf, "module": part + "Trace.tla",
                       "consts": ({"KF_C20_EmptyVolume": kf["KF_C20_EmptyVolume"]} if part == "SeekChain"
                                  else {"KF_C20_ReportedPreexisting": kf["KF_C20_ReportedPreexisting"]} if part == "Extract" else None),
                       "module_file": {"SeekChainClone": "SeekChainCloneTrace.tla", "ExtractVolumes": "ExtractVolumesTrace.tla"}.get(part, part + "Trace.tla"), "how": "bin/check C20 quick --replay <this file>"})
    for k, labels in v.known.items():
        if k not in v.violations:
            for lab in labels:
                ctx.known(c.kf_text("C20", lab))
    return len(cases) - len(v.violations)


def validate_chunked(ctx, name, module, trace, consts, max_lines=40000, timeout=3000):
    """TLC trace validation in chunks of whole cases (a single huge trace makes TLC's per-state cost grow and hits the
    30-minute checkpoint, which the StateDeque queue does not support); verdicts are merged (case numbers are global)"""
    chunks = []
    cur, n = None, 0
    idx = 0
    with open(trace) as f:
        for line in f:
            if cur is None or (n >= max_lines and '"ev":"reset"' in line):
                if cur:
                    cur.close()
                idx += 1
                p = "%s.chunk%d" % (trace, idx)
                chunks.append(p)
                cur, n = open(p, "w"), 0
            cur.write(line)
            n += 1
    if cur:
        cur.close()
    merged = None
    for i, p in enumerate(chunks):
        v = c.validate_trace(ctx, "%s-%d" % (name, i + 1), module, p, consts, timeout=timeout)
        ctx.add_tlc("%s-trace-validation-%d" % (name, i + 1), v.res)
        if merged is None:
            merged = v
        else:
            merged.violations |= v.violations
            for k, labs in v.known.items():
                merged.known.setdefault(k, set()).update(labs)
            merged.rejected += v.rejected
            merged.states += v.states
        os.remove(p)
    if merged is None:
        raise c.ToolError("empty trace " + trace)
    return merged


def binding_selftest(ctx, scases, sv, xcases, xv, kf):
    """corrupt accepted cases (one field each / one deleted event) and require that TLC rejects every one of them"""
    import copy
    out = {}
    # --- SeekChain: take accepted cases without KF use
    good = [k for k in scases if k not in sv.violations and k not in sv.known]
    muts = []
    pick_seek = next((k for k in good if any(e["ev"] == "seek" for e in scases[k]) and scases[k][-1]["ev"] == "end"), None)
    pick_read = next((k for k in good if any(e["ev"] == "read" and e["k"] > 0 for e in scases[k]) and scases[k][-1]["ev"] == "end"), None)
    if pick_seek is not None:
        t = copy.deepcopy(scases[pick_seek])
        e = next(e for e in t if e["ev"] == "seek")
        e["r"] += 1
        muts.append(("seek result + 1", t))
        muts.append(("end event deleted", copy.deepcopy(scases[pick_seek])[:-1]))
    if pick_read is not None:
        t = copy.deepcopy(scases[pick_read])
        e = next(e for e in t if e["ev"] == "read" and e["k"] > 0)
        e["hash"] ^= 1
        muts.append(("read data hash changed", t))
        t = copy.deepcopy(scases[pick_read])
        e = next(e for e in t if e["ev"] == "read" and e["k"] > 0)
        e["k"] = e["n"] + 1
        muts.append(("read returned more than requested", t))
        muts.append(("unchanged (control: must be accepted)", copy.deepcopy(scases[pick_read])))
    out["seek"] = _run_selftest(ctx, "seek", "SeekChainTrace.tla", muts, {"KF_C20_EmptyVolume": kf["KF_C20_EmptyVolume"]})
    # --- Extract
    goodx = [k for k in xcases if k not in xv.violations and k not in xv.known and len(xcases[k]) == 2
             and xcases[k][1]["ev"] == "result" and xcases[k][1]["reported"]]
    muts = []
    if goodx:
        base = xcases[goodx[0]]
        t = copy.deepcopy(base); t[1]["reported"][0]["inside"] = False
        muts.append(("reported path flagged outside", t))
        t = copy.deepcopy(base); t[1]["tree"][0]["hash"] ^= 1
        muts.append(("extracted content hash changed", t))
        t = copy.deepcopy(base); t[1]["outside_created"] = ["x"]
        muts.append(("file created outside", t))
        t = copy.deepcopy(base); t[1]["reported"] = t[1]["reported"][1:]
        muts.append(("one reported path removed", t))
        muts.append(("result line deleted", copy.deepcopy(base)[:1]))
        muts.append(("unchanged (control: must be accepted)", copy.deepcopy(base)))
    # a history whose second request reports a member that an earlier request extracted already (and at least one more)
    hist = next((k for k in xcases if k not in xv.violations and k not in xv.known and len(xcases[k]) == 3
                 and xcases[k][1]["ev"] == "result" and xcases[k][2]["ev"] == "result" and xcases[k][1]["tree"]
                 and len(xcases[k][2]["tree"]) > len(xcases[k][1]["tree"])), None)
    if hist is not None:
        hb = xcases[hist]
        t = copy.deepcopy(hb); t[2]["reported"] = [r for r in t[2]["reported"] if r["rel"] in [x["rel"] for x in t[1]["tree"]]]
        muts.append(("history: second request reports only what was there already", t))
        t = copy.deepcopy(hb); t[2]["tree"] = t[1]["tree"]
        muts.append(("history: second request extracted nothing new", t))
        muts.append(("history: second result line deleted", copy.deepcopy(hb)[:2]))
        muts.append(("unchanged history (control: must be accepted)", copy.deepcopy(hb)))
    elif not ctx.violations:
        raise c.ToolError("binding self-test extract: no accepted 2-request history that adds files to a reused temp dir")
    # aliasing members of different length: the surviving file must be exactly one member's bytes
    al = next((k for k in xcases if k not in xv.violations and k not in xv.known and xcases[k][0]["hdr"].get("aliased")
               and xcases[k][-1]["ev"] == "result" and xcases[k][-1]["tree"]
               and len({m["len"] for m in xcases[k][0]["hdr"]["members"] if not m["dir"]}) > 1), None)
    if al is not None:
        t = copy.deepcopy(xcases[al])
        t[-1]["tree"][0]["hash"] ^= 1          # same length as a member, other bytes (= new head + old tail)
        for r in t[-1]["reported"]:
            if r["rel"] == t[-1]["tree"][0]["rel"]:
                r["hash"] ^= 1
        muts.append(("aliasing members: file is a mixture of two members", t))
    elif not ctx.violations:
        raise c.ToolError("binding self-test extract: no accepted archive with aliasing member names")
    out["extract"] = _run_selftest(ctx, "extract", "ExtractTrace.tla", muts, {"KF_C20_ReportedPreexisting": kf["KF_C20_ReportedPreexisting"]})
    return out


def _run_selftest(ctx, name, module, muts, consts):
    if not muts:
        if ctx.violations:      # the code under test is broken so badly that no suitable accepted case exists: the verdict stands
            return {"skipped": "no accepted case to corrupt (run has violations)"}
        raise c.ToolError("binding self-test %s: no accepted case to corrupt" % name)
    path = ctx.path("selftest-%s.ndjson" % name)
    with open(path, "w") as f:
        for i, (_, t) in enumerate(muts):
            for e in t:
                e = dict(e)
                if e["ev"] == "reset":
                    e["case"] = i
                f.write(json.dumps(e) + "\n")
        # a trailing well-formed empty marker is not needed: an unfinished last case is reported by FinalViol
    v = c.validate_trace(ctx, "selftest-" + name, module, path, consts, timeout=600)
    res = {}
    for i, (what, _) in enumerate(muts):
        rejected = i in v.violations
        res[what] = "rejected" if rejected else "accepted"
        want = not what.startswith("unchanged")      # ("unchanged ..." controls must be accepted)
        if rejected != want:
            raise c.ToolError("binding self-test %s: corrupted trace '%s' was %s by %s" % (name, what, res[what], module))
    return res


def check(ctx):
    quick = ctx.quick()
    binp = c.build_harness("c20")
    kf = c.kf_switches("C20", KFS)
    if os.environ.get("VERIF_KF_OFF"):      # self-test only: strict contract (used to validate proposed fixes / the KF narrowness)
        kf = {k: False for k in kf}
    tmp = ctx.path("tmp")
    os.makedirs(tmp, exist_ok=True)
    sfx = "" if quick else "_thorough"

    # ------------------------------------------------------------------ part 1: SeekableChain
    # (a) model checking: non-empty volumes satisfy the contract; with empty volumes the ONLY deviation is the known one;
    #     the proposed repair (skip empty volumes) satisfies the contract on the model
    c.tlc_must_pass(ctx, "seek-nonempty", "SeekChain.tla", "SeekChain_nonempty%s.cfg" % sfx, timeout=3000)
    c.tlc_must_pass(ctx, "seek-fixed-model", "SeekChain.tla", "SeekChain_fixed%s.cfg" % sfx, timeout=3000)
    snap = c.tlc(os.path.join(c.SPEC, "SeekChain.tla"), os.path.join(c.SPEC, "mc", "SeekChain_snapshot.cfg"), ctx.path("tlc-seek-snapshot"),
                 timeout=3000, keep_log=ctx.path("tlc-seek-snapshot.log"))
    ctx.extra["snapshot_model_exhibits_empty_volume_finding"] = snap.violation == "Ok"
    if snap.violation != "Ok":
        raise c.ToolError("SeekChain with empty volumes and Fixed = FALSE was expected to violate Ok (model of the repaired finding); got %s" % snap.violation)
    # (b) empty volumes allowed: invariant OkOrKF (the known deviation is the only one) + scenario emission: one line per
    #     transition with predicted results
    res = c.tlc_must_pass(ctx, "seek-emit", "SeekChain.tla", "SeekChain_emit%s.cfg" % sfx, timeout=3000)
    scns = c.scn_lines(res)
    if not scns:
        raise c.ToolError("SeekChain emitted no scenarios")
    scn_path = ctx.path("seek-scenarios.ndjson")
    write_scn(scn_path, scns)
    # (c, d) replay + random
    strace = ctx.path("seek-trace.ndjson")
    nrand = 250 if quick else 2000
    sinfo = drive(binp, ["--mode", "seek", "--scenarios", scn_path, "--random", str(nrand), "--seed", str(ctx.seed),
                         "--out", strace, "--tmp", tmp, "--repo", c.REPO, "--sample", "200" if quick else "2000",
                         "--max-total", "300" if quick else "3000", "--repo-cases", "5" if quick else "40"])
    # (e) trace validation
    sv = validate_chunked(ctx, "seek", "SeekChainTrace.tla", strace, {"KF_C20_EmptyVolume": kf["KF_C20_EmptyVolume"]})
    scases = c.split_cases(strace)
    s_ok = report(ctx, "SeekChain", sv, scases, kf)

    # ------------------------------------------------------------------ part 2: extraction
    # enumerated completely and replayed completely: Extract_quick (quick) / + medium (thorough); additionally a seeded
    # sample of the medium enumeration (quick) / of thorough2 + thorough3 (thorough, 60k of ~180k) is replayed
    # Extract_hist*: HISTORIES of 2 (quick) / 3 (thorough) requests against the same archive with the temp dir reused
    # (overlapping, nested, identical, disjoint patterns): every request must report exactly its Expected set
    # Extract_alias*: member names that denote the SAME target path (a.dlt, ./a.dlt, d/../a.dlt) with different content lengths in
    # both orders; unfiltered extractions of archive versions 1, 2 into ONE directory, optionally pre-filled with longer files
    full_cfgs = (["Extract_quick.cfg", "Extract_hist2.cfg", "Extract_alias.cfg"] if quick
                 else ["Extract_quick.cfg", "Extract_hist2.cfg", "Extract_alias.cfg", "Extract_medium.cfg", "Extract_hist3.cfg"])
    samp_cfgs = ["Extract_medium.cfg"] if quick else ["Extract_thorough2.cfg", "Extract_thorough3.cfg", "Extract_hist2m3.cfg", "Extract_alias3.cfg"]
    seen = set()

    def enum(cfgs):
        out = []
        for cfg in cfgs:
            r = c.tlc_must_pass(ctx, "extract-" + cfg[:-4], "mc/MCExtract.tla", cfg, timeout=3000)
            for s in c.scn_lines(r):
                key = json.dumps([s["members"], s["globs"], s.get("junk")], sort_keys=True)
                if key not in seen:
                    seen.add(key)
                    out.append(s)
        return out
    full = enum(full_cfgs)
    samp = enum(samp_cfgs)
    if not full:
        raise c.ToolError("Extract emitted no scenarios")
    xtrace = ctx.path("extract-trace.ndjson")
    xscn1 = ctx.path("extract-scenarios-full.ndjson")
    xscn2 = ctx.path("extract-scenarios-sampled.ndjson")
    write_scn(xscn1, full)
    write_scn(xscn2, samp)
    take = 800 if quick else 60000
    xi1 = drive(binp, ["--mode", "extract", "--scenarios", xscn1, "--seed", str(ctx.seed), "--out", xtrace + ".1", "--tmp", tmp])
    xi2 = drive(binp, ["--mode", "extract", "--scenarios", xscn2, "--take", str(take), "--seed", str(ctx.seed + 1),
                       "--out", xtrace + ".2", "--tmp", tmp, "--first-case", str(xi1["cases"])])
    with open(xtrace, "w") as out:
        for part in (".1", ".2"):
            with open(xtrace + part) as f:
                for line in f:
                    out.write(line)
            os.remove(xtrace + part)
    xv = validate_chunked(ctx, "extract", "ExtractTrace.tla", xtrace, {"KF_C20_ReportedPreexisting": kf["KF_C20_ReportedPreexisting"]})
    xcases = c.split_cases(xtrace)
    x_ok = report(ctx, "Extract", xv, xcases, kf)

    # ------------------------------------------------------------------ part 3: volume discovery next to look-alike neighbours
    # a real multi-volume archive trace.zip.001.. next to a neighbour whose name is prefix-/suffix-/case-related (trace.zip.old.zip.001,
    # trace2.zip.001, xtrace.zip.001, Trace.zip.001, trace.ZIP.001, trace.7z.001, trace.zip.0010, numbering gaps): the volume list must
    # be exactly the opened archive's own volumes, and extract_archives must yield exactly its own members
    vres = c.tlc_must_pass(ctx, "volumes-enum", "mc/MCExtractVolumes.tla", "ExtractVolumes_quick.cfg" if quick else "ExtractVolumes_thorough.cfg", timeout=3000)
    vscns = c.scn_lines(vres)
    if not vscns:
        raise c.ToolError("ExtractVolumes emitted no scenarios")
    vscn = ctx.path("volumes-scenarios.ndjson")
    write_scn(vscn, vscns)
    vtrace = ctx.path("volumes-trace.ndjson")
    vinfo = drive(binp, ["--mode", "volumes", "--scenarios", vscn, "--seed", str(ctx.seed), "--out", vtrace, "--tmp", tmp])
    vv = validate_chunked(ctx, "volumes", "ExtractVolumesTrace.tla", vtrace, {})
    vcases = c.split_cases(vtrace)
    v_ok = report(ctx, "ExtractVolumes", vv, vcases, kf)
    ctx.extra["volumes"] = {"directories_x_opened_volume": len(vscns), "replayed": vinfo["cases"]}
    ctx.extra["volumes_paths"] = vinfo["paths"]
    need_v = ["opened_real_archive", "opened_neighbour", "neighbour_is_larger", "neighbour_is_smaller", "neighbour_trace.zip.old.zip_3digits"]
    miss_v = [k for k in need_v if not vinfo["paths"].get(k)]
    if miss_v and not ctx.violations:
        raise c.ToolError("vacuity (volumes): %s" % miss_v)
    # binding self-test for the discovery contract: a foreign volume in the list / a foreign member reported must be rejected
    import copy
    okv = [k for k in vcases if k not in vv.violations and len(vcases[k]) == 4]
    if okv:
        bcase = vcases[okv[0]]
        muts = []
        t = copy.deepcopy(bcase); other = [i + 1 for i, e in enumerate(t[0]["hdr"]["dir"]) if i + 1 not in t[1]["found"]]
        t[1]["found"] = t[1]["found"] + other[:1]
        muts.append(("a neighbour's volume in the volume list", t))
        t = copy.deepcopy(bcase); t[1]["found"] = t[1]["found"][:-1]
        muts.append(("own volume missing from the volume list", t))
        t = copy.deepcopy(bcase); t[2]["reported"][0]["arch"] = 3 - t[2]["reported"][0]["arch"]
        muts.append(("member of the neighbour archive reported", t))
        muts.append(("unchanged (control: must be accepted)", copy.deepcopy(bcase)))
        vself = _run_selftest(ctx, "volumes", "ExtractVolumesTrace.tla", muts, {})
    elif ctx.violations:
        vself = {"skipped": "no accepted case (run has violations)"}
    else:
        raise c.ToolError("binding self-test volumes: no accepted case")

    # ------------------------------------------------------------------ part 4: the cloneable reader unzip.rs wraps around every source
    # CloneableSeekableReader (hook H6) over a plain cursor and over a multi-volume chain, 2-3 clones with independent positions whose
    # operations interleave: each clone must behave like its own reference cursor. Model: SeekChainClone.tla (repaired machine satisfies
    # Ok; the machine as found in the snapshot must violate it); scenarios: every transition of the as-found machine's state space
    # (bounded path length) with the results of the reference cursor as prediction
    c.tlc_must_pass(ctx, "clone-fixed-model", "SeekChainClone.tla", "SeekChainClone_fixed%s.cfg" % sfx, timeout=3000)
    csnap = c.tlc(os.path.join(c.SPEC, "SeekChainClone.tla"), os.path.join(c.SPEC, "mc", "SeekChainClone_snapshot.cfg"), ctx.path("tlc-clone-snapshot"),
                  timeout=3000, keep_log=ctx.path("tlc-clone-snapshot.log"))
    if csnap.violation != "Ok":
        raise c.ToolError("SeekChainClone with Fixed = FALSE was expected to violate Ok (model of the stale-position finding); got %s" % csnap.violation)
    cres = c.tlc_must_pass(ctx, "clone-emit", "SeekChainClone.tla", "SeekChainClone_emit%s.cfg" % sfx, timeout=3000)
    cscns = c.scn_lines(cres)
    if not cscns:
        raise c.ToolError("SeekChainClone emitted no scenarios")
    cscn = ctx.path("clone-scenarios.ndjson")
    write_scn(cscn, cscns)
    ctrace = ctx.path("clone-trace.ndjson")
    cinfo = drive(binp, ["--mode", "clone", "--scenarios", cscn, "--random", "200" if quick else "3000", "--seed", str(ctx.seed),
                         "--out", ctrace, "--sample", "200" if quick else "2000", "--max-ops", "120" if quick else "200"])
    cv = validate_chunked(ctx, "clone", "SeekChainCloneTrace.tla", ctrace, {})
    ccases = c.split_cases(ctrace)
    c_ok = report(ctx, "SeekChainClone", cv, ccases, kf)
    ctx.extra["clone"] = {k: cinfo[k] for k in ("replayed", "fast_path", "slow_path", "drift", "cases", "lines")}
    ctx.extra["clone"]["transitions_that_go_wrong_in_the_as_found_model"] = sum(1 for s2 in cscns if not s2["ops"][-1]["ok"])
    ctx.extra["clone_paths"] = cinfo["paths"]
    ctx.extra["clone_drift_samples"] = cinfo.get("drift_samples", [])
    need_c = ["tlc_path_over_cursor", "tlc_path_over_chain", "rnd_over_chain", "rnd_over_cursor", "rnd_several_clones", "rnd_reclone",
              "rnd_read", "rnd_seek_start", "rnd_seek_cur", "rnd_seek_end", "rnd_read_to_end"]
    miss_c = [k for k in need_c if not cinfo["paths"].get(k)]
    if ctx.extra["clone"]["transitions_that_go_wrong_in_the_as_found_model"] == 0:
        miss_c.append("generator: no transition that exposes a stale belief")
    if miss_c and not ctx.violations:
        raise c.ToolError("vacuity (clone): %s" % miss_c)
    okc = [k for k in ccases if k not in cv.violations and ccases[k][-1]["ev"] == "end"
           and any(e["ev"] == "read" and e["k"] > 0 for e in ccases[k]) and any(e["ev"] == "seek" for e in ccases[k])]
    if okc:
        bcase = ccases[okc[0]]
        muts = []
        t2 = copy.deepcopy(bcase); e2 = next(e for e in t2 if e["ev"] == "read" and e["k"] > 0); e2["hash"] ^= 1
        muts.append(("clone read returned other bytes", t2))
        t2 = copy.deepcopy(bcase); e2 = next(e for e in t2 if e["ev"] == "seek"); e2["r"] += 1
        muts.append(("clone seek result + 1", t2))
        t2 = copy.deepcopy(bcase); e2 = next(e for e in t2 if e["ev"] == "read" and e["k"] > 0); e2["c"] = e2["c"] % t2[0]["hdr"]["nc"] + 1 if t2[0]["hdr"]["nc"] > 1 else 99
        muts.append(("read attributed to another clone", t2))
        muts.append(("unchanged (control: must be accepted)", copy.deepcopy(bcase)))
        try:
            cself = _run_selftest(ctx, "clone", "SeekChainCloneTrace.tla", muts, {})
        except c.ToolError as ex:
            if "read attributed to another clone" in str(ex):
                # (moving a read to another clone can be legal by chance when both clones stand at positions with equal bytes)
                muts = [m for m in muts if m[0] != "read attributed to another clone"]
                cself = _run_selftest(ctx, "clone", "SeekChainCloneTrace.tla", muts, {})
            else:
                raise
    elif ctx.violations:
        cself = {"skipped": "no accepted case (run has violations)"}
    else:
        raise c.ToolError("binding self-test clone: no accepted case")

    # binding self-test: the trace modules must reject corrupted copies of accepted traces
    ctx.extra["binding_selftest"] = binding_selftest(ctx, scases, sv, xcases, xv, kf)
    ctx.extra["binding_selftest"]["clone"] = cself
    ctx.extra["binding_selftest"]["volumes"] = vself

    # ------------------------------------------------------------------ evidence
    ctx.evaluations = sinfo["replayed"] + (sinfo["cases"] - sinfo["slow_path"]) + len(xcases) + len(vcases) + cinfo["replayed"] + (cinfo["cases"] - cinfo["slow_path"])
    # fast-path replays count as validated only because TLC evaluated the contract on exactly that behaviour (ok flags) and the
    # observation equalled the prediction; slow-path / random / extraction cases are validated by TLC trace validation
    ctx.traces_validated = sinfo["fast_path"] + s_ok + x_ok + v_ok + cinfo["fast_path"] + c_ok
    nontrivial = 0
    dseen = set()
    for s in scns:
        if len(s["sizes"]) >= 2:
            nontrivial += 1          # TLC emits every (state, operation) once: distinct by construction
    for k, evs in scases.items():
        h = evs[0]["hdr"]
        if h.get("src") != "tlc" and len(h["sizes"]) >= 2 and len(evs) > 2:
            dseen.add(json.dumps(evs[1:], sort_keys=True) + json.dumps(h["sizes"]))
    xd = set()
    for k, evs in xcases.items():
        h = evs[0]["hdr"]
        hostile = any(m["name"][0] in ("/", "..") or ".." in m["name"] for m in h["members"])
        extracted = len(evs) > 1 and evs[-1].get("tree")
        if hostile or extracted:
            xd.add(json.dumps([h["members"], h["globs"]], sort_keys=True))
    cnt_clone = sum(1 for s2 in cscns if len({o["c"] for o in s2["ops"]}) > 1)      # (TLC emits every transition once; non-trivial: >= 2 clones act)
    ctx.distinct_nontrivial = nontrivial + len(dseen) + len(xd) + len(vscns) + cnt_clone   # (every enumerated directory has a look-alike neighbour)
    ctx.rule = ("SeekChain: a case = one path of operations on one volume vector; TLC cases = every (reachable model state, operation) "
                "pair once, non-trivial when there are >= 2 volumes; random cases distinct by (sizes, observed event list), non-trivial "
                "with >= 2 volumes. Extract: a case = one archive written as a real zip x a history of 1..3 pattern requests "
                "issued against it with the temp dir reused; non-trivial when a member name is absolute/contains .. or something was "
                "extracted; distinct by (members, request history)")
    ctx.exhaustive = True
    ctx.extra["seek"] = {k: sinfo[k] for k in ("replayed", "fast_path", "slow_path", "drift", "predicted_not_ok", "cases", "lines")}
    ctx.extra["seek_paths"] = sinfo["paths"]
    ctx.extra["seek_drift_samples"] = sinfo.get("drift_samples", [])
    ctx.extra["extract"] = {"enumerated_and_replayed_completely": len(full), "replayed": xi1["cases"],
                            "additionally_enumerated": len(samp), "of_these_replayed_as_seeded_sample": xi2["cases"]}
    if xi1["cases"] != len(full):
        raise c.ToolError("the zip writer refused %d enumerated archives" % (len(full) - xi1["cases"]))
    xp = dict(xi1["paths"])
    for k2, n in xi2["paths"].items():
        xp[k2] = xp.get(k2, 0) + n
    ctx.extra["extract_paths"] = xp
    ctx.extra["kf_switches"] = kf
    ctx.extra["kf_cases"] = {"seek": len([k for k in sv.known if k not in sv.violations]),
                             "extract": len([k for k in xv.known if k not in xv.violations])}
    # vacuity: the interesting paths must have been exercised
    need_s = ["op_read", "op_seek_start", "op_seek_cur", "op_seek_end", "op_read_to_end", "empty_first", "empty_middle", "empty_last",
              "file_backed", "scn_with_empty_volume"]
    need_x = ["member_absolute", "member_dotdot", "member_dir", "member_empty", "member_target_preexists", "multi_volume_archive",
              "extracted_something", "glob_all", "glob_ext", "glob_dirp", "glob_exact", "glob_nofilter",
              "history_of_2_requests", "later_request_found_files_and_added_more", "later_request_served_from_temp_dir",
              "archive_with_aliasing_names", "target_dir_prefilled_with_longer_files", "second_archive_version_into_same_dir"]
    if not quick:
        need_x.append("history_of_3_requests")
    missing = [k for k in need_s if not sinfo["paths"].get(k)] + [k for k in need_x if not xp.get(k)]
    # (the emission model is the repaired chain, Fixed = TRUE: it predicts no deviation; the pinned snapshot's model with empty
    # volumes is SeekChain_snapshot.cfg, which must still exhibit the early end-of-file - see below)
    ctx.extra["paths_never_exercised"] = missing
    if missing and not ctx.violations:      # (with violations the code may be too broken to reach a path: the verdict stands)
        raise c.ToolError("vacuity: paths never exercised: %s" % missing)
    ks = list(scases)
    kx = list(xcases)
    for k in ks[:1] + ks[-1:]:
        ctx.add_sample({"part": "SeekChain", "case": k, "trace": scases[k][:10]})
    for k in kx[:1] + kx[len(kx) // 2:len(kx) // 2 + 1] + kx[-1:]:
        ctx.add_sample({"part": "Extract", "case": k, "trace": xcases[k]})
    ctx.assumptions = ["TLC 1.8.0 and CommunityModules are correct",
                       "driver projection is correct: byte equality with the reference slice, canonicalised reported paths, directory walks",
                       "seeks are issued only to targets inside [0, len]",
                       "archives without duplicate raw member names; for aliasing members any one alias' bytes are accepted; file members end in a plain file name; zip format only",
                       "glob semantics of the five pattern classes as specified in ExtractDefs.tla"]
