"""C06 - a message's lifecycle is published before the message is delivered"""
from . import lc_common as lc

META = {
    "property_id": "C06",
    "technique": "TLC model checking of LcDetector.tla (invariant C06: published-with-ECU at every delivery, 2 ECUs + control requests, "
                 "nondeterministic ECU iteration order) + replay of every TLC behaviour on the real detector + TLC trace validation against "
                 "LcTrace.tla[Check=C06] with same-thread and other-thread readers",
    "design_ref": "DESIGN.md section 6, C05-C08",
    "level_text": "The model publishes exactly where the code calls lcs_w.update/refresh and records the readers' view at each of the five "
                  "release paths; TLC checks the view on all bounded behaviours, and the real detector is observed through an evmap read handle "
                  "inside the outflow closure (and by a second thread in a synchronous hand-shake) at every delivery of every replayed/random run.",
    "level_note": "Trusted: TLC, evmap's refresh semantics, the hand-shake (the second reader answers while the detector thread waits inside the "
                  "delivery call). Consumer pacing cannot change the result because publication and delivery happen on the detector thread.",
}


def check(ctx):
    q = ctx.quick()
    lc.run_lc(ctx, "C06",
              emit_cfgs=([("2ecu3", "Lc_emit_2ecu3.cfg")] if q else [("2ecu3", "Lc_emit_2ecu3_full.cfg"), ("kinds4", "Lc_emit_kinds4_full.cfg")]) + lc.EPOCH_CFGS,
              mc_cfgs=[] if q else [("2ecu4", "LcDetector.tla", "Lc_2ecu4.cfg")],
              driver_args=["--regressions", "--random", "400" if q else "8000", "--max-len", "40" if q else "120",
                           "--big-tables", "3" if q else "40", "--file-max", "600" if q else "6000", "--huge", "1" if q else "3"],
              scripted=2500 if q else 40000,
              what="visibility (with the message's ECU) of the assigned lifecycle at every delivery point")
