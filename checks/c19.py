"""C19 - plugins keep the stream intact; anonymisation keeps its structure
(spec/Plugins.tla, spec/PluginsAnon.tla, spec/PluginTrace.tla)"""
import glob
import json
import os
import random
from concurrent.futures import ThreadPoolExecutor
from . import common as c

META = {
    "property_id": "C19",
    "technique": "TLC model checking of Plugins.tla (per-kind frame conditions and MayDrop compose to the chain-level stream "
                 "contract, all chains <=2 kinds x all streams of abstract messages) and PluginsAnon.tla (the code's counter-based "
                 "pseudonym tables are functional and injective within the capacity) + TLC-enumerated plugin chains (subsets and "
                 "orders) instantiated with factory::get_plugin / AnonymizePlugin from the repository's FIBEX/JSON descriptions "
                 "and run by plugins_process_msgs over real channels; every recorded run validated by TLC against PluginTrace.tla",
    "design_ref": "DESIGN.md section 6, C19",
    "level_text": "Exhaustive on the models. On the code: every well-formed chain of <=4 of the 9 plugin kinds (3062 chains, "
                  "thorough) or a subset covering every kind alone, every ordered adjacent pair and one chain with all kinds "
                  "(quick), each on a synthetic stream mixing matching and non-matching traffic for every plugin (FIBEX message "
                  "ids in every extended-header variant - absent, FIBEX ids, other ids, zero APID and/or CTID, other type/noar -, SOME/IP service, CAN frames, Muniic interface, SYS/JOUR, FLST/FLDA/FLFI, control messages, arbitrary "
                  "payloads, several ECU/APID/CTID populations) and on slices of the repository's example files; anonymisation "
                  "additionally through `adlt convert --anon -o` on example files and with lifecycle tables of original vs. "
                  "anonymised streams.",
    "level_note": "Narrow readings: fields compared = index, reception time, timestamp, ECU, standard header (htyp, mcnt), "
                  "extended header presence / type byte / noar / APID / CTID, payload bytes, decoded text, lifecycle; the "
                  "pseudonym tables are checked on messages whose extended header was present at the chain input (ids filled in "
                  "by a decoder before `anon` are not observable); pseudonym tables are driven up to and beyond the capacity of 999 per name space (sizes 257 and 1003 in quick; "
                  "1..5, 255..257, 300, 999, 1000, 1003, 1012 in thorough) for ECUs, APIDs of one ECU and CTIDs of one ECU/APID - within the "
                  "capacity the contract is function + injective, past it exactly the code's documented cut to 4 characters (id no. "
                  "1000..1009 gets the pseudonym of id no. 100, ...); id populations also contain ids shaped like the pseudonyms themselves (E001, A001, C001, E999, cut forms), ids "
                  "differing only in case / zero vs. space padding, non-printable ids, in both arrival orders, with lifecycle tables "
                  "compared; SOME/IP segmented transfers (NWST/NWCH/NWEN) are replayed from the boundary alphabet of "
                  "PluginsSomeIpSeg.tla (counts 0/1/2/65534/65535, sizes 0/1/3/65535, chunk numbers 0/1/65535, lengths 0/1/3/4): all "
                  "sequences of <= 2 messages on one id, seeded sequences of 3..6 messages over two interleaved ids; the file transfer plugin runs with every apid x ctid configuration "
                  "(none | the main source | another source) x keepFLDA, FLDA-shaped messages of non-matching sources must pass; lifecycle "
                  "comparison streams contain log messages only (known defect #17 of the detector and control-message heuristics "
                  "are C05-C08's business); a detector panic on the *original* stream skips the comparison. The CAN plugin is "
                  "configured from tests/ (no CAN FIBEX there: matching traffic takes the decode-error text path). The export "
                  "plugin writes its file under work/C19 and never drops in the code (the contract allows it to). Trusted: TLC, "
                  "the field projection (vec_of / in_event in harness/src/bin/c19.rs), hash31.",
}

KINDS = ["nonverbose", "someip", "can", "muniic", "rewrite", "ft_keep", "ft_drop", "export", "anon"]
KF = ["KF_C19_AnonShortCtrlResponse"]
# traffic that matches a decoder, per extended-header variant (labels written by the driver into the `in` events); every
# one must have been decoded (text changed) by the decoder running alone - otherwise the run is vacuous for that path
VARIANTS = ["nonverbose:absent", "nonverbose:fibex_ids", "nonverbose:other_ids", "nonverbose:zero_apid",
            "nonverbose:zero_apid_ctid", "nonverbose:zero_ctid", "nonverbose:other_type_noar",
            "someip:apid", "someip:zero_apid", "someip:other_apid", "someip:other_noar",
            "can:apid", "can:zero_apid", "can:other_apid", "can:other_noar",
            "muniic:apid", "muniic:zero_apid", "muniic:other_apid", "muniic:other_type", "muniic:other_level",
            "rewrite:info", "rewrite:warn", "rewrite:apptrace", "rewrite:noar2"]


def pick_chains_quick(chains, rnd):
    """every kind alone, the empty chain, one chain with all kinds (both file-transfer variants), and chains of length 4
    until every ordered pair of kinds occurs adjacently (a sampling decision, not a verdict)"""
    res = [[]] + [[k] for k in KINDS]
    allk = [k for k in KINDS if k != "ft_keep"]
    rnd.shuffle(allk)
    res.append(list(allk))
    res.append([("ft_keep" if k == "ft_drop" else k) for k in reversed(allk)])
    need = {(a, b) for a in KINDS for b in KINDS if a != b and {a, b} != {"ft_keep", "ft_drop"}}
    for ch in res:
        need -= set(zip(ch, ch[1:]))
    four = [ch for ch in chains if len(ch) == 4]
    while need:
        best, gain = None, 0
        for ch in rnd.sample(four, 300):
            g = len(set(zip(ch, ch[1:])) & need)
            if g > gain:
                best, gain = ch, g
        if best is None:
            a, b = next(iter(need))
            best = next(ch for ch in four if (a, b) in set(zip(ch, ch[1:])))
        res.append(best)
        need -= set(zip(best, best[1:]))
    return res


def drive(binp, args):
    p = c.run([binp] + args, timeout=7200, check=False)
    if p.returncode != 0:
        raise c.ToolError("driver failed: " + (p.stdout or "")[-3000:])
    return json.loads(p.stdout.strip().splitlines()[-1])


def write_cases(path, case_lists):
    with open(path, "w") as f:
        for evs in case_lists:
            for e in evs:
                f.write(json.dumps(e) + "\n")


def selftest(ctx, cases, verdict, switches):
    """binding self-test: accepted cases must be rejected after corrupting a field / deleting / swapping / duplicating an
    output event; a case accepted only through the known-finding action must be rejected with the switch off"""
    good = None
    for k, evs in cases.items():
        outs = [i for i, e in enumerate(evs) if e["ev"] == "out"]
        if k not in verdict.violations and k not in verdict.known and len(outs) >= 5 and evs[0]["hdr"]["chain"] == ["nonverbose"]:
            good = (evs, outs)
            break
    if good is None:
        return None
    evs, outs = good
    variants = {"intact": list(evs)}
    for fld in ("rx", "idx", "pay", "ecu", "lc", "ts"):
        v = [json.loads(json.dumps(e)) for e in evs]
        x = v[outs[2]]["vec"][fld]
        v[outs[2]]["vec"][fld] = (x + "x") if isinstance(x, str) else x + 1
        variants["corrupt_" + fld] = v
    variants["out_deleted"] = evs[:outs[1]] + evs[outs[1] + 1:]
    variants["out_swapped"] = evs[:outs[1]] + [evs[outs[2]], evs[outs[1]]] + evs[outs[2] + 1:]
    variants["out_duplicated"] = evs[:outs[1] + 1] + [evs[outs[1]]] + evs[outs[1] + 1:]
    lst, expect = [], {}
    for n, (name, ev) in enumerate(variants.items()):
        first = dict(ev[0])
        first["case"] = 9000 + n
        lst.append([first] + ev[1:])
        expect[9000 + n] = (name, name != "intact")
    path = ctx.path("selftest.ndjson")
    write_cases(path, lst)
    v = c.validate_trace(ctx, "selftest", "PluginTrace.tla", path, dict(switches), timeout=600, xmx="2g")
    res = {}
    for case, (name, must_reject) in expect.items():
        rejected = case in v.violations
        res[name] = "rejected" if rejected else "accepted"
        if rejected != must_reject:
            raise c.ToolError("binding self-test failed: variant %s was %s" % (name, res[name]))
    # the known-finding action is narrow: with the switch off the same trace is a violation
    kfcases = [evs for k, evs in cases.items() if k in verdict.known]
    if kfcases:
        path = ctx.path("selftest-kf.ndjson")
        write_cases(path, kfcases[:3])
        v2 = c.validate_trace(ctx, "selftest-kf", "PluginTrace.tla", path, {k: False for k in switches}, timeout=600, xmx="2g")
        ids = {evs[0]["case"] for evs in kfcases[:3]}
        res["kf_cases_with_switch_off"] = "rejected" if ids <= v2.violations else "accepted"
        if not ids <= v2.violations:
            raise c.ToolError("known-finding cases were accepted with the switch off")
    return res


def check(ctx):
    quick = ctx.quick()
    rnd = random.Random(ctx.seed)
    binp = c.build_harness("c19")
    adlt = c.build_adlt_bin()
    wk = int(os.environ.get("VERIF_TLC_WORKERS", "0")) or None       # development only: fewer TLC workers
    # (a) model checking
    c.tlc_must_pass(ctx, "plugins", "Plugins.tla", "Plugins_quick.cfg" if quick else "Plugins_thorough.cfg", timeout=3000, workers=wk)
    c.tlc_must_pass(ctx, "anon-tables", "PluginsAnon.tla", "PluginsAnon_quick.cfg" if quick else "PluginsAnon_thorough.cfg",
                    timeout=3000, workers=wk)
    # (b) TLC enumerates the chains
    c.tlc_must_pass(ctx, "someip-seg", "PluginsSomeIpSeg.tla", "PluginsSomeIpSeg_quick.cfg" if quick else "PluginsSomeIpSeg_thorough.cfg",
                    timeout=3000, workers=wk)
    seg_emit = c.tlc_must_pass(ctx, "someip-seg-alphabet", "PluginsSomeIpSeg.tla", "PluginsSomeIpSeg_emit.cfg", timeout=600, workers=wk)
    emit = c.tlc_must_pass(ctx, "chains", "Plugins.tla", "Plugins_emit.cfg", timeout=600, workers=wk)
    chains = [s["chain"] for s in c.scn_lines(emit)]
    ftcfgs = sorted(c.scn_lines(emit, tag="FTCFG"), key=lambda x: (x["save"], x["apid"], x["ctid"]))    # apid x ctid in none|match|other, x save mode
    if len(ftcfgs) != 27:
        raise c.ToolError("expected 27 file transfer configurations from TLC, got %d" % len(ftcfgs))
    chains.sort(key=lambda ch: (len(ch), ch))
    chosen = pick_chains_quick(chains, rnd) if quick else chains
    if quick:       # plus a seeded sample of the remaining chains
        rest = [ch for ch in chains if ch not in chosen]
        chosen = chosen + rnd.sample(rest, 250)
    tests = os.path.join(c.REPO, "tests")
    files = sorted(glob.glob(os.path.join(tests, "*.dlt"))) + [os.path.join(tests, "can_example1.asc")]
    nfile = 150 if quick else 300
    plan = []

    def add(**kw):
        kw["case"] = len(plan)
        kw.setdefault("variant", len(plan))
        if any(k in ("ft_keep", "ft_drop") for k in kw["chain"]):
            kw.setdefault("ft", ftcfgs[len(plan) % 27])        # rotate through the configuration space
        plan.append(kw)
    # the file transfer plugin alone, every apid/ctid configuration x keepFLDA
    for cfg in ftcfgs:
        for kd in ("ft_drop", "ft_keep"):
            add(chain=[kd], stream="mixed", ft=cfg)
    # SOME/IP segmented transfers: the boundary alphabet comes from TLC (PluginsSomeIpSeg.tla); all sequences of <= 2 messages
    # on one segment id, plus seeded longer sequences over both ids (interleaving, second NWST, chunks out of order ...)
    letters = sorted(c.scn_lines(seg_emit), key=lambda x: json.dumps(x, sort_keys=True))
    one = [x for x in letters if x["id"] == 1]
    seqs = [[a] for a in one] + [[a, b] for a in one for b in one]
    for _ in range(500 if quick else 6000):
        seqs.append([rnd.choice(letters) for _ in range(rnd.randint(3, 6))])
    for j, sq in enumerate(seqs):
        add(chain=[["someip"], ["someip"], ["someip"], ["rewrite", "someip"], ["someip", "anon"]][j % 5], stream="seg", seq=sq)
    # ids shaped like pseudonyms / differing in case, padding, non-printable bytes - both arrival orders
    for j in range(4 if quick else 24):
        add(chain=["anon"], stream="idshapes", shapes_first=(j % 2 == 0))
    add(chain=["nonverbose", "anon"], stream="idshapes", shapes_first=True)
    add(chain=["anon", "rewrite"], stream="idshapes", shapes_first=False)
    # pseudonym tables up to and beyond the capacity, per level
    pop_sizes = [257, 1003] if quick else [1, 2, 3, 4, 5, 255, 256, 257, 300, 999, 1000, 1003, 1012]
    for level in ("ecu", "apid", "ctid"):
        for size in pop_sizes:
            add(chain=["anon"], stream="pop", level=level, size=size)
    add(chain=["rewrite", "anon", "ft_keep"], stream="pop", level="apid", size=300)
    for j, ch in enumerate(chosen):
        add(chain=ch, stream="mixed")
        add(chain=ch, stream="mixed")          # a second shuffle / payload variant
        add(chain=ch, stream="file", file=files[j % len(files)], n=nfile)
        if "anon" in ch and (quick or j % 10 == 0):
            add(chain=ch, stream="kf")
    for ch in [[], ["nonverbose"], ["can", "rewrite"], ["ft_drop", "export"]]:
        add(chain=ch, stream="kf")
    for j in range(8 if quick else 60):
        add(chain=["anon"], stream="lc")
    for j in range(2 if quick else 10):
        add(chain=["rewrite", "anon"], stream="lc")
    for j in range(1 if quick else 6):
        add(chain=["anon"], stream="ids")
    add(chain=["nonverbose", "anon", "rewrite"], stream="ids")
    for f in files:
        if f.endswith(".dlt"):
            add(chain=["anon"], stream="binanon", file=f, n=300 if quick else 3000)
    # split into several trace files so that TLC validates them in parallel
    nparts = 4 if quick else 12
    parts = [plan[i::nparts] for i in range(nparts)]
    infos = []

    def run_part(i):
        planf = ctx.path("plan-%d.ndjson" % i)
        with open(planf, "w") as f:
            for e in parts[i]:
                f.write(json.dumps(e) + "\n")
        tr = ctx.path("trace-%d.ndjson" % i)
        info = drive(binp, ["--tests", tests, "--work", ctx.work, "--adlt", adlt, "--plan", planf, "--out", tr, "--seed", str(ctx.seed)])
        return tr, info
    with ThreadPoolExecutor(max_workers=4) as ex:
        infos = list(ex.map(run_part, range(nparts)))
    errs = [e for _, i in infos for e in i["tool_errors"]]
    if errs:
        raise c.ToolError("driver could not configure a plugin offline: %s" % errs[:3])
    switches = c.kf_switches("C19", KF)

    def val(i):
        return c.validate_trace(ctx, "part%d" % i, "PluginTrace.tla", infos[i][0], dict(switches), timeout=3000, xmx="3g")
    with ThreadPoolExecutor(max_workers=4) as ex:
        verdicts = list(ex.map(val, range(nparts)))
    hits = {"cases": 0, "in": 0, "out": 0, "dropped": 0, "panic": 0, "lcs": 0, "lcs_multi_lifecycle": 0, "lcs_multi_ecu": 0,
            "text_changed": 0, "ext_filled": 0, "ts_changed": 0, "ids_changed": 0, "pay_changed": 0, "per_kind_text_changed": {},
            "per_kind_chains": {}, "stream_kinds": {}, "flda_inputs": 0, "flda_dropped_cases": 0, "chain_lengths": {},
            "lc_skipped": sum(i["lc_skipped"] for _, i in infos),
            "matching_variant_inputs": {}, "matching_variant_decoded_alone": {}, "ft_config": {}, "ft_save_modes": {}, "big_endian_inputs": 0, "pseudonym_population": {}, "seg_cases": 0, "seg_letters_used": 0,
            "seg_cases_text_rewritten": 0, "seg_zero_chunk_size_then_chunk": 0, "idshape_cases": 0, "idshape_distinct_ecus": 0}
    distinct = set()
    seg_letters = set()
    validated = 0
    st = None
    for i, v in enumerate(verdicts):
        ctx.add_tlc("trace-part%d" % i, v.res)
        cases = c.split_cases(infos[i][0])
        rej = {r[0]: r for r in v.rejected}
        for k, evs in cases.items():
            h = evs[0]["hdr"]
            hits["cases"] += 1
            ins = [e for e in evs if e["ev"] == "in"]
            outs = [e for e in evs if e["ev"] == "out"]
            hits["in"] += len(ins)
            hits["out"] += len(outs)
            hits["dropped"] += max(0, len(ins) - len(outs)) if not any(e["ev"] == "panic" for e in evs) else 0
            hits["panic"] += sum(1 for e in evs if e["ev"] == "panic")
            ft = h.get("ft", {"apid": "", "ctid": ""})

            def from_source(e):
                v = e["vec"]
                return (ft["apid"] == "" or (v["ext"] == 1 and v["apid"] == ft["apid"])) and \
                       (ft["ctid"] == "" or (v["ext"] == 1 and v["ctid"] == ft["ctid"]))
            hits["flda_inputs"] += sum(1 for e in ins if e["fshape"])
            hits["big_endian_inputs"] += sum(1 for e in ins if e.get("be"))
            if any(kd.startswith("ft_") for kd in h["chain"]):
                hits["ft_save_modes"][ft.get("save", "no")] = hits["ft_save_modes"].get(ft.get("save", "no"), 0) + 1
            if h["chain"] in (["ft_drop"], ["ft_keep"]) and h["stream"] == "mixed":
                ck = "apid=%s,ctid=%s" % (ft["apid"] or "-", ft["ctid"] or "-")
                outkeys = {(o["vec"]["idx"], o["vec"]["pay"]) for o in outs}
                d = hits["ft_config"].setdefault(ck, {"flda_of_source_dropped": 0, "flda_of_source_kept": 0, "flda_of_other_source_passed": 0})
                for e in ins:
                    if e["fshape"]:
                        passed = (e["vec"]["idx"], e["vec"]["pay"]) in outkeys
                        if from_source(e):
                            d["flda_of_source_kept" if passed else "flda_of_source_dropped"] += 1
                        elif passed:
                            d["flda_of_other_source_passed"] += 1
            if h["stream"] == "seg":
                hits["seg_cases"] += 1
                sq = plan[k]["seq"]
                seg_letters.update(json.dumps(x, sort_keys=True) for x in sq)
                if len(ins) == len(outs) and any(a["vec"]["text"] != b["vec"]["text"] for a, b in zip(ins, outs) if a.get("tag") == "seg"):
                    hits["seg_cases_text_rewritten"] += 1
                for i1, x in enumerate(sq):
                    if x["k"] == "ST" and x["b"] == 0 and 0 < x["a"] < 65535 and any(y["k"] == "CH" and y["id"] == x["id"] for y in sq[i1 + 1:]):
                        hits["seg_zero_chunk_size_then_chunk"] += 1
                        break
            if h["stream"] == "idshapes":
                hits["idshape_cases"] += 1
                hits["idshape_distinct_ecus"] = max(hits["idshape_distinct_ecus"], len({e["vec"]["ecu"] for e in ins}))
            if h["stream"] == "pop" and k not in v.violations:
                lv = hits["pseudonym_population"].setdefault(h["level"], {"sizes": [], "beyond_capacity_cases": 0})
                lv["sizes"].append(h["size"])
                if h["size"] > 999:
                    lv["beyond_capacity_cases"] += 1
            hits["stream_kinds"][h["stream"]] = hits["stream_kinds"].get(h["stream"], 0) + 1
            hits["chain_lengths"][str(len(h["chain"]))] = hits["chain_lengths"].get(str(len(h["chain"])), 0) + 1
            if len(ins) > len(outs) and "ft_drop" in h["chain"] and any(e["fshape"] for e in ins):
                hits["flda_dropped_cases"] += 1
            for kd in h["chain"]:
                hits["per_kind_chains"][kd] = hits["per_kind_chains"].get(kd, 0) + 1
            for e in evs:
                if e["ev"] == "lcs":
                    hits["lcs"] += 1
                    if len(e["orig"]) > 1:
                        hits["lcs_multi_lifecycle"] += 1
                    if len({r["ecu"] for r in e["orig"]}) > 1:
                        hits["lcs_multi_ecu"] += 1
            # effect counters (only meaningful where nothing is dropped: outputs align with inputs)
            nontrivial = False
            if len(ins) == len(outs):
                for a, b in zip(ins, outs):
                    tag = a.get("tag", "")
                    a, b = a["vec"], b["vec"]
                    if tag:
                        hits["matching_variant_inputs"][tag] = hits["matching_variant_inputs"].get(tag, 0) + 1
                        if h["chain"] == [tag.split(":")[0]] and a["text"] != b["text"]:
                            hits["matching_variant_decoded_alone"][tag] = hits["matching_variant_decoded_alone"].get(tag, 0) + 1
                    if a["text"] != b["text"]:
                        hits["text_changed"] += 1
                        nontrivial = True
                        if len(h["chain"]) == 1:
                            kd = h["chain"][0]
                            hits["per_kind_text_changed"][kd] = hits["per_kind_text_changed"].get(kd, 0) + 1
                    if a["ext"] != b["ext"]:
                        hits["ext_filled"] += 1
                        nontrivial = True
                    if a["ts"] != b["ts"]:
                        hits["ts_changed"] += 1
                        nontrivial = True
                    if (a["ecu"], a["apid"], a["ctid"]) != (b["ecu"], b["apid"], b["ctid"]):
                        hits["ids_changed"] += 1
                        nontrivial = True
                    if a["pay"] != b["pay"]:
                        hits["pay_changed"] += 1
            else:
                nontrivial = True
            if nontrivial:
                distinct.add((json.dumps(h["chain"]), h["stream"], h.get("file") or "", k))
            if k in v.violations:
                r = rej.get(k)
                ctx.violation("case %d (chain %s on stream %s %s) rejected by PluginTrace at line %s: %s" % (
                    k, h["chain"], h["stream"], h.get("file") or "", r[1] if r else "?", r[2] if r else "unfinished case"),
                    {"case": k, "hdr": h, "plan": plan[k] if k < len(plan) else None, "trace_file": infos[i][0],
                     "first_unmatched": r[2] if r else None, "events_tail": evs[-6:], "seed": ctx.seed,
                     "how": "harness/target/debug/c19 --tests %s --work <dir> --adlt <adlt> --plan <file with the plan line> --out t.ndjson --seed %d" % (tests, ctx.seed)})
            else:
                validated += 1
                for kf in v.known.get(k, ()):
                    ctx.known(c.kf_text("C19", kf))
        if st is None and not ctx.violations:
            st = selftest(ctx, cases, v, switches)
    ctx.evaluations = hits["cases"]
    ctx.traces_validated = validated
    ctx.distinct_nontrivial = len(distinct)
    ctx.rule = ("a case = one plugin chain run by plugins_process_msgs (or `adlt convert --anon -o`) on one stream; non-trivial = at "
                "least one message was changed (text, header filled, timestamp, ids) or dropped; distinct by (chain, stream, case)")
    ctx.exhaustive = True
    ctx.extra["chains_enumerated"] = len(chains)
    ctx.extra["chains_run"] = len(chosen)
    ctx.extra["path_hits"] = hits
    ctx.extra["known_finding_switches"] = switches
    ctx.extra["trace_events"] = sum(i["lines"] for _, i in infos)
    if ctx.violations:
        return
    # vacuity: every decoder must have changed some text when alone, header fill / timestamp rewrite / FLDA drop / pseudonyms
    # / multi-lifecycle comparisons must have happened
    need_text = [kd for kd in ("nonverbose", "someip", "can", "muniic", "rewrite") if hits["per_kind_text_changed"].get(kd, 0) == 0]
    hits["seg_letters_used"] = len(seg_letters)
    if hits["seg_letters_used"] < len(letters) or hits["seg_zero_chunk_size_then_chunk"] == 0 or hits["seg_cases_text_rewritten"] == 0 \
            or hits["idshape_cases"] < 2 or hits["idshape_distinct_ecus"] < 14:
        raise c.ToolError("vacuous run: SOME/IP segmented / id shape paths %s" % {k: hits[k] for k in hits if k.startswith("seg") or k.startswith("idshape")})
    ftc = hits["ft_config"]
    bad_ft = [k for k, d in ftc.items() if d["flda_of_source_dropped"] == 0 or d["flda_of_source_kept"] == 0
              or (k != "apid=-,ctid=-" and d["flda_of_other_source_passed"] == 0)]
    pp = hits["pseudonym_population"]
    bad_pop = [lv for lv in ("ecu", "apid", "ctid") if lv not in pp or max(pp[lv]["sizes"]) < 257 or pp[lv]["beyond_capacity_cases"] == 0]
    if len(ftc) != 9 or bad_ft or bad_pop or hits["big_endian_inputs"] == 0 or any(hits["ft_save_modes"].get(m, 0) == 0 for m in ("no", "mem", "auto")):
        raise c.ToolError("vacuous run: file transfer configurations %s %s / pseudonym populations %s %s" % (len(ftc), bad_ft, bad_pop, pp))
    need_var = [t for t in VARIANTS if hits["matching_variant_decoded_alone"].get(t, 0) == 0]
    if need_var:
        raise c.ToolError("vacuous run: matching traffic not decoded for header variants %s" % need_var)
    if need_text or not hits["ext_filled"] or not hits["ts_changed"] or not hits["flda_dropped_cases"] or not hits["ids_changed"] \
            or not hits["lcs_multi_lifecycle"] or not hits["lcs_multi_ecu"] or any(hits["per_kind_chains"].get(kd, 0) == 0 for kd in KINDS):
        raise c.ToolError("vacuous run: %s %s" % (need_text, hits))
    if st is None:
        raise c.ToolError("binding self-test found no suitable accepted case")
    ctx.extra["binding_selftest"] = st
    cs = c.split_cases(infos[0][0])
    for k in list(cs)[:2]:
        ctx.add_sample({"case": k, "hdr": cs[k][0]["hdr"], "events": cs[k][1:4] + cs[k][-3:]})
    ctx.assumptions = ["TLC 1.8.0 and CommunityModules are correct",
                       "the field projection of the driver (13 observable fields per message; ids as strings, others as values or 31-bit hashes) is correct",
                       "plugins are configured from the repository's tests/ descriptions; example streams are slices of tests/*.dlt and can_example1.asc",
                       "pseudonym numbering past the capacity follows DltChar4::from_str truncation (modelled in Plugins.tla MapStepG)"]
