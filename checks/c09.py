"""C09 - merging message sources loses nothing and keeps per-source order (spec/Merge.tla, spec/MergeTrace.tla)"""
import json
import os
import subprocess
from . import common as c

META = {
    "property_id": "C09",
    "technique": "TLC model checking of Merge.tla (all bounded source families, both iterator kinds, liveness) + "
                 "every TLC-enumerated family and seeded random families replayed on the real iterators, each recorded "
                 "run validated by TLC against the contract MergeTrace.tla",
    "design_ref": "DESIGN.md section 6, C09",
    "level_text": "Exhaustive within bounds on the model (every family of <=3 sources x <=2(3) messages over a 3-value "
                  "time alphabet, nondeterministic heap ties), and every such family executed on the real code with the "
                  "contract evaluated by TLC at every next(); random families extend to 8 sources x 60(200) messages.",
    "level_note": "Trusted: TLC, the 60-line driver projection (source/position tags in the payload, field equality). "
                  "Bounded: families beyond the enumerated scope are only sampled. The single-source short-cut is driven "
                  "with messages already numbered from the start index (documented behaviour).",
}


def drive(ctx, binp, args, out):
    p = c.run([binp, "--out", out] + args, timeout=1200, check=False)
    if p.returncode != 0:
        raise c.ToolError("driver failed: " + (p.stdout or "")[-2000:])
    return json.loads(p.stdout.strip().splitlines()[-1])


def check(ctx):
    quick = ctx.quick()
    binp = c.build_harness("c09")
    # (a) model checking of the design/contract module
    for kind, cfg in (("merge", "Merge_quick.cfg" if quick else "Merge_thorough.cfg"),
                      ("chain", "Chain_quick.cfg" if quick else "Chain_thorough.cfg")):
        c.tlc_must_pass(ctx, kind, "Merge.tla", cfg, timeout=3000)
    # (b) scenario emission: every family of the bounded model
    res = c.tlc_must_pass(ctx, "emit", "Merge.tla", "Merge_emit.cfg" if quick else "Merge_emit_thorough.cfg", timeout=3000)
    fams = c.scn_lines(res)
    scn = ctx.path("scenarios.ndjson")
    with open(scn, "w") as f:
        for s in fams:
            f.write(json.dumps(s) + "\n")
    # (c,d) replay on the real code + random families
    trace = ctx.path("trace.ndjson")
    nrand = 300 if quick else 6000
    info = drive(ctx, binp, ["--scenarios", scn, "--random", str(nrand), "--seed", str(ctx.seed),
                             "--max-len", "60" if quick else "200"], trace)
    # (e) TLC validates every recorded run against the contract
    v = c.validate_trace(ctx, "merge", "MergeTrace.tla", trace, timeout=3000)
    ctx.add_tlc("trace-validation", v.res)
    ncases = info["cases"]
    ctx.evaluations = ncases
    ctx.traces_validated = ncases - len(v.violations)
    ctx.rule = ("a case = one run of one iterator constructor on one source family; families: all of the bounded TLC model "
                "(x4 constructors) + seeded random; non-trivial = at least two non-empty sources (an interleaving "
                "decision exists); distinct by (kind, variant, start, family)")
    cases = c.split_cases(trace)
    seen = set()
    for k, evs in cases.items():
        h = evs[0]["hdr"]
        if sum(1 for s in h["srcs"] if s) >= 2:
            seen.add(json.dumps(h, sort_keys=True))
    ctx.distinct_nontrivial = len(seen)
    ctx.exhaustive = True
    ctx.extra["tlc_families_replayed"] = len(fams)
    ctx.extra["random_families"] = nrand
    ctx.extra["trace_events"] = info["lines"]
    for k in list(cases)[:2] + list(cases)[-2:]:
        ctx.add_sample({"case": k, "trace": cases[k][:12]})
    rej = {r[0]: r for r in v.rejected}
    for k in sorted(v.violations):
        r = rej.get(k)
        ctx.violation("case %d rejected by MergeTrace at line %s: %s" % (k, r[1] if r else "?", r[2] if r else "unfinished"),
                      {"case": k, "trace": cases.get(k), "first_unmatched": r[2] if r else None,
                       "how": "bin/check C09 --replay <this file>"})
    if not v.violations:
        def corrupt(evs):
            for e in evs:
                if e["ev"] == "emit":
                    e["index"] += 1
                    return True
            return False
        c.binding_selftest(ctx, "index", "MergeTrace.tla", trace, {}, corrupt)

        def drop(evs):
            for i, e in enumerate(evs):
                if e["ev"] == "emit":
                    del evs[i]
                    return True
            return False
        c.binding_selftest(ctx, "drop-event", "MergeTrace.tla", trace, {}, drop)
    ctx.assumptions = ["TLC 1.8.0 and CommunityModules are correct", "driver projection (payload tags, field equality) is correct",
                       "reception times are mapped 1 tick = 1 ms from a fixed base"]

# round 6 (DESIGN.md 11.10)
META["technique"] += " The sources' own index values are arbitrary (pseudo-random gaps, all 0, decreasing), so that the numbering of the result cannot lean on them."
