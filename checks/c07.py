"""C07 - final lifecycle table is consistent with the delivered messages; listing obligations"""
from . import lc_common as lc
from . import c07r

META = {
    "property_id": "C07",
    "technique": "TLC model checking of LcDetector.tla (invariant C07: published table vs delivered messages incl. merge-after-confirm) + replay of "
                 "every TLC behaviour on the real detector (table equality incl. start/end/resume link) + TLC trace validation of tables and of "
                 "get_sorted_lifecycles_as_vec listings against LcTrace.tla[Check=C07]; remote listing: LcRemoteListing.tla (key = function of "
                 "the resume chain, every tie-breaking) + Lifecycles frames of the real `adlt remote` binary validated against LcRemoteListingTrace.tla",
    "design_ref": "DESIGN.md section 6, C05-C08",
    "level_text": "Table consistency is an invariant of the design model over all bounded streams (the phantom-after-confirmed-merge and the "
                  "internal-assert defects were found this way and repaired by fix: commits); every behaviour is executed on the real code with "
                  "table equality; listings of random tables (up to dozens of lifecycles with resume chains) are checked by TLC for permutation, "
                  "resume-after-origin and start-time order.",
    "level_note": "Trusted: TLC, driver projection (start times enter the listing contract as dense ranks, which preserve every comparison). "
                  "Pre-populated-table runs are not judged for C07 (the table then also holds lifecycles of the earlier stream: narrower reading).",
}


def check(ctx):
    q = ctx.quick()
    lc.run_lc(ctx, "C07",
              emit_cfgs=([("kinds4", "Lc_emit_kinds4.cfg"), ("refresh5", "Lc_emit_refresh5.cfg")] if q else [("kinds4", "Lc_emit_kinds4_full.cfg"), ("1ecu5", "Lc_emit_1ecu5.cfg"), ("refresh5", "Lc_emit_refresh5.cfg"), ("refresh2ecu", "Lc_emit_refresh2ecu.cfg")]) + lc.EPOCH_CFGS,
              mc_cfgs=[("listing", "LcListing.tla", "LcListing_quick.cfg")] if q else
                      [("listing", "LcListing.tla", "LcListing_thorough.cfg"), ("2ecu4", "LcDetector.tla", "Lc_2ecu4.cfg")],
              driver_args=["--regressions", "--random", "500" if q else "10000", "--max-len", "40" if q else "120",
                           "--big-tables", "12" if q else "150", "--file-max", "600" if q else "6000", "--huge", "1" if q else "3"],
              scripted=2500 if q else 40000,
              what="final table vs delivered messages; listing obligations")
    # the listing as the remote server sends it (start_time = resume_start_time, sorted by it): spec/LcRemoteListing*.tla through the real
    # `adlt remote` binary, every file opened several times (the map's iteration order depends on the lifecycle ids)
    c07r.run_remote_listing(ctx, q)
