"""C18 - verbose payloads: encode/decode agreement and canonical text (spec/VerbPayload.tla, spec/VerbTrace.tla)"""
import json
import os
from . import common as c

KF = "KF_C18_EmptyArgNoLen"

META = {
    "property_id": "C18",
    "technique": "TLC model-checks the decoder's cursor machine of VerbPayload.tla (spec/mc/MCVerbPayload.tla) over all "
                 "argument sequences x every truncation point and over single-field corruptions (nondeterministic reads "
                 "after the cursor leaves the field grid): Decode(Encode(a)) = a, truncation => exactly the fitting prefix, "
                 "every slice in bounds, termination; every terminal state is emitted with the predicted slices and "
                 "replayed on the real encoders (serde Serializer / dlt_args!, payload_from_args in both byte orders) and "
                 "the real decoder (for arg in &msg, payload_as_text); all untruncated, all corrupted, all drifting and a "
                 "sample of the matching executions plus seeded random executions are validated by TLC against the "
                 "contract VerbTrace.tla (type words, raw bytes, byte order, bounds, prefix property, text grammar on bytes). "
                 "Nested shapes (VerbShapes.tla): every untruncated sequence is additionally handed to the serde encoder through "
                 "~100-190 forms (Option / newtype / ASCII wrapper around every kind, chars, units, unit variants between the "
                 "arguments, tuples, tuple structs, Vec, maps, structs and enum variants as real Rust types, to_payload, the "
                 "serializer's SerializeSeq / ... / SerializeStruct helper methods driven directly); TLC predicts refusal (and "
                 "error) or the decoded slices per form and checks that this design refines the contract's reading of which "
                 "values a shape hands over (ShapesConform); drifting, sampled and random trees are judged by VerbTrace.tla",
    "design_ref": "DESIGN.md section 6, C18",
    "level_text": "Exhaustive on the model: sequences of <= 2 arguments over 20 abstract arguments (every kind x width, "
                  "data lengths 0/1/3) and of 3 arguments over 7 (quick) / 20 (thorough), each at every truncation "
                  "offset, plus every single type-word / length-prefix corruption of sequences <= 2 over 17 / 5 values; "
                  "each scenario executed on the real code with 3 encoder / byte-order combinations and compared with "
                  "the model's prediction; contract evaluated by TLC on every untruncated, corrupted, drifting, sampled "
                  "and random (0..8 arguments, extreme values, 64 KiB strings) execution, and on directed executions of "
                  "ASCII-typed / invalid UTF-8-typed strings that start with or contain EF BB BF, FF FE, FE FF, lone bytes "
                  ">= 0x80 followed by 7-bit text (alone and between other arguments, every encoder and byte order). Nested "
                  "shapes: every sequence of <= 2 arguments (and of 3 over 7 / 10) in every form of MCVerbPayload!Forms, plus "
                  "600 / 8000 seeded random trees of depth <= 3 over the 18 node types and 9 entry points.",
    "level_note": "Trusted: TLC, the driver's value generation and projection, core::fmt / ryu for the decimal text of the "
                  "ORIGINAL numbers (documented exception: TLC integers are 32 bit). Narrowed: text judged only for "
                  "untruncated payloads; float text may be any of Display / Debug / LowerExp / JSON of the original value; "
                  "text of NaN / inf is free; HOW a byte >= 0x80 of an ASCII-typed string (or of a UTF-8-typed string that is "
                  "not valid UTF-8, or is longer than 512 bytes) is shown is free, only the 7-bit rule is judged for such "
                  "strings: deleting every byte outside 0x20..0x7e from the rendered text region must give the 7-bit "
                  "characters of the values (one trailing NUL removed, CR/LF/TAB as spaces) in order, none lost, none "
                  "invented - a rendering that only drops or re-maps bytes >= 0x80 (e.g. a stripped UTF-8 BOM: EF BB BF 'ok' "
                  "shown as 'ok') stays outside the judged domain, and so do regions with a non-finite float, more than 2 "
                  "floats, or more than 256 KiB of text; a truncated list may yield ANY prefix; booleans are 0/1 of "
                  "width 1, integers 8..64 bit, floats 32/64 bit (128-bit integers, 16-bit floats, VARI/FIXP, SCOD hex/bin "
                  "are outside the statement). The serde encoder exists for the native byte order only. Nested shapes: the "
                  "encoder may refuse every form that is not a plain sequence of the statement's typed values (nothing is claimed "
                  "then); an accepted form must decode to the handed values in order, where a char is a UTF-8 string, data-less "
                  "values (None, unit) hand over nothing, variant / field NAMES are optional arguments (absent, or a UTF-8 string "
                  "with exactly the name's bytes), the DltScodAscii wrapper around exactly one raw-bytes value is an ASCII-typed string and a tree "
                  "with anything else below that wrapper is judged for bounds only. The helper methods are reached by naming the "
                  "trait methods on `&mut Serializer` (type SerializeSeq = Self); no Serialize implementation can reach them on "
                  "this tree because every constructor refuses.",
}


def drive(binp, args, out):
    p = c.run([binp, "--out", out] + args, timeout=3000, check=False)
    if p.returncode != 0:
        raise c.ToolError("driver failed: " + (p.stdout or "")[-2000:])
    return json.loads(p.stdout.strip().splitlines()[-1])


def binding_selftest(ctx, cases, accepted, known_cases):
    """corrupt one logged field of accepted cases / delete the event: VerbTrace must reject exactly those; a case
    accepted through the known-finding action must be a violation with the switch off"""
    def ok_full(evs, kinds):
        e = evs[1] if len(evs) == 2 else None
        return (e and e["ev"] == "codec" and e["mode"] == "full" and len(e["args_in"]) >= 1 and len(e["args_out"]) == len(e["args_in"])
                and e["args_in"][0]["kind"] in kinds and len(str(evs)) < 4000)
    num = [k for k in accepted if ok_full(cases[k], ("uint", "sint"))][:4]
    raw = [k for k in accepted if ok_full(cases[k], ("rawd",)) and len(cases[k][1]["args_in"][0]["raw"]) >= 1][:1]
    if len(num) < 4 or not raw:
        raise c.ToolError("binding self-test: not enough suitable accepted cases")
    lines, expect = [], set()

    def put(evs):
        for e in evs:
            lines.append(json.dumps(e))

    put(cases[num[0]])                                                # untouched: stays accepted
    a = json.loads(json.dumps(cases[num[1]])); a[1]["text"][0] ^= 1   # one text byte differs
    put(a); expect.add(num[1])
    a = json.loads(json.dumps(cases[num[2]])); a[1]["args_out"][0]["raw"][0] ^= 0x80   # raw value differs
    put(a); expect.add(num[2])
    a = json.loads(json.dumps(cases[num[3]])); a[1]["args_out"][0]["off"] = a[1]["paylen"]   # slice outside the payload
    put(a); expect.add(num[3])
    a = json.loads(json.dumps(cases[raw[0]])); a[1]["text"][0] = a[1]["text"][0] ^ 0x20 if a[1]["text"][0] >= 97 else ord("g")
    put(a); expect.add(raw[0])                                        # hex digit upper-cased / wrong
    a = json.loads(json.dumps(cases[num[0]])); a[0]["case"] = 10 ** 6; a[1]["args_out"] = a[1]["args_out"][:-1]
    put(a); expect.add(10 ** 6)                                       # an argument lost in an untruncated run
    a = json.loads(json.dumps(cases[num[0]])); a[0]["case"] = 10 ** 6 + 1
    put(a[:1]); expect.add(10 ** 6 + 1)                               # event deleted
    # 7-bit rule: a lone ASCII-typed string that starts with bytes >= 0x80 followed by 7-bit text.  Re-rendering its high
    # bytes by other characters above U+007F must stay accepted; losing / inventing / changing one 7-bit character must not
    def weak_single(evs):
        e = evs[1] if len(evs) == 2 else None
        return (e and e["ev"] == "codec" and e["mode"] == "full" and len(e["args_in"]) == 1 and len(e["args_out"]) == 1
                and e["args_in"][0]["kind"] == "strA" and has_high_and_7bit(e["args_in"][0]) and e["args_in"][0]["raw"][0] >= 0x80
                and any(0x21 <= b <= 0x7e for b in e["text"]) and len(e["text"]) < 200)
    weak = [k for k in accepted if weak_single(cases[k])][:4]
    if len(weak) < 4:
        raise c.ToolError("binding self-test: not enough accepted single ASCII-typed strings with high bytes and 7-bit text")
    a = json.loads(json.dumps(cases[weak[0]]))
    a[1]["text"] = [x for b in a[1]["text"] for x in ([b] if b < 0x80 else [0xef, 0xbf, 0xbd])]   # high bytes shown differently
    put(a)
    a = json.loads(json.dumps(cases[weak[1]])); t = a[1]["text"]
    i = max(j for j, b in enumerate(t) if 0x21 <= b <= 0x7e); del t[i]                             # a 7-bit character lost
    put(a); expect.add(weak[1])
    a = json.loads(json.dumps(cases[weak[2]])); a[1]["text"].insert(0, ord("?"))                   # a 7-bit character invented
    put(a); expect.add(weak[2])
    a = json.loads(json.dumps(cases[weak[3]])); t = a[1]["text"]
    i = min(j for j, b in enumerate(t) if 0x21 <= b <= 0x7e); t[i] = t[i] ^ 1 if t[i] ^ 1 in range(0x21, 0x7f) else t[i] ^ 2   # ... changed
    put(a); expect.add(weak[3])
    # nested shapes: an accepted case that carries an optional name stays accepted when the name argument is taken out of the
    # decoded list and the text consistently (a format without names); losing a VALUE is rejected; refusing a plain value is rejected
    def shaped_ok(evs, want_name):
        e = evs[1] if len(evs) == 2 else None
        return (e and e["ev"] == "codec" and e.get("via", "plain") != "plain" and len(e["args_out"]) >= 2 and len(str(evs)) < 4000
                and has_name(e["tops"]) == want_name and (not want_name or e["tops"][0]["t"] == "field"))
    sh_plain = [k for k in accepted if shaped_ok(cases[k], False)][:2]
    sh_ref = [k for k in accepted if len(cases[k]) == 2 and cases[k][1]["ev"] == "refused" and cases[k][1].get("via", "plain") != "plain"
              and len(str(cases[k])) < 4000][:1]
    if len(sh_plain) < 2 or not sh_ref:
        raise c.ToolError("binding self-test: not enough accepted nested-shape cases")
    put(cases[sh_plain[0]])                                           # untouched: stays accepted
    a = json.loads(json.dumps(cases[sh_plain[1]])); del a[1]["args_out"][-1]
    put(a); expect.add(sh_plain[1])                                   # a handed value lost
    a = json.loads(json.dumps(cases[sh_ref[0]])); a[0]["case"] = 10 ** 6 + 2
    a[1]["via"] = "args"; a[1]["tops"] = [leaf_u8()]
    put(a); expect.add(10 ** 6 + 2)                                   # a plain value refused
    def one_field(evs):       # d_struct with one field holding one plain number: decoded [name, value], text "<name> <value>"
        e = evs[1] if len(evs) == 2 else None
        return (e and e["ev"] == "codec" and e.get("via") == "d_struct" and len(e["tops"]) == 1 and e["tops"][0]["t"] == "field"
                and e["tops"][0]["c"][0]["t"] == "leaf" and e["tops"][0]["c"][0]["a"]["kind"] in ("uint", "sint") and len(e["args_out"]) == 2)
    named = [k for k in accepted if one_field(cases[k])][:2]
    if len(named) < 2:
        raise c.ToolError("binding self-test: not enough accepted d_struct cases with one numeric field")
    a = json.loads(json.dumps(cases[named[0]])); nlen = len(a[1]["tops"][0]["name"])
    del a[1]["args_out"][0]; a[1]["text"] = a[1]["text"][nlen + 1:]
    put(a)                                                            # the optional name left out consistently: stays accepted
    a = json.loads(json.dumps(cases[named[1]])); a[1]["args_out"][0]["raw"][0] ^= 1; a[1]["text"][0] ^= 1
    put(a); expect.add(named[1])                                      # a name that is present but not the handed one
    kf_case = sorted(known_cases)[:1]
    for k in kf_case:
        put(cases[k])
    p = ctx.path("selftest.ndjson")
    with open(p, "w") as f:
        f.write("\n".join(lines) + "\n")
    v = c.validate_trace(ctx, "selftest", "VerbTrace.tla", p, consts={KF: True}, timeout=600)
    if v.violations != expect or set(v.known) != set(kf_case):
        raise c.ToolError("binding self-test failed: VerbTrace rejected %s (expected %s), known %s (expected %s)" % (
            sorted(v.violations), sorted(expect), sorted(v.known), kf_case))
    v2 = c.validate_trace(ctx, "selftest-strict", "VerbTrace.tla", p, consts={KF: False}, timeout=600)
    if v2.violations != expect | set(kf_case) or v2.known:
        raise c.ToolError("binding self-test failed: with the known-finding switch off VerbTrace rejected %s, expected %s" % (
            sorted(v2.violations), sorted(expect | set(kf_case))))
    ctx.extra["binding_selftest"] = {"corrupted_cases": len(expect), "rejected": len(v.violations), "untouched_accepted": True,
                                     "high_bytes_rerendered_accepted": True, "optional_name_left_out_accepted": True,
                                     "kf_case_rejected_with_switch_off": len(kf_case)}


def leaf_u8():
    return {"t": "leaf", "a": {"kind": "uint", "w": 1, "raw": [7], "num": [[55]]}, "name": [], "c": []}


def has_name(tops):
    return any(t["name"] or has_name(t["c"]) for t in tops)


def tree_shape(tops):
    return [[t["t"], t["a"]["kind"], t["a"]["w"], len(t["a"]["raw"]), tree_shape(t["c"])] for t in tops]


def has_high_and_7bit(a):
    raw = a["raw"][:-1] if a["raw"] and a["raw"][-1] == 0 else a["raw"]
    return a["kind"] in ("strU", "strA") and any(b >= 0x80 for b in raw) and any(0x20 <= b <= 0x7e or b in (9, 10, 13) for b in raw)


def seven_bit_counts(cases):
    """vacuity bookkeeping (no verdict): untruncated executions with a string argument that has bytes >= 0x80 AND 7-bit
    characters - the inputs the 7-bit rule of VerbTrace.tla has something to say about (UTF-8-typed ones only if the
    string is not valid UTF-8 or longer than Utf8Max)"""
    n = {"strA_single_arg": 0, "strA_multi_arg": 0, "strU_pfa": 0, "src_tlc": 0, "src_random": 0, "src_directed": 0}
    for evs in cases.values():
        if len(evs) != 2 or evs[1]["ev"] != "codec" or evs[1]["mode"] != "full":
            continue
        e = evs[1]
        ks = {a["kind"] for a in e["args_in"] if has_high_and_7bit(a)}
        if not ks:
            continue
        if "strA" in ks:
            n["strA_single_arg" if len(e["args_in"]) == 1 else "strA_multi_arg"] += 1
        if "strU" in ks:
            n["strU_pfa"] += 1
        n["src_" + evs[0]["hdr"].get("src", "?")] = n.get("src_" + evs[0]["hdr"].get("src", "?"), 0) + 1
    return n


def replay(ctx):
    """bin/check C18 --replay <file>: re-validate the recorded case of a replay file and print what TLC says"""
    obj = json.load(open(ctx.replay))
    evs = obj["replay"]["trace"]
    p = ctx.path("replay-trace.ndjson")
    with open(p, "w") as f:
        for e in evs:
            f.write(json.dumps(e) + "\n")
            c.log(json.dumps(e)[:600])
    kf = c.kf_switches("C18", [KF])
    if os.environ.get("VERIF_KF_OFF"):
        kf = {KF: False}
    v = c.validate_trace(ctx, "replay", "VerbTrace.tla", p, consts=kf, timeout=600)
    ctx.add_tlc("replay-validation", v.res)
    ctx.evaluations = 1
    ctx.rule = "replay of one recorded case"
    for k, labels in v.known.items():
        for lab in labels:
            ctx.known(c.kf_text(ctx.pid, lab))
    for r in v.rejected:
        c.log("first unmatched event: line %s of the replayed trace: %s" % (r[1], r[2]))
    for k in sorted(v.violations):
        ctx.violation("replayed case %s is rejected by VerbTrace.tla" % k, obj["replay"])
    ctx.traces_validated = 1 - len(v.violations)


def check(ctx):
    if getattr(ctx, "replay", None):
        return replay(ctx)
    quick = ctx.quick()
    binp = c.build_harness("c18")
    # (a,b) the cursor machine over all sequences x truncation points and single-field corruptions; emission
    kw = {"workers": int(os.environ["C18_TLC_WORKERS"])} if os.environ.get("C18_TLC_WORKERS") else {}    # (development aid)
    res = c.tlc_must_pass(ctx, "verb", "mc/MCVerbPayload.tla", "VerbPayload_quick.cfg" if quick else "VerbPayload_thorough.cfg",
                          timeout=3000, **kw)
    scns = c.scn_lines(res)
    if not scns:
        raise c.ToolError("TLC emitted no scenarios")
    scn = ctx.path("scenarios.ndjson")
    by_mode = {}
    with open(scn, "w") as f:
        for s in scns:
            by_mode[s["mode"]] = by_mode.get(s["mode"], 0) + 1
            f.write(json.dumps(s) + "\n")
    # (c,d) replay on the real encoders / decoder, random executions
    trace = ctx.path("trace.ndjson")
    nrand = 1500 if quick else 20000
    nrshape = 600 if quick else 8000
    info = drive(binp, ["--scenarios", scn, "--random", str(nrand), "--huge", "9" if quick else "40", "--directed", "1", "--seed", str(ctx.seed),
                        "--random-shapes", str(nrshape), "--sample-every", "60" if quick else "400"], trace)
    # (e) TLC validates the recorded executions against the contract (known-finding action switched by known_findings.jsonl)
    kf = c.kf_switches("C18", [KF])
    if os.environ.get("VERIF_KF_OFF"):          # self-tests only (registered commands never set it): strict contract
        kf = {KF: False}
    v = c.validate_trace(ctx, "verb", "VerbTrace.tla", trace, consts=kf, timeout=3000, xmx="12g")
    ctx.add_tlc("trace-validation", v.res)
    cases = c.split_cases(trace)
    ctx.evaluations = info["replayed"] + nrand + info["directed"] + nrshape
    ctx.traces_validated = info["cases"] - len(v.violations)
    ctx.rule = ("an evaluation = one encode -> (truncate | corrupt) -> decode -> render run of the real code for one argument "
                "sequence, encoder and byte order; non-trivial = at least one argument was decoded; TLC scenarios are distinct "
                "states of the bounded model (x 3 encoder / byte-order combinations), random cases are distinct by content")
    rnd = set()
    shaped_validated = {"accepted": 0, "refused": 0, "with_optional_names": 0}
    for k, evs in cases.items():
        if evs[0]["hdr"].get("src") == "random" and len(evs) > 1 and evs[1]["ev"] == "codec" and evs[1]["args_out"]:
            e = evs[1]
            rnd.add((e["enc"], e["be"], e["mode"], e["paylen"], json.dumps([(a["kind"], a["w"], len(a["raw"])) for a in e["args_in"]])))
        if len(evs) > 1 and evs[1].get("via", "plain") != "plain":
            e = evs[1]
            if e["ev"] == "codec":
                shaped_validated["accepted"] += 1
                shaped_validated["with_optional_names"] += 1 if has_name(e["tops"]) else 0
                if evs[0]["hdr"].get("src") == "rshape" and e["args_out"]:
                    rnd.add(("rshape", e["via"], e["paylen"], json.dumps(tree_shape(e["tops"]))))
            elif e["ev"] == "refused":
                shaped_validated["refused"] += 1
    ctx.distinct_nontrivial = info["nontrivial_replayed"] + len(rnd)
    ctx.exhaustive = True
    ctx.extra["tlc_scenarios"] = by_mode
    ctx.extra["replayed"] = info["replayed"]
    ctx.extra["fast_path"] = info["fast_path"]
    ctx.extra["slow_path"] = info["slow_path"]
    ctx.extra["drift"] = info["drift"]
    ctx.extra["drift_not_recorded_for_tlc"] = info["drift_unrecorded"]      # (cap per family, see the driver; 0 unless the tree deviates massively)
    ctx.extra["skipped_not_encodable"] = info["skipped_not_encodable"]
    ctx.extra["random_cases"] = nrand
    ctx.extra["nested_shapes"] = {"tlc_forms_replayed": info["shaped_replayed"], "drift": info["shape_drift"], "random_trees": nrshape,
                                  "validated_by_contract": shaped_validated}
    ctx.extra["directed_cases"] = info["directed"]
    ctx.extra["seven_bit_rule"] = seven_bit_counts(cases)
    ctx.extra["trace_events"] = info["lines"]
    ctx.extra["paths_hit"] = info["hits"]
    ctx.extra["design_conformance"] = {"steps": info["replayed"], "mismatches": info["drift"],
                                       "what": "decoded (type word, slice offset, slice length, raw bytes) against the model's prediction"}
    need = ["bool1", "sint1", "sint2", "sint4", "sint8", "uint1", "uint2", "uint4", "uint8", "floa4", "floa8", "strU0", "strA0", "rawd0",
            "mode_full", "mode_trunc", "mode_corrupt", "enc_serde_le", "enc_pfa_le", "enc_pfa_be",
            "directed_strA_serde_le", "directed_strA_pfa_le", "directed_strA_pfa_be", "directed_strU_pfa_le", "directed_strU_pfa_be",
            "strA_starts_efbbbf", "strA_starts_fffe", "strA_starts_feff", "strA_starts_other_high", "strA_high_after_7bit"]
    # nested shapes: every node type of the serde data model, every entry point, both outcomes
    need += ["shape_" + t for t in ("leaf", "char", "none", "unit", "unit_struct", "unit_variant", "some", "newtype", "wrapper", "newtype_variant",
                                    "seq", "tuple", "tuple_struct", "tuple_variant", "map", "struct", "struct_variant", "field")]
    need += ["via_" + v for v in ("args", "to_payload", "d_seq", "d_tuple", "d_tuple_struct", "d_tuple_variant", "d_map", "d_struct", "d_struct_variant")]
    need += ["rshape_accepted", "rshape_refused"]
    missing = [n for n in need if not info["hits"].get(n)]
    missing += ["nested_shapes:" + k for k, n in shaped_validated.items() if not n]
    missing += ["seven_bit_rule:" + k for k, n in ctx.extra["seven_bit_rule"].items() if not n]
    if missing and not v.violations:      # (a broken tree must end in exit 1, not in a tool error)
        raise c.ToolError("vacuity: paths never exercised: %s" % missing)
    some = list(cases)
    for k in some[:1] + some[len(some) // 2:len(some) // 2 + 1] + some[-1:]:
        ctx.add_sample({"case": k, "trace": cases[k] if len(json.dumps(cases[k])) < 3000 else "(event longer than 3000 bytes)"})
    for k, labels in sorted(v.known.items()):
        for lab in labels:
            ctx.known(c.kf_text("C18", lab))
    ctx.extra["known_finding_cases"] = len(v.known)
    rej = {r[0]: r for r in v.rejected}
    for k in sorted(v.violations):
        r = rej.get(k)
        evs = cases.get(k, [])
        short = json.dumps(evs)
        ctx.violation("case %d rejected by VerbTrace at line %s" % (k, r[1] if r else "?"),
                      {"case": k, "trace": evs if len(short) < 20000 else [evs[0], {"truncated_event": short[:20000]}],
                       "how": "bin/check C18 --replay <this file>"})
    if not v.violations:
        binding_selftest(ctx, cases, [k for k in cases if k not in v.violations and k not in v.known], set(v.known))
    ctx.assumptions = ["TLC and CommunityModules are correct",
                       "driver value generation and projection (slice offsets from pointers, byte copies) are correct",
                       "core::fmt / ryu render the ORIGINAL numbers correctly (expected decimal texts come from the driver)"]
