"""C07, listing clause, remote part - the lifecycle listing `adlt remote` sends to its clients (Lifecycles frames).

spec/LcRemoteListing.tla       design: detector model x the key resume_start_time as a function of the resume chain x listing = any
                               sequence sorted by the key; invariants = the listing clause on the model; scenario emission
spec/LcRemoteListingTrace.tla  contract over the recorded frames of the real server binary
harness/src/bin/c07r.rs        driver: DLT files from the emitted scenarios (+ microsecond variants, seeded random resume chains),
                               every file opened several times per server process (other lifecycle ids each time)

`run_remote_listing(ctx, quick)` is called by checks/c07.py (after run_lc) and by the standalone runner checks/x08.py."""
import collections
import concurrent.futures
import json
import os
import random
import time
from . import common as c

KF = "KF_C07_ResumeChainKey"
TRACE_MODULE = "LcRemoteListingTrace.tla"
DESIGN = "LcRemoteListing.tla"

STATEMENT = ("Every Lifecycles frame of `adlt remote` lists each lifecycle at most once with start_time fields that do not decrease in "
             "list order; once a file is parsed and the connection is idle the client's table (frames folded, last write wins per id) "
             "lists every lifecycle of the file, a lifecycle that resumes nothing under its start estimate (so without resumes the "
             "listing is ordered by start time) and every resume lifecycle under a start_time STRICTLY later than the start_time of the "
             "lifecycle it resumes - hence every listing by that key (the frame's order, the client's sort, any tie-breaking of equal "
             "keys) places a resumed lifecycle after the one it resumes; no panic, no closed connection.")
NARROWED = ("Narrowed: judged per frame (each id once, sorted) and at idle on the folded table (strict keys along resume links, "
            "start estimate for non-resume lifecycles, nothing missing); frames received while parsing is still running are NOT judged for "
            "the resume order (the table may then hold an older snapshot of the resumed lifecycle); which lifecycle resumes which and the "
            "raw start estimates come from a local run of the real detector on the same file (hook accessor verif_resume_lc_id, pub "
            "field start_time) - the wire format does not carry them; entries in excess of the local table (X05's known finding) are "
            "only judged by the per-frame rules; nothing is required of a resume lifecycle's key relative to OTHER lifecycles.")


def _drive(binp, args, timeout=5400):
    p = c.run([binp] + args, timeout=timeout, check=False)
    if p.returncode != 0:
        raise c.ToolError("c07r driver failed (rc=%d): %s" % (p.returncode, (p.stdout or "")[-3000:]))
    return json.loads(p.stdout.strip().splitlines()[-1])


def _design_cfg(ctx, name, as_is):
    """the bounded configs are written for the chain key; while the known finding is open the model follows the code as it is"""
    src = os.path.join(c.SPEC, "mc", "LcRemoteListing_%s.cfg" % name)
    if not as_is:
        return src
    txt = open(src).read()
    if "ChainKey = TRUE" not in txt or " ChainStrict ResumedAfterOrigin" not in txt:
        raise c.ToolError("unexpected template " + src)
    txt = txt.replace("ChainKey = TRUE", "ChainKey = FALSE").replace(" ChainStrict ResumedAfterOrigin", " AsIsOnlyKf")
    dst = ctx.path("rl-%s-asis.cfg" % name)
    with open(dst, "w") as f:
        f.write(txt)
    return dst


def _design_run(ctx, name, as_is, workers):
    cfg = _design_cfg(ctx, name, as_is)
    res = c.tlc(os.path.join(c.SPEC, DESIGN), cfg, ctx.path("tlc-rl-" + name), keep_log=ctx.path("tlc-rl-%s.log" % name), timeout=7000, workers=workers)
    if not res.ok:
        raise c.ToolError("TLC run rl-%s did not pass (rc=%s, violation=%s); log: %s\n%s" % (name, res.rc, res.violation, ctx.path("tlc-rl-%s.log" % name), res.out[-3000:]))
    return name, res


def _validate_chunked(ctx, name, trace, consts, max_lines=30000, timeout=3000):
    chunks, cur, n, idx = [], None, 0, 0
    with open(trace) as f:
        for line in f:
            if cur is None or (n >= max_lines and '"ev":"reset"' in line[:40]):
                if cur:
                    cur.close()
                idx += 1
                p = "%s.chunk%d" % (trace, idx)
                chunks.append(p)
                cur, n = open(p, "w"), 0
            cur.write(line)
            n += 1
    if cur:
        cur.close()
    merged = None
    for i, p in enumerate(chunks):
        v = c.validate_trace(ctx, "%s-%d" % (name, i + 1), TRACE_MODULE, p, consts, timeout=timeout, xmx="8g")
        ctx.add_tlc("remote-listing-trace-validation-%d" % (i + 1), v.res)
        if merged is None:
            merged = v
        else:
            merged.violations |= v.violations
            for k, labs in v.known.items():
                merged.known.setdefault(k, set()).update(labs)
            merged.rejected += v.rejected
            merged.states += v.states
        os.remove(p)
    if merged is None:
        raise c.ToolError("empty trace " + trace)
    return merged


def _key(e):
    return (e["st"], e["su"])


def run_remote_listing(ctx, quick):
    t_all = time.time()
    rl = ctx.extra.setdefault("remote_listing", {})
    sw = c.kf_switches("C07", [KF])
    if os.environ.get("C07R_KF") == "1":       # development aid: judge as if the known finding were recorded as open
        sw = {KF: True}
    as_is = sw[KF]
    work = ctx.path("remote-listing")
    os.makedirs(work, exist_ok=True)
    # ---------------------------------------------------------------- (a,b) model checking of the design module + emission; builds meanwhile
    names = ["q1ecu4", "q2ecu3"] if quick else ["t1ecu5", "t2ecu4", "tgrid4", "tkinds2ecu3", "tkinds4", "tepoch4"]
    t0 = time.time()
    with concurrent.futures.ThreadPoolExecutor(max_workers=2 if quick else 3) as ex:
        futs = [ex.submit(_design_run, ctx, n, as_is, max(2, (c.NCPU - 2) // 2)) for n in names]
        binp = c.build_harness("c07r")
        adlt = c.build_adlt_bin()
        results = [f.result() for f in futs]
    groups = collections.OrderedDict()
    emitted = 0
    model_classes = collections.Counter()
    for name, res in results:
        ctx.add_tlc("remote-listing-" + name, res)
        for s in c.scn_lines(res):
            emitted += 1
            epoch0 = name.startswith("tepoch")
            key = json.dumps([s["inputs"], epoch0], sort_keys=True)
            g = groups.setdefault(key, {"inputs": s["inputs"], "alts": {}, "classes": set(), "epoch0": epoch0, "ok": True})
            g["alts"][json.dumps(s["pred"], sort_keys=True)] = s["pred"]
            g["classes"].update(s["classes"])
            g["ok"] = g["ok"] and s["ok"]
            if not s["ok"] and (not as_is or "chain-key-not-above-lifted-origin-key" not in s["classes"]):
                raise c.ToolError("the design model violates the contract outside the known finding: %s" % json.dumps(s)[:600])
    for g in groups.values():
        for k in g["classes"]:
            model_classes[k] += 1
    if not quick:
        # informational witness: the key as the pinned tree computes it does not satisfy ChainStrict on the model
        res = c.tlc(os.path.join(c.SPEC, DESIGN), os.path.join(c.SPEC, "mc", "LcRemoteListing_asis.cfg"), ctx.path("tlc-rl-asis"),
                    keep_log=ctx.path("tlc-rl-asis.log"), timeout=3000)
        rl["model_as_is_violates_ChainStrict"] = (res.violation == "ChainStrict")
        if res.violation != "ChainStrict":
            raise c.ToolError("LcRemoteListing_asis.cfg: expected the ChainStrict counterexample, got %s" % res.violation)
    # Which emitted inputs are replayed on the real binary: one open costs ~0.15 s of CPU in the server (it allocates its message
    # channels per open), so the replay is a seeded, class-stratified selection: every input of the rare classes up to a cap,
    # a sample of the common ones.  The model-level invariants above always cover the whole bounded space.
    rnd = random.Random(ctx.seed)
    glist = list(groups.values())
    quota = ([("chain-key-not-above-lifted-origin-key", 6), ("resume-start-equals-origin-start", 26), ("origin-not-listed", 6),
              ("resume-chains-on-two-ecus", 10), ("resume-start-before-origin-start", 24), ("resume-chain-of-three", 24), ("equal-keys", 16),
              ("resume-and-other-ecu", 16), ("resume-start-after-origin-start", 24)] if quick else
             [("chain-key-not-above-lifted-origin-key", 150), ("resume-start-equals-origin-start", 400), ("origin-not-listed", 150),
              ("resume-chains-on-two-ecus", 200), ("resume-start-before-origin-start", 400), ("resume-chain-of-three", 400), ("equal-keys", 250),
              ("resume-and-other-ecu", 250), ("resume-start-after-origin-start", 400)])
    chosen, seen = [], set()
    for cls, k in quota:
        pool = [i for i, g in enumerate(glist) if cls in g["classes"] and i not in seen]
        for i in (pool if len(pool) <= k else rnd.sample(pool, k)):
            seen.add(i)
            chosen.append(glist[i])
    glist = chosen
    scn = ctx.path("rl-scenarios.ndjson")
    with open(scn, "w") as f:
        for g in glist:
            f.write(json.dumps({"inputs": g["inputs"], "alts": list(g["alts"].values()), "classes": sorted(g["classes"]), "epoch0": g["epoch0"]}) + "\n")
    rl["wall_model_and_build_s"] = round(time.time() - t0, 1)
    # ---------------------------------------------------------------- (c,d) the real server binary
    t0 = time.time()
    trace = ctx.path("rl-trace.ndjson")
    args = ["--adlt", adlt, "--work", work, "--scenarios", scn, "--regressions", "--seed", str(ctx.seed), "--out", trace,
            "--random", "48" if quick else "700", "--passes", "2" if quick else "3", "--reuse-every", "4" if quick else "3",
            "--workers", "10" if quick else "12", "--jitter-near", "30" if quick else "400", "--jitter-sample", "12" if quick else "300"]
    info = _drive(binp, args)
    rl["wall_driver_s"] = round(time.time() - t0, 1)
    # ---------------------------------------------------------------- (e) TLC validates every recorded open against the contract
    t0 = time.time()
    v = _validate_chunked(ctx, "rl", trace, sw)
    rl["wall_trace_validation_s"] = round(time.time() - t0, 1)
    cases = c.split_cases(trace)
    # ---------------------------------------------------------------- evidence + path counters (counted from the trace, no verdict)
    paths = collections.Counter()
    files_nontrivial = set()
    per_file_bases = collections.defaultdict(set)
    for k, evs in cases.items():
        h = evs[0]["hdr"]
        frames = [e for e in evs if e["ev"] == "lcs"]
        loc = {r["id"]: r for r in h["local"]}
        paths["open_src_" + h["src"].split("-")[0]] += 1
        per_file_bases[h["file"]].add(h["idbase"])
        if h["idbase"] > 1:
            paths["open_with_non_first_id_range"] += 1
        if h["conn_reused"]:
            paths["open_on_a_connection_used_before"] += 1
        if h["open"] > 0 and not h["conn_reused"]:
            paths["reopen_on_fresh_connection"] += 1
        if len(frames) >= 2:
            paths["several_lifecycle_frames"] += 1
        if h["ctrl_only"]:
            paths["control_only_lifecycle_not_listed"] += 1
        if h["how"] != "finished":
            paths["idle_by_fallback_" + h["how"]] += 1
        nres = sum(1 for e in frames for r in e["items"] if r["res"])
        paths["resume_entries"] += nres
        paths["entries"] += sum(len(e["items"]) for e in frames)
        if any(len(e["items"]) >= 3 for e in frames):
            paths["frame_with_three_or_more_entries"] += 1
        for e in frames:
            ks = [_key(r) for r in e["items"]]
            if len(set(ks)) < len(ks):
                paths["frame_with_equal_keys"] += 1
                break
        links = [r for r in h["local"] if r["org"]]
        if links:
            files_nontrivial.add(h["file"])
            paths["open_with_listed_resume_link"] += 1
        d1 = False
        for r in links:
            o = loc[r["org"]]
            a, b = (r["st"], r["su"]), (o["st"], o["su"])
            if a == b:
                paths["resume_start_equals_origin_start"] += 1
            elif a < b:
                paths["resume_start_before_origin_start"] += 1
            else:
                paths["resume_start_after_origin_start"] += 1
            dus = (r["st"] - o["st"]) * 1000000 + (r["su"] - o["su"])
            if abs(dus) == 1:
                d1 = True
                paths["resume_start_1us_%s_origin_start" % ("after" if dus > 0 else "before")] += 1
            if o["res"]:
                paths["resume_of_a_resume_lifecycle"] += 1
        if d1:
            paths["open_with_resume_1us_around_origin"] += 1
        if len({r["ecu"] for r in links}) >= 2:
            paths["resume_chains_on_several_ecus"] += 1
        if len({r["ecu"] for r in h["local"]}) >= 2 and links:
            paths["resume_and_other_ecu"] += 1
        if any(r["res"] and not r["org"] for r in h["local"]):
            paths["resume_of_unlisted_lifecycle"] += 1
        # position of the origin's id relative to the resume's id in the frame as sent (both map iteration orders lead here)
        if frames:
            ids = [r["id"] for r in frames[-1]["items"]]
            if ids != sorted(ids):
                paths["frame_order_differs_from_id_order"] += 1
    rl["files_opened_with_several_id_ranges"] = sum(1 for s in per_file_bases.values() if len(s) >= 2)
    nopens = len(cases)
    ctx.evaluations += nopens
    ctx.traces_validated += nopens - len(v.violations)
    ctx.distinct_nontrivial += len(files_nontrivial)
    rule = ("remote listing: evaluation = one open of a generated file through the real server binary, every frame and the idle table "
            "judged by TLC (LcRemoteListingTrace); non-trivial = distinct generated files whose local table holds a listed resume link")
    ctx.rule = (ctx.rule + " | " + rule) if ctx.rule else rule
    ctx.exhaustive = True
    rl.update({
        "statement": STATEMENT, "narrowed": NARROWED,
        "model": {"configs": names, "key_as_is": as_is, "behaviours_emitted": emitted, "distinct_inputs": len(groups), "replayed_inputs": len(glist),
                  "inputs_by_class": dict(sorted(model_classes.items()))},
        "files": info["files"], "tlc_files": info["tlc_files"], "opens": info["opens"], "frames": info["frames"], "entries": info["entries"],
        "messages_in_files": info["messages"], "design_conformance": {"opens_compared": info["compared"], "mismatches": info["drift"], "sample": info["drift_cases"][:5]},
        "server_panics": info["panics"], "server_exit": info["server_exit"], "kf_switch": sw, "path_hits": dict(sorted(paths.items())),
    })
    for k in list(cases)[:1] + list(cases)[-1:]:
        ctx.add_sample({"case": k, "trace": [({kk: vv for kk, vv in e.items() if kk != "hdr"} if e["ev"] != "reset" else
                                              {"ev": "reset", "src": e["hdr"]["src"], "idbase": e["hdr"]["idbase"], "local": e["hdr"]["local"][:4]}) for e in cases[k][:6]]})
    for k, labels in sorted(v.known.items()):
        if k not in v.violations:
            for lab in labels:
                ctx.known(c.kf_text("C07", lab))
    rl["known_finding_opens"] = len([k for k in v.known if k not in v.violations])
    rej = {r[0]: r for r in v.rejected}
    for k in sorted(v.violations):
        r = rej.get(k)
        tr = cases.get(k)
        h = tr[0]["hdr"] if tr else {}
        ctx.violation("remote listing: open %s of file %s (%s, lifecycle ids from %s) rejected by %s at line %s: %s" % (
            h.get("open"), h.get("file"), h.get("src"), h.get("idbase"), TRACE_MODULE, r[1] if r else "?", r[2] if r else "unfinished"),
            {"case": k, "trace": tr, "first_unmatched": r[2] if r else None, "server_panics": info["panics"],
             "how": "bin/check %s --replay <this file> re-validates the recorded open against the contract" % ctx.pid})
    if not v.violations:            # tool-level sanity only when there is no verdict to report (never masks a violation)
        needed = {"resume_start_equals_origin_start": 1, "open_with_non_first_id_range": 1, "resume_entries": 200 if quick else 5000,
                  "resume_start_before_origin_start": 1, "resume_start_after_origin_start": 1, "open_with_resume_1us_around_origin": 1,
                  "resume_of_a_resume_lifecycle": 1, "resume_chains_on_several_ecus": 1, "resume_and_other_ecu": 1, "frame_with_equal_keys": 1,
                  "open_on_a_connection_used_before": 1, "reopen_on_fresh_connection": 1, "frame_order_differs_from_id_order": 1,
                  "open_src_tlc": 1, "open_src_random": 1, "frame_with_three_or_more_entries": 1}
        missing = [n for n, k in needed.items() if paths[n] < k]
        if missing:
            raise c.ToolError("remote listing vacuity: paths never (or too rarely) hit: %s" % {n: paths[n] for n in missing})
        if rl["files_opened_with_several_id_ranges"] < info["files"]:
            raise c.ToolError("remote listing: %d of %d files were not opened with several id ranges" % (info["files"] - rl["files_opened_with_several_id_ranges"], info["files"]))
        if info["server_exit"]:
            raise c.ToolError("a server process exited during the run: %s" % info["server_exit"])
        if as_is and rl["known_finding_opens"] == 0:
            raise c.ToolError("remote listing: the known finding %s is open but no open exhibits it" % KF)
        # binding self-test: every second accepted open gets one corruption (the kind rotates); TLC must reject exactly those
        kinds_hit = collections.Counter()
        state = {"i": 0}
        t0 = time.time()

        def corrupt(evs):
            loc = {r["id"]: r for r in evs[0]["hdr"]["local"]}
            frames = [e for e in evs if e["ev"] == "lcs"]
            if not frames:
                return False
            last = frames[-1]["items"]
            for _ in range(5):
                kind = state["i"] % 5
                state["i"] += 1
                if kind == 0:            # two entries with different keys swapped -> not a listing by the key
                    for a in range(len(last) - 1):
                        if _key(last[a]) != _key(last[a + 1]):
                            last[a], last[a + 1] = last[a + 1], last[a]
                            kinds_hit["entries_swapped"] += 1
                            return True
                elif kind == 1:          # a resume lifecycle listed under exactly the key of the (non-resume) lifecycle it resumes
                    for x in last:
                        r = loc.get(x["id"])
                        if r and r["org"] and not loc[r["org"]]["res"]:
                            o = [y for y in last if y["id"] == r["org"]]
                            if o:
                                x["st"], x["su"] = o[0]["st"], o[0]["su"]
                                last.sort(key=_key)      # still a listing by the key: only the strictness is gone
                                kinds_hit["resume_key_equals_origin_key"] += 1
                                return True
                elif kind == 2:          # an entry sent twice in one frame
                    last.insert(0, dict(last[0]))
                    kinds_hit["entry_twice"] += 1
                    return True
                elif kind == 3:          # a lifecycle that resumes nothing listed 1 us after its start estimate (list kept sorted)
                    for x in last:
                        r = loc.get(x["id"])
                        if r and not r["res"]:
                            x["su"] = (x["su"] + 1) % 1000000
                            x["st"] += 1 if x["su"] == 0 else 0
                            last.sort(key=_key)
                            kinds_hit["start_estimate_changed"] += 1
                            return True
                else:                    # every entry of one lifecycle lost
                    victim = max(loc) if loc else None
                    if victim is not None:
                        for e in frames:
                            e["items"] = [y for y in e["items"] if y["id"] != victim]
                        kinds_hit["lifecycle_not_listed"] += 1
                        return True
            return False
        skip = set(v.known) | {k for k, evs in cases.items() if evs[-1]["ev"] != "end"}
        c.binding_selftest(ctx, "remote-listing", TRACE_MODULE, trace, {KF: False}, corrupt, max_cases=60, skip=skip)
        ctx.extra["binding_selftest"]["remote-listing"]["kinds"] = dict(kinds_hit)
        rl["wall_selftest_s"] = round(time.time() - t0, 1)
        if len(kinds_hit) < 5:
            raise c.ToolError("remote listing binding self-test: not every corruption kind could be applied: %s" % dict(kinds_hit))
    ctx.assumptions = list(ctx.assumptions) + [a for a in [
        "TLC and CommunityModules are correct",
        "remote listing: the driver's projection is correct (frame decoding with the repo's own bincode types, field copies, seconds/microseconds split, "
        "relative lifecycle ids) and websocket frames are received in the order the server wrote them",
        "remote listing: the local run of parse_lifecycles_buffered_from_stream on the same file is the reference for which lifecycle resumes which "
        "and for the raw start estimates (a resumed lifecycle does not change after the resume lifecycle was created - invariant OriginStable of the design model)",
    ] if a not in ctx.assumptions]
    rl["wall_s"] = round(time.time() - t_all, 1)
    return v
