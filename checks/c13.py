"""C13 - bounded channels and slow consumers never lose or reorder messages (spec/Pipeline.tla, spec/PipelineTrace.tla)"""
import json
import os
import subprocess
import time
from . import common as c

META = {
    "property_id": "C13",
    "technique": "TLC model checking of Pipeline.tla (producer, transducer stages, consumer over bounded FIFO channels of "
                 "capacity 0/1/2, the send helper as TrySendOk/TrySendFull->Sleeping/BlockingSend/SendErr actions, both "
                 "error-handling styles, consumer drop; safety = received sequence is a prefix of / equal to the unbounded "
                 "reference for every capacity vector and interleaving, liveness = every process terminates, also after a "
                 "drop) + TLC-emitted scenarios (capacity vectors x drop positions x pacing hints) and seeded random pacing "
                 "scripts replayed on REAL adlt pipelines assembled from parse_lifecycles_buffered_from_stream, "
                 "plugins_process_msgs, buffer_sort_messages, filter_as_streams with sync_channel(c) and "
                 "sync_sender_send_delay_if_full as convert.rs/remote.rs wire them; each run validated by TLC against the "
                 "contract PipelineTrace.tla against a reference recorded from the same pipeline with channels that never fill",
    "design_ref": "DESIGN.md section 6, C13",
    "level_text": "Exhaustive within bounds on the model (all interleavings of 3(4) stages, 4(5) messages, every capacity "
                  "vector over {0,1,2} ({0,2} for the 4-stage chain), every drop position, incl. liveness under weak fairness). On the real code thread "
                  "interleavings cannot be enumerated (no loom-style scheduler): the runs sample them, steered by capacities "
                  "0/1/2/7/64 and pacing scripts; each sampled execution is judged by TLC against the contract.",
    "level_note": "Trusted: TLC, the driver projection (position tag in the payload, hash over all fields except the lifecycle "
                  "id). The hook counter adlt::verif::SEND_FULL_HITS proves that the helper's Full branch ran (vacuity guard, "
                  "not a verdict). Lifecycle ids are compared up to an injective renaming built by TLC. Sorted pipelines are "
                  "only checked for permutation (the order is C10's claim; the sorter reads the lifecycle table while the "
                  "detector still updates it). Termination is observed with a 120 s bound after eos/drop and a 120 s bound on "
                  "any single receive (120 s for the polling consumer styles; then a `stalled` event is recorded). The last receiver "
                  "waits in one of four styles: blocking recv, loop of short recv_timeouts, try_recv + sleep polling (0.2/1/10 ms), "
                  "mixed. Binary level: `adlt remote` is started, a 1.7 M message log is opened paused / one_pass so that the "
                  "parser parks on the full channels, the client vanishes without close; the server's thread census "
                  "(/proc/<pid>/task) has to return to the pre-connection value within 30 s and a new connection has to be "
                  "served (PipelineRemoteTrace.tla); `adlt convert` (its own wiring, production capacities - no Full there) is run on a "
                  "generated log plain / sorted / filtered and compared with the library stages on the same log, and with -o "
                  "/dev/full (the writer thread fails: the process has to end). Every run also follows the lifecycle table incrementally by refresh index (the remote.rs "
                  "rule) from the consumer and from a separate thread; the folded view must equal the final table for the ids of "
                  "the final table (judged in complete runs only, not after a consumer drop). Long stalls: a few cases per run hold the producer (2.6-3.5 s, thorough also 6 s) or the "
                  "consumer (2.6-3.2 s) once at a chosen index; a stage time-out longer than that is not exercised. Streams are clean boots (monotone reception times, sane timestamps): detector corner "
                  "cases are C05's; a case whose reference run itself fails is skipped and counted.",
}

NSHARDS = 12


def drive_sharded(ctx, binp, args, trace):
    """run the driver as NSHARDS parallel processes (a case is mostly sleeping in 10 ms Full delays), merge the traces"""
    procs = []
    for i in range(NSHARDS):
        out = ctx.path("trace-shard-%d.ndjson" % i)
        cmd = [binp, "--out", out, "--shard", str(i), "--nshards", str(NSHARDS)] + args
        procs.append((i, out, subprocess.Popen(cmd, stdout=subprocess.PIPE, stderr=subprocess.STDOUT, text=True, errors="replace")))
    infos = []
    deadline = time.time() + 7200
    for i, out, p in procs:
        try:
            so, _ = p.communicate(timeout=max(1, deadline - time.time()))
        except subprocess.TimeoutExpired:
            for _, _, q in procs:
                q.kill()
            raise c.ToolError("driver shard %d timed out" % i)
        if p.returncode != 0:
            raise c.ToolError("driver shard %d failed (%d): %s" % (i, p.returncode, (so or "")[-2000:]))
        infos.append(json.loads(so.strip().splitlines()[-1]))
    with open(trace, "w") as f:
        for i, out, _ in procs:
            with open(out) as g:
                for line in g:
                    f.write(line)
            os.remove(out)
    tot = {"cases": 0, "lines": 0, "skipped_ref": 0, "full_hits": 0, "cases_with_full": 0, "hung": False}
    for inf in infos:
        for k in ("cases", "lines", "skipped_ref", "full_hits", "cases_with_full"):
            tot[k] += inf[k]
        tot["hung"] = tot["hung"] or inf["hung"]
    return tot


def emit(ctx, quick):
    cfgs = [("emit-lf", "Pipeline_emit_lf.cfg"), ("emit-lfs", "Pipeline_emit_lfs.cfg")]
    if not quick:
        cfgs.append(("emit-full", "Pipeline_emit_full.cfg"))
    scn = ctx.path("scenarios.ndjson")
    n = 0
    with open(scn, "w") as f:
        for name, cfg in cfgs:
            r = c.tlc_must_pass(ctx, name, "mc/MCPipeline.tla", cfg, timeout=3000, workers=2)
            for s in c.scn_lines(r):
                f.write(json.dumps(s) + "\n")
                n += 1
    return scn, n


def binding_selftest(ctx, cases, accepted):
    """corrupt accepted traces and require that TLC rejects every corrupted copy while the untouched copy is still accepted"""
    def recvs(evs):
        return [i for i, e in enumerate(evs) if e["ev"] == "recv"]
    full = [k for k in sorted(cases) if k in accepted and any(e["ev"] == "eos" for e in cases[k]) and len(recvs(cases[k])) >= 3]
    uns = [k for k in full if not cases[k][0]["hdr"]["sorted"]][:2]
    srt = [k for k in full if cases[k][0]["hdr"]["sorted"]][:1]
    drp = [k for k in sorted(cases) if k in accepted and any(e["ev"] == "drop" for e in cases[k])][:1]
    if not uns or not srt or not drp:
        raise c.ToolError("binding self-test: missing accepted cases (unsorted %s, sorted %s, drop %s)" % (uns, srt, drp))
    out, expect_rej, expect_ok, n = [], set(), set(), 0

    def add(name, vv):
        nonlocal n
        out.append(dict(vv[0], case=n))
        out.extend(vv[1:])
        (expect_ok if name == "control" else expect_rej).add(n)
        n += 1
    for k in uns:
        evs = cases[k]
        r = recvs(evs)
        add("control", list(evs))
        v = list(evs); del v[r[1]]; add("lost", v)
        v = list(evs); v[r[0]], v[r[1]] = v[r[1]], v[r[0]]; add("reordered", v)
        v = list(evs); v.insert(r[1], dict(evs[r[0]])); add("duplicated", v)
        v = list(evs); v[r[1]] = dict(evs[r[1]], hash=(evs[r[1]]["hash"] + 1) % 2147483647); add("altered", v)
        v = [e for i, e in enumerate(evs) if not (e["ev"] == "joined" and e["stage"] == "lc")]; add("not-joined", v)
        ti = [i for i, e in enumerate(evs) if e["ev"] == "table"][0]
        if evs[ti]["t"]:
            t2 = [dict(x) for x in evs[ti]["t"]]
            t2[0]["nr"] += 1
            v = list(evs); v[ti] = dict(evs[ti], t=t2); add("table-changed", v)
        fi = [i for i, e in enumerate(evs) if e["ev"] == "lc_fold"]
        if fi and evs[fi[0]]["fold"]:
            f2 = [dict(x) for x in evs[fi[0]]["fold"]]
            f2[-1]["nr"] -= 1                                   # the observer ended with a stale entry
            v = list(evs); v[fi[0]] = dict(evs[fi[0]], fold=f2); add("stale-fold", v)
            v = list(evs); del v[fi[0]]; add("fold-missing", v)
        pi = [i for i, e in enumerate(evs) if e["ev"] == "lc_polls"]
        if pi and evs[pi[0]]["seq"]:
            q2 = [dict(x) for x in evs[pi[0]]["seq"]]
            q2.append({"idx": q2[-1]["idx"], "h": (q2[-1]["h"] + 1) % 2147483647})   # a different content under the same index
            v = list(evs); v[pi[0]] = dict(evs[pi[0]], seq=q2); add("same-index-other-content", v)
        lcs = sorted({evs[i]["lc"] for i in r})
        if len(lcs) >= 2:
            j = [i for i in r if evs[i]["lc"] == lcs[1]][0]
            v = list(evs); v[j] = dict(evs[j], lc=lcs[0]); add("lifecycle-changed", v)
    for k in srt:
        evs = cases[k]
        r = recvs(evs)
        add("control", list(evs))
        v = list(evs); del v[r[1]]; add("lost-sorted", v)
        v = list(evs); v[r[1]] = dict(evs[r[0]]); add("duplicated-sorted", v)
    for k in drp:
        evs = cases[k]
        add("control", list(evs))
        j = [i for i, e in enumerate(evs) if e["ev"] == "joined"][0]
        v = list(evs); v[j] = {"ev": "join_timeout", "stage": evs[j]["stage"]}; add("hang-after-drop", v)
    path = ctx.path("selftest.ndjson")
    with open(path, "w") as f:
        for e in out:
            f.write(json.dumps(e) + "\n")
    v = c.validate_trace(ctx, "selftest", "PipelineTrace.tla", path)
    if v.violations != expect_rej:
        raise c.ToolError("binding self-test failed: PipelineTrace rejected %s, expected %s" % (sorted(v.violations), sorted(expect_rej)))
    ctx.extra["binding_selftest"] = {"corrupted_rejected": len(expect_rej), "controls_accepted": len(expect_ok)}


def remote_selftest(ctx, rcases):
    """a thread that stayed / a server that no longer serves must be rejected"""
    k = sorted(rcases)[0]
    evs = rcases[k]
    ci = [i for i, e in enumerate(evs) if e["ev"] == "census"][0]
    ri = [i for i, e in enumerate(evs) if e["ev"] == "reopen"][0]
    out, n = [], 0
    variants = [("control", list(evs))]
    v = list(evs); v[ci] = dict(evs[ci], threads_after=evs[ci]["threads_after"] + 3); variants.append(("threads-stay", v))
    v = list(evs); v[ri] = dict(evs[ri], ok=False); variants.append(("no-service", v))
    v = list(evs); v.insert(ci, {"ev": "server_exit", "status": "signal: 6"}); variants.append(("server-died", v))
    expect = {1, 2, 3}
    for name, vv in variants:
        out.append(dict(vv[0], case=n)); out.extend(vv[1:]); n += 1
    for k in [k for k in sorted(rcases) if rcases[k][0]["hdr"]["kind"] == "convert" and rcases[k][0]["hdr"]["shape"] == "plain"][:1]:
        evs = rcases[k]
        oi = [i for i, e in enumerate(evs) if e["ev"] == "convert_out"][0]
        xi = [i for i, e in enumerate(evs) if e["ev"] == "convert_exit"][0]
        for name, idx, ch in (("control", oi, {}), ("lost", oi, {"count": evs[oi]["count"] - 1}), ("reordered", oi, {"seq": (evs[oi]["seq"] + 1) % 2147483647}),
                              ("other-messages", oi, {"bag": (evs[oi]["bag"] + 1) % 2147483647}), ("hung", xi, {"timed_out": True})):
            v = list(evs); v[idx] = dict(evs[idx], **ch)
            out.append(dict(v[0], case=n)); out.extend(v[1:])
            if name != "control":
                expect.add(n)
            n += 1
    path = ctx.path("selftest-remote.ndjson")
    with open(path, "w") as f:
        for e in out:
            f.write(json.dumps(e) + "\n")
    v = c.validate_trace(ctx, "selftest-remote", "PipelineRemoteTrace.tla", path)
    if v.violations != expect:
        raise c.ToolError("binding self-test failed: PipelineRemoteTrace rejected %s, expected %s" % (sorted(v.violations), sorted(expect)))
    ctx.extra["binding_selftest_remote"] = {"corrupted_rejected": len(expect), "controls_accepted": n - len(expect)}


def check(ctx):
    quick = ctx.quick()
    binp = c.build_harness("c13")
    trace = ctx.path("trace.ndjson")
    nrand, maxlen, scnlen = (72, 200, 40) if quick else (800, 800, 60)
    nlong = 10 if quick else 24     # one long (2.6-3.5 s, thorough also 6 s) producer / consumer stall each; one per shard in quick
    # (a) model checking: safety for every capacity vector / interleaving, liveness with and without consumer drop
    c.tlc_must_pass(ctx, "design", "mc/MCPipeline.tla", "Pipeline_quick.cfg", timeout=3000)
    # publishes / refresh index with a table observer polling at arbitrary points (PublishIdxMonotone, FoldUpToDate)
    c.tlc_must_pass(ctx, "design-observer", "mc/MCPipeline.tla", "Pipeline_obs.cfg", timeout=3000)
    if not quick:
        c.tlc_must_pass(ctx, "design-lf6", "mc/MCPipeline.tla", "Pipeline_lf.cfg", timeout=3000)
        c.tlc_must_pass(ctx, "design-lfs5", "mc/MCPipeline.tla", "Pipeline_lfs5.cfg", timeout=3000)
        c.tlc_must_pass(ctx, "design-full", "mc/MCPipeline.tla", "Pipeline_thorough.cfg", timeout=6000)
    # (b) scenarios: capacity vectors x drop positions x pacing hints (initial states of the model)
    scn, nscn = emit(ctx, quick)
    # binary level (consumer = websocket client of `adlt remote` vanishing without close): runs beside the library cases
    adlt = c.build_adlt_bin()
    rtrace = ctx.path("trace-remote.ndjson")
    shapes = ("onepass_parked,control_small,close_parked" if quick
              else "onepass_parked,control_small,close_parked,paused_parked,while_parsing,while_streaming,mid_frame,onepass_parked")
    cshapes, cn = ("plain,full,devfull", "30000") if quick else ("plain,sort,filter,plugin,full,devfull,full", "300000")
    rproc = subprocess.Popen([binp, "--remote-drop", shapes, "--convert", cshapes, "--convert-n", cn, "--seed", str(ctx.seed),
                              "--adlt", adlt, "--work", ctx.work, "--out", rtrace],
                             stdout=subprocess.PIPE, stderr=subprocess.STDOUT, text=True, errors="replace")
    # (c,d) real pipelines under these scripts + seeded random scripts
    tot = drive_sharded(ctx, binp, ["--scenarios", scn, "--random", str(nrand), "--seed", str(ctx.seed), "--max-len", str(maxlen),
                                    "--scn-len", str(scnlen), "--long", str(nlong)], trace)
    try:
        rout, _ = rproc.communicate(timeout=1200)
    except subprocess.TimeoutExpired:
        rproc.kill()
        raise c.ToolError("remote-drop driver timed out")
    if rproc.returncode != 0:
        raise c.ToolError("remote-drop driver failed: " + (rout or "")[-2000:])
    # (e) TLC validates every recorded run against the contract
    vr = c.validate_trace(ctx, "remote", "PipelineRemoteTrace.tla", rtrace, timeout=600)
    ctx.add_tlc("trace-validation-remote", vr.res)
    rcases = c.split_cases(rtrace)
    v = c.validate_trace(ctx, "pipeline", "PipelineTrace.tla", trace, timeout=3000)
    ctx.add_tlc("trace-validation", v.res)
    cases = c.split_cases(trace)
    ctx.evaluations = tot["cases"] + len(rcases)
    ctx.traces_validated = tot["cases"] - len(v.violations) + len(rcases) - len(vr.violations)
    rst = {"cases": len(rcases), "shapes": {}, "parked_with_backpressure": 0, "max_census_wait_ms": 0, "convert_messages_compared": 0}
    for k, evs in rcases.items():
        h = evs[0]["hdr"]
        rst["shapes"][h["kind"] + ":" + h["shape"]] = rst["shapes"].get(h["kind"] + ":" + h["shape"], 0) + 1
        rst["convert_messages_compared"] += sum(e["count"] for e in evs if e["ev"] == "convert_out")
        for e in evs:
            if e["ev"] == "census":
                rst["max_census_wait_ms"] = max(rst["max_census_wait_ms"], e["waited_ms"])
                # parser + lifecycle + connection thread still there, process idle, more messages than the channels hold
                if e["parked"] and e["threads_during"] >= e["threads_before"] + 3 and h["file_msgs"] > h["channel_capacity"]:
                    rst["parked_with_backpressure"] += 1
    ctx.extra["remote_drop"] = rst
    ctx.rule = ("a case = one run of one real pipeline (threads, sync_channels of the given capacities, the send helper) under "
                "one pacing script, compared by TLC with the reference run of the same pipeline; non-trivial = the Full branch "
                "of the helper ran at least once in the case (hook counter) or the consumer dropped; distinct by "
                "(pipeline, capacities, pacing script, input length)")
    seen = set()
    st = {"sorted": 0, "unsorted": 0, "drop_start": 0, "drop_middle": 0, "drop_end": 0, "no_drop": 0, "caps_used": {},
          "stage_sets": {}, "remote_wiring": 0, "cap0_or_1_with_full": 0, "recv_events": 0, "max_n_in": 0,
          "long_producer_stall_with_filter": 0, "long_producer_stall_without_filter": 0, "long_producer_stall_with_sort": 0,
          "long_producer_stall_while_lc_buffers": 0, "long_consumer_stall": 0, "max_producer_stall_ms": 0, "max_consumer_stall_ms": 0,
          "consumer_styles": {}, "polling_consumer_on_rendezvous_last_channel": 0, "polling_on_rendezvous_complete": 0,
          "lc_fold_events": 0, "observer_polls": 0, "cases_late_ecu_complete": 0, "cases_with_3_or_more_table_versions_seen": 0}
    for k, evs in cases.items():
        h = evs[0]["hdr"]
        fh = sum(e["n"] for e in evs if e["ev"] == "full_hits")
        drop = [e for e in evs if e["ev"] == "drop"]
        nrecv = sum(1 for e in evs if e["ev"] == "recv")
        st["recv_events"] += nrecv
        st["max_n_in"] = max(st["max_n_in"], h["n_in"])
        sty = {0: "blocking", 1: "recv_timeout_loop", 2: "try_recv_polling", 3: "mixed"}[h["c_style"]]
        st["consumer_styles"][sty] = st["consumer_styles"].get(sty, 0) + 1
        if h["c_style"] >= 2 and h["caps"][-1] == 0:
            st["polling_consumer_on_rendezvous_last_channel"] += 1
            st["polling_on_rendezvous_complete"] += 1 if any(e["ev"] == "eos" for e in evs) and nrecv > 0 else 0
        folds = [e for e in evs if e["ev"] == "lc_fold"]
        st["lc_fold_events"] += len(folds)
        st["observer_polls"] += sum(e["polls"] for e in folds)
        st["cases_late_ecu_complete"] += 1 if (folds and h.get("late_ecu")) else 0
        st["cases_with_3_or_more_table_versions_seen"] += 1 if any(e["ev"] == "lc_polls" and len(e["seq"]) >= 3 for e in evs) else 0
        st["max_producer_stall_ms"] = max(st["max_producer_stall_ms"], h["max_p_stall_ms"])
        st["max_consumer_stall_ms"] = max(st["max_consumer_stall_ms"], h["max_c_stall_ms"])
        if h["max_p_stall_ms"] >= 2500:
            st["long_producer_stall_with_filter" if "filter" in h["stages"] else "long_producer_stall_without_filter"] += 1
            st["long_producer_stall_with_sort"] += 1 if h["sorted"] else 0
            st["long_producer_stall_while_lc_buffers"] += 1 if h["info"].get("variant") == 1 else 0
        if h["max_c_stall_ms"] >= 2500:
            st["long_consumer_stall"] += 1
        st["sorted" if h["sorted"] else "unsorted"] += 1
        st["stage_sets"]["+".join(h["stages"])] = st["stage_sets"].get("+".join(h["stages"]), 0) + 1
        st["remote_wiring"] += 1 if "remote_wiring: true" in h["spec"] else 0
        for cp in h["caps"]:
            st["caps_used"][str(cp)] = st["caps_used"].get(str(cp), 0) + 1
        if fh > 0 and min(h["caps"]) <= 1:
            st["cap0_or_1_with_full"] += 1
        if drop:
            a = drop[0]["after"]
            st["drop_start" if a == 0 else ("drop_end" if a >= len(h["ref"]) else "drop_middle")] += 1
        else:
            st["no_drop"] += 1
        if fh > 0 or drop:
            seen.add(json.dumps([h["spec"], h["caps"], h["pacing"], h["n_in"]]))
    ctx.distinct_nontrivial = len(seen)
    ctx.exhaustive = True
    ctx.extra.update({"tlc_scenarios": nscn, "random_cases": nrand, "cases_run": tot["cases"], "reference_failed_skipped": tot["skipped_ref"],
                      "send_full_hits": tot["full_hits"], "cases_with_full_hits": tot["cases_with_full"], "driver_hung": tot["hung"],
                      "long_stall_cases": nlong, "cases_not_run_after_hang": nscn + nrand + nlong - tot["cases"] - tot["skipped_ref"], "trace_events": tot["lines"],
                      "paths": st, "shards": NSHARDS})
    ks = sorted(cases)
    for k in ks[:2] + ks[-2:]:
        h = dict(cases[k][0]["hdr"])
        h["ref"] = h["ref"][:5]
        ctx.add_sample({"case": k, "hdr": h, "events": [e for e in cases[k][1:] if e["ev"] != "recv"][:12]})
    if not v.violations and not tot["hung"]:      # vacuity / self-test failures are tool errors; they never mask a verdict
        # vacuity guards (tool errors, never verdicts)
        if tot["full_hits"] == 0 or st["cap0_or_1_with_full"] == 0:
            raise c.ToolError("vacuous run: the Full branch of sync_sender_send_delay_if_full never ran (%s)" % tot)
        if not tot["hung"] and (st["drop_start"] == 0 or st["drop_middle"] == 0 or st["drop_end"] == 0 or st["sorted"] == 0 or st["unsorted"] == 0):
            raise c.ToolError("vacuous run: missing path %s" % st)
        for k in ("long_producer_stall_with_filter", "long_producer_stall_without_filter", "long_producer_stall_with_sort",
                  "long_producer_stall_while_lc_buffers", "long_consumer_stall", "lc_fold_events", "cases_late_ecu_complete", "polling_on_rendezvous_complete",
                  "cases_with_3_or_more_table_versions_seen"):
            if st[k] == 0:
                raise c.ToolError("vacuous run: no case with path %s (%s)" % (k, st))
        if tot["skipped_ref"] * 4 > nscn + nrand:
            raise c.ToolError("too many reference runs failed (%d): the stream generator left the clean domain" % tot["skipped_ref"])
        if rst["convert_messages_compared"] == 0:
            raise c.ToolError("vacuous run: no convert output compared (%s)" % rst)
        if rst["parked_with_backpressure"] == 0:
            raise c.ToolError("vacuous run: no remote-drop case reached the parked / back-pressured state (%s)" % rst)
        binding_selftest(ctx, cases, set(cases))
        if not vr.violations:
            remote_selftest(ctx, rcases)
    ctx.replay_module = ("PipelineRemoteTrace.tla", {})
    rrej = {r[0]: r for r in vr.rejected}
    for k in sorted(vr.violations):
        r = rrej.get(k)
        ctx.violation("remote-drop case %d (%s) rejected by PipelineRemoteTrace at line %s: %s" % (
            k, rcases[k][0]["hdr"]["shape"] if k in rcases else "?", r[1] if r else "?", r[2] if r else "unfinished"),
            {"case": k, "trace": rcases.get(k), "first_unmatched": r[2] if r else None})
    ctx.replay_module = ("PipelineTrace.tla", {})
    rej = {r[0]: r for r in v.rejected}
    for k in sorted(v.violations):
        r = rej.get(k)
        evs = cases.get(k) or []
        ctx.violation("case %d rejected by PipelineTrace at line %s: %s" % (k, r[1] if r else "?", r[2] if r else "unfinished"),
                      {"case": k, "seed": ctx.seed, "tier": ctx.tier, "first_unmatched": r[2] if r else None,
                       "hdr": {x: y for x, y in evs[0]["hdr"].items() if x != "ref"} if evs else None,
                       "trace": evs, "how": "bin/check C13 --replay <this file> re-validates this recorded trace; to run the same pacing script again (thread schedules are not reproducible): harness/target/debug/c13 --scenarios work/C13/scenarios.ndjson --random N --seed <seed> --only <case> with the tier's arguments"})
    ctx.assumptions = ["TLC and CommunityModules are correct",
                       "driver projection (payload position tag, field hash) is correct",
                       "std::sync::mpsc behaves as modelled (bounded FIFO, rendezvous at capacity 0, disconnect wakes blocked senders)",
                       "real thread schedules are sampled, not enumerated",
                       "termination bound 120 s after eos/drop, 120 s per receive, on a machine that may be loaded"]

# round 6 (DESIGN.md 11.10)
META["level_note"] += (" Streams are finite (as in the statement): with a source that never ends by itself the unchanged lifecycle stage does not "
                       "terminate after its consumer left while a lifecycle is buffered; a live source exists only as an observation mode "
                       "(C13_LIVE_TAIL=1), not as part of this check.")
