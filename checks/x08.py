"""X08 - standalone runner of the remote-listing part of C07 (checks/c07r.py): `bin/check X08 quick|thorough`,
`bin/run-seeded <name> <patch> X08`.  checks/c07.py calls the same function for the registered property."""
from . import c07r

META = {
    "property_id": "X08",
    "statement": c07r.STATEMENT,
    "quantifier": "all streams of the bounded detector model that end with a resume lifecycle or two equal keys in the table (quick: one ECU "
                  "<= 4 messages, two ECUs <= 3; thorough: one ECU <= 5, two ECUs <= 4, the alphabets of the Lc_emit configs incl. control "
                  "requests, messages without timestamp, reception times near the Unix epoch), replayed as DLT files on the real binary; "
                  "microsecond variants of those whose resume estimate equals the origin's (+-1 us from any message on); seeded random "
                  "resume chains (1-3 ECUs, up to 5 links, estimates equal to / 1 us around / before / after the origin's). Every file is "
                  "opened 3 (thorough: 5) times per server process: fresh connection, fresh connection, same connection again - the "
                  "process-global lifecycle ids (and the iteration order of the server's lifecycle map) differ between the opens.",
    "technique": "TLC model checking of LcRemoteListing.tla (LcDetector x key function x all listings sorted by the key: existence, "
                 "permutation, start estimate for non-resume lifecycles, strict keys along resume chains, resumed-after-origin for every "
                 "tie-breaking, ordered by start without resumes) + every emitted behaviour replayed through the real `adlt remote` binary + "
                 "every recorded open validated by TLC against LcRemoteListingTrace.tla",
    "design_ref": "DESIGN.md section 6 (C05-C08), section 8; BUILD_GUIDE.md",
    "level_text": "Exhaustive within the bounds on the model; every bounded behaviour with a resume lifecycle executed on the real binary "
                  "with several lifecycle-id ranges; beyond the bounds seeded sampling, the contract evaluated by TLC per frame and at idle.",
    "level_note": c07r.NARROWED + " Trusted: TLC, the driver's projection, the local detector run as reference for resume links and raw start estimates.",
}


def check(ctx):
    c07r.run_remote_listing(ctx, ctx.quick())
