"""C05 - lifecycle detection forwards every message once, in order, assigned"""
from . import lc_common as lc

META = {
    "property_id": "C05",
    "technique": "TLC model checking of LcDetector.tla (every bounded stream, invariants C05/NoPanic) + replay of every TLC behaviour on "
                 "the real detector (prediction equality) + TLC trace validation of random/regression/example-file runs against LcTrace.tla[Check=C05]",
    "design_ref": "DESIGN.md section 6, C05-C08",
    "level_text": "Exhaustive on the design model within bounds (all streams of <=4(5) messages over 4x4 time alphabets, 1-2 ECUs, control "
                  "requests, missing timestamps); every such behaviour is executed on the real code and must equal the model's prediction, so "
                  "the bounded result transfers to the code; longer and irregular streams are sampled and each recorded run is checked by TLC "
                  "against the contract at every delivery.",
    "level_note": "Trusted: TLC, driver projection, evmap. The model is exact on the replayed scope (drift is reported in evidence); beyond the "
                  "bounds only sampled. A panic of the detector counts as a C05 violation (queued messages are lost).",
}


def check(ctx):
    q = ctx.quick()
    lc.run_lc(ctx, "C05",
              emit_cfgs=([("1ecu4", "Lc_emit_1ecu4.cfg")] if q else [("1ecu5", "Lc_emit_1ecu5.cfg"), ("2ecu3", "Lc_emit_2ecu3_full.cfg")]) + lc.EPOCH_CFGS,
              mc_cfgs=[] if q else [("2ecu4", "LcDetector.tla", "Lc_2ecu4.cfg")],
              driver_args=["--regressions", "--random", "400" if q else "8000", "--max-len", "40" if q else "120",
                           "--big-tables", "3" if q else "40", "--file-max", "600" if q else "6000", "--huge", "1" if q else "3"],
              scripted=2500 if q else 40000,
              what="order / completeness / assignment at every delivery and at end of input")

# round 6 (DESIGN.md 11.10)
META["technique"] += ' The huge-queue case (> 10^6 messages held back) also exists as a late-merge variant: the queued lifecycle is merged into its predecessor by the message behind the queue.'
