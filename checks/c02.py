"""C02 - export fidelity: write/parse round trip and normal form (spec/Layout.tla, spec/LayoutTrace.tla)"""
import json
import os
from . import common as c

META = {
    "property_id": "C02",
    "technique": "TLC checks the round-trip / normal-form / idempotence / no-16-bit-wrap theorems of Layout.tla on every "
                 "record of the finite field domain (spec/mc/MCLayout.tla) and emits every record; each is concretised "
                 "(seeded random ids, counters, times, payload bytes) and run through the real "
                 "parse_dlt_with_storage_header -> DltMessage::to_write -> parse -> to_write, and additionally through the public "
                 "DltStandardHeader::to_write with the ECU id and / or a session id IN the standard header (re-read, re-exported); "
                 "every write path also writes into destinations with other legal std::io::Write behaviours (at most 1 / 7 / 512 / "
                 "4096 bytes per call, ErrorKind::Interrupted now and then, an error after n accepted bytes, a small BufWriter) "
                 "and what arrived is compared with the bytes of the same call into a Vec (Layout!DestOk); "
                 "whole generated files go "
                 "through the real `adlt convert -o` binary twice; every recorded execution is validated by TLC against "
                 "the contract LayoutTrace.tla, which recomputes the expectation from the logged ORIGINAL fields",
    "design_ref": "DESIGN.md section 6, C02",
    "level_text": "Exhaustive on the model over all 32 htyp flag combinations x version bits x payload classes "
                  "{0,1,2,max-1,max} (max = 65535 - headers of that shape) x micros {0,999999}; every such record plus "
                  "seeded random messages (payload 0..max) executed on the real code, the contract evaluated by TLC on "
                  "each (plus the three ECU id / session id variants of the standard-header writer wherever the longer header "
                  "fits the len field, and each of these up to five write paths into three unfriendly destinations with "
                  "rotating parameters); files of 120+ messages of all shapes exported and re-exported by the adlt binary.",
    "level_note": "Trusted: TLC, the driver's byte builder and field projection, 2x31-bit payload hashes. Narrowed: a "
                  "message with version bits != 1 may be refused by the parser (nothing claimed then); which flags/len "
                  "to_write chooses is not judged (deviation from Layout's normal form is reported as design drift "
                  "only); payload and id bytes are free of DLT\\x01 / DLS\\x01 patterns (well-formed stream); "
                  "whole-file runs use version 1, no control messages and monotone times so that adlt's lifecycle "
                  "stage (C05-C08) is not what is being tested.",
}


def drive(binp, args, out):
    p = c.run([binp, "--out", out] + args, timeout=3000, check=False)
    if p.returncode != 0:
        raise c.ToolError("driver failed: " + (p.stdout or "")[-2000:])
    return json.loads(p.stdout.strip().splitlines()[-1])


def binding_selftest(ctx, cases):
    """corrupt one logged field of an accepted case / delete an event: LayoutTrace must reject exactly those cases"""
    rt = [k for k, evs in cases.items() if evs[0]["hdr"]["kind"] == "rt" and len(evs) == 2 and evs[1]["ev"] == "rt"
          and evs[1]["p1"]["ok"] and evs[1]["m"]["payLen"] > 0][:4]
    fl = [k for k, evs in cases.items() if evs[0]["hdr"]["kind"] == "file"][:1]
    if len(rt) < 4:
        raise c.ToolError("binding self-test: not enough accepted rt cases")
    lines, expect = [], set()

    def put(k, evs):
        for e in evs:
            lines.append(json.dumps(e))

    a = json.loads(json.dumps(cases[rt[0]]))
    put(rt[0], a)                                                   # untouched: must stay accepted
    a = json.loads(json.dumps(cases[rt[1]]))
    a[1]["p2"]["v"]["pay"][0] ^= 1                                  # re-read payload differs
    put(rt[1], a); expect.add(rt[1])
    a = json.loads(json.dumps(cases[rt[2]]))
    a[1]["p2"]["consumed"] += 4                                     # did not consume exactly the bytes written
    put(rt[2], a); expect.add(rt[2])
    a = json.loads(json.dumps(cases[rt[3]]))
    put(rt[3], a[:1]); expect.add(rt[3])                            # event deleted: case never ends
    wx = [k for k, evs in cases.items() if k not in rt and evs[0]["hdr"]["kind"] == "rt" and len(evs) == 2 and evs[1]["ev"] == "rt"
          and len(evs[1].get("wx", [])) == 3 and evs[1]["m"]["payLen"] > 0][:2]
    if len(wx) < 2:
        raise c.ToolError("binding self-test: not enough accepted rt cases with ECU / session id variants")
    a = json.loads(json.dumps(cases[wx[0]]))
    a[1]["wx"][0]["p"]["v"]["ecu"][0] ^= 1                          # ECU id in the standard header read back differently
    put(wx[0], a); expect.add(wx[0])
    a = json.loads(json.dumps(cases[wx[1]]))
    a[1]["wx"][2]["p"]["consumed"] -= 4                             # session id variant: not exactly the bytes written
    put(wx[1], a); expect.add(wx[1])
    def has_ww(evs, pred):
        return evs[0]["hdr"]["kind"] == "rt" and len(evs) == 2 and evs[1]["ev"] == "rt" and any(pred(d) for d in evs[1].get("ww", []))
    used = set(rt) | set(wx)
    short = [k for k, evs in cases.items() if k not in used and has_ww(evs, lambda d: d["writer"] == "chunk" and d["ref_len"] > d["k"])][:1]
    failing = [k for k, evs in cases.items() if k not in used and k not in short and has_ww(evs, lambda d: d["writer"] == "fail" and d["limit"] < d["ref_len"])][:1]
    if not short or not failing:
        raise c.ToolError("binding self-test: no accepted rt case with a chunked / a failing destination")
    a = json.loads(json.dumps(cases[short[0]]))
    d = next(d for d in a[1]["ww"] if d["writer"] == "chunk" and d["ref_len"] > d["k"])
    d["arrived"] = d["ref_len"] - 1; d["equal"] = False              # Ok returned but the tail did not arrive
    put(short[0], a); expect.add(short[0])
    a = json.loads(json.dumps(cases[failing[0]]))
    d = next(d for d in a[1]["ww"] if d["writer"] == "fail" and d["limit"] < d["ref_len"])
    d["ok"] = True                                                   # Ok although the destination failed before the end
    put(failing[0], a); expect.add(failing[0])
    if fl:
        a = json.loads(json.dumps(cases[fl[0]]))
        del a[len(a) // 2]                                          # one exported message missing
        put(fl[0], a); expect.add(fl[0])
    p = ctx.path("selftest.ndjson")
    with open(p, "w") as f:
        f.write("\n".join(lines) + "\n")
    v = c.validate_trace(ctx, "selftest", "LayoutTrace.tla", p, timeout=600)
    if v.violations != expect:
        raise c.ToolError("binding self-test failed: LayoutTrace rejected %s, expected %s" % (sorted(v.violations), sorted(expect)))
    ctx.extra["binding_selftest"] = {"corrupted_cases": len(expect), "rejected": len(v.violations), "untouched_accepted": True}


def replay(ctx):
    """bin/check C02 --replay <file>: re-validate the recorded case of a replay file and print what TLC says"""
    obj = json.load(open(ctx.replay))
    evs = obj["replay"]["trace"]
    p = ctx.path("replay-trace.ndjson")
    with open(p, "w") as f:
        for e in evs:
            f.write(json.dumps(e) + "\n")
            c.log(json.dumps(e)[:600])
    v = c.validate_trace(ctx, "replay", "LayoutTrace.tla", p, consts=None, timeout=600)
    ctx.add_tlc("replay-validation", v.res)
    ctx.evaluations = 1
    ctx.rule = "replay of one recorded case"
    for k, labels in v.known.items():
        for lab in labels:
            ctx.known(c.kf_text(ctx.pid, lab))
    for r in v.rejected:
        c.log("first unmatched event: line %s of the replayed trace: %s" % (r[1], r[2]))
    for k in sorted(v.violations):
        ctx.violation("replayed case %s is rejected by LayoutTrace.tla" % k, obj["replay"])
    ctx.traces_validated = 1 - len(v.violations)


def convert_bufcap():
    """capacity of the read buffer `adlt convert` configures (BUFREADER_CAPACITY in convert.rs); 512 KiB if not recognisable"""
    import re
    try:
        src = open(os.path.join(c.REPO, "src/bin/adlt/convert.rs")).read()
        m = re.search(r"const\s+BUFREADER_CAPACITY\s*:\s*usize\s*=\s*([0-9_ *]+);", src)
        if m:
            v = 1
            for f in m.group(1).replace("_", "").split("*"):
                v *= int(f.strip())
            return v
    except (OSError, ValueError):
        pass
    return 512 * 1024


def check(ctx):
    if getattr(ctx, "replay", None):
        return replay(ctx)
    quick = ctx.quick()
    binp = c.build_harness("c02")
    adlt = c.build_adlt_bin()
    # (a,b) theorems on the full finite field domain + emission of every record
    res = c.tlc_must_pass(ctx, "layout", "mc/MCLayout.tla", "Layout_quick.cfg" if quick else "Layout_thorough.cfg", timeout=3000)
    recs = c.scn_lines(res)
    if not recs:
        raise c.ToolError("TLC emitted no records")
    scn = ctx.path("scenarios.ndjson")
    with open(scn, "w") as f:
        for s in recs:
            f.write(json.dumps(s) + "\n")
    # (c,d) replay on the real code, random messages, whole files through the binary
    trace = ctx.path("trace.ndjson")
    tmp = ctx.path("files")
    os.makedirs(tmp, exist_ok=True)
    nrand = 600 if quick else 30000
    nfiles = 3 if quick else 12   # three consecutive case numbers: one of them is a file that starts with a maximal message
    info = drive(binp, ["--scenarios", scn, "--reps", "1" if quick else "3", "--random", str(nrand), "--seed", str(ctx.seed),
                        "--files", str(nfiles), "--file-msgs", "128" if quick else "600", "--file-big", "4" if quick else "16",
                        "--adlt", adlt, "--tmp", tmp,
                        # files whose maximal message starts with r bytes of convert's first buffer fill left, r swept around the
                        # reader's low mark (DLT_MAX_STORAGE_MSG_SIZE + 4 = 65555): the call site must keep a whole message visible
                        "--boundary", "65528:65560:1" if quick else "65400:65640:1", "--bufcap", str(convert_bufcap())], trace)
    # (e) TLC validates every recorded execution against the contract
    v = c.validate_trace(ctx, "layout", "LayoutTrace.tla", trace, timeout=3000)
    ctx.add_tlc("trace-validation", v.res)
    verdict = json.loads(json.loads(v.res.printed["VERDICT"][-1]))
    drift = [int(x) for x in verdict.get("drift", [])]
    cases = c.split_cases(trace)
    ncases = info["cases"]
    ctx.evaluations = ncases
    ctx.traces_validated = ncases - len(v.violations)
    ctx.rule = ("a case = one message through parse -> to_write -> parse -> to_write on the real library, or one generated "
                "file through `adlt convert -o` twice; non-trivial = the original was parsed and rewritten; distinct by "
                "(htyp byte, payload length, micros, source)")
    seen, nfmsg, refused = set(), 0, 0
    nwx = {"ecu_id": 0, "session_id": 0, "both": 0, "does_not_fit": 0}
    nww = {}
    for k, evs in cases.items():
        for e in evs[1:]:
            if e["ev"] == "rt":
                if e["p1"]["ok"]:
                    seen.add((e["p1"]["v"]["htyp"], e["m"]["payLen"], e["m"]["micros"]))
                    for x in e["wx"]:
                        nwx["both" if x["weid"] and x["wsid"] else "ecu_id" if x["weid"] else "session_id"] += 1
                    nwx["does_not_fit"] += 3 - len(e["wx"])
                    for d in e["ww"]:
                        kind = d["writer"] + ("_k%d" % d["k"] if d["writer"] == "chunk" else "")
                        if d["writer"] == "fail":
                            kind += "_before_end" if d["limit"] < d["ref_len"] else "_not_reached"
                        elif d["ref_len"] > d["k"]:
                            kind += "_short_writes"
                        key = "%s%s%s:%s" % (d["path"], "+ecu" if d["weid"] else "", "+sid" if d["wsid"] else "", kind)
                        nww[key] = nww.get(key, 0) + 1
                else:
                    refused += 1
            elif e["ev"] == "fmsg":
                nfmsg += 1
    ctx.distinct_nontrivial = len(seen)
    ctx.exhaustive = True
    ctx.extra["tlc_records_replayed"] = len(recs)
    ctx.extra["random_messages"] = nrand
    ctx.extra["files_exported"] = nfiles + info.get("boundary_files", 0)
    ctx.extra["boundary_files"] = info.get("boundary_files", 0)
    ctx.extra["file_messages_compared"] = nfmsg
    ctx.extra["trace_events"] = info["lines"]
    ctx.extra["paths_hit"] = {"htyp_shapes_of_32": info["shapes"], "payload_0": info["payload_zero"],
                              "len_field_65535": info["len_max"], "parser_refused_version": refused,
                              "std_header_writer_variants": nwx, "destination_writers": nww}
    ctx.extra["design_conformance"] = {"steps": ncases - nfiles, "mismatches": len(drift),
                                       "what": "htyp / len / size of the first write against Layout!Write (normal form)"}
    need_ww = ["%s:%s" % (pth, w) for pth in ("msg", "std", "std+ecu", "std+sid", "std+ecu+sid")
               for w in ("chunk_k1_short_writes", "chunk_k7_short_writes", "chunk_k512_short_writes", "chunk_k4096_short_writes",
                         "intr_short_writes", "buf_short_writes", "fail_before_end", "fail_not_reached")]
    missing_ww = [k for k in need_ww if not nww.get(k)]
    if missing_ww and not v.violations:
        raise c.ToolError("vacuity: destination writers never exercised: %s" % missing_ww)
    if info["shapes"] < 32 or info["payload_zero"] == 0 or info["len_max"] == 0 or nfmsg == 0 or not all(nwx.values()):
        raise c.ToolError("vacuity: a required path was not exercised: %s" % ctx.extra["paths_hit"])
    for k in list(cases)[:2] + list(cases)[-1:]:
        ctx.add_sample({"case": k, "trace": cases[k][:3]})
    rej = {r[0]: r for r in v.rejected}
    for k in sorted(v.violations):
        r = rej.get(k)
        ctx.violation("case %d rejected by LayoutTrace at line %s: %s" % (k, r[1] if r else "?", (r[2] if r else "unfinished")[:300]),
                      {"case": k, "trace": cases.get(k, []), "first_unmatched": r[2] if r else None,
                       "how": "bin/check C02 --replay <this file>"})
    if not v.violations:          # (a broken tree must end in exit 1, not in a tool error of the self-test)
        binding_selftest(ctx, {k: e for k, e in cases.items() if k not in v.violations})
    ctx.assumptions = ["TLC and CommunityModules are correct",
                       "driver byte builder / projection (field extraction, 2x31-bit payload hashes) is correct",
                       "generated bytes contain no DLT\\x01/DLS\\x01 pattern outside the storage header (well-formed stream)",
                       "whole-file runs avoid inputs that trip adlt's lifecycle stage (version 1, no control messages, monotone times)"]

# round 6 (DESIGN.md 11.10)
META["technique"] += ' Every third exported file starts with a maximal message (header shape rotating); every second output path exists and is larger.'
