"""X01 (extra area, not a listed property) - the ECU / APID / CTID statistics collector adlt::utils::eac_stats::EacStats
(spec/EacStatsContract.tla, EacStats.tla, EacStatsTrace.tla, spec/mc/MCEacStats.tla; driver harness/src/bin/x01.rs)"""
import copy
import json
import os
import re
import shutil
import subprocess
import time
from . import common as c

META = {
    "property_id": "X01",
    "title": "ECU/APID/CTID statistics are the exact histogram of the message stream, list every key once, learn "
             "descriptions only from matching get_log_info responses, and survive the conversion to the remote types",
    "statement": "After any sequence of DLT messages (and description registrations) has been fed to the statistics collector, "
                 "what it reports - directly, after conversion to the remote types and a bincode round trip as sent to "
                 "websocket clients, and in the EAC frame a client of `adlt remote` receives for a file - lists every ECU, every "
                 "(ECU, application id) and every (ECU, application id, context id) that occurred exactly once, with counts equal "
                 "to the true number of such messages (so context counts add up to the application's count, application counts "
                 "plus messages without ids to the ECU's count, ECU counts to the total); entries that never occurred appear only "
                 "if a get_log_info response of the same ECU (or a registration for that ECU) named them, with count 0. "
                 "An entry shows a description exactly if one was offered for that same ECU and application (and context) by a "
                 "non-verbose get_log_info control RESPONSE with status 7 or by a registration, and it is one of the offered "
                 "ones - never one of another ECU/application/context, never learnt from requests, other services, log messages "
                 "or responses without descriptions. "
                 "Feeding the messages of several ECUs interleaved gives, per ECU, the same result as feeding that ECU's "
                 "messages alone.",
    "quantifier": "all finite input histories over: messages without extended header, verbose and non-verbose log messages "
                  "(incl. payloads that look like a get_log_info response), control requests, control responses of other "
                  "services, get_log_info responses with status 0..8 (well-formed [Dlt197] layouts, either byte order, optional "
                  "'remo' trailer, 0..3 applications x 0..3 contexts, repeated keys, absent descriptions) and add_desc calls; "
                  "all ECU/application/context ids from per-case tables of distinct 1..4 character ids (the same strings are "
                  "reused across the three tables); every prefix of the history; all ECUs of the history (split collectors); "
                  "three observation paths (public maps, remote types + bincode, websocket frame of the real binary).",
    "technique": "TLC model checking of EacStats.tla (the collector's nested maps and add_msg/add_desc as coded; invariants: the "
                 "contract SnapOk on every reachable state, sum statements, key nesting, order independence between ECUs, "
                 "monotonicity/description stability as action property) on every input history of the bounded alphabet; every "
                 "such history replayed on the real EacStats in both byte orders with TLC's predicted snapshot compared by "
                 "equality (fast path) and a sample + all seeded random histories + files opened through the real `adlt remote` "
                 "binary validated by TLC against the contract EacStatsTrace.tla",
    "design_ref": "DESIGN.md section 8 item 3 (EacStats as a counting abstraction); BUILD_GUIDE.md",
    "level_text": "Exhaustive within bounds on the model: every history of <= 3 inputs over an alphabet of 48 (quick) / 88 "
                  "(thorough, symmetric in 2 ECUs) inputs and every history of <= 4 inputs over a 19-input description-centred "
                  "alphabet (2 ECUs x 2 applications x 2 contexts x 2 descriptions); every such history executed on the real "
                  "code (x2 byte orders), zero drift required for the fast path. Beyond the bounds: seeded random histories "
                  "(<= 5 ECUs, 6 applications, 6 contexts, 8 descriptions, <= 120 (600) inputs) and random files through the "
                  "websocket server, all validated by TLC.",
    "level_note": "Narrower readings: (1) WHICH of several offered descriptions is shown is left open (the code keeps the first: "
                  "'does not get overwritten'; a last-wins implementation would also satisfy the contract; the design model's "
                  "first-wins rule is bound by the zero-drift replay only); (2) entries that are merely named by a get_log_info "
                  "response (status 3..6, or empty description) MAY be listed with count 0, need not be; (3) malformed / truncated "
                  "get_log_info payloads, verbose control responses, non-ASCII descriptions and descriptions containing "
                  "CR/LF/TAB are outside the domain; (4) for the websocket path only the first EAC frame after the server "
                  "reported all messages of the file is judged (intermediate frames are not). Trusted: TLC, the driver's "
                  "projection (id/description table lookup, bincode decoding as a client would).",
}

KINDS = ["plain", "log", "nvlog", "req", "svc", "resp", "desc"]


def tlc_stream(ctx, name, cfg, scn_out, timeout=3000, workers=None):
    """Model-check MCEacStats with `cfg`; TLC's output goes to a file and is parsed line by line (hundreds of MB of
    scenario lines are never held in memory). Appends the scenarios to the open file scn_out; returns (n, nontrivial)."""
    if workers is None:
        workers = int(os.environ.get("VERIF_TLC_WORKERS", max(2, c.NCPU - 2)))
    metadir = ctx.path("tlc-" + name)
    shutil.rmtree(metadir, ignore_errors=True)
    os.makedirs(metadir, exist_ok=True)
    log = ctx.path("tlc-%s.log" % name)
    cmd = ["java", "-XX:+UseParallelGC", "-Xmx8g", "-Xss512m", "-DTLA-Library=" + c.SPEC, "-cp", c.JARS, "tlc2.TLC",
           "-workers", str(workers), "-metadir", metadir, "-cleanup", "-noGenerateSpecTE", "-config",
           os.path.join(c.SPEC, "mc", cfg), os.path.join(c.SPEC, "mc", "MCEacStats.tla")]
    t0 = time.time()
    with open(log, "w") as f:
        try:
            p = subprocess.run(cmd, cwd=os.path.join(c.SPEC, "mc"), stdout=f, stderr=subprocess.STDOUT, timeout=timeout)
        except subprocess.TimeoutExpired as ex:
            raise c.ToolError("TLC %s timed out" % name) from ex
    res = c.TlcResult()
    res.cmd = " ".join(x for x in cmd if not x.startswith("-X") and not x.startswith("-D"))
    res.wall = time.time() - t0
    res.generated = res.distinct = res.depth = 0
    n = nontrivial = 0
    tail = []
    completed = False
    with open(log) as f:
        for line in f:
            if line.startswith('<<"SCN", '):
                inner = json.loads(line[9:line.rindex(">>")])
                scn_out.write(inner + "\n")
                n += 1
                if is_nontrivial(json.loads(inner)["ops"]):
                    nontrivial += 1
                continue
            tail.append(line)
            if len(tail) > 60:
                tail.pop(0)
            m = c._re_states.search(line)
            if m:
                res.generated, res.distinct = int(m.group(1)), int(m.group(2))
            m = c._re_depth.search(line)
            if m:
                res.depth = int(m.group(1))
            if "Model checking completed. No error has been found" in line:
                completed = True
    shutil.rmtree(metadir, ignore_errors=True)
    if p.returncode != 0 or not completed:
        raise c.ToolError("TLC run %s did not pass (rc=%s); log: %s\n%s" % (name, p.returncode, log, "".join(tail)[-3000:]))
    os.remove(log)        # hundreds of MB; the numbers are in the evidence
    ctx.add_tlc(name, res)
    return n, nontrivial


def is_nontrivial(ops):
    """a history in which the collector has to combine something: >= 2 inputs that hit the same ECU, or a description is offered"""
    if len(ops) < 2:
        return False
    ecus = [o["e"] for o in ops]
    return len(set(ecus)) < len(ecus) or any(o["k"] == "desc" or (o["k"] == "resp" and o["st"] == 7 and o["apps"]) for o in ops)


def offers(ops):
    """{key: set of descriptions offered} - used only for the path counters and to pick self-test candidates"""
    res = {}
    for o in ops:
        if o["k"] == "desc":
            res.setdefault((o["e"], o["a"], o["c"]), set()).add(o["d"])
        elif o["k"] == "resp" and o["st"] == 7:
            for ap in o["apps"]:
                if ap["d"]:
                    res.setdefault((o["e"], ap["a"], 0), set()).add(ap["d"])
                for ct in ap["cs"]:
                    if ct["d"]:
                        res.setdefault((o["e"], ap["a"], ct["c"]), set()).add(ct["d"])
    return res


def contract_paths(cases):
    p = {k: 0 for k in ("snap_direct", "snap_remote", "snap_split", "snap_wire", "cases_multi_ecu", "cases_desc_conflict",
                        "entries_with_desc", "entries_without_desc", "entries_zero_count", "cases_named_only",
                        "cases_lookalike_not_learnt", "snap_empty")}
    for k, evs in cases.items():
        ops = evs[0]["hdr"]["ops"]
        if len({o["e"] for o in ops}) > 1:
            p["cases_multi_ecu"] += 1
        if any(len(v) > 1 for v in offers(ops).values()):
            p["cases_desc_conflict"] += 1
        if any(o["k"] == "resp" and o["st"] in (3, 4, 5, 6) and o["apps"] for o in ops):
            p["cases_named_only"] += 1
        if any(o["k"] in ("log", "nvlog", "svc") and o["apps"] for o in ops):
            p["cases_lookalike_not_learnt"] += 1
        for e in evs[1:]:
            if e["ev"] != "snap":
                continue
            p["snap_" + e["view"]] += 1
            if not e["ecus"]:
                p["snap_empty"] += 1
            for x in e["ecus"]:
                for y in x["apids"]:
                    p["entries_with_desc" if y["desc"] else "entries_without_desc"] += 1
                    for z in y["ctids"]:
                        p["entries_with_desc" if z["desc"] else "entries_without_desc"] += 1
                        if z["n"] == 0:
                            p["entries_zero_count"] += 1
    return p


def validate_chunked(ctx, name, trace, max_lines=30000, timeout=3000):
    chunks, cur, n, idx = [], None, 0, 0
    with open(trace) as f:
        for line in f:
            if cur is None or (n >= max_lines and '"ev":"reset"' in line):
                if cur:
                    cur.close()
                idx += 1
                pth = "%s.chunk%d" % (trace, idx)
                chunks.append(pth)
                cur, n = open(pth, "w"), 0
            cur.write(line)
            n += 1
    if cur:
        cur.close()
    merged = None
    for i, pth in enumerate(chunks):
        v = c.validate_trace(ctx, "%s-%d" % (name, i + 1), "EacStatsTrace.tla", pth, {}, timeout=timeout)
        ctx.add_tlc("%s-trace-validation-%d" % (name, i + 1), v.res)
        if merged is None:
            merged = v
        else:
            merged.violations |= v.violations
            merged.rejected += v.rejected
            merged.states += v.states
        os.remove(pth)
    if merged is None:
        raise c.ToolError("empty trace " + trace)
    return merged


def binding_selftest(ctx, cases, v):
    """corrupt accepted cases (one field each / one deleted event) and require that TLC rejects every one of them and
    still accepts the unchanged controls"""
    good = [k for k in cases if k not in v.violations and cases[k][-1]["ev"] == "end"]

    def final_direct(evs):
        n = len(evs[0]["hdr"]["ops"])
        return next((e for e in evs if e["ev"] == "snap" and e["view"] == "direct" and e["after"] == n), None)

    def pick(pred):
        return next((k for k in good if pred(cases[k])), None)

    muts = []
    k = pick(lambda evs: any(x["apids"] and x["apids"][0]["ctids"] for x in (final_direct(evs) or {"ecus": []})["ecus"]))
    if k is not None:
        for what, f in (
            ("context count + 1", lambda x: x["apids"][0]["ctids"][0].__setitem__("n", x["apids"][0]["ctids"][0]["n"] + 1)),
            ("ECU count - 1", lambda x: x.__setitem__("n", x["n"] - 1)),
            ("application count (sum) wrong", lambda x: x["apids"][0].__setitem__("n", x["apids"][0]["n"] + 1)),
            ("context listed twice", lambda x: x["apids"][0]["ctids"].append(dict(x["apids"][0]["ctids"][0]))),
            ("application entry missing", lambda x: x["apids"].pop(0)),
            ("unknown context id listed", lambda x: x["apids"][0]["ctids"].append({"ctid": 99, "n": 0, "desc": 0})),
        ):
            t = copy.deepcopy(cases[k])
            x = next(x for x in final_direct(t)["ecus"] if x["apids"] and x["apids"][0]["ctids"])
            f(x)
            muts.append((what, t))
        t = copy.deepcopy(cases[k]); fd = final_direct(t); fd["ecus"].append(copy.deepcopy(fd["ecus"][0]))
        muts.append(("ECU listed twice", t))
        t = copy.deepcopy(cases[k]); final_direct(t)["total"] += 1
        muts.append(("total wrong", t))
        t = [e for e in copy.deepcopy(cases[k]) if not (e["ev"] == "snap" and e["after"] == len(cases[k][0]["hdr"]["ops"]) and e["view"] != "remote")]
        muts.append(("final snapshots deleted", t))
        muts.append(("unchanged (control: must be accepted)", copy.deepcopy(cases[k])))

    def has_desc(evs):
        fd = final_direct(evs)
        return fd is not None and any(y["desc"] or any(z["desc"] for z in y["ctids"]) for x in fd["ecus"] for y in x["apids"])
    k = pick(has_desc)
    if k is not None:
        for what, val in (("offered description not shown", 0), ("a description nobody offered for this entry", None)):
            t = copy.deepcopy(cases[k]); fd = final_direct(t)
            ops = t[0]["hdr"]["ops"]
            off = offers(ops)
            done = False
            for x in fd["ecus"]:
                for y in x["apids"]:
                    for z in [y] + y["ctids"]:
                        if z["desc"] and not done:
                            key = (x["ecu"], y["apid"], z.get("ctid", 0))
                            nd = len(t[0]["hdr"]["names"]["desc"])
                            alt = [d for d in range(1, nd + 1) if d not in off.get(key, set())]
                            if val == 0:
                                z["desc"] = 0; done = True
                            elif alt:
                                z["desc"] = alt[0]; done = True
            if done:
                muts.append((what, t))
    # a remote snapshot that shows another (also offered) description than the collector itself
    def conflict_remote(evs):
        off = offers(evs[0]["hdr"]["ops"])
        fd = final_direct(evs)
        return fd is not None and any(len(s) > 1 for s in off.values()) and any(e["ev"] == "snap" and e["view"] == "remote" for e in evs)
    k = pick(conflict_remote)
    if k is not None:
        t = copy.deepcopy(cases[k])
        off = offers(t[0]["hdr"]["ops"])
        n = len(t[0]["hdr"]["ops"])
        done = False
        for view, what in (("remote", "remote types show another offered description than the collector"),
                           ("split", "split collector shows another offered description than the interleaved one")):
            t = copy.deepcopy(cases[k]); done = False
            for e in t:
                if e["ev"] == "snap" and e["view"] == view and e["after"] == n:
                    for x in e["ecus"]:
                        for y in x["apids"]:
                            for z in [y] + y["ctids"]:
                                s = off.get((x["ecu"], y["apid"], z.get("ctid", 0)), set())
                                if len(s) > 1 and z["desc"] in s and not done:
                                    z["desc"] = next(d for d in s if d != z["desc"]); done = True
            if done:
                muts.append((what, t))
    k = pick(lambda evs: any(e["ev"] == "snap" and e["view"] == "wire" and e["ecus"] for e in evs))
    if k is not None:
        t = copy.deepcopy(cases[k]); e = next(e for e in t if e["ev"] == "snap"); e["ecus"][0]["n"] += 1
        muts.append(("wire frame with a wrong ECU count", t))
        muts.append(("unchanged wire case (control: must be accepted)", copy.deepcopy(cases[k])))
    if len(muts) < 10:
        if ctx.violations:      # the code under test is broken so badly that no suitable accepted case exists: the verdict stands
            return {"skipped": "not enough accepted cases to corrupt (run has violations)"}
        raise c.ToolError("binding self-test: not enough accepted cases to corrupt (%d)" % len(muts))
    path = ctx.path("selftest.ndjson")
    with open(path, "w") as f:
        for i, (_, t) in enumerate(muts):
            for e in t:
                e = dict(e)
                if e["ev"] == "reset":
                    e["case"] = i
                f.write(json.dumps(e) + "\n")
    saved = ctx.replay_module
    sv = c.validate_trace(ctx, "selftest", "EacStatsTrace.tla", path, {}, timeout=600)
    ctx.replay_module = saved
    res = {}
    for i, (what, _) in enumerate(muts):
        rejected = i in sv.violations
        res[what] = "rejected" if rejected else "accepted"
        if rejected != (not what.startswith("unchanged")):
            raise c.ToolError("binding self-test: trace '%s' was %s by EacStatsTrace.tla" % (what, res[what]))
    return res


def check(ctx):
    quick = ctx.quick()
    binp = c.build_harness("x01")
    adlt = c.build_adlt_bin()
    # (a)+(b) model checking of the design module (invariants = the contract on the model) and scenario emission, one run
    cfgs = ["EacStats_quick.cfg"] if quick else ["EacStats_full3.cfg", "EacStats_deep4.cfg"]
    scn_path = ctx.path("scenarios.ndjson")
    nscn = nontriv = 0
    with open(scn_path, "w") as f:
        for cfg in cfgs:
            n, nt = tlc_stream(ctx, cfg[9:-4], cfg, f)
            nscn += n
            nontriv += nt
    if nscn == 0:
        raise c.ToolError("EacStats emitted no scenarios")
    # (c, d) replay + random + wire
    trace = ctx.path("trace.ndjson")
    summary = ctx.path("summary.json")
    nrand = 300 if quick else 4000
    nwire = 8 if quick else 60
    if os.path.exists(summary):
        os.remove(summary)
    shutil.rmtree(ctx.path("wire"), ignore_errors=True)
    p = c.run([binp, "--scenarios", scn_path, "--n-scenarios", str(nscn), "--random", str(nrand), "--seed", str(ctx.seed), "--out", trace, "--summary", summary,
               "--sample", "300" if quick else "2000", "--max-ops", "120" if quick else "600",
               "--wire", str(nwire), "--wire-max-ops", "400" if quick else "3000", "--adlt", adlt, "--work", ctx.work],
              timeout=3000, check=False)
    if p.returncode != 0 or not os.path.exists(summary):
        raise c.ToolError("driver failed (%s): %s" % (p.returncode, (p.stdout or "")[-3000:]))
    info = json.load(open(summary))
    os.remove(scn_path)
    # (e) trace validation
    v = validate_chunked(ctx, "eac", trace)
    cases = c.split_cases(trace)
    rej = {r[0]: r for r in v.rejected}
    for k in sorted(v.violations):
        r = rej.get(k)
        ctx.violation("case %d (%s) rejected by EacStatsTrace at line %s: %s" % (
            k, cases[k][0]["hdr"]["src"] if k in cases else "?", r[1] if r else "?", r[2] if r else "unfinished case"),
            {"case": k, "trace": cases.get(k), "first_unmatched": r[2] if r else None, "module": "EacStatsTrace.tla", "consts": {},
             "how": "bin/check X01 quick --replay <this file>"})
    ctx.extra["binding_selftest"] = binding_selftest(ctx, cases, v)
    ctx.evaluations = info["replayed"] + nrand + nwire
    ctx.traces_validated = info["fast_path"] + len(cases) - len(v.violations)      # (drifting runs that were not traced are not counted)
    rseen = set()
    for k, evs in cases.items():
        h = evs[0]["hdr"]
        if h["src"] in ("random", "wire") and is_nontrivial(h["ops"]):
            rseen.add(json.dumps(h["ops"], sort_keys=True))
    ctx.distinct_nontrivial = nontriv + len(rseen)
    ctx.rule = ("a case = one input history fed to a fresh collector (TLC histories: every behaviour of the bounded model, each in both "
                "byte orders; random histories; files through the websocket server); non-trivial = at least two inputs of which two "
                "hit the same ECU or one offers a description; distinct by the input history (TLC histories are distinct by "
                "construction and counted once, not per byte order)")
    ctx.exhaustive = True
    ctx.extra["replay"] = {k: info[k] for k in ("replayed", "fast_path", "slow_path", "drift", "drift_not_traced", "predicted_not_ok", "cases", "lines")}
    ctx.extra["design_conformance"] = {"steps": info["replayed"], "mismatches": info["drift"]}
    ctx.extra["drift_samples"] = info.get("drift_samples", [])
    ctx.extra["tlc_histories"] = nscn
    ctx.extra["random_histories"] = nrand
    ctx.extra["wire_files"] = nwire
    ctx.extra["paths"] = info["paths"]
    cp = contract_paths(cases)
    ctx.extra["contract_paths"] = cp
    need = ["op_" + k for k in KINDS] + ["resp_status_%d" % s for s in (3, 4, 5, 6, 7, 8)] + ["resp_with_trailer", "big_endian_msg",
                                                                                             "random_cases", "wire_cases"]
    missing = [k for k in need if not info["paths"].get(k)] + [k for k, n in cp.items() if n == 0]
    if info["replayed"] != 2 * nscn:
        missing.append("replayed %d of %d scenario runs" % (info["replayed"], 2 * nscn))
    ctx.extra["paths_never_exercised"] = missing
    if missing and not ctx.violations:      # (with violations the code may be too broken to reach a path: the verdict stands)
        raise c.ToolError("vacuity: paths never exercised: %s" % missing)
    ks = list(cases)
    for k in ks[:1] + ks[len(ks) // 2:len(ks) // 2 + 1] + ks[-1:]:
        s = cases[k][:6]
        if len(json.dumps(s)) < 6000:
            ctx.add_sample({"case": k, "trace": s})
        else:
            ctx.add_sample({"case": k, "src": cases[k][0]["hdr"]["src"], "inputs": len(cases[k][0]["hdr"]["ops"]), "events": len(cases[k])})
    ctx.assumptions = ["TLC and CommunityModules are correct",
                       "the driver's projection (id/description table lookup, bincode decoding as a websocket client would do it) is correct",
                       "get_log_info payloads are well-formed ([Dlt197] layout); descriptions are ASCII without CR/LF/TAB",
                       "for the websocket path: the first EAC frame after the file info reported all messages is the one judged"]
