-------------------------- MODULE FileTransferTrace --------------------------
(* C17 - trace validation of the real FileTransferPlugin (contract = the statement, on observations).

   trace lines (ndjson), real byte counts:
     {"ev":"reset","case":n,"hdr":{"cfg":{"allow_save":b,"auto":b,"keep_flda":b,...},
            "tr":[{"lens":[original package lengths],"size":s,"hash":h,"pre":b,...}],      one per transfer
            "wire":[{"t":t,"k":"FLST"|"FLDA"|"FLFI"|"X","pkg":p,"len":l,"orig":b}]}}     what is sent, in order
     {"ev":"msg","i":i,"fwd":b,"kinds":[[kind,..],..],"dir":[{"name":n,"len":l,"hash":h},..]}
            after process_msg of wire item i (for an "ENV" item: after the environment created a file in the auto-save
            directory instead): for every transfer the state kinds ("started","missing","complete","incomplete") of all
            entries of the plugin's public state() JSON with its key; dir = listing of the auto-save directory (files, with
            content hashes).  hdr.tr[t].base = the base name of the transfer's file name; hdr.env = the files the driver
            itself put there: [{"name","len","hash","at"}] (at = wire index at which it appears, 0 = before the run)
     {"ev":"saved","t":t,"list":L,"entry":e,"via":"cmdctx"|"index","ok":b,"eq":b,"len":l,"hash":h}
            apply_command("save") issued from entry e of list L of the state tree ("top" = by occurrence, "Sorted by name", any
            other grouping) with THAT ENTRY'S OWN command context (via = "cmdctx"; entries without one: top-level ones are tried with
            their index, via = "index"); t = the transfer the entry names (key in its tooltip); ok = command succeeded and wrote a
            file; eq = its bytes equal the original of transfer t
     {"ev":"tree","new":[{"inside":b,"t":t,"len":l,"hash":h}],"pre_ok":b}   files that appeared in the sentinel directory
            around the configured auto-save directory: inside = below the auto-save dir, t = transfer whose original
            bytes equal the file (0 = none); pre_ok = every pre-existing file still has its old bytes
     {"ev":"end"} / {"ev":"panic","msg":..}

   Contract:
     Safety    a transfer is reported complete (at any point) only if by then all its packages arrived in order,
               unchanged (FileTransferDefs!AllArrived); a successful save / an auto-saved file has exactly the
               original bytes and belongs to such a transfer; auto-saved files lie inside the configured directory;
               THE AUTO-SAVE DIRECTORY ONLY GROWS: a file seen there once never changes its bytes and never vanishes
               (never overwritten - whether it existed before the run, appeared meanwhile, or was auto-saved earlier);
               every file appearing there is the environment's or the exact bytes of a transfer with that base name
               whose packages have all arrived in order by then.
     Liveness  at the end every transfer whose announcement and all packages arrived in order (duplicates tolerated,
               end marker optional) is reported complete and - if saving is allowed - was saved bit-exactly.
               Narrower reading: with a LOST announcement only safety is required (DESIGN.md C17, observation #16).
   Known finding KF_C17_DuplicateIncomplete (#11): the liveness half is waived for a transfer in which a duplicate
   package arrived while packages were still outstanding - and only for such transfers.                       *)
EXTENDS FileTransferDefs, TLC, Json, IOUtils

CONSTANT KF_C17_DuplicateIncomplete

Rec == ndJsonDeserialize(IOEnv.TRACE)

VARIABLES l, case, phase, hdr, i, lastK, savedOk, treeSeen, seen, viol, kfUsed
vars == <<l, case, phase, hdr, i, lastK, savedOk, treeSeen, seen, viol, kfUsed>>

NoHdr == [cfg |-> [allow_save |-> FALSE], tr |-> <<>>, wire |-> <<>>, env |-> <<>>, lost_name |-> ""]
Init == /\ l = 1 /\ case = -1 /\ phase = "idle" /\ hdr = NoHdr /\ i = 0 /\ lastK = <<>> /\ savedOk = {} /\ treeSeen = FALSE /\ seen = {}
        /\ viol = {} /\ kfUsed = {}

Ev(e) == l <= Len(Rec) /\ Rec[l].ev = e /\ l' = l + 1
Cur == Rec[l]
W == hdr.wire
NTr == Len(hdr.tr)
Lens(t) == hdr.tr[t].lens

Reset == /\ Ev("reset")
         /\ case' = Cur.case /\ hdr' = Cur.hdr /\ i' = 0 /\ lastK' = [t \in 1..Len(Cur.hdr.tr) |-> <<>>]
         /\ savedOk' = {} /\ treeSeen' = FALSE /\ seen' = {} /\ phase' = "running"
         /\ viol' = (IF phase = "running" THEN viol \cup {case} ELSE viol)
         /\ UNCHANGED kfUsed

Has(seq, x) == \E j \in 1..Len(seq) : seq[j] = x

\* the auto-save directory after wire item `upto`
Fid(f) == [name |-> f.name, len |-> f.len, hash |-> f.hash]
Justified(f, upto) ==
  \/ \E k \in 1..Len(hdr.env) : hdr.env[k].name = f.name /\ hdr.env[k].len = f.len /\ hdr.env[k].hash = f.hash /\ hdr.env[k].at <= upto
  \/ \E t \in 1..NTr : /\ (hdr.tr[t].base = f.name \/ (f.name = hdr.lost_name /\ ~Announced(W, t, upto)))   \* (a lost announcement = no name)
                         /\ f.len = hdr.tr[t].size /\ f.hash = hdr.tr[t].hash
                         /\ AllArrived(W, t, Lens(t), upto)
DirOk(d, upto) ==
  /\ \A e \in seen : \E j \in 1..Len(d) : Fid(d[j]) = e                                       \* nothing changed, nothing vanished
  /\ \A j \in 1..Len(d) : Fid(d[j]) \in seen \/ ((~\E e \in seen : e.name = d[j].name) /\ Justified(d[j], upto))
  /\ \A j, k \in 1..Len(d) : d[j].name = d[k].name => j = k

Msg == /\ Ev("msg") /\ phase = "running"
       /\ Cur.i = i + 1 /\ i + 1 <= Len(W) /\ Len(Cur.kinds) = NTr
       /\ \A t \in 1..NTr : Has(Cur.kinds[t], "complete") => AllArrived(W, t, Lens(t), i + 1)
       /\ DirOk(Cur.dir, i + 1)
       /\ seen' = seen \cup {Fid(Cur.dir[j]) : j \in 1..Len(Cur.dir)}
       /\ i' = i + 1 /\ lastK' = Cur.kinds
       /\ UNCHANGED <<case, phase, hdr, savedOk, treeSeen, viol, kfUsed>>

Saved == /\ Ev("saved") /\ phase = "running" /\ i = Len(W)
         /\ Cur.t \in 1..NTr
         /\ (Cur.ok => /\ Cur.eq /\ Cur.len = hdr.tr[Cur.t].size /\ Cur.hash = hdr.tr[Cur.t].hash
                       /\ AllArrived(W, Cur.t, Lens(Cur.t), Len(W)))
         \* an entry that offers a save context (in whatever list of the state tree) must be savable through it
         /\ ((Cur.via = "cmdctx" /\ Announced(W, Cur.t, Len(W)) /\ AllArrived(W, Cur.t, Lens(Cur.t), Len(W))) => Cur.ok)
         /\ savedOk' = (IF Cur.ok THEN savedOk \cup {Cur.t} ELSE savedOk)
         /\ UNCHANGED <<case, phase, hdr, i, lastK, treeSeen, seen, viol, kfUsed>>

Tree == /\ Ev("tree") /\ phase = "running" /\ i = Len(W)
        /\ Cur.pre_ok
        /\ \A j \in 1..Len(Cur.new) : LET f == Cur.new[j] IN
              /\ f.inside /\ f.t \in 1..NTr
              /\ f.len = hdr.tr[f.t].size /\ f.hash = hdr.tr[f.t].hash
              /\ AllArrived(W, f.t, Lens(f.t), Len(W))
        /\ treeSeen' = TRUE
        /\ UNCHANGED <<case, phase, hdr, i, lastK, savedOk, seen, viol, kfUsed>>

Owed(t) == Announced(W, t, Len(W)) /\ AllArrived(W, t, Lens(t), Len(W))
Delivered(t) == Has(lastK[t], "complete") /\ (hdr.cfg.allow_save => t \in savedOk)

End == /\ Ev("end") /\ phase = "running" /\ i = Len(W) /\ treeSeen
       /\ \A t \in 1..NTr : Owed(t) => Delivered(t)
       /\ phase' = "ended" /\ UNCHANGED <<case, hdr, i, lastK, savedOk, treeSeen, seen, viol, kfUsed>>

KF_End == /\ KF_C17_DuplicateIncomplete
          /\ Ev("end") /\ phase = "running" /\ i = Len(W) /\ treeSeen
          /\ \E t \in 1..NTr : Owed(t) /\ ~Delivered(t)
          /\ \A t \in 1..NTr : (Owed(t) /\ ~Delivered(t)) => DupBeforeEnd(W, t, Lens(t), Len(W))
          /\ kfUsed' = kfUsed \cup {[case |-> case, kf |-> "KF_C17_DuplicateIncomplete"]}
          /\ phase' = "ended" /\ UNCHANGED <<case, hdr, i, lastK, savedOk, treeSeen, seen, viol>>

Matches == ENABLED Msg \/ ENABLED Saved \/ ENABLED Tree \/ ENABLED End \/ ENABLED KF_End
Reject == /\ l <= Len(Rec) /\ Cur.ev # "reset" /\ phase = "running" /\ ~Matches
          /\ PrintT(<<"CASE_REJECTED", case, l, ToJson(Cur)>>)
          /\ l' = l + 1 /\ phase' = "rejected" /\ viol' = viol \cup {case}
          /\ UNCHANGED <<case, hdr, i, lastK, savedOk, treeSeen, seen, kfUsed>>
SkipRest == /\ l <= Len(Rec) /\ Cur.ev # "reset" /\ phase \in {"rejected", "ended", "idle"}
            /\ l' = l + 1
            /\ (IF phase = "ended" THEN viol' = viol \cup {case} /\ phase' = "rejected"
                                   ELSE UNCHANGED <<viol, phase>>)
            /\ UNCHANGED <<case, hdr, i, lastK, savedOk, treeSeen, seen, kfUsed>>

Next == Reset \/ Msg \/ Saved \/ Tree \/ End \/ KF_End \/ Reject \/ SkipRest
Spec == Init /\ [][Next]_vars

AtEnd == l = Len(Rec) + 1
FinalViol == IF phase = "running" THEN viol \cup {case} ELSE viol
Report == AtEnd => PrintT(<<"VERDICT", ToJson([violations |-> FinalViol, known |-> kfUsed])>>)
Accepted == IF TLCGet("stats").diameter - 1 = Len(Rec) THEN TRUE
            ELSE Print(<<"TRACE_NOT_CONSUMED", TLCGet("stats").diameter, Len(Rec)>>, FALSE)
=============================================================================
