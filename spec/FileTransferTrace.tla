-------------------------- MODULE FileTransferTrace --------------------------
(* C17 - trace validation of the real FileTransferPlugin (contract = the statement, on observations).

   trace lines (ndjson), real byte counts:
     {"ev":"reset","case":n,"hdr":{"cfg":{"allow_save":b,"auto":b,"keep_flda":b,...},
            "tr":[{"lens":[original package lengths],"size":s,"hash":h,"pre":b,...}],      one per transfer
            "wire":[{"t":t,"k":"FLST"|"FLDA"|"FLFI"|"X","pkg":p,"len":l,"orig":b}]}}     what is sent, in order
     {"ev":"msg","i":i,"fwd":b,"kinds":[[kind,..],..]}     after process_msg of wire item i: for every transfer the state
            kinds ("started","missing","complete","incomplete") of all entries of the plugin's public state() JSON with its key
     {"ev":"saved","t":t,"entry":e,"ok":b,"eq":b,"len":l,"hash":h}   apply_command("save") on state entry e (key of transfer t):
            ok = command succeeded and wrote a file; eq = its bytes equal the original file
     {"ev":"tree","new":[{"inside":b,"t":t,"len":l,"hash":h}],"pre_ok":b}   files that appeared in the sentinel directory
            around the configured auto-save directory: inside = below the auto-save dir, t = transfer whose original
            bytes equal the file (0 = none); pre_ok = every pre-existing file still has its old bytes
     {"ev":"end"} / {"ev":"panic","msg":..}

   Contract:
     Safety    a transfer is reported complete (at any point) only if by then all its packages arrived in order,
               unchanged (FileTransferDefs!AllArrived); a successful save / an auto-saved file has exactly the
               original bytes and belongs to such a transfer; auto-saved files lie inside the configured directory;
               pre-existing files are never overwritten.
     Liveness  at the end every transfer whose announcement and all packages arrived in order (duplicates tolerated,
               end marker optional) is reported complete and - if saving is allowed - was saved bit-exactly.
               Narrower reading: with a LOST announcement only safety is required (DESIGN.md C17, observation #16).
   Known finding KF_C17_DuplicateIncomplete (#11): the liveness half is waived for a transfer in which a duplicate
   package arrived while packages were still outstanding - and only for such transfers.                       *)
EXTENDS FileTransferDefs, TLC, Json, IOUtils

CONSTANT KF_C17_DuplicateIncomplete

Rec == ndJsonDeserialize(IOEnv.TRACE)

VARIABLES l, case, phase, hdr, i, lastK, savedOk, treeSeen, viol, kfUsed
vars == <<l, case, phase, hdr, i, lastK, savedOk, treeSeen, viol, kfUsed>>

NoHdr == [cfg |-> [allow_save |-> FALSE], tr |-> <<>>, wire |-> <<>>]
Init == /\ l = 1 /\ case = -1 /\ phase = "idle" /\ hdr = NoHdr /\ i = 0 /\ lastK = <<>> /\ savedOk = {} /\ treeSeen = FALSE
        /\ viol = {} /\ kfUsed = {}

Ev(e) == l <= Len(Rec) /\ Rec[l].ev = e /\ l' = l + 1
Cur == Rec[l]
W == hdr.wire
NTr == Len(hdr.tr)
Lens(t) == hdr.tr[t].lens

Reset == /\ Ev("reset")
         /\ case' = Cur.case /\ hdr' = Cur.hdr /\ i' = 0 /\ lastK' = [t \in 1..Len(Cur.hdr.tr) |-> <<>>]
         /\ savedOk' = {} /\ treeSeen' = FALSE /\ phase' = "running"
         /\ viol' = (IF phase = "running" THEN viol \cup {case} ELSE viol)
         /\ UNCHANGED kfUsed

Has(seq, x) == \E j \in 1..Len(seq) : seq[j] = x

Msg == /\ Ev("msg") /\ phase = "running"
       /\ Cur.i = i + 1 /\ i + 1 <= Len(W) /\ Len(Cur.kinds) = NTr
       /\ \A t \in 1..NTr : Has(Cur.kinds[t], "complete") => AllArrived(W, t, Lens(t), i + 1)
       /\ i' = i + 1 /\ lastK' = Cur.kinds
       /\ UNCHANGED <<case, phase, hdr, savedOk, treeSeen, viol, kfUsed>>

Saved == /\ Ev("saved") /\ phase = "running" /\ i = Len(W)
         /\ Cur.t \in 1..NTr
         /\ (Cur.ok => /\ Cur.eq /\ Cur.len = hdr.tr[Cur.t].size /\ Cur.hash = hdr.tr[Cur.t].hash
                       /\ AllArrived(W, Cur.t, Lens(Cur.t), Len(W)))
         /\ savedOk' = (IF Cur.ok THEN savedOk \cup {Cur.t} ELSE savedOk)
         /\ UNCHANGED <<case, phase, hdr, i, lastK, treeSeen, viol, kfUsed>>

Tree == /\ Ev("tree") /\ phase = "running" /\ i = Len(W)
        /\ Cur.pre_ok
        /\ \A j \in 1..Len(Cur.new) : LET f == Cur.new[j] IN
              /\ f.inside /\ f.t \in 1..NTr
              /\ f.len = hdr.tr[f.t].size /\ f.hash = hdr.tr[f.t].hash
              /\ AllArrived(W, f.t, Lens(f.t), Len(W))
        /\ treeSeen' = TRUE
        /\ UNCHANGED <<case, phase, hdr, i, lastK, savedOk, viol, kfUsed>>

Owed(t) == Announced(W, t, Len(W)) /\ AllArrived(W, t, Lens(t), Len(W))
Delivered(t) == Has(lastK[t], "complete") /\ (hdr.cfg.allow_save => t \in savedOk)

End == /\ Ev("end") /\ phase = "running" /\ i = Len(W) /\ treeSeen
       /\ \A t \in 1..NTr : Owed(t) => Delivered(t)
       /\ phase' = "ended" /\ UNCHANGED <<case, hdr, i, lastK, savedOk, treeSeen, viol, kfUsed>>

KF_End == /\ KF_C17_DuplicateIncomplete
          /\ Ev("end") /\ phase = "running" /\ i = Len(W) /\ treeSeen
          /\ \E t \in 1..NTr : Owed(t) /\ ~Delivered(t)
          /\ \A t \in 1..NTr : (Owed(t) /\ ~Delivered(t)) => DupBeforeEnd(W, t, Lens(t), Len(W))
          /\ kfUsed' = kfUsed \cup {[case |-> case, kf |-> "KF_C17_DuplicateIncomplete"]}
          /\ phase' = "ended" /\ UNCHANGED <<case, hdr, i, lastK, savedOk, treeSeen, viol>>

Matches == ENABLED Msg \/ ENABLED Saved \/ ENABLED Tree \/ ENABLED End \/ ENABLED KF_End
Reject == /\ l <= Len(Rec) /\ Cur.ev # "reset" /\ phase = "running" /\ ~Matches
          /\ PrintT(<<"CASE_REJECTED", case, l, ToJson(Cur)>>)
          /\ l' = l + 1 /\ phase' = "rejected" /\ viol' = viol \cup {case}
          /\ UNCHANGED <<case, hdr, i, lastK, savedOk, treeSeen, kfUsed>>
SkipRest == /\ l <= Len(Rec) /\ Cur.ev # "reset" /\ phase \in {"rejected", "ended", "idle"}
            /\ l' = l + 1
            /\ (IF phase = "ended" THEN viol' = viol \cup {case} /\ phase' = "rejected"
                                   ELSE UNCHANGED <<viol, phase>>)
            /\ UNCHANGED <<case, hdr, i, lastK, savedOk, treeSeen, kfUsed>>

Next == Reset \/ Msg \/ Saved \/ Tree \/ End \/ KF_End \/ Reject \/ SkipRest
Spec == Init /\ [][Next]_vars

AtEnd == l = Len(Rec) + 1
FinalViol == IF phase = "running" THEN viol \cup {case} ELSE viol
Report == AtEnd => PrintT(<<"VERDICT", ToJson([violations |-> FinalViol, known |-> kfUsed])>>)
Accepted == IF TLCGet("stats").diameter - 1 = Len(Rec) THEN TRUE
            ELSE Print(<<"TRACE_NOT_CONSUMED", TLCGet("stats").diameter, Len(Rec)>>, FALSE)
=============================================================================
