----------------------------- MODULE CleanBoots -----------------------------
(* C08 - environment that generates ONLY cleanly separated power cycles, composed with the detector model.

   Per ECU: boots b = (boot time bt, transport delay dl); every message of a boot is received at rx = bt + dl + ts;
   messages of a boot arrive in any order, all before (in stream and in reception time) every message of that
   ECU's next boot; ECUs interleave arbitrarily; the next boot starts after the current one ended (bt + largest
   timestamp) plus an off time >= 1 tick.

   Property: outside the known-finding class (a boot whose start estimate bt' + dl' does not exceed the end
   estimate bt + dl + maxts of the previous boot of its ECU - inherent to the membership test, known finding
   KF_C08_Overlap) the detector is exact: one lifecycle per boot, every message in the lifecycle of its boot,
   start = bt + dl, end = start + largest timestamp.                                                          *)
EXTENDS LcDetector

CONSTANTS Delays, OffTimes, BootTs, MaxBoots

VARIABLES curBoot,    \* per ECU: global number of the current boot (0 = none yet)
          bootRec,    \* global boot number -> [ecu, bt, dl, maxts, used]
          truth,      \* boot number per message
          maxRxPrev,  \* per ECU: largest reception time of all previous boots
          kfClass
cvars == <<curBoot, bootRec, truth, maxRxPrev, kfClass>>

NB == Len(bootRec)
CInit == /\ Init
         /\ curBoot = [e \in Ecus |-> 0] /\ bootRec = <<>> /\ truth = <<>> /\ maxRxPrev = [e \in Ecus |-> 0] /\ kfClass = FALSE

\* first boot of an ECU / reboot of an ECU whose current boot has sent at least one message
StartBoot(e) ==
  /\ ~done
  /\ Cardinality({b \in 1..NB : bootRec[b].ecu = e}) < MaxBoots
  /\ (curBoot[e] # 0 => bootRec[curBoot[e]].used)
  /\ \E off \in OffTimes : \E d \in Delays :
       LET prev == curBoot[e]
           bt2 == IF prev = 0 THEN RxBase ELSE bootRec[prev].bt + bootRec[prev].maxts + off
       IN /\ bootRec' = Append(bootRec, [ecu |-> e, bt |-> bt2, dl |-> d, maxts |-> 0, used |-> FALSE])
          /\ curBoot' = [curBoot EXCEPT ![e] = NB + 1]
          /\ maxRxPrev' = [maxRxPrev EXCEPT ![e] = IF prev = 0 THEN 0 ELSE Max(@, bootRec[prev].bt + bootRec[prev].dl + bootRec[prev].maxts)]
          /\ kfClass' = (kfClass \/ (prev # 0 /\ bt2 + d <= bootRec[prev].bt + bootRec[prev].dl + bootRec[prev].maxts))
  /\ UNCHANGED truth /\ UNCHANGED vars

SendMsg(e) ==
  /\ ~done /\ n < MaxMsgs /\ curBoot[e] # 0
  /\ \E ts \in BootTs : \E order \in Perms(Ecus) :
       LET b == bootRec[curBoot[e]]
           rx == b.bt + b.dl + ts
       IN /\ rx > maxRxPrev[e]                    \* reception-time separation from all previous boots of this ECU
          /\ Step([ecu |-> e, rx |-> rx, ts |-> ts, kind |-> "norm", ix |-> nextIdx], order)
          /\ bootRec' = [bootRec EXCEPT ![curBoot[e]].maxts = Max(@, ts), ![curBoot[e]].used = TRUE]
          /\ truth' = Append(truth, curBoot[e])
  /\ UNCHANGED <<curBoot, maxRxPrev, kfClass>>

CFinish == n > 0 /\ Finish /\ UNCHANGED cvars
CNext == (\E e \in Ecus : StartBoot(e) \/ SendMsg(e)) \/ CFinish
CSpec == CInit /\ [][CNext]_<<vars, cvars>>

UsedBoots == {truth[i] : i \in 1..Len(truth)}
Exact == done /\ ~panic =>
  /\ Len(delivered) = Len(truth)
  /\ \A i, j \in 1..Len(delivered) : (truth[i] = truth[j]) <=> (delivered[i].lc = delivered[j].lc)
  /\ Cardinality(DOMAIN published) = Cardinality(UsedBoots)
  /\ \A i \in 1..Len(delivered) : delivered[i].lc \in DOMAIN published /\
        LET p == published[delivered[i].lc] b == bootRec[truth[i]] IN
          p.ecu = b.ecu /\ p.start = b.bt + b.dl /\ p.end = b.bt + b.dl + b.maxts
ExactOutsideKF == kfClass \/ Exact

\* reception times are absolute here (boot times matter), so no time-relative view; histories are kept out of the state
\* by emitting from the terminal state only
CleanEmit == done => PrintT(<<"SCN", ToJson([inputs |-> [i \in 1..Len(inputs) |-> [ecu |-> inputs[i].ecu, rx |-> inputs[i].rx, ts |-> inputs[i].ts,
                                                                                       kind |-> "norm", boot |-> truth[i]]],
                                             boots |-> [b \in 1..NB |-> [ecu |-> bootRec[b].ecu, bt |-> bootRec[b].bt, delay |-> bootRec[b].dl,
                                                                         maxts |-> bootRec[b].maxts]],
                                             delivered |-> delivered, pub |-> PubList, panic |-> panic,
                                             c05 |-> C05, c06 |-> C06, c07 |-> C07, kf |-> kfClass, exact |-> Exact, paths |-> paths])>>)
=============================================================================
