----------------------------- MODULE FilterTrace -----------------------------
(* C11 - trace validation: decisions of the real Filter::matches, recorded per (front-end, filter) case.

   trace lines (ndjson):
     {"ev":"reset","case":n,"hdr":{"fe":<front-end>,"f":<abstract filter>,...}}   a filter was built through fe
     {"ev":"decide","m":<abstract message>,"result":b}                  Filter::matches(m) of that filter
     {"ev":"roundtrip","m":<abstract message>,"before":b,"after":b}     matches(m) of the filter and of
                                                                        Filter::from_json(filter.to_json())
     {"ev":"end"}
     {"ev":"loaderr","msg":..} / {"ev":"panic","msg":..}                no action matches: the front-end rejected an
                                                                        expressible filter / the code panicked

   Contract (the property): decide.result = Match(hdr.f, m); roundtrip.after = roundtrip.before.
   Known-finding deviations (switched on by constants generated from known_findings.jsonl), each enabled only by
   the exact circumstances of the finding:
     KF_C11_DlfIgnoreCase    the DLF front-ends build a case-insensitive matcher for a literal payload text although
                             ignoreCase_Payload is off: fe in {dlf, dlfa}, literal payload criterion, ic off, and the
                             observed decision is the one of the same filter with ic on (and differs from Match)
     KF_C11_ToJsonDropsType  to_json omits the type criterion: roundtrip events of filters with a type criterion whose
                             `after` is the decision of the filter without that criterion (and differs from `before`)
   A case for which no action matches is recorded in `viol` and skipped up to the next reset.                        *)
EXTENDS Filter, IOUtils

CONSTANTS KF_C11_DlfIgnoreCase, KF_C11_ToJsonDropsType

Rec == ndJsonDeserialize(IOEnv.TRACE)

VARIABLES l, case, phase, hdr, viol
vars == <<l, case, phase, hdr, viol>>

NoHdr == [fe |-> "", f |-> [enabled |-> FALSE]]
Init == l = 1 /\ case = -1 /\ phase = "idle" /\ hdr = NoHdr /\ viol = {}

Ev(e) == l <= Len(Rec) /\ Rec[l].ev = e /\ l' = l + 1
Cur == Rec[l]

\* a case outside the domain (front-end cannot express the filter) is a driver error, reported as DOMAIN_ERROR
InDomain(h) == IF Expressible(h.fe, h.f) THEN TRUE ELSE PrintT(<<"DOMAIN_ERROR", ToJson(h)>>)
Reset == /\ Ev("reset") /\ InDomain(Cur.hdr)
         /\ case' = Cur.case /\ hdr' = Cur.hdr /\ phase' = "running"
         /\ viol' = (IF phase = "running" THEN viol \cup {case} ELSE viol)     \* previous case never ended

Fe == hdr.fe
Fl == hdr.f
IcOn(f) == [f EXCEPT !.pay.ic = TRUE]
NoTypeOf(f) == [f EXCEPT !.type = NoType]
DlfIcApplies == Fe \in {"dlf", "dlfa"} /\ Fl.pay.k = "sub" /\ ~Fl.pay.ic
HasType == Fl.type.k # "none"
\* a deviation that is taken is printed (KF_USED lines, collected by the check); it is not kept in the state because a
\* growing history variable makes every fingerprint linear in the number of known cases
Used(k) == PrintT(<<"KF_USED", case, k>>)
Same == UNCHANGED <<case, phase, hdr, viol>>

\* ---- the contract
Decide == /\ Ev("decide") /\ phase = "running"
          /\ Cur.result = Match(Fl, Cur.m)
          /\ Same
RoundTrip == /\ Ev("roundtrip") /\ phase = "running"
             /\ Cur.after = Cur.before
             /\ Same
End == /\ Ev("end") /\ phase = "running"
       /\ phase' = "ended" /\ UNCHANGED <<case, hdr, viol>>

\* ---- known-finding deviations
KF_Decide_DlfIgnoreCase ==
    /\ Ev("decide") /\ phase = "running"
    /\ KF_C11_DlfIgnoreCase /\ DlfIcApplies
    /\ Cur.result # Match(Fl, Cur.m) /\ Cur.result = Match(IcOn(Fl), Cur.m)
    /\ Same /\ Used("KF_C11_DlfIgnoreCase")
KF_RoundTrip_ToJsonDropsType ==
    /\ Ev("roundtrip") /\ phase = "running"
    /\ KF_C11_ToJsonDropsType /\ HasType
    /\ Cur.after # Cur.before
    /\ Cur.before = Match(Fl, Cur.m) /\ Cur.after = Match(NoTypeOf(Fl), Cur.m)
    /\ Same /\ Used("KF_C11_ToJsonDropsType")
\* the DLF-built filter decides case-insensitively before, its JSON form (no ignoreCasePayload) correctly afterwards
KF_RoundTrip_DlfIgnoreCase ==
    /\ Ev("roundtrip") /\ phase = "running"
    /\ KF_C11_DlfIgnoreCase /\ DlfIcApplies
    /\ Cur.after # Cur.before
    /\ Cur.before = Match(IcOn(Fl), Cur.m) /\ Cur.before # Match(Fl, Cur.m)
    /\ \/ Cur.after = Match(Fl, Cur.m) /\ Used("KF_C11_DlfIgnoreCase")
       \/ /\ KF_C11_ToJsonDropsType /\ HasType /\ Cur.after # Match(Fl, Cur.m) /\ Cur.after = Match(NoTypeOf(Fl), Cur.m)
          /\ Used("KF_C11_DlfIgnoreCase") /\ Used("KF_C11_ToJsonDropsType")
    /\ Same

Matches == ENABLED Decide \/ ENABLED RoundTrip \/ ENABLED End \/ ENABLED KF_Decide_DlfIgnoreCase
           \/ ENABLED KF_RoundTrip_ToJsonDropsType \/ ENABLED KF_RoundTrip_DlfIgnoreCase
Reject == /\ l <= Len(Rec) /\ Cur.ev # "reset" /\ phase = "running" /\ ~Matches
          /\ PrintT(<<"CASE_REJECTED", case, l, ToJson(Cur)>>)
          /\ l' = l + 1 /\ phase' = "rejected" /\ viol' = viol \cup {case}
          /\ UNCHANGED <<case, hdr>>
SkipRest == /\ l <= Len(Rec) /\ Cur.ev # "reset" /\ phase \in {"rejected", "ended", "idle"}
            /\ l' = l + 1
            /\ IF phase = "ended" THEN viol' = viol \cup {case} /\ phase' = "rejected"   \* events after `end`
                                  ELSE UNCHANGED <<viol, phase>>
            /\ UNCHANGED <<case, hdr>>

Next == Reset \/ Decide \/ RoundTrip \/ End \/ KF_Decide_DlfIgnoreCase \/ KF_RoundTrip_ToJsonDropsType
        \/ KF_RoundTrip_DlfIgnoreCase \/ Reject \/ SkipRest
Spec == Init /\ [][Next]_vars

AtEnd == l = Len(Rec) + 1
FinalViol == IF phase = "running" THEN viol \cup {case} ELSE viol
Report == AtEnd => PrintT(<<"VERDICT", ToJson([violations |-> FinalViol, known |-> {}])>>)
Accepted == IF TLCGet("stats").diameter - 1 = Len(Rec) THEN TRUE
            ELSE Print(<<"TRACE_NOT_CONSUMED", TLCGet("stats").diameter, Len(Rec)>>, FALSE)
=============================================================================
