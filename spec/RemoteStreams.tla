--------------------------- MODULE RemoteStreams ---------------------------
(* C16, server layer - design model of stream delivery in `adlt remote` (process_file_context, remote.rs:1899-2050;
   stream_change_window, remote.rs:924-963) and specification of search paging and lookups (DESIGN.md section 6 C16).

   A log of N messages (positions 0..N-1; `match` = positions kept by the stream's filters) is opened; a stream or a
   query with window [a,b) is created either on the completely parsed file (late) or at once; messages become available
   to the server loop in arbitrary batches (Arrive); the loop (Pump) indexes what is new and sends
   filtered[sentEnd .. min(len, b)) under the current id; a query ends with a marker when its window is satisfied or a
   loop iteration saw nothing new; ChangeWindow renews the id and restarts the sent range (queries: only while the
   session is paused, as a query would otherwise be gone).
   Invariants: what was delivered under the current id is always a prefix of FL[a, min(b,|FL|)), and equal to it once
   everything arrived and the loop ran (streams), resp. at the end marker of a query created on a parsed file.
   Search pages and lookups are given as specifications (SearchPages, IndexPos, TimePos) and only predicted.
   Emission (EmitScn): one line per initial state and search set, with the predicted deliveries, pages and lookups. *)
EXTENDS Integers, Sequences, FiniteSets, TLC, Json

CONSTANTS N,            \* messages in the log
          Coords,       \* window coordinates
          ChangeWins,   \* windows used by the (at most one) later window change, as <<a, b>>
          SearchSets    \* sets of log positions matched by the search filter

VARIABLES match, kind, late, win, chgs, paused, arrived, filtered, proc, sentEnd, id, out, live, newSince, dirty, fresh,
          win0, chg0
vars == <<match, kind, late, win, chgs, paused, arrived, filtered, proc, sentEnd, id, out, live, newSince, dirty, fresh, win0, chg0>>

Min2(x, y) == IF x < y THEN x ELSE y
RECURSIVE MatchSeqOf(_, _, _)
MatchSeqOf(S, lo, hi) == IF lo >= hi THEN <<>> ELSE (IF lo \in S THEN <<lo>> ELSE <<>>) \o MatchSeqOf(S, lo + 1, hi)
MatchSeq(lo, hi) == MatchSeqOf(match, lo, hi)
FL == MatchSeq(0, N)
Target(w) == SubSeq(FL, w[1] + 1, Min2(w[2], Len(FL)))         \* FL[a, min(b,|FL|)) - empty when a is beyond

Init == /\ match \in SUBSET (0..(N - 1)) /\ kind \in {"stream", "query"} /\ late \in BOOLEAN
        /\ win \in Coords \X Coords /\ chgs \in ({<<>>} \cup {<<w>> : w \in ChangeWins})
        /\ paused = (kind = "query" /\ chgs # <<>>)
        /\ arrived = (IF late THEN N ELSE 0) /\ filtered = <<>> /\ proc = 0 /\ sentEnd = win[1] /\ id = 1 /\ out = <<>>
        /\ live = TRUE /\ newSince = FALSE /\ dirty = TRUE /\ fresh = TRUE /\ win0 = win /\ chg0 = chgs

Arrive(k) == /\ ~paused /\ arrived + k <= N
             /\ arrived' = arrived + k /\ newSince' = TRUE /\ dirty' = TRUE /\ fresh' = FALSE
             /\ UNCHANGED <<match, kind, late, win, chgs, paused, filtered, proc, sentEnd, id, out, live, win0, chg0>>

\* the incremental index as the loop calls it (chunk limit 3 000 000 >> N)
IndexStep == IF kind = "stream" THEN [f |-> filtered \o MatchSeq(Min2(proc, arrived), arrived), p |-> arrived]
             ELSE LET m == MatchSeq(Min2(proc, arrived), arrived)  wanted == win[2] - Len(filtered) IN
                  IF wanted <= 0 \/ proc >= arrived THEN [f |-> filtered, p |-> proc]
                  ELSE IF Len(m) <= wanted THEN [f |-> filtered \o m, p |-> arrived]
                  ELSE [f |-> filtered \o SubSeq(m, 1, wanted), p |-> m[wanted + 1]]

Pump == /\ ~paused /\ live
        /\ LET r == IndexStep
               slen == Len(r.f)
               sends == sentEnd < win[2] /\ sentEnd < slen
               newEnd == IF sends THEN Min2(slen, win[2]) ELSE sentEnd
               done == kind = "query" /\ ((~newSince /\ r.p >= arrived) \/ newEnd >= win[2])
           IN /\ filtered' = r.f /\ proc' = r.p /\ sentEnd' = newEnd
              /\ out' = out \o (IF sends THEN <<[id |-> id, pos |-> SubSeq(r.f, sentEnd + 1, newEnd)]>> ELSE <<>>)
                            \o (IF done THEN <<[id |-> id, pos |-> <<>>]>> ELSE <<>>)
              /\ live' = ~done
        /\ newSince' = FALSE /\ dirty' = FALSE /\ fresh' = FALSE
        /\ UNCHANGED <<match, kind, late, win, chgs, paused, arrived, id, win0, chg0>>

ChangeWindow == /\ live /\ chgs # <<>> /\ (kind = "query" => paused)
                /\ id' = id + 1 /\ win' = Head(chgs) /\ chgs' = Tail(chgs) /\ sentEnd' = Head(chgs)[1]
                /\ dirty' = TRUE /\ fresh' = FALSE
                /\ UNCHANGED <<match, kind, late, paused, arrived, filtered, proc, out, live, newSince, win0, chg0>>

Resume == /\ paused /\ chgs = <<>> /\ paused' = FALSE /\ dirty' = TRUE /\ fresh' = FALSE
          /\ UNCHANGED <<match, kind, late, win, chgs, arrived, filtered, proc, sentEnd, id, out, live, newSince, win0, chg0>>

Next == (\E k \in 1..N : Arrive(k)) \/ Pump \/ ChangeWindow \/ Resume
Spec == Init /\ [][Next]_vars

-----------------------------------------------------------------------------
RECURSIVE Concat(_)
Concat(s) == IF s = <<>> THEN <<>> ELSE Head(s) \o Concat(Tail(s))
DeliveredUnder(i) == Concat([k \in 1..Len(SelectSeq(out, LAMBDA o : o.id = i)) |-> SelectSeq(out, LAMBDA o : o.id = i)[k].pos])
IsPrefix(x, y) == Len(x) <= Len(y) /\ \A i \in 1..Len(x) : x[i] = y[i]

\* only data frames of the current id after its announcement; older ids never receive data again (checked through ids in out)
DeliveredPrefix == IsPrefix(DeliveredUnder(id), Target(win))
OldIdsSilent == \A k \in 1..Len(out) : \A j \in 1..Len(out) : (k < j => out[k].id <= out[j].id)
Quiet == arrived = N /\ ~paused /\ ~dirty /\ (kind = "stream" => chgs = <<>>)
StreamExact == (kind = "stream" /\ Quiet) => DeliveredUnder(id) = Target(win)
QueryExact == (kind = "query" /\ late /\ ~live) => DeliveredUnder(id) = Target(win)
MarkerOnce == Cardinality({k \in 1..Len(out) : out[k].pos = <<>>}) <= 1

-----------------------------------------------------------------------------
\* ---- specifications of search paging and lookups on the stream sequence S (0-based stream positions)
RECURSIVE SearchPages(_, _, _, _)
SearchPages(S, sm, start, max) ==
  LET ms == SelectSeq([k \in 1..(IF Len(S) > start THEN Len(S) - start ELSE 0) |-> start + k - 1], LAMBDA p : S[p + 1] \in sm)
      page == SubSeq(ms, 1, Min2(max, Len(ms)))
      next == IF Len(page) = max /\ page[max] + 1 < Len(S) THEN page[max] + 1 ELSE -1
  IN <<<<page, next>>>> \o (IF next >= 0 THEN SearchPages(S, sm, next, max) ELSE <<>>)
IndexPos(S, v) == IF v >= N THEN -1 ELSE Cardinality({p \in 1..Len(S) : S[p] < v})
TimeOf(i) == 1000 + 10 * i
TimePos(S, t) == Cardinality({p \in 1..Len(S) : TimeOf(S[p]) < t})

Bits(S) == [i \in 1..N |-> IF (i - 1) \in S THEN 1 ELSE 0]
\* incl. saturating cases: a page size beyond any stream length is an unbounded page, a start position / index / time beyond
\* the end finds nothing more (empty page, no such message, stream length)
Huge == 100000000
Searches == <<<<0, 1>>, <<0, 2>>, <<1, 1>>, <<1, 3>>, <<0, Huge>>, <<Huge, 2>>, <<N, 1>>>>
Lookups == [k \in 1..(N + 1) |-> <<"index", k - 1>>] \o [k \in 1..(N + 1) |-> <<"time", TimeOf(k - 1) - 5>>]
           \o <<<<"time", TimeOf(1)>>, <<"index", 20 * Huge>>, <<"time", 20 * Huge>>, <<"time", 0>>>>

-----------------------------------------------------------------------------
(* ---- filter sets (src/filter, match_filters in src/utils/remote_utils.rs).  A filter has a kind (pos / neg / event /
   marker), may be disabled, and literal criteria (conjunction of the ones set).  A message is kept iff
     (no enabled positive filter, or one of them matches) and no enabled negative filter matches
     and (no enabled event filter, or one of them matches);  marker and disabled filters never change the set.
   A stream is *filtered* iff it has an enabled pos, neg or event filter (else its positions are the log's).
   The abstract `match` set of the model is realised by every shape of filter set below: per position the message gets
   attribute bits p / n / e (ecu ECUP|ECUX, apid AP{N|X}{E|X}) such that the set kept by the shape's filters is `match`;
   for a position outside `match` the criterion that fails rotates over the criteria the shape uses.            *)
Flt(k, on, e, a, c) == [k |-> k, on |-> on, e |-> e, a |-> a, c |-> c]
FMatches(f, m) == (f.e = "" \/ f.e = m.e) /\ (f.a = "" \/ f.a = m.a) /\ (f.c = "" \/ f.c = m.c)
ActiveOf(filt, k) == {j \in 1..Len(filt) : filt[j].on /\ filt[j].k = k}
KeepMsg(filt, m) == /\ (ActiveOf(filt, "pos") = {} \/ \E j \in ActiveOf(filt, "pos") : FMatches(filt[j], m))
                    /\ ~(\E j \in ActiveOf(filt, "neg") : FMatches(filt[j], m))
                    /\ (ActiveOf(filt, "event") = {} \/ \E j \in ActiveOf(filt, "event") : FMatches(filt[j], m))
FiltersActive(filt) == (ActiveOf(filt, "pos") \cup ActiveOf(filt, "neg") \cup ActiveOf(filt, "event")) # {}

FilteredShapes == {"pos", "neg", "event", "pos_neg", "pos_event", "neg_event", "pos_neg_event", "disabled"}
UnfilteredShapes == {"empty", "marker_only", "disabled_only"}
UsesPos(sh) == sh \in {"pos", "pos_neg", "pos_event", "pos_neg_event", "disabled"}
UsesNeg(sh) == sh \in {"neg", "pos_neg", "neg_event", "pos_neg_event"}
UsesEvent(sh) == sh \in {"event", "pos_event", "neg_event", "pos_neg_event"}
Used(sh) == (IF UsesPos(sh) THEN <<"p">> ELSE <<>>) \o (IF UsesNeg(sh) THEN <<"n">> ELSE <<>>) \o (IF UsesEvent(sh) THEN <<"e">> ELSE <<>>)
\* attribute bits of position i (0-based) under shape sh
Fails(sh, i) == IF i \in match \/ Used(sh) = <<>> THEN "" ELSE Used(sh)[(i % Len(Used(sh))) + 1]
PBit(sh, i) == IF UsesPos(sh) THEN Fails(sh, i) # "p" ELSE i % 2 = 0
NBit(sh, i) == IF UsesNeg(sh) THEN Fails(sh, i) = "n" ELSE i % 2 = 1
EBit(sh, i) == IF UsesEvent(sh) THEN Fails(sh, i) # "e" ELSE i % 3 = 0
MsgOf(sh, sm, i) == [e |-> IF PBit(sh, i) THEN "ECUP" ELSE "ECUX",
                     a |-> IF NBit(sh, i) THEN (IF EBit(sh, i) THEN "APNE" ELSE "APNX") ELSE (IF EBit(sh, i) THEN "APXE" ELSE "APXX"),
                     c |-> IF i \in sm THEN "SRCH" ELSE "CTIX"]
PosF == <<Flt("pos", TRUE, "ECUP", "", "")>>
NegF == <<Flt("neg", TRUE, "", "APNE", ""), Flt("neg", TRUE, "", "APNX", "")>>
EventF == <<Flt("event", TRUE, "", "APXE", ""), Flt("event", TRUE, "", "APNE", "")>>
\* filters that would change the kept set if they were not disabled / were no marker
Inert == <<Flt("neg", FALSE, "ECUP", "", ""), Flt("event", FALSE, "", "APZZ", ""), Flt("pos", FALSE, "ECUZ", "", ""), Flt("marker", TRUE, "ECUX", "", "")>>
FiltOf(sh) == CASE sh = "empty" -> <<>>
                [] sh = "marker_only" -> <<Flt("marker", TRUE, "ECUP", "", "")>>
                [] sh = "disabled_only" -> SubSeq(Inert, 1, 3)
                [] sh = "disabled" -> <<Inert[1]>> \o PosF \o SubSeq(Inert, 2, 4)
                [] OTHER -> (IF UsesNeg(sh) THEN NegF ELSE <<>>) \o (IF UsesPos(sh) THEN PosF ELSE <<>>) \o (IF UsesEvent(sh) THEN EventF ELSE <<>>)
\* the search filter is an event filter for the shapes with event filters, a positive one otherwise
SearchFiltOf(sh) == <<Flt(IF UsesEvent(sh) THEN "event" ELSE "pos", TRUE, "", "", "SRCH")>>
KeptBy(sh, sm) == {i \in 0..(N - 1) : KeepMsg(FiltOf(sh), MsgOf(sh, sm, i))}
\* the shape realises the abstract match set under the filter-set semantics (else the model is wrong: TLC stops)
ShapeOk(sh, sm) == IF sh \in UnfilteredShapes THEN ~FiltersActive(FiltOf(sh)) /\ match = 0..(N - 1)
                   ELSE FiltersActive(FiltOf(sh)) /\ KeptBy(sh, sm) = match

Emittable == kind = "stream" \/ late
PredD == IF kind = "stream" THEN <<Target(win0)>> \o [k \in 1..Len(chg0) |-> Target(chg0[k])]
         ELSE IF chg0 = <<>> THEN <<Target(win0)>> ELSE <<<<>>, Target(chg0[1])>>
Scn(sm, sh) ==
  LET unf == sh \in UnfilteredShapes
      S == IF unf THEN [i \in 1..N |-> i - 1] ELSE FL IN
  [msgs |-> [i \in 1..N |-> MsgOf(sh, sm, i - 1)], filt |-> FiltOf(sh), sfilt |-> SearchFiltOf(sh), shape |-> sh,
   m |-> Bits(match), sm |-> Bits(sm), unfiltered |-> unf, kind |-> kind, late |-> late, win |-> win0, chg |-> chg0,
   search |-> IF kind = "stream" THEN Searches ELSE <<>>,
   lookups |-> IF kind = "stream" THEN Lookups ELSE <<>>,
   pred |-> [d |-> PredD,
             pages |-> IF kind = "stream" THEN Concat([k \in 1..Len(Searches) |-> SearchPages(S, sm, Searches[k][1], Searches[k][2])]) ELSE <<>>,
             lk |-> IF kind = "stream" THEN [k \in 1..Len(Lookups) |->
                        IF Lookups[k][1] = "index" THEN IndexPos(S, Lookups[k][2]) ELSE TimePos(S, Lookups[k][2])] ELSE <<>>]]
EmitOne(sm, sh) == Assert(ShapeOk(sh, sm), <<"filter shape does not realise the match set", sh, match>>) /\ PrintT(<<"SCN", ToJson(Scn(sm, sh))>>)
EmitScn == (fresh /\ Emittable) =>
             \A sm \in SearchSets :
               /\ \A sh \in FilteredShapes : EmitOne(sm, sh)
               /\ (match = 0..(N - 1) => \A sh \in UnfilteredShapes : EmitOne(sm, sh))
=============================================================================
