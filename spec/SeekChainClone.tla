--------------------------- MODULE SeekChainClone ---------------------------
(* C20 - the cloneable reader that unzip.rs wraps around every archive source
   (src/utils/cloneable_seekable_reader.rs: CloneableSeekableReader / Inner::read_at), as coded.

   One underlying stream of `total` bytes (a plain cursor here; the driver also puts a multi-volume SeekableChain
   below it) with its real position `up`; the shared Inner remembers `ipos` = where it BELIEVES the underlying stream
   is; NC clones with their own positions pos[c].  A read of clone c seeks the underlying stream to pos[c] iff
   pos[c] # ipos, reads, and advances ipos and pos[c] by the bytes read.
       Fixed = FALSE   the snapshot as found: after the seek ipos is NOT set to the seek target, so ipos drifts from `up`
                       and a later read whose position happens to equal the stale ipos is served from the wrong place
       Fixed = TRUE    the repair: ipos := pos[c] after the seek
   Contract (per clone, = a reference cursor over the same bytes at the clone's own position): the bytes returned start at
   pos[c]; a zero-length read only for n = 0 or at the end; seeks (inside [0, total]) return the target.
   `ok` records whether the contract held for the last operation.  TLC: invariant Ok for Fixed = TRUE; the snapshot config
   (Fixed = FALSE) must violate it.  With Emit = TRUE one scenario line per transition (VIEW hides the history); the
   emission config is the generator Gen = TRUE (see below).                                                              *)
EXTENDS Integers, Sequences, FiniteSets, TLC, Json

CONSTANTS MaxLen, NC, Emit, Fixed,
          Gen      \* TRUE: scenario generator - the machine as found (Fixed = FALSE) is explored only as long as the contract holds
                   \*       (there it equals the reference), every transition is printed with the result the REFERENCE cursor gives;
                   \*       so all states in which the Inner's belief differs from the real position - and every operation from
                   \*       them, in particular the ones that go wrong in the snapshot - are part of the replayed paths

VARIABLES total, up, ipos, pos, ok, hist
vars == <<total, up, ipos, pos, ok, hist>>
View == <<total, up, ipos, pos, ok>>
C == 1..NC
Min2(a, b) == IF a < b THEN a ELSE b

Init == /\ total \in 1..MaxLen /\ up = 0 /\ ipos = 0 /\ pos = [c \in C |-> 0] /\ ok = TRUE /\ hist = <<>>

\* (ok' is assigned before Log is evaluated in every action)
Log(c, op, a, r) == /\ hist' = Append(hist, [c |-> c, op |-> op, a |-> a, r |-> r, ok |-> ok'])
                    /\ (Emit => PrintT(<<"SCN", ToJson([total |-> total, nc |-> NC, ops |-> hist'])>>))

Read(c, n) ==
  LET seekNeeded == pos[c] # ipos
      u0 == IF seekNeeded THEN pos[c] ELSE up                  \* where the underlying stream reads from
      got == IF u0 >= total THEN 0 ELSE Min2(n, total - u0)
  IN /\ up' = u0 + got
     /\ ipos' = (IF Fixed /\ seekNeeded THEN pos[c] ELSE ipos) + got
     /\ pos' = [pos EXCEPT ![c] = @ + got]
     /\ ok' = ((got > 0 => u0 = pos[c]) /\ (got = 0 => (n = 0 \/ pos[c] >= total)))
     /\ UNCHANGED total
     /\ Log(c, "read", n, IF Gen THEN (IF pos[c] >= total THEN 0 ELSE Min2(n, total - pos[c])) ELSE got)

SeekTo(c, op, a, p) == /\ pos' = [pos EXCEPT ![c] = p] /\ ok' = TRUE /\ UNCHANGED <<total, up, ipos>> /\ Log(c, op, a, p)
\* a clone is dropped and made anew from another one: it starts at that one's position
Clone(c, c2) == /\ c # c2 /\ pos' = [pos EXCEPT ![c2] = pos[c]] /\ ok' = TRUE /\ UNCHANGED <<total, up, ipos>> /\ Log(c2, "clone", c, pos[c])

Next == (Gen => ok) /\ \E c \in C :
          \/ \E n \in 0..(MaxLen + 1) : Read(c, n)
          \/ \E p \in 0..total : SeekTo(c, "start", p, p)
          \/ \E dd \in -2..2 : pos[c] + dd >= 0 /\ pos[c] + dd <= total /\ SeekTo(c, "cur", dd, pos[c] + dd)
          \/ \E dd \in 0..2 : total - dd >= 0 /\ SeekTo(c, "end", 0 - dd, total - dd)
          \/ \E c2 \in C : Clone(c, c2)
Spec == Init /\ [][Next]_vars

\* the as-found machine is not finite (its belief ipos only grows): the generator is bounded by path length and belief
CONSTANT MaxOps
Bounded == Len(hist) < MaxOps /\ ipos <= 2 * MaxLen
Ok == ok
\* with the repair the Inner's belief is always right
Believes == Fixed => ipos = up
=============================================================================
