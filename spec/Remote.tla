------------------------------- MODULE Remote -------------------------------
(* C15 - session model of one websocket connection to `adlt remote` (DESIGN.md section 6 C15, Appendix M extended
   by the reply table RemoteTable.tla).

   The client sends abstract commands (Send), at most Depth of them unanswered (pipelining); the server answers the
   oldest one (Reply) with a polarity allowed by the table in the current session state and updates the state.
   Stream handles: the h-th successful stream/query of the connection.  A *query* ends by itself at a moment the
   client cannot control, so after its creation its handle is "maybe" live; where the table leaves the outcome open
   the model branches over both outcomes and records the prediction "any".

   Checked by TLC: type/consistency invariants, "after close a new open succeeds", and under fairness of the
   server that every command sent is answered (close also while parsing = "running").
   Scenario emission (invariant Emit): one line per complete history with the predicted polarity of every step.  *)
EXTENDS RemoteTable, Json

CONSTANTS MaxSteps,     \* commands per history
          MaxStreams,   \* handles
          Depth,        \* max. unanswered commands
          Level,        \* "core" | "quick" | "full": which parameter shapes are in the alphabet;
                        \* "multi": sessions with several live streams (open, stream, stream, then window changes /
                        \*          stops / searches / lookups on every handle) - ids are renewed on older streams;
                        \* "numeric": open, stream, then two commands whose numeric parameters / ids take the extreme classes;
                        \* "failuse": open, stream, then commands on the stream of which some FAIL (every err: shape) - the following
                        \*          ones must behave as if the failed command had not happened;
                        \* "plugin": a log with file transfers opened with the FileTransfer plugin, then FileTransfer `save`
                        \*          commands (succeeding and failing ones) mixed with other commands;
                        \* "onepass": every collect mode (all / none / one_pass_streams) x pause / resume x streams and
                        \*          queries with and without the one_pass flag - streams created after messages were released
          RecordHist    \* TRUE only in the emission configs (the history multiplies the state space)

VARIABLES file, plug, res, hs, pend, nsent, parsing, hist
vars == <<file, plug, res, hs, pend, nsent, parsing, hist>>
\* hs: sequence of handle records [kind |-> "stream"|"query", op |-> BOOLEAN, st |-> "live"|"maybe"|"dead"]

Pick(core, quick, full) == IF Level = "core" THEN core ELSE IF Level = "quick" THEN core \cup quick ELSE core \cup quick \cup full

AOpen    == Pick({"ok", "ok_onepass", "badjson"}, {"ok_nocollect", "missingfile", "ok_plugins", "zip_glob_none", "ok_plugins_dup"},
                 ((OpenOkArgs \ HugeOpenArgs) \cup OpenArchiveEmptyArgs \cup OpenBadArgs))
APlain   == Pick({""}, {}, {"junk"})
AStream  == Pick({"ok_filt", "ok_onepass", "badjson"}, {"ok", "badwindow"}, ((StreamOkArgs \ PadStreamArgs) \cup StreamBadArgs))
AQuery   == Pick({"ok_filt"}, {"badjson", "ok_onepass"}, ((StreamOkArgs \ PadStreamArgs) \cup StreamBadArgs))
AChange  == Pick({"ok", "noarg"}, {"nocomma", "ok_garbage"}, (ChangeOkArgs \cup ChangeBadArgs))
ABsearch == Pick({"time", "noarg"}, {"index_found", "index_missing", "badkey"}, BsearchArgs)
ASearch  == Pick({"ok", "noarg"}, {"badjson", "startwrongtype"}, (SearchOkArgs \cup SearchBadArgs))
APlugin  == Pick({"noplugin"}, {"badjson", "ft_cmd", "rw_cmd"}, PluginArgs)
AFs      == Pick({"stat_ok", "fakezip_readdir"}, {"badjson", "unknowncmd", "arch_nonexist", "zip_readdir"},
                 (FsOkArgs \cup FsFakeArgs \cup FsBadArgs))
AUnknown == Pick({"frobnicate"}, {"empty"}, (UnknownArgs \ ({"sentinel"} \cup BigUnknownArgs)))
TargetsBase == Pick({"none", "dead"}, {"nonnum"}, {"old"})

Handles == 1..Len(hs)
HName(h) == IF h = 1 THEN "h1" ELSE IF h = 2 THEN "h2" ELSE "h3"
Targets == TargetsBase \cup {HName(h) : h \in Handles}
HOf(t) == IF t = "h1" THEN 1 ELSE IF t = "h2" THEN 2 ELSE IF t = "h3" THEN 3 ELSE 0

Cmd(v, a, t) == [verb |-> v, arg |-> a, tgt |-> t]
HandleTargets == {HName(h) : h \in Handles}
\* stream-addressing verbs: every parameter shape on every handle; the non-handle targets (always err) with one
\* shape per verb - fully crossed only at Level "full"
TargetCmds(v, args, a0) ==
       {Cmd(v, a, t) : a \in args, t \in HandleTargets}
  \cup {Cmd(v, a, t) : a \in (IF Level = "full" THEN args ELSE {a0}), t \in TargetsBase}
MultiAlphabet ==
       {Cmd("open", "ok", ""), Cmd("stream", "ok_filt", "")}
  \cup {Cmd("stop", "", t) : t \in HandleTargets} \cup {Cmd("stream_change_window", "ok", t) : t \in HandleTargets}
  \cup {Cmd("stream_search", "ok", t) : t \in HandleTargets} \cup {Cmd("stream_binary_search", "time", t) : t \in HandleTargets}
\* shape of a "multi" history: open, two streams, then no further open
MultiShape(c) == /\ (nsent = 0 => c.verb = "open") /\ (nsent \in {1, 2} => c.verb = "stream") /\ (nsent > 2 => c.verb # "open")
NumTargets == {"n:" \o a : a \in NumClasses}
WinPairs == {<<a, "len">> : a \in NumClasses} \cup {<<"0", a>> : a \in NumClasses} \cup {<<a, a>> : a \in NumClasses}
            \cup {<<"lenp1", "3">>, <<"u64max", "0">>}
NWin(p) == "nwin:" \o p[1] \o ":" \o p[2]
NumericAlphabet ==
       {Cmd("open", "ok", ""), Cmd("stream", "ok_filt", "")}
  \cup {Cmd(v, NWin(p), "") : v \in {"stream", "query"}, p \in WinPairs}
  \cup {Cmd("stream_change_window", NWin(p), t) : p \in WinPairs, t \in HandleTargets}
  \cup {Cmd("stream_search", a, t) : a \in (NStartArgs \cup NMaxArgs), t \in HandleTargets}
  \cup {Cmd("stream_binary_search", a, t) : a \in (NTimeArgs \cup NIndexArgs), t \in HandleTargets}
  \cup {Cmd(v, a, t) : <<v, a>> \in {<<"stop", "">>, <<"stream_change_window", "ok">>, <<"stream_search", "ok">>}, t \in NumTargets}
NumericShape(c) == /\ ((nsent = 0) = (c.verb = "open")) /\ (nsent = 1 => c = Cmd("stream", "ok_filt", ""))
FailShapes == {<<"stream_change_window", a>> : a \in ChangeBadArgs}
              \cup {<<"stream_binary_search", a>> : a \in {"index_missing", "badkey", "nokey", "noarg"}}
              \cup {<<"stream_search", a>> : a \in SearchBadArgs}
UseShapes == {<<"stop", "">>, <<"stream_change_window", "ok">>, <<"stream_search", "ok">>, <<"stream_binary_search", "time">>}
FailUseAlphabet ==
       {Cmd("open", "ok", ""), Cmd("stream", "ok_filt", "")}
  \cup {Cmd(p[1], p[2], t) : p \in (FailShapes \cup UseShapes), t \in HandleTargets}
FailUseShape(c) == /\ ((nsent = 0) = (c.verb = "open")) /\ (nsent = 1 => c.verb = "stream")
PluginAlphabet ==
       {Cmd("open", a, "") : a \in {"ok_ft", "ok_ft_nosave", "ok_ft_auto", "ok_plugins_dup"}}
  \cup {Cmd("plugin_cmd", a, "") : a \in (PluginCmdOkArgs \cup {"rw_cmd", "noplugin"})}
  \cup {Cmd("pause", "", ""), Cmd("close", "", ""), Cmd("stream", "ok", ""), Cmd("fs", "stat_ok", "")}
PluginShape(c) == (nsent = 0) = (c.verb = "open")
OnePassAlphabet ==
       {Cmd("open", a, "") : a \in {"ok", "ok_nocollect", "ok_onepass"}}
  \cup {Cmd(v, "", "") : v \in {"pause", "resume"}}
  \cup {Cmd(v, a, "") : v \in {"stream", "query"}, a \in {"ok_onepass", "ok_filt"}}
  \cup {Cmd("stop", "", t) : t \in HandleTargets}
OnePassShape(c) == (nsent = 0) = (c.verb = "open")
FullAlphabet ==
       {Cmd("open", a, "") : a \in AOpen}
  \cup {Cmd(v, a, "") : v \in {"close", "pause", "resume"}, a \in APlain}
  \cup {Cmd("stream", a, "") : a \in AStream} \cup {Cmd("query", a, "") : a \in AQuery}
  \cup TargetCmds("stop", APlain, "")
  \cup TargetCmds("stream_change_window", AChange, "ok")
  \cup TargetCmds("stream_binary_search", ABsearch, "time")
  \cup TargetCmds("stream_search", ASearch, "ok")
  \cup {Cmd("plugin_cmd", a, "") : a \in APlugin}
  \cup {Cmd("fs", a, "") : a \in AFs}
  \cup {Cmd("unknown", a, "") : a \in AUnknown}
Alphabet == IF Level = "multi" THEN {c \in MultiAlphabet : MultiShape(c)}
            ELSE IF Level = "onepass" THEN {c \in OnePassAlphabet : OnePassShape(c)}
            ELSE IF Level = "failuse" THEN {c \in FailUseAlphabet : FailUseShape(c)}
            ELSE IF Level = "plugin" THEN {c \in PluginAlphabet : PluginShape(c)}
            ELSE IF Level = "numeric" THEN {c \in NumericAlphabet : NumericShape(c)} ELSE FullAlphabet

Init == /\ file = "none" /\ plug = FALSE /\ res = FALSE /\ hs = <<>> /\ pend = <<>> /\ nsent = 0 /\ parsing = "none" /\ hist = <<>>

Creations(q) == Len(SelectSeq(q, LAMBDA c : c.verb \in {"stream", "query"}))
Send(c) == /\ nsent < MaxSteps /\ Len(pend) < Depth
           /\ (c.verb \in {"stream", "query"} => Len(hs) + Creations(pend) < MaxStreams)    \* bound of the model only
           /\ pend' = Append(pend, c) /\ nsent' = nsent + 1
           /\ UNCHANGED <<file, plug, res, hs, parsing, hist>>

NumClassOf(t) == CHOOSE a \in NumClasses : t = "n:" \o a
Tk(c) == IF c.verb \notin TargetVerbs THEN "none"
         ELSE IF c.tgt \in {"none", "nonnum"} THEN c.tgt
         ELSE IF c.tgt \in NumTargets THEN (IF NumClassOf(c.tgt) \in NumU32 THEN "id" ELSE "nonnum") ELSE "id"
\* polarities allowed for c: the table evaluated for every liveness the addressed handle may have
LiveOptions(c) == LET h == HOf(c.tgt) IN
                  IF c.tgt \in NumTargets /\ NumClassOf(c.tgt) \in (NumU32 \ {"u32max"}) THEN {TRUE, FALSE}   \* a small number may be a live id
                  ELSE IF h = 0 \/ h > Len(hs) THEN {FALSE}
                  ELSE IF hs[h].st = "live" THEN {TRUE} ELSE IF hs[h].st = "dead" THEN {FALSE} ELSE {TRUE, FALSE}
TOp(c) == LET h == HOf(c.tgt) IN IF h = 0 \/ h > Len(hs) THEN FALSE ELSE hs[h].op
Allowed(c) == UNION {Pol(c.verb, c.arg, Tk(c), file, plug, res, lv, TOp(c)) : lv \in LiveOptions(c)}
Pred(c) == LET s == Allowed(c) IN IF s = Both THEN "any" ELSE CHOOSE p \in s : TRUE

Letter(c) == c.verb \o "|" \o c.arg \o "|" \o c.tgt \o "|" \o Pred(c)

\* the server answers the oldest pending command with polarity p
Reply(p) ==
  /\ pend # <<>>
  /\ LET c == Head(pend) h == HOf(c.tgt) IN
     /\ p \in Allowed(c)
     /\ pend' = Tail(pend)
     /\ hist' = (IF RecordHist THEN Append(hist, Letter(c)) ELSE hist)
     /\ IF c.verb = "open" /\ p = "ok" THEN
             /\ file' = FileModeOf(c.arg) /\ plug' = HasPlugin(c.arg) /\ res' = FALSE /\ parsing' = "running" /\ UNCHANGED hs
        ELSE IF c.verb = "close" /\ p = "ok" THEN     \* CloseDrains: stop flag, drain, join - in any parsing state
             /\ file' = "none" /\ plug' = FALSE /\ res' = FALSE /\ parsing' = "none"
             /\ hs' = [i \in 1..Len(hs) |-> [hs[i] EXCEPT !.st = "dead"]]
        ELSE IF c.verb = "resume" /\ p = "ok" THEN res' = TRUE /\ UNCHANGED <<file, plug, hs, parsing>>
        ELSE IF c.verb \in {"stream", "query"} /\ p = "ok" THEN
             /\ hs' = Append(hs, [kind |-> c.verb, op |-> (c.arg = "ok_onepass"),
                                  st |-> (IF c.verb = "query" THEN "maybe" ELSE "live")])
             /\ UNCHANGED <<file, plug, res, parsing>>
        ELSE IF c.verb = "stop" /\ h # 0 /\ h <= Len(hs) THEN
             /\ hs' = [hs EXCEPT ![h].st = "dead"] /\ UNCHANGED <<file, plug, res, parsing>>
        ELSE IF c.verb \in TargetVerbs /\ h # 0 /\ h <= Len(hs) /\ hs[h].st = "maybe" /\ p = "err"
                /\ Pol(c.verb, c.arg, "id", file, plug, res, TRUE, hs[h].op) = {"ok"} THEN
             /\ hs' = [hs EXCEPT ![h].st = "dead"] /\ UNCHANGED <<file, plug, res, parsing>>   \* the query had ended
        ELSE UNCHANGED <<file, plug, res, hs, parsing>>
  /\ UNCHANGED nsent

ParseDone == /\ ~RecordHist /\ parsing = "running" /\ parsing' = "finished" /\ UNCHANGED <<file, plug, res, hs, pend, nsent, hist>>

Next == (\E c \in Alphabet : Send(c)) \/ (\E p \in {"ok", "err", "unknown"} : Reply(p)) \/ ParseDone
Server == \E p \in {"ok", "err", "unknown"} : Reply(p)
Spec == Init /\ [][Next]_vars /\ WF_vars(Server)

-----------------------------------------------------------------------------
TypeOK == /\ file \in {"none", "all", "nocollect", "onepass"} /\ plug \in BOOLEAN /\ res \in BOOLEAN
          /\ Len(hs) <= MaxStreams /\ Len(pend) <= Depth /\ nsent <= MaxSteps
          /\ parsing \in {"none", "running", "finished"}
Consistent == /\ (file = "none") = (parsing = "none")
              /\ (file = "none" => \A h \in Handles : hs[h].st = "dead")
              /\ (file = "nocollect" => \A h \in Handles : hs[h].st = "dead")
              /\ (file = "none" => ~plug /\ ~res)
\* every command has an allowed reply in every state, and never more than the statement allows
TableTotal == \A c \in Alphabet : Allowed(c) # {} /\ Allowed(c) \subseteq {"ok", "err", "unknown"}
\* a close always succeeds while a file is open, and afterwards a new open succeeds
CloseThenOpen == /\ (file # "none" => Pol("close", "", "none", file, plug, res, FALSE, FALSE) = {"ok"})
                 /\ (file = "none" => Pol("open", "ok", "none", file, plug, res, FALSE, FALSE) = {"ok"})
\* an err: (or unknown) reply leaves the session state as it was: file, plugin, and every handle keeps its liveness - only what the
\* client KNOWS about a query that may have ended can change ("maybe" -> "dead")
ErrKeepsState == [][(Reply("err") \/ Reply("unknown")) =>
                      /\ UNCHANGED <<file, plug, res>> /\ Len(hs') = Len(hs)
                      /\ \A h \in 1..Len(hs) : hs'[h] = hs[h] \/ (hs[h].st = "maybe" /\ hs'[h] = [hs[h] EXCEPT !.st = "dead"])]_vars
\* liveness: everything sent is answered
AllAnswered == <>[](pend = <<>>)
CloseAnswered == [](pend # <<>> /\ Head(pend).verb = "close" => <>(file = "none"))

\* scenario emission: one line per complete history
Emit == (nsent = MaxSteps /\ pend = <<>>) => PrintT(<<"SCN", ToJson(hist)>>)
=============================================================================
