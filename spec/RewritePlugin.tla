---------------------------- MODULE RewritePlugin ----------------------------
(* X06 - design model of adlt's Rewrite plugin and plugin factory, checked against the contract of RewritePluginDefs.tla.

   Extra area (no listed property): RewritePlugin::from_json / process_msg (src/plugins/rewrite.rs), get_plugin
   (src/plugins/factory.rs), the Plugin trait and PluginState (src/plugins/plugin.rs) and plugins_process_msgs
   (src/plugins/mod.rs) as remote.rs 450-467 / 2199 (factory path) and convert.rs 533-563 / 613 (direct path) drive them.

   A SCENARIO (chosen in Init from a bounded universe, spec/mc/MCRewritePlugin.tla) is a path (factory / direct), a list of
   plugin configurations and a message stream. The model is implementation shaped ("as coded"):
     Create   one configuration after the other is turned into a plugin or refused (get_plugin / from_json)
     Rule     process_msg: the rules of the created, enabled Rewrite plugins one after the other on the CURRENT message:
              filter, payload regex (token-level matcher of the Defs module = the regex engine, an environment both the
              design and the contract rely on), named groups `text` / `timeStamp`, f64 parse * 10000, round (ties away
              from zero), saturating cast; a `text` group that did not take part erases the payload text unless
              FixTextUnset (the repaired tree)
     Forward  the message leaves the chain (every plugin returned true)
   The PROPERTY on the model: every finished behaviour is one the contract allows (Creates / Chain of the Defs module,
   with the known-finding deviation exactly when the tree is not repaired). EmitScn prints one scenario per finished
   behaviour with the predicted observables (prediction fast path of the check).                                         *)
EXTENDS RewritePluginDefs, TLC, Json

CONSTANTS Subs,             \* the sub-universes of this run (set of strings)
          Paths(_),         \* sub-universe -> set of paths ("factory", "direct")
          CfgLists(_),      \* sub-universe -> set of sequences of configurations
          Streams(_),       \* sub-universe -> set of sequences of messages
          FixTextUnset      \* TRUE: the tree with proposed_fixes/X06-text-group-unset.diff

VARIABLES sub, path, cfgs, msgs,      \* the scenario
          phase,                      \* "create" / "run" / "done"
          ci, created,                \* next configuration, outcome per configuration
          k, ri,                      \* current message, next rule of the chain
          cur,                        \* the current message's mutable part [pthas, pt, ts]
          outs                        \* what left the chain, in order: [idx, pthas, pt, ts]
vars == <<sub, path, cfgs, msgs, phase, ci, created, k, ri, cur, outs>>

-----------------------------------------------------------------------------
\* as coded
D_Creates(p, c) ==
  IF p = "factory"
  THEN c.nk = "str" /\ c.name \in KnownNames /\ c.en \in {"absent", "true"} /\ BodyOK(c)
       \* (enabled: null passes the factory's own test, then every plugin's from_json refuses it)
  ELSE c.nk = "str" /\ c.en \in {"absent", "true", "false"} /\ RewriteBodyOK(c)

\* Rust: s.parse::<f64>().ok().map(|v| (v * 10000.0).round() as u32)
D_Exotic(t, c) == CASE t = <<49, 101, 51>> -> Ts(1000, 0)          \* 1e3
                    [] t = <<49, 69, 45, 50>> -> Ts(0, 100)        \* 1E-2
                    [] t = <<105, 110, 102>> -> MaxTs              \* inf
                    [] t = <<110, 97, 110>> -> ZeroTs              \* nan
                    [] OTHER -> c                                  \* not a float
D_Ts(t, c) ==
  IF IsDecimal(t) THEN
    LET b == Body(t)
        ip == IntDigits(b)
        fr == FracDigits(b)
    IN IF Huge(ip) THEN (IF IsNeg(t) THEN ZeroTs ELSE MaxTs)
       ELSE LET base == Ts(ValOf(Sig(ip)), ValOf(Pad4(fr)))
                r == SubSeq(fr, 5, Len(fr))
                m == IF Len(r) > 0 /\ r[1] >= 53 THEN Inc(base) ELSE base        \* round(): ties away from zero
            IN IF IsNeg(t) THEN ZeroTs ELSE (IF InRange(m) THEN m ELSE MaxTs)
  ELSE D_Exotic(t, c)
D_TsOfCapture(v, c) == IF Len(v) = 1 THEN D_Ts(v[1], c) ELSE c

D_Rule(st, rule, m) ==
  LET text == IF st.pthas THEN st.pt ELSE m.raw IN
  IF ~FMatch(rule.flt, m, text) THEN st
  ELSE LET mm == Search(rule.pat, text) IN
    IF ~mm.ok THEN st
    ELSE LET tg == Named(rule.pat, "text")
             sg == Named(rule.pat, "timeStamp")
             tc == mm.caps[CHOOSE e \in tg : TRUE]
             sc == mm.caps[CHOOSE e \in sg : TRUE]
         IN [pthas |-> IF tg = {} THEN st.pthas ELSE (IF tc.part THEN TRUE ELSE (IF FixTextUnset THEN st.pthas ELSE FALSE)),
             pt |-> IF tg = {} THEN st.pt ELSE (IF tc.part THEN tc.v ELSE (IF FixTextUnset THEN st.pt ELSE <<>>)),
             ts |-> IF sg = {} THEN st.ts ELSE (IF sc.part THEN D_TsOfCapture(sc.v, st.ts) ELSE st.ts)]

Active == ActiveRules(path, cfgs, created, 1)
StartOf(m) == [pthas |-> m.pthas, pt |-> m.pt, ts |-> m.ts]
NoMsg == [pthas |-> FALSE, pt |-> <<>>, ts |-> ZeroTs]

-----------------------------------------------------------------------------
Init ==
  /\ sub \in Subs
  /\ path \in Paths(sub) /\ cfgs \in CfgLists(sub) /\ msgs \in Streams(sub)
  /\ phase = "create" /\ ci = 1 /\ created = <<>> /\ k = 1 /\ ri = 1 /\ cur = NoMsg /\ outs = <<>>

Create ==
  /\ phase = "create" /\ ci <= Len(cfgs)
  /\ created' = Append(created, D_Creates(path, cfgs[ci]))
  /\ ci' = ci + 1
  /\ UNCHANGED <<sub, path, cfgs, msgs, phase, k, ri, cur, outs>>

Start ==
  /\ phase = "create" /\ ci > Len(cfgs)
  /\ phase' = "run"
  /\ cur' = (IF Len(msgs) >= 1 THEN StartOf(msgs[1]) ELSE NoMsg)
  /\ UNCHANGED <<sub, path, cfgs, msgs, ci, created, k, ri, outs>>

Rule ==
  /\ phase = "run" /\ k <= Len(msgs) /\ ri <= Len(Active)
  /\ cur' = D_Rule(cur, Active[ri], msgs[k])
  /\ ri' = ri + 1
  /\ UNCHANGED <<sub, path, cfgs, msgs, phase, ci, created, k, outs>>

Forward ==
  /\ phase = "run" /\ k <= Len(msgs) /\ ri > Len(Active)
  /\ outs' = Append(outs, [idx |-> k, pthas |-> cur.pthas, pt |-> cur.pt, ts |-> cur.ts])
  /\ k' = k + 1 /\ ri' = 1
  /\ cur' = (IF k + 1 <= Len(msgs) THEN StartOf(msgs[k + 1]) ELSE NoMsg)
  /\ UNCHANGED <<sub, path, cfgs, msgs, phase, ci, created>>

Finish ==
  /\ phase = "run" /\ k > Len(msgs)
  /\ phase' = "done"
  /\ UNCHANGED <<sub, path, cfgs, msgs, ci, created, k, ri, cur, outs>>

Next == Create \/ Start \/ Rule \/ Forward \/ Finish
Spec == Init /\ [][Next]_vars

-----------------------------------------------------------------------------
\* the contract on a finished behaviour
CreateOK == /\ Len(created) = Len(cfgs)
            /\ \A i \in Idx(cfgs) : LET w == Creates(path, cfgs[i]) IN
                                     (w = "yes" => created[i]) /\ (w = "no" => ~created[i])
ForwardOK == Len(outs) = Len(msgs) /\ \A i \in Idx(outs) : outs[i].idx = i
RewriteOK == \A i \in Idx(outs) : \E st \in Chain(Active, msgs[i], ~FixTextUnset) : Fits(st, outs[i])
\* (informational) the behaviour needs the known-finding deviation
NeedsKF == \E i \in Idx(outs) : ~\E st \in Chain(Active, msgs[i], FALSE) : Fits(st, outs[i])
ContractOK == CreateOK /\ ForwardOK /\ RewriteOK
PropertyHolds == phase = "done" => ContractOK

TypeOK == /\ phase \in {"create", "run", "done"}
          /\ ci \in 1..(Len(cfgs) + 1) /\ Len(created) = ci - 1
          /\ k \in 1..(Len(msgs) + 1) /\ Len(outs) = k - 1
          /\ (phase = "run" => ri \in 1..(Len(Active) + 1))
          /\ (cur.ts = AnyTs \/ InRange(cur.ts))

\* scenario emission: one line per finished behaviour with the events the design predicts (what the driver records)
CreatedIdx == SelectSeq([i \in Idx(cfgs) |-> i], LAMBDA i : created[i])
PredCreate(i) ==
  LET c == cfgs[i]
      cr == created[i]
  IN [ev |-> "create", i |-> i, res |-> IF cr THEN "some" ELSE "none", name |-> IF cr THEN c.name ELSE "",
      enabled |-> IF cr THEN (IF path = "factory" THEN TRUE ELSE EnabledOf(c)) ELSE FALSE,
      st_name |-> IF cr THEN c.name ELSE "", labels |-> IF cr /\ IsRewrite(path, c) THEN RuleNames(c) ELSE <<>>,
      gen |-> IF cr THEN 1 ELSE 0]
PredMsg(i) ==
  LET m == msgs[i]
      o == outs[i]
  IN [ev |-> "msg", k |-> i, idx |-> o.idx,
      inp |-> [ecu |-> m.ecu, hasext |-> m.hasext, apid |-> m.apid, ctid |-> m.ctid, ts |-> m.ts, pthas |-> m.pthas, pt |-> m.pt, raw |-> m.raw],
      out |-> [ts |-> o.ts, pthas |-> o.pthas, pt |-> o.pt, text |-> IF o.pthas THEN o.pt ELSE m.raw, same |-> TRUE]]
PredEnd == [ev |-> "end", ok |-> TRUE, nfwd |-> Len(outs),
            states |-> [j \in Idx(CreatedIdx) |-> [name |-> cfgs[CreatedIdx[j]].name,
                                                    labels |-> IF IsRewrite(path, cfgs[CreatedIdx[j]]) THEN RuleNames(cfgs[CreatedIdx[j]]) ELSE <<>>,
                                                    gen |-> 1]]]
EmitScn == phase = "done" =>
  PrintT(<<"SCN", ToJson([sub |-> sub, path |-> path, cfgs |-> cfgs, msgs |-> msgs,
                          pred |-> [events |-> [i \in Idx(cfgs) |-> PredCreate(i)] \o [i \in Idx(outs) |-> PredMsg(i)] \o <<PredEnd>>,
                                    ok |-> ContractOK, kf |-> NeedsKF,
                                    tags |-> UNION {Tags(Active, msgs[i]) : i \in Idx(msgs)}]])>>)
=============================================================================
