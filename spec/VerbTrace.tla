----------------------------- MODULE VerbTrace -----------------------------
(* C18 - trace validation: one encode -> (truncate | corrupt) -> decode -> render run of the real code per case.

   trace lines (ndjson); every case is a reset followed by one codec (or panic) event:
     {"ev":"reset","case":n,"hdr":{"src":"tlc"|"random"|...}}
     {"ev":"codec","enc":"serde"|"pfa","be":b,"mode":"full"|"trunc"|"corrupt","cpos":i,"via":"plain"|<entry point>,"tops":[TREE,...],
      "args_in":[{"kind":k,"w":w,"raw":[bytes],"num":[[bytes],...]},...],
      "paylen":P,"args_out":[{"ti":[lo16,hi16],"be":b,"off":o,"raw":[bytes]},...],"text_ok":b,"text":[bytes]}
     {"ev":"panic","msg":...}                the code under test panicked (no action matches)
     {"ev":"refused","enc":..,"lens":[n,..],"via":..,"tops":[..]}
                                             the encoder returned an error; lens[i] = length the 16-bit length field of argument i
                                             would have to carry (0 for fixed-size arguments)
   via   "plain": args_in are the values, each handed to the encoder as one plain value (tops = []).  Any other value: the
         values were handed to the serde encoder as NESTED SHAPES (VerbShapes.tla) through that entry point; args_in = [] and
         tops are the handed trees  TREE = {"t":node type,"a":ARG,"name":[bytes],"c":[TREE,...]}  (a = the value of a
         "leaf" / the UTF-8 bytes of a "char" as a strU argument, name = the bytes of a variant / field name).  The contract
         derives the handed values itself (CLeaves): names are optional arguments, a "wrapper" around exactly one raw-bytes
         value is an ASCII-typed string, a tree with anything else below a "wrapper" is judged for bounds only; the encoder may refuse
         every form that is not a plain sequence of leaves.
   enc   serde = Serializer / dlt_args! (native byte order),  pfa = payload_from_args (both byte orders)
   raw   of a number: the bytes of the ORIGINAL value, little endian; of a bool: one byte 0/1; of a string / raw
         argument: the bytes handed to the encoder (the serde string encoder terminates with NUL itself)
   num   decimal texts of the ORIGINAL number produced by core::fmt / ryu in the driver (documented exception to
         "only TLC decides": TLC integers are 32 bit).  Integers: exactly one text.  Floats: the renderings Display,
         Debug, LowerExp, JSON - the statement says "decimal numbers" and fixes no float format, any of them is accepted.
   off   offset of the returned slice inside the payload, paylen the payload length given to the decoder

   Contract = the property statement:
     full     same number of arguments, same type words and raw values (numbers in the payload's byte order), every
              slice inside the payload, and the text is the space-joined canonical rendering of the decoded values
     trunc    the decoded arguments are a prefix of the original ones (same equalities), slices inside the payload
     corrupt  (one type word or length prefix overwritten) arguments before the corrupted one are decoded as in
              `trunc`; whatever else is returned lies inside the payload
   Narrower readings (see also checks/c18.py): the text is judged only for `full` runs; the rendering of non-finite
   floats is free; HOW a byte >= 0x80 is shown that is not part of valid UTF-8 text in a UTF-8 string (and any byte
   >= 0x80 in an "ASCII" string) is not fixed by the statement either, but the 7-bit characters of such a string must
   still appear unchanged and in order (see "7-bit rule" below).  HOW MANY arguments a truncated list yields is not
   fixed (any prefix).

   Known finding KF_C18_EmptyArgNoLen: payload_from_args writes no length prefix for an EMPTY string / raw argument,
   so the decoder misreads everything from that argument on.  Deviation action KF_Codec: only enc = "pfa", only with
   such an argument present, only if the strict contract fails, and the arguments before the first empty one must
   still be faithful and all slices in bounds.                                                                     *)
EXTENDS VerbShapes, Json, IOUtils

CONSTANT KF_C18_EmptyArgNoLen

Rec == ndJsonDeserialize(IOEnv.TRACE)

VARIABLES l, case, phase, viol, kfUsed
vars == <<l, case, phase, viol, kfUsed>>
Init == l = 1 /\ case = -1 /\ phase = "idle" /\ viol = {} /\ kfUsed = {}

Ev(e) == l <= Len(Rec) /\ Rec[l].ev = e /\ l' = l + 1
Cur == Rec[l]

Reset == /\ Ev("reset")
         /\ case' = Cur.case /\ phase' = "running"
         /\ viol' = (IF phase = "running" THEN viol \cup {case} ELSE viol)
         /\ UNCHANGED kfUsed

\* ---------------------------------------------------------------- bytes
(* Everything below works on the logged tuples directly (e.text, e.args_out[i].raw): no derived sequences are built,
   every per-byte step is an index into a logged tuple, so a 64 KiB string costs linear time.                      *)
Sp == 32
Reverse(s) == [i \in 1..Len(s) |-> s[Len(s) + 1 - i]]
\* a number token is a space-free run; no decimal text of a 64 bit number is longer than TokMax bytes (f64::MAX in
\* plain notation has 309 digits), so the scans give up there (the over-long run then matches no expected text)
TokMax == 400
RECURSIVE TokEndL(_, _, _), TokStartL(_, _, _)
TokEndL(T, q, lim)   == IF q > Len(T) \/ T[q] = Sp \/ lim = 0 THEN q ELSE TokEndL(T, q + 1, lim - 1)
TokStartL(T, s, lim) == IF s <= 0 \/ T[s] = Sp \/ lim = 0 THEN s ELSE TokStartL(T, s - 1, lim - 1)
TokEnd(T, q)   == TokEndL(T, q, TokMax)        \* first space (or Len+1) at or after q
TokStart(T, s) == TokStartL(T, s, TokMax)      \* last space (or 0) at or before s
Bytes_true  == <<116, 114, 117, 101>>
Bytes_false == <<102, 97, 108, 115, 101>>
HexD(x) == IF x < 10 THEN 48 + x ELSE 87 + x                                   \* lower case
StrLen(raw) == IF Len(raw) > 0 /\ raw[Len(raw)] = 0 THEN Len(raw) - 1 ELSE Len(raw)        \* ONE trailing NUL removed
BlankB(b) == IF b \in {9, 10, 13} THEN Sp ELSE b                                           \* CR / LF / TAB as space
AllAsciiTo(raw, m) == \A k \in 1..m : raw[k] < 128
Cont(b) == b >= 128 /\ b <= 191
\* well-formed UTF-8 (Unicode table 3-7) in s[i..n].  The recursion is one level per character and TLC's cost per level
\* grows with the depth, so only strings of at most Utf8Max bytes are classified; longer non-ASCII strings are "free".
Utf8Max == 512
RECURSIVE Utf8From(_, _, _)
Utf8From(s, i, n) ==
  IF i > n THEN TRUE
  ELSE LET b == s[i] IN
       IF b < 128 THEN Utf8From(s, i + 1, n)
       ELSE IF b >= 194 /\ b <= 223 THEN i + 1 <= n /\ Cont(s[i + 1]) /\ Utf8From(s, i + 2, n)
       ELSE IF b = 224 THEN i + 2 <= n /\ s[i + 1] >= 160 /\ s[i + 1] <= 191 /\ Cont(s[i + 2]) /\ Utf8From(s, i + 3, n)
       ELSE IF (b >= 225 /\ b <= 236) \/ b = 238 \/ b = 239 THEN i + 2 <= n /\ Cont(s[i + 1]) /\ Cont(s[i + 2]) /\ Utf8From(s, i + 3, n)
       ELSE IF b = 237 THEN i + 2 <= n /\ s[i + 1] >= 128 /\ s[i + 1] <= 159 /\ Cont(s[i + 2]) /\ Utf8From(s, i + 3, n)
       ELSE IF b = 240 THEN i + 3 <= n /\ s[i + 1] >= 144 /\ s[i + 1] <= 191 /\ Cont(s[i + 2]) /\ Cont(s[i + 3]) /\ Utf8From(s, i + 4, n)
       ELSE IF b >= 241 /\ b <= 243 THEN i + 3 <= n /\ Cont(s[i + 1]) /\ Cont(s[i + 2]) /\ Cont(s[i + 3]) /\ Utf8From(s, i + 4, n)
       ELSE IF b = 244 THEN i + 3 <= n /\ s[i + 1] >= 128 /\ s[i + 1] <= 143 /\ Cont(s[i + 2]) /\ Cont(s[i + 3]) /\ Utf8From(s, i + 4, n)
       ELSE FALSE
\* IEEE-754 infinities / NaN from the little-endian bytes of the original value (exponent all ones)
NonFinite(le) == IF Len(le) = 4 THEN le[4] % 128 = 127 /\ le[3] >= 128
                 ELSE IF Len(le) = 8 THEN le[8] % 128 = 127 /\ le[7] >= 240
                 ELSE TRUE

\* ---------------------------------------------------------------- canonical text: one piece per decoded argument
(* piece type of argument i of event e:
     "bool" true / false      "alt"  one of the decimal texts of the original number (a.num)
     "hex"  lower-case hex pairs joined by spaces      "str"  the bytes, one trailing NUL removed, CR/LF/TAB as space
     "free" not fixed by the statement                                                                             *)
PType(e, i) == LET a == e.args_in[i]  raw == e.args_out[i].raw IN
               CASE a.kind = "bool" -> "bool"
                 [] a.kind \in {"sint", "uint"} -> "alt"
                 [] a.kind = "floa" -> (IF NonFinite(a.raw) THEN "free" ELSE "alt")
                 [] a.kind = "rawd" -> "hex"
                 [] OTHER -> (IF AllAsciiTo(raw, StrLen(raw)) THEN "str"
                              ELSE IF a.kind = "strU" /\ StrLen(raw) <= Utf8Max /\ Utf8From(raw, 1, StrLen(raw)) THEN "str"
                              ELSE "free")
\* length and k-th byte of a piece whose bytes are determined ("bool", "hex", "str")
PLen(e, i, ty) == LET raw == e.args_out[i].raw IN
                  CASE ty = "bool" -> (IF raw[1] # 0 THEN 4 ELSE 5)
                    [] ty = "hex"  -> (IF Len(raw) = 0 THEN 0 ELSE 3 * Len(raw) - 1)
                    [] OTHER       -> StrLen(raw)
PByte(e, i, ty, k) == LET raw == e.args_out[i].raw IN
                      CASE ty = "bool" -> (IF raw[1] # 0 THEN Bytes_true[k] ELSE Bytes_false[k])
                        [] ty = "hex"  -> (LET q == (k - 1) \div 3  r == (k - 1) % 3 IN
                                           IF r = 2 THEN Sp ELSE IF r = 0 THEN HexD(raw[q + 1] \div 16) ELSE HexD(raw[q + 1] % 16))
                        [] OTHER       -> BlankB(raw[k])
\* the piece occupies e.text[c+1 .. c+n]
IsAtP(e, i, ty, c, n) == c >= 0 /\ c + n <= Len(e.text) /\ \A k \in 1..n : e.text[c + k] = PByte(e, i, ty, k)
InAlts(tok, alts) == \E x \in 1..Len(alts) : alts[x] = tok

\* match pieces i.. from the left; c = bytes of the text consumed; stops at the first free piece
MFail == [ok |-> FALSE, free |-> FALSE, i |-> 0, c |-> 0]
RECURSIVE MFwd(_, _, _)
MFwd(e, i, c) ==
  LET T == e.text IN
  IF i > Len(e.args_out) THEN [ok |-> c = Len(T), free |-> FALSE, i |-> i, c |-> c]
  ELSE IF i > 1 /\ ~(c + 1 <= Len(T) /\ T[c + 1] = Sp) THEN MFail                      \* single space between pieces
  ELSE LET c1 == IF i > 1 THEN c + 1 ELSE c
           ty == PType(e, i)
       IN IF ty = "free" THEN [ok |-> TRUE, free |-> TRUE, i |-> i, c |-> c1]
          ELSE IF ty = "alt" THEN (LET q == TokEnd(T, c1 + 1) IN
                                   IF InAlts(SubSeq(T, c1 + 1, q - 1), e.args_in[i].num) THEN MFwd(e, i + 1, q - 1) ELSE MFail)
          ELSE (LET n == PLen(e, i, ty) IN IF IsAtP(e, i, ty, c1, n) THEN MFwd(e, i + 1, c1 + n) ELSE MFail)
\* match pieces ..j from the right; piece j must end at d; stops at the first free piece
BFail == [ok |-> FALSE, j |-> 0, d |-> 0]
RECURSIVE MBwd(_, _, _)
MBwd(e, j, d) ==
  LET T == e.text IN
  IF j < 1 THEN BFail
  ELSE LET ty == PType(e, j) IN
       IF ty = "free" THEN [ok |-> TRUE, j |-> j, d |-> d]
       ELSE LET r == IF ty = "alt"
                     THEN (LET s == TokStart(T, d) IN IF InAlts(SubSeq(T, s + 1, d), e.args_in[j].num) THEN s ELSE -1)
                     ELSE (LET n == PLen(e, j, ty) IN IF IsAtP(e, j, ty, d - n, n) THEN d - n ELSE -1)
            IN IF r < 1 \/ T[r] # Sp THEN BFail ELSE MBwd(e, j - 1, r - 1)
\* ---------------------------------------------------------------- 7-bit rule for the part the two scans leave open
(* The scans above stop at the first / last piece whose text is not fixed byte for byte; the text between them,
   T[c+1 .. d], is the space-joined rendering of the pieces i..j.  The statement does not say how a byte >= 0x80 of an
   ASCII-typed string (or of a UTF-8-typed string that is not valid UTF-8) is SHOWN, but it does say that the text is the
   string itself (one trailing NUL removed, CR / LF / TAB as spaces): its 7-bit characters must come out in the same order,
   none lost, none invented, whatever the other bytes become.  On bytes: deleting every byte outside 0x20..0x7e from
   T[c+1 .. d] must give the same sequence as deleting them from the expected pieces (strings: value bytes after the
   NUL / blank rules; numbers, booleans, raw data: their canonical text) joined by single spaces.  The text is UTF-8,
   a character above U+007F is a sequence of bytes >= 0x80, so the rendering of a high byte is never judged as long
   as it is shown by characters above U+007F (windows-1252, latin-1, U+FFFD, ...); control characters below 0x20 and
   0x7f are deleted on both sides as well (narrower reading).  A 7-bit space inside a string and a separator are the
   same byte, which is why whole regions (not single pieces) are compared: the projection of a concatenation is the
   concatenation of the projections.
   Not judged (stays free): regions containing a non-finite float, regions with more than WeakAltMax floats (each has
   several accepted texts), regions or values longer than WeakMax bytes.                                             *)
WeakMax == 262144
WeakAltMax == 2
Print7(b) == b >= 32 /\ b <= 126
Proj7(s) == SelectSeq(s, Print7)
\* piece type for this rule: "weak" = a string whose text is fixed only up to the rendering of its bytes >= 0x80
WType(e, i) == LET ty == PType(e, i) IN
               IF ty = "free" /\ e.args_in[i].kind \in {"strU", "strA"} THEN "weak" ELSE ty
\* the accepted texts of piece i, bytes >= 0x80 of a weak piece left in place (they are projected away)
PieceAlts(e, i) == LET ty == WType(e, i)  raw == e.args_out[i].raw IN
                   IF ty = "alt" THEN {e.args_in[i].num[x] : x \in 1..Len(e.args_in[i].num)}
                   ELSE IF ty = "weak" THEN {[k \in 1..StrLen(raw) |-> BlankB(raw[k])]}
                   ELSE {[k \in 1..PLen(e, i, ty) |-> PByte(e, i, ty, k)]}
RECURSIVE RegionCands(_, _, _)
RegionCands(e, i, j) == IF i > j THEN {<<>>}
                        ELSE IF i = j THEN {Proj7(p) : p \in PieceAlts(e, i)}
                        ELSE {Proj7(p) \o <<Sp>> \o r : p \in PieceAlts(e, i), r \in RegionCands(e, i + 1, j)}
RegionJudged(e, i, j, c, d) ==
  /\ d - c <= WeakMax
  /\ \A k \in i..j : WType(e, k) # "free" /\ Len(e.args_out[k].raw) <= WeakMax
  /\ Cardinality({k \in i..j : WType(e, k) = "alt" /\ Len(e.args_in[k].num) > 1}) <= WeakAltMax
RegionOk(e, i, j, c, d) == RegionJudged(e, i, j, c, d) => Proj7(SubSeq(e.text, c + 1, d)) \in RegionCands(e, i, j)

TextMatches(e) == LET f == MFwd(e, 1, 0) IN
                  /\ f.ok
                  /\ (f.free => LET b == MBwd(e, Len(e.args_out), Len(e.text)) IN
                                 b.ok /\ b.j >= f.i /\ f.c <= b.d /\ RegionOk(e, f.i, b.j, f.c, b.d))

\* ---------------------------------------------------------------- the contract
InDomain(e) == /\ e.enc \in {"serde", "pfa"} /\ e.mode \in {"full", "trunc", "corrupt"}
               /\ \A i \in 1..Len(e.args_in) : LET a == e.args_in[i] IN
                     /\ a.kind \in Kinds /\ WidthOk(a.kind, a.w)
                     /\ (a.kind \in NumKinds => Len(a.raw) = a.w /\ Len(a.num) >= 1)
                     /\ (a.kind = "bool" => a.raw \in {<<0>>, <<1>>})
TiPair(ti) == <<ti % 65536, ti \div 65536>>
SliceIn(e, o) == o.off >= 0 /\ o.off + Len(o.raw) <= e.paylen
RawOk(e, a, o) == IF a.kind \in NumKinds THEN o.raw = (IF e.be THEN Reverse(a.raw) ELSE a.raw)
                  ELSE IF a.kind = "strU" /\ e.enc = "serde" THEN o.raw = a.raw \/ o.raw = Append(a.raw, 0)
                  ELSE o.raw = a.raw
ArgOk(e, i) == LET a == e.args_in[i]  o == e.args_out[i] IN
               /\ o.ti = TiPair(TypeInfo(a.kind, a.w)) /\ o.be = e.be /\ RawOk(e, a, o) /\ SliceIn(e, o)
NIn(e)  == Len(e.args_in)
NOut(e) == Len(e.args_out)
FaithfulUpTo(e, n) == \A i \in 1..n : ArgOk(e, i)
AllSlicesIn(e) == \A i \in 1..NOut(e) : SliceIn(e, e.args_out[i])
TextOk(e) == e.text_ok /\ TextMatches(e)
Minimum(a, b) == IF a < b THEN a ELSE b

CodecOk(e) == /\ InDomain(e)
              /\ CASE e.mode = "full"  -> NOut(e) = NIn(e) /\ FaithfulUpTo(e, NIn(e)) /\ TextOk(e)
                   [] e.mode = "trunc" -> NOut(e) <= NIn(e) /\ FaithfulUpTo(e, NOut(e))
                   [] OTHER            -> AllSlicesIn(e) /\ FaithfulUpTo(e, Minimum(Minimum(NOut(e), e.cpos - 1), NIn(e)))

\* ---------------------------------------------------------------- nested shapes handed to the serde encoder
\* the argument record a leaf descriptor of a recorded tree stands for
LeafArg(d) == IF d.name THEN [kind |-> "strU", w |-> 0, raw |-> d.nd.name, num |-> <<>>]
              ELSE IF d.ascii /\ d.nd.a.kind = "rawd" THEN [d.nd.a EXCEPT !.kind = "strA"] ELSE d.nd.a
RECURSIVE KeepArgs(_, _, _)
KeepArgs(D, k, S) == IF k > Len(D) THEN <<>> ELSE (IF k \in S THEN <<>> ELSE <<LeafArg(D[k])>>) \o KeepArgs(D, k + 1, S)
\* only a "wrapper" around exactly one raw-bytes value has a fixed meaning (an ASCII-typed string)
JudgedTops(D) == \A k \in 1..Len(D) : D[k].ascii => (D[k].solo /\ ~D[k].name /\ D[k].nd.t = "leaf" /\ D[k].nd.a.kind = "rawd")
ShapedOk(e) == LET D == FormLeaves(e) IN
               /\ e.enc = "serde" /\ e.mode = "full" /\ e.via \notin {"plain"}
               /\ IF JudgedTops(D) THEN \E S \in SUBSET OptIdx(D) : CodecOk([e EXCEPT !.args_in = KeepArgs(D, 1, S)])
                                    ELSE AllSlicesIn(e)
CodecOkAny(e) == IF e.via = "plain" THEN CodecOk(e) ELSE ShapedOk(e)

Codec == /\ Ev("codec") /\ phase = "running"
         /\ CodecOkAny(Cur)
         /\ phase' = "ended" /\ UNCHANGED <<case, viol, kfUsed>>

\* named deviation (known finding): see header
EmptyVarAt(e) == {i \in 1..NIn(e) : e.args_in[i].kind \in VarKinds /\ Len(e.args_in[i].raw) = 0}
FirstEmpty(e) == CHOOSE i \in EmptyVarAt(e) : \A j \in EmptyVarAt(e) : i <= j
KF_Codec == /\ KF_C18_EmptyArgNoLen
            /\ Ev("codec") /\ phase = "running"
            /\ Cur.enc = "pfa" /\ Cur.via = "plain" /\ InDomain(Cur) /\ EmptyVarAt(Cur) # {}
            /\ ~CodecOk(Cur)
            /\ AllSlicesIn(Cur) /\ FaithfulUpTo(Cur, Minimum(NOut(Cur), FirstEmpty(Cur) - 1))
            /\ (Cur.mode = "corrupt" => FaithfulUpTo(Cur, Minimum(Minimum(NOut(Cur), Cur.cpos - 1), FirstEmpty(Cur) - 1)))
            /\ kfUsed' = kfUsed \cup {[case |-> case, kf |-> "KF_C18_EmptyArgNoLen"]}
            /\ phase' = "ended" /\ UNCHANGED <<case, viol>>

\* the encoder may refuse (return an error for) a value it cannot represent: a string / raw argument whose 16-bit length field
\* would overflow (lens[i] = bytes the length field would have to announce, incl. the terminator the serde encoder adds).
\* Refusing anything that fits is not allowed; accepting what does not fit shows up as a `codec` event that fails CodecOk.
\* Values handed over as nested shapes: every form that is not a plain sequence of typed values may be refused as well.
Refused == /\ Ev("refused") /\ phase = "running"
           /\ \/ \E i \in 1..Len(Cur.lens) : Cur.lens[i] > 65535
              \/ (Cur.via # "plain" /\ ~PlainForm(Cur))
           /\ phase' = "ended" /\ UNCHANGED <<case, viol, kfUsed>>

\* ---------------------------------------------------------------- recovery
Matches == ENABLED Codec \/ ENABLED KF_Codec \/ ENABLED Refused
Reject == /\ l <= Len(Rec) /\ Cur.ev # "reset" /\ phase = "running" /\ ~Matches
          /\ PrintT(<<"CASE_REJECTED", case, l, ToJson([ev |-> Cur.ev])>>)
          /\ l' = l + 1 /\ phase' = "rejected" /\ viol' = viol \cup {case}
          /\ UNCHANGED <<case, kfUsed>>
SkipRest == /\ l <= Len(Rec) /\ Cur.ev # "reset" /\ phase \in {"rejected", "ended", "idle"}
            /\ l' = l + 1
            /\ IF phase = "ended" THEN viol' = viol \cup {case} /\ phase' = "rejected"
                                  ELSE UNCHANGED <<viol, phase>>
            /\ UNCHANGED <<case, kfUsed>>

Next == Reset \/ Codec \/ KF_Codec \/ Refused \/ Reject \/ SkipRest
Spec == Init /\ [][Next]_vars

AtEnd == l = Len(Rec) + 1
FinalViol == IF phase = "running" THEN viol \cup {case} ELSE viol
Report == AtEnd => PrintT(<<"VERDICT", ToJson([violations |-> FinalViol, known |-> kfUsed])>>)
Accepted == IF TLCGet("stats").diameter - 1 = Len(Rec) THEN TRUE
            ELSE Print(<<"TRACE_NOT_CONSUMED", TLCGet("stats").diameter, Len(Rec)>>, FALSE)
=============================================================================
