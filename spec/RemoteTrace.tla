---------------------------- MODULE RemoteTrace ----------------------------
(* C15 - trace validation: what a websocket client of the real `adlt remote` binary sent and received, one
   connection per case (harness/src/bin/c15.rs).

   events (ndjson):
     {"ev":"reset","case":n,"hdr":{...}}
     {"ev":"connected"}                                          the websocket handshake succeeded
     {"ev":"cmd","verb":v,"arg":a,"tk":"none"|"nonnum"|"id","id":n,...}   a text command was sent (abstract class, RemoteTable)
     {"ev":"reply","pol":"ok"|"err"|"unknown","rverb":v,"id":n,"old":m,"flag":"true"|"false"|"","saved":"equal"|"differs"|""}   a text frame starting ok: / err: / unknown command
     {"ev":"bin","type":"DltMsgs","id":n,"n":k}                   asynchronous stream data (k = 0: end marker of a query)
     {"ev":"bin_other","n":k} {"ev":"async_text"}                 other asynchronous frames (never replies)
     {"ev":"end"}                                                the reply of the final sentinel command was received
     {"ev":"conn_closed"} {"ev":"timeout"} {"ev":"server_exit"} {"ev":"connect_failed"} {"ev":"text_other"}
     {"ev":"bin_undecodable"}                                    -> no contract action: violation

   Contract (the property C15): replies are matched FIFO to the commands; every command gets exactly one reply,
   which names its command and has a polarity the reply table allows in the session state tracked from the earlier
   replies (file open between successful open and close; a stream id live between the reply announcing it and
   stop / close / the end marker of a query; ids announced are fresh); the connection stays up until `end`, where
   nothing may be unanswered.  Known findings are narrow deviation actions for conn_closed (named KF_...).               *)
EXTENDS RemoteTable, Json, IOUtils

CONSTANTS KF_C15_SearchNoBody,      \* stream_search <live id> without JSON body kills the connection (remote.rs:838)
          KF_C15_FsFakeArchive,     \* fs stat/readDirectory inside a file named like an archive that is none (remote.rs:1361/1386)
          KF_C15_OnePassDrained,    \* stream_search on a one-pass stream whose messages were drained (remote.rs:1650)
          KF_C15_OnePassLateStream, \* one-pass stream created after messages were drained: the poll loop panics (remote.rs:1909)
          KF_C15_OnePassChangeWindow \* window of a one-pass stream changed after draining: the poll loop panics (remote.rs:1959)

Rec == ndJsonDeserialize(IOEnv.TRACE)

VARIABLES l, case, phase, file, plug, resumed, paused, live, maxId, pend, viol, kfUsed
vars == <<l, case, phase, file, plug, resumed, paused, live, maxId, pend, viol, kfUsed>>
sess == <<file, plug, resumed, paused, live, maxId, pend>>
\* resumed: a resume was acknowledged since the open;  paused: the last acknowledged pause/resume (or the open mode) paused
\* live: set of [id, kind ("stream"|"query"), op (created with one_pass:true), late (created after a resume),
\*               chg (window changed after a resume)]

Init == /\ l = 1 /\ case = -1 /\ phase = "idle" /\ file = "none" /\ plug = FALSE /\ resumed = FALSE /\ paused = FALSE /\ live = {}
        /\ maxId = 0 /\ pend = <<>> /\ viol = {} /\ kfUsed = {}

Ev(e) == l <= Len(Rec) /\ Rec[l].ev = e /\ l' = l + 1
Cur == Rec[l]

Reset == /\ Ev("reset")
         /\ case' = Cur.case /\ phase' = "fresh"
         /\ file' = "none" /\ plug' = FALSE /\ resumed' = FALSE /\ paused' = FALSE /\ live' = {} /\ maxId' = 0 /\ pend' = <<>>
         /\ viol' = (IF phase \in {"fresh", "running"} THEN viol \cup {case} ELSE viol)   \* previous case never ended
         /\ UNCHANGED kfUsed

Connected == /\ Ev("connected") /\ phase = "fresh" /\ phase' = "running" /\ UNCHANGED <<case, sess, viol, kfUsed>>

Cmd == /\ Ev("cmd") /\ phase = "running"
       /\ pend' = Append(pend, [verb |-> Cur.verb, arg |-> Cur.arg, tk |-> Cur.tk, id |-> Cur.id])
       /\ UNCHANGED <<case, phase, file, plug, resumed, paused, live, maxId, viol, kfUsed>>

Target(c) == {s \in live : c.tk = "id" /\ s.id = c.id}
TLive(c) == Target(c) # {}
TOp(c) == \E s \in Target(c) : s.op
Max2(a, b) == IF a > b THEN a ELSE b

Reply ==
  /\ Ev("reply") /\ phase = "running" /\ pend # <<>>
  /\ LET c == Head(pend) p == Cur.pol IN
     /\ p \in Pol(c.verb, c.arg, c.tk, file, plug, resumed, TLive(c), TOp(c))   \* polarity per tracked state
     /\ (p = "unknown" \/ Cur.rverb = c.verb)                                  \* the reply names its command
     /\ (c.verb = "plugin_cmd" /\ p = "ok" =>                                  \* `ok: plugin_cmd <bool>`: executed or not
            /\ Cur.flag \in {"true", "false"}
            /\ (c.arg \in SaveNeverArgs => Cur.flag = "false")
            /\ (Cur.flag = "true" => Cur.saved = "equal"))                     \* the saved file holds the transferred bytes
     /\ pend' = Tail(pend)
     /\ IF p # "ok" THEN UNCHANGED <<file, plug, resumed, paused, live, maxId>>
        ELSE IF c.verb = "open" THEN
             /\ file' = FileModeOf(c.arg) /\ plug' = HasPlugin(c.arg) /\ resumed' = FALSE
             /\ paused' = (c.arg \in OnePassOpenArgs) /\ UNCHANGED <<live, maxId>>
        ELSE IF c.verb = "close" THEN
             /\ file' = "none" /\ plug' = FALSE /\ resumed' = FALSE /\ paused' = FALSE /\ live' = {} /\ UNCHANGED maxId
        ELSE IF c.verb = "resume" THEN resumed' = TRUE /\ paused' = FALSE /\ UNCHANGED <<file, plug, live, maxId>>
        ELSE IF c.verb = "pause" THEN paused' = TRUE /\ UNCHANGED <<file, plug, resumed, live, maxId>>
        ELSE IF c.verb \in {"stream", "query"} THEN
             /\ Cur.id > maxId                                                  \* announced id is fresh
             /\ live' = live \cup {[id |-> Cur.id, kind |-> c.verb, op |-> (c.arg = "ok_onepass"), late |-> resumed, chg |-> FALSE]}
             /\ maxId' = Cur.id /\ UNCHANGED <<file, plug, resumed, paused>>
        ELSE IF c.verb = "stop" THEN live' = live \ Target(c) /\ UNCHANGED <<file, plug, resumed, paused, maxId>>
        ELSE IF c.verb = "stream_change_window" THEN
             /\ Cur.id > maxId /\ Cur.old = c.id                                \* renewed id, names the old one
             /\ live' = (live \ Target(c)) \cup {[s EXCEPT !.id = Cur.id, !.chg = (s.chg \/ resumed)] : s \in Target(c)}
             /\ maxId' = Cur.id /\ UNCHANGED <<file, plug, resumed, paused>>
        ELSE UNCHANGED <<file, plug, resumed, paused, live, maxId>>
  /\ UNCHANGED <<case, phase, viol, kfUsed>>

\* asynchronous frames are never replies; the empty DltMsgs frame of a query announces that its id is gone
Bin == /\ Ev("bin") /\ phase = "running"
       /\ live' = (IF Cur.n = 0 THEN {s \in live : ~(s.id = Cur.id /\ s.kind = "query")} ELSE live)
       /\ UNCHANGED <<case, phase, file, plug, resumed, paused, maxId, pend, viol, kfUsed>>
Async == /\ (Ev("bin_other") \/ Ev("async_text")) /\ phase = "running"
         /\ UNCHANGED <<case, phase, sess, viol, kfUsed>>

End == /\ Ev("end") /\ (phase = "dead" \/ (phase = "running" /\ pend = <<>>))
       /\ phase' = "ended" /\ UNCHANGED <<case, sess, viol, kfUsed>>

\* ---- known findings: the connection dies instead of answering
\* (1) while processing the oldest unanswered command
KfShape(c) ==
  IF KF_C15_SearchNoBody /\ c.verb = "stream_search" /\ c.arg = "noarg" /\ TLive(c) THEN "KF_C15_SearchNoBody"
  ELSE IF KF_C15_FsFakeArchive /\ c.verb = "fs" /\ c.arg \in FsFakeArgs THEN "KF_C15_FsFakeArchive"
  ELSE IF KF_C15_OnePassDrained /\ c.verb = "stream_search" /\ c.arg \in SearchOkArgs /\ TLive(c) /\ TOp(c)
          /\ file = "onepass" /\ resumed THEN "KF_C15_OnePassDrained"
  ELSE ""
\* (2) in the poll loop between commands: one-pass mode, not paused, messages may have been drained, and a live
\*     one-pass stream that was created / whose window was changed after draining began
PollShape ==
  IF file # "onepass" \/ ~resumed \/ paused THEN ""
  ELSE IF KF_C15_OnePassLateStream /\ (\E s \in live : s.op /\ s.late) THEN "KF_C15_OnePassLateStream"
  ELSE IF KF_C15_OnePassChangeWindow /\ (\E s \in live : s.op /\ s.chg) THEN "KF_C15_OnePassChangeWindow"
  ELSE ""
KfLabel == IF pend # <<>> /\ KfShape(Head(pend)) # "" THEN KfShape(Head(pend)) ELSE PollShape
KfClosed == /\ Ev("conn_closed") /\ phase = "running" /\ KfLabel # ""
            /\ kfUsed' = kfUsed \cup {[case |-> case, kf |-> KfLabel]}
            /\ phase' = "dead" /\ UNCHANGED <<case, sess, viol>>

Matches == ENABLED Connected \/ ENABLED Cmd \/ ENABLED Reply \/ ENABLED Bin \/ ENABLED Async \/ ENABLED End \/ ENABLED KfClosed
Reject == /\ l <= Len(Rec) /\ Cur.ev # "reset" /\ phase \in {"fresh", "running", "dead"} /\ ~Matches
          /\ PrintT(<<"CASE_REJECTED", case, l, ToJson([event |-> Cur, oldest_unanswered |-> pend, file |-> file, live |-> live])>>)
          /\ l' = l + 1 /\ phase' = "rejected" /\ viol' = viol \cup {case}
          /\ UNCHANGED <<case, sess, kfUsed>>
SkipRest == /\ l <= Len(Rec) /\ Cur.ev # "reset" /\ phase \in {"rejected", "ended", "idle"}
            /\ l' = l + 1
            /\ IF phase = "ended" THEN viol' = viol \cup {case} /\ phase' = "rejected"     \* events after `end`
                                  ELSE UNCHANGED <<viol, phase>>
            /\ UNCHANGED <<case, sess, kfUsed>>

Next == Reset \/ Connected \/ Cmd \/ Reply \/ Bin \/ Async \/ End \/ KfClosed \/ Reject \/ SkipRest
Spec == Init /\ [][Next]_vars

AtEnd == l = Len(Rec) + 1
FinalViol == IF phase \in {"fresh", "running", "dead"} THEN viol \cup {case} ELSE viol
Report == AtEnd => PrintT(<<"VERDICT", ToJson([violations |-> FinalViol, known |-> kfUsed])>>)
Accepted == IF TLCGet("stats").diameter - 1 = Len(Rec) THEN TRUE
            ELSE Print(<<"TRACE_NOT_CONSUMED", TLCGet("stats").diameter, Len(Rec)>>, FALSE)
=============================================================================
