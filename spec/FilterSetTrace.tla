--------------------------- MODULE FilterSetTrace ---------------------------
(* C12 - trace validation: decisions of the real set matcher and runs of the real stream filter, per filter set.

   trace lines (ndjson):
     {"ev":"reset","case":n,"hdr":{"F":[<abstract filter>,...],"msgs":[<abstract message>,...],...}}
     {"ev":"set","impl":"match_filters_ctx"|"match_filters_cont","mi":k,"kept":b}
                        match_filters(msgs[k], container); the container was built by StreamContext::from(JSON) resp. like
                        the search / export code does (Filter::from_json, enabled filters only)
     {"ev":"set_big","impl":..,"n":N,"per":[{"mi":k,"kept":a,"dropped":b},..]}   a backlog of N > 2^17 messages (copies of msgs[..]) went
                        through StreamContext::from + ONE process_stream_new_msgs call: a copies of msgs[k] are in the stream, b are not
     {"ev":"stream","s":[k1,k2,...]}      filter_as_streams is started on the input msgs[k1], msgs[k2], ... (real mpsc channels)
     {"ev":"fwd","pos":p,"intact":b}      the next message arrived on the output channel: it is the p-th input message
                                          (p = 0: not an input message), intact = equal to the input message in every field
     {"ev":"send","passed":a,"filtered":b}   filter_as_streams returned Ok((a, b)) and the output channel is drained
     {"ev":"hangup_err","left":r}            (stream started with "hangup_after":k) the output function refused the (k+1)-th kept message
                                          and filter_as_streams returned an error; r input messages were left in its input channel
     {"ev":"hangup_ok","passed":a,"filtered":b,"left":r}   the same, but it returned Ok((a, b))
     {"ev":"export","s":[k1,...],"keep_lcs":[ids]}   an ExportPlugin (filters = F, lifecyclesToKeep = the lifecycles keep_lcs)
                                          processes hdr.xmsgs[k1], hdr.xmsgs[k2], ... (the message table with lifecycles
                                          that belong to the ecu of the message)
     {"ev":"xfwd","pos":p,"intact":b}     next message of the exported file (re-read): the p-th processed message
     {"ev":"xend","exported":n}           end of the exported file; n = nrExportedMsgs reported by the plugin
     {"ev":"end"}
     {"ev":"loaderr"|"error"|"panic","msg":..}   no action matches

   `set` events with impl stream_context_* report, per position of a stream that was fed in portions through
   StreamContext::from + process_stream_new_msgs, whether the stream contains that message.

   Contract (the property): set.kept = Keep(F, msgs[mi], TRUE) (event filters apply to streams and searches);
   the exported file holds exactly the processed messages with ExportKeep(F, m, keep_lcs), in order, unchanged;
   a forwarded message is the next kept input message (Keep(.., FALSE): the stream filter of convert has no event
   filters), unchanged; at the end no kept message is missing, passed = number forwarded, passed + filtered = received.
   A case for which no action matches is recorded in `viol` and skipped up to the next reset.                     *)
EXTENDS FilterSet, IOUtils

Rec == ndJsonDeserialize(IOEnv.TRACE)

VARIABLES l, case, phase, hdr, strm, last, nfwd, viol, klcs
vars == <<l, case, phase, hdr, strm, last, nfwd, viol, klcs>>

NoHdr == [F |-> <<>>, msgs |-> <<>>]
Init == l = 1 /\ case = -1 /\ phase = "idle" /\ hdr = NoHdr /\ strm = <<>> /\ last = 0 /\ nfwd = 0 /\ viol = {} /\ klcs = {}

Ev(e) == l <= Len(Rec) /\ Rec[l].ev = e /\ l' = l + 1
Cur == Rec[l]

Reset == /\ Ev("reset")
         /\ case' = Cur.case /\ hdr' = Cur.hdr /\ phase' = "running" /\ strm' = <<>> /\ last' = 0 /\ nfwd' = 0 /\ klcs' = {}
         /\ viol' = (IF phase \in {"running", "streaming", "exporting"} THEN viol \cup {case} ELSE viol)     \* previous case never ended

Kept(p) == Keep(hdr.F, hdr.msgs[strm[p]], FALSE)

SetDecision == /\ Ev("set") /\ phase = "running"
               /\ Cur.mi \in 1..Len(hdr.msgs)
               /\ Cur.kept = Keep(hdr.F, hdr.msgs[Cur.mi], TRUE)
               /\ UNCHANGED <<case, phase, hdr, strm, last, nfwd, viol, klcs>>
\* one huge backlog handed to the stream context in a single call: summary per message of the case (how many of its copies the
\* stream holds / does not hold); the driver has checked that the stream's index list is strictly ascending (else an `error` event)
SetBig == /\ Ev("set_big") /\ phase = "running"
          /\ \A i \in 1..Len(Cur.per) :
                /\ Cur.per[i].mi \in 1..Len(hdr.msgs)
                /\ (Cur.per[i].kept > 0 => Keep(hdr.F, hdr.msgs[Cur.per[i].mi], TRUE))
                /\ (Cur.per[i].dropped > 0 => ~Keep(hdr.F, hdr.msgs[Cur.per[i].mi], TRUE))
          /\ UNCHANGED <<case, phase, hdr, strm, last, nfwd, viol, klcs>>
StreamStart == /\ Ev("stream") /\ phase = "running"
               /\ \A k \in 1..Len(Cur.s) : Cur.s[k] \in 1..Len(hdr.msgs)
               /\ strm' = Cur.s /\ last' = 0 /\ nfwd' = 0 /\ phase' = "streaming"
               /\ UNCHANGED <<case, hdr, viol, klcs>>
Fwd == /\ Ev("fwd") /\ phase = "streaming"
       /\ Cur.pos \in (last + 1)..Len(strm)
       /\ Kept(Cur.pos)                                              \* only kept messages are forwarded
       /\ \A p \in (last + 1)..(Cur.pos - 1) : ~Kept(p)             \* none is skipped, the order is kept
       /\ Cur.intact                                                 \* unchanged
       /\ last' = Cur.pos /\ nfwd' = nfwd + 1
       /\ UNCHANGED <<case, phase, hdr, strm, viol, klcs>>
StreamEnd == /\ Ev("send") /\ phase = "streaming"
             /\ \A p \in (last + 1)..Len(strm) : ~Kept(p)            \* every kept message was forwarded
             /\ Cur.passed = nfwd
             /\ Cur.passed + Cur.filtered = Len(strm)
             /\ phase' = "running"
             /\ UNCHANGED <<case, hdr, strm, last, nfwd, viol, klcs>>
\* the consumer behind the output function hung up (it refused the message after the nfwd-th one).  The function may fail
\* (no numbers are reported then); if it reports numbers, they have to add up to what it took from its input.
StreamHangupErr == /\ Ev("hangup_err") /\ phase = "streaming"
                   /\ phase' = "running"
                   /\ UNCHANGED <<case, hdr, strm, last, nfwd, viol, klcs>>
StreamHangupOk == /\ Ev("hangup_ok") /\ phase = "streaming"
                  /\ Cur.passed = nfwd
                  /\ Cur.passed + Cur.filtered = Len(strm) - Cur.left
                  /\ phase' = "running"
                  /\ UNCHANGED <<case, hdr, strm, last, nfwd, viol, klcs>>
ExportStart == /\ Ev("export") /\ phase = "running"
               /\ \A k \in 1..Len(Cur.s) : Cur.s[k] \in 1..Len(hdr.xmsgs)
               /\ strm' = Cur.s /\ last' = 0 /\ nfwd' = 0 /\ phase' = "exporting" /\ klcs' = {Cur.keep_lcs[k] : k \in 1..Len(Cur.keep_lcs)}
               /\ UNCHANGED <<case, hdr, viol>>
XK(p) == ExportKeep(hdr.F, hdr.xmsgs[strm[p]], klcs)
XFwd == /\ Ev("xfwd") /\ phase = "exporting"
        /\ Cur.pos \in (last + 1)..Len(strm)
        /\ XK(Cur.pos)
        /\ \A p \in (last + 1)..(Cur.pos - 1) : ~XK(p)
        /\ Cur.intact
        /\ last' = Cur.pos /\ nfwd' = nfwd + 1
        /\ UNCHANGED <<case, phase, hdr, strm, viol, klcs>>
XEnd == /\ Ev("xend") /\ phase = "exporting"
        /\ \A p \in (last + 1)..Len(strm) : ~XK(p)
        /\ Cur.exported = nfwd
        /\ phase' = "running"
        /\ UNCHANGED <<case, hdr, strm, last, nfwd, viol, klcs>>
End == /\ Ev("end") /\ phase = "running"
       /\ phase' = "ended" /\ UNCHANGED <<case, hdr, strm, last, nfwd, viol, klcs>>

Matches == ENABLED SetDecision \/ ENABLED StreamStart \/ ENABLED Fwd \/ ENABLED StreamEnd \/ ENABLED End
           \/ ENABLED StreamHangupErr \/ ENABLED StreamHangupOk \/ ENABLED SetBig
           \/ ENABLED ExportStart \/ ENABLED XFwd \/ ENABLED XEnd
Reject == /\ l <= Len(Rec) /\ Cur.ev # "reset" /\ phase \in {"running", "streaming", "exporting"} /\ ~Matches
          /\ PrintT(<<"CASE_REJECTED", case, l, ToJson(Cur)>>)
          /\ l' = l + 1 /\ phase' = "rejected" /\ viol' = viol \cup {case}
          /\ UNCHANGED <<case, hdr, strm, last, nfwd, klcs>>
SkipRest == /\ l <= Len(Rec) /\ Cur.ev # "reset" /\ phase \in {"rejected", "ended", "idle"}
            /\ l' = l + 1
            /\ IF phase = "ended" THEN viol' = viol \cup {case} /\ phase' = "rejected"   \* events after `end`
                                  ELSE UNCHANGED <<viol, phase>>
            /\ UNCHANGED <<case, hdr, strm, last, nfwd, klcs>>

Next == Reset \/ SetDecision \/ StreamStart \/ Fwd \/ StreamEnd \/ StreamHangupErr \/ StreamHangupOk \/ SetBig \/ ExportStart \/ XFwd \/ XEnd \/ End \/ Reject \/ SkipRest
Spec == Init /\ [][Next]_vars

AtEnd == l = Len(Rec) + 1
FinalViol == IF phase \in {"running", "streaming", "exporting"} THEN viol \cup {case} ELSE viol
Report == AtEnd => PrintT(<<"VERDICT", ToJson([violations |-> FinalViol, known |-> {}])>>)
Accepted == IF TLCGet("stats").diameter - 1 = Len(Rec) THEN TRUE
            ELSE Print(<<"TRACE_NOT_CONSUMED", TLCGet("stats").diameter, Len(Rec)>>, FALSE)
=============================================================================
