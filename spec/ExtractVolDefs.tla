--------------------------- MODULE ExtractVolDefs ---------------------------
(* C20 - which files of a directory are the volumes of a multi-volume archive (pure definitions, shared by
   ExtractVolumes.tla (enumeration) and ExtractVolumesTrace.tla (contract)).

   A directory entry is a record [prefix, ext, num, nd]: its file name is  <prefix><ext>.<num written with nd digits>
   (e.g. [prefix |-> "trace", ext |-> ".zip", num |-> 1, nd |-> 3] = trace.zip.001).
   An entry is a VOLUME iff the extension is a supported multi-volume one (".zip"; ".7z" only with libarchive,
   exact case) and the number has exactly three digits.  The volumes of the archive a volume `a` belongs to are exactly
   the volumes with the SAME prefix and the SAME extension (exact, case-sensitive) - nothing that merely starts with,
   ends with or contains the archive's name (trace.zip.old.zip.001, trace2.zip.001, xtrace.zip.001, Trace.zip.001,
   trace.ZIP.001, trace.zip.0010, trace.7z.001 are other archives or no volumes at all) - ordered by number.       *)
EXTENDS Integers, Sequences, FiniteSets

IsVol(e, sevenz) == e.nd = 3 /\ (e.ext = ".zip" \/ (sevenz /\ e.ext = ".7z"))
SameArchive(e, a) == e.prefix = a.prefix /\ e.ext = a.ext
\* indices (into the directory listing d) of the volumes of the archive that entry d[o] belongs to
OwnIdx(d, o, sevenz) == {i \in 1..Len(d) : IsVol(d[i], sevenz) /\ SameArchive(d[i], d[o])}
\* ... as the sequence ordered by volume number
RECURSIVE SortByNum(_, _)
SortByNum(d, S) == IF S = {} THEN <<>>
                   ELSE LET m == CHOOSE i \in S : \A j \in S : d[i].num <= d[j].num IN <<m>> \o SortByNum(d, S \ {m})
OwnVolumes(d, o, sevenz) == SortByNum(d, OwnIdx(d, o, sevenz))
=============================================================================
