---------------------------- MODULE PluginTrace ----------------------------
(* C19 - trace validation of recorded runs of real plugin chains (plugins from factory::get_plugin / AnonymizePlugin,
   run by plugins_process_msgs over real channels) against the contract of Plugins.tla.

   trace lines (ndjson):
     {"ev":"reset","case":n,"hdr":{"chain":[kinds],"ft":{"apid":id|"","ctid":id|""},"stream":name,"n":count}}
     {"ev":"in","pos":p,"vec":{idx,rx,ts,ecu,std,ext,vmm,noar,apid,ctid,pay,text,lc},"fshape":b,"cr":b,"a0":k}
                                  one per message sent into the chain, p = 1..n; vec = the observable fields (numbers are
                                  values or 31-bit hashes, ids are strings); fshape = FLDA-shaped (verbose log info, 5 arguments,
                                  framed by "FLDA"; whether it comes from the configured source is decided here from hdr.ft);
                                  cr = control response; a0 = byte length of its first argument (-1: none)
     {"ev":"out","vec":{...}}     one per message received from the chain, in order of arrival
     {"ev":"panic","msg":...}     the thread running the chain panicked (no message after it is forwarded)
     {"ev":"lcs","orig":[{ecu,s,e,n}],"anon":[{ecu,s,e,n}]}   lifecycle tables detected on the input and on the output stream
     {"ev":"end"}

   Contract: every `out` is the next input that was not dropped (inputs may be skipped only where Plugins!MayDrop),
   its changed fields are within Plugins!Allowed; with `anon` in the chain the new ids follow the pseudonym tables
   (Plugins!MapStep); `end` only when every remaining input may be dropped; `lcs`: both tables are equal as multisets
   after renaming the ECUs of the original table through the ECU pseudonym table.

   Known finding (deviation action, only with the switch on): KF_C19_AnonShortCtrlResponse - with `anon` in the chain
   the thread panics on a control response whose first argument is shorter than 4 bytes.                          *)
EXTENDS Integers, Sequences, FiniteSets, TLC, Json, IOUtils

CONSTANT KF_C19_AnonShortCtrlResponse

P == INSTANCE Plugins WITH MaxChain <- 0, MaxIn <- 0, chain <- <<>>, ins <- <<>>, i <- 1, st <- 1,
                           cur <- [ch |-> {}, ext |-> FALSE], outs <- <<>>, done <- FALSE

Rec == ndJsonDeserialize(IOEnv.TRACE)

VARIABLES l, case, phase, chain, ft, base, nin, p, emap, amap, cmap, viol, kfUsed
vars == <<l, case, phase, chain, ft, base, nin, p, emap, amap, cmap, viol, kfUsed>>

Init == /\ l = 1 /\ case = -1 /\ phase = "idle" /\ chain = <<>> /\ ft = [apid |-> "", ctid |-> ""] /\ base = 0 /\ nin = 0 /\ p = 0
        /\ emap = {} /\ amap = {} /\ cmap = {} /\ viol = {} /\ kfUsed = {}

Ev(e) == l <= Len(Rec) /\ Rec[l].ev = e /\ l' = l + 1
Cur == Rec[l]
InAt(q) == Rec[base + q]                       \* the q-th `in` event of the current case

Reset == /\ Ev("reset")
         /\ case' = Cur.case /\ chain' = Cur.hdr.chain /\ ft' = Cur.hdr.ft /\ base' = l /\ nin' = 0 /\ p' = 0
         /\ emap' = {} /\ amap' = {} /\ cmap' = {} /\ phase' = "feeding"
         /\ viol' = IF phase \in {"feeding", "running"} THEN viol \cup {case} ELSE viol
         /\ UNCHANGED kfUsed

In == /\ Ev("in") /\ phase = "feeding" /\ Cur.pos = nin + 1
      /\ nin' = nin + 1
      /\ UNCHANGED <<case, phase, chain, ft, base, p, emap, amap, cmap, viol, kfUsed>>

HasAnon == "anon" \in P!Range(chain)
Changed(m, m2) == {f \in P!Fields : m[f] # m2[f]}
FieldsOK(m, m2) == Changed(m, m2) \subseteq P!Allowed(chain, m.ext = 1, m2.ext = 1)
\* FLDA package of the configured source? (ft = the file transfer plugin's apid/ctid configuration from the case header)
IsFlda(q) == InAt(q).fshape /\ P!SourceMatch(ft, InAt(q).vec.ext = 1, InAt(q).vec.apid, InAt(q).vec.ctid)
Droppable(q) == P!MayDrop(chain, IsFlda(q))
\* the input an output stems from: the first input after the last forwarded one whose unchangeable fields agree, skipping
\* only inputs that may be dropped (0 = none).  Greedy choice of the first such input loses nothing: inputs that may be
\* skipped are exactly the droppable ones.
RECURSIVE FirstMatch(_, _)
FirstMatch(q, v) == IF q > nin THEN 0
                    ELSE IF FieldsOK(InAt(q).vec, v) THEN q
                    ELSE IF Droppable(q) THEN FirstMatch(q + 1, v)
                    ELSE 0
\* is a control response with a first argument of < 4 bytes the next input that reaches the anonymiser?
RECURSIVE ShortCtrlRespNext(_)
ShortCtrlRespNext(q) == IF q > nin THEN FALSE
                        ELSE IF InAt(q).cr /\ InAt(q).a0 >= 0 /\ InAt(q).a0 < 4 THEN TRUE
                        ELSE IF Droppable(q) THEN ShortCtrlRespNext(q + 1)
                        ELSE FALSE
AnonOK(m, m2) == /\ P!MapStep(emap, "", m.ecu, m2.ecu)
                 /\ (m.ext = 1 => /\ P!MapStep(amap, m2.ecu, m.apid, m2.apid)
                                  /\ P!MapStep(cmap, <<m2.ecu, m.apid>>, m.ctid, m2.ctid))

Out == /\ Ev("out") /\ phase \in {"feeding", "running"}
       /\ LET q == FirstMatch(p + 1, Cur.vec)
              m == InAt(q).vec
          IN /\ q # 0
             /\ p' = q
             /\ IF HasAnon
                THEN /\ AnonOK(m, Cur.vec)
                     /\ emap' = P!MapAdd(emap, "", m.ecu, Cur.vec.ecu)
                     /\ amap' = IF m.ext = 1 THEN P!MapAdd(amap, Cur.vec.ecu, m.apid, Cur.vec.apid) ELSE amap
                     /\ cmap' = IF m.ext = 1 THEN P!MapAdd(cmap, <<Cur.vec.ecu, m.apid>>, m.ctid, Cur.vec.ctid) ELSE cmap
                ELSE UNCHANGED <<emap, amap, cmap>>
       /\ phase' = "running"
       /\ UNCHANGED <<case, chain, ft, base, nin, viol, kfUsed>>

\* lifecycle tables of the original and of the anonymised stream
Renamed(row) == IF \E pr \in emap : pr[2] = row.ecu
                THEN [row EXCEPT !.ecu = (CHOOSE pr \in emap : pr[2] = row.ecu)[3]]
                ELSE [row EXCEPT !.ecu = "?"]
Count(s, r) == Cardinality({k \in DOMAIN s : s[k] = r})
Lcs == /\ Ev("lcs") /\ phase \in {"feeding", "running"} /\ HasAnon
       /\ p = nin                                                       \* the whole stream went through
       /\ Len(Cur.orig) = Len(Cur.anon)
       /\ LET ren == [k \in DOMAIN Cur.orig |-> Renamed(Cur.orig[k])] IN
             \A k \in DOMAIN ren : Count(ren, ren[k]) = Count(Cur.anon, ren[k])
       /\ phase' = "running"
       /\ UNCHANGED <<case, chain, ft, base, nin, p, emap, amap, cmap, viol, kfUsed>>

End == /\ Ev("end")
       /\ IF phase = "panicked" THEN TRUE
          ELSE phase \in {"feeding", "running"} /\ {q \in (p + 1)..nin : ~Droppable(q)} = {}    \* a state predicate: no branching
       /\ phase' = "ended"
       /\ UNCHANGED <<case, chain, ft, base, nin, p, emap, amap, cmap, viol, kfUsed>>

\* known finding #18: anonymize.rs:109 get(0..4).unwrap() on a control response with a first argument of < 4 bytes
KF_Panic == /\ KF_C19_AnonShortCtrlResponse
            /\ Ev("panic") /\ phase \in {"feeding", "running"} /\ HasAnon
            /\ ShortCtrlRespNext(p + 1)
            /\ phase' = "panicked"
            /\ kfUsed' = kfUsed \cup {[case |-> case, kf |-> "KF_C19_AnonShortCtrlResponse"]}
            /\ UNCHANGED <<case, chain, ft, base, nin, p, emap, amap, cmap, viol>>

Matches == ENABLED In \/ ENABLED Out \/ ENABLED Lcs \/ ENABLED End \/ ENABLED KF_Panic
Reject == /\ l <= Len(Rec) /\ Cur.ev # "reset" /\ phase \in {"feeding", "running", "panicked"} /\ ~Matches
          /\ PrintT(<<"CASE_REJECTED", case, l, ToJson(Cur)>>)
          /\ l' = l + 1 /\ phase' = "rejected" /\ viol' = viol \cup {case}
          /\ UNCHANGED <<case, chain, ft, base, nin, p, emap, amap, cmap, kfUsed>>
SkipRest == /\ l <= Len(Rec) /\ Cur.ev # "reset" /\ phase \in {"rejected", "ended", "idle"}
            /\ l' = l + 1
            /\ IF phase = "ended" THEN viol' = viol \cup {case} /\ phase' = "rejected"       \* events after `end`
                                  ELSE UNCHANGED <<viol, phase>>
            /\ UNCHANGED <<case, chain, ft, base, nin, p, emap, amap, cmap, kfUsed>>

Next == Reset \/ In \/ Out \/ Lcs \/ End \/ KF_Panic \/ Reject \/ SkipRest
Spec == Init /\ [][Next]_vars

AtEnd == l = Len(Rec) + 1
FinalViol == IF phase \in {"feeding", "running", "panicked"} THEN viol \cup {case} ELSE viol
Report == AtEnd => PrintT(<<"VERDICT", ToJson([violations |-> FinalViol, known |-> kfUsed])>>)
Accepted == IF TLCGet("stats").diameter - 1 = Len(Rec) THEN TRUE
            ELSE Print(<<"TRACE_NOT_CONSUMED", TLCGet("stats").diameter, Len(Rec)>>, FALSE)
=============================================================================
