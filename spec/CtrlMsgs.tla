------------------------------ MODULE CtrlMsgs ------------------------------
(* X07 - control-message payloads: the bounded scenario space, the model-level theorems and the scenario emission.

   One TLC state = one "line": a message shape (service id, byte order, request/response, status byte) plus an encoding
   and the set of mutations applied to it.  For the get_log_info family the encoding is Enc(status, byte order, value) of
   an abstract value from the bounded value space below and the mutations are: nothing, a trailer, EVERY truncation
   point, and EVERY count / length field set to 0, 1, actual-1, actual+1, actual+256, 0xffff.  The invariant AllInOne checks on every
   line
     RoundTrip    Parse(Enc(v) \o trailer) = the value (the grammar and the encoder agree, trailing bytes are ignored)
     TruncPrefix  every truncation of Enc(v) leaves the grammar early, and what was complete is a prefix of the value
     Refines      the decoders as coded (DecodeDesign) satisfy the contract (DecodeOk) on every mutation - strictly if
                  Fixed, else up to the finding KF_X07_DescLenOverrun (LogInfoKF)
     TextTotal    the text function is defined for every case (evaluated while emitting)
   and prints the line with TLC's predictions:
     SCN {fam,id,be,typ,noar,short,nost,st,lay,val,enc,trs, preds:[{dec,text}], muts:[[k,a,b,pred index,ok,kf,w]]}
   ok = the prediction satisfies the strict contract, kf = it needs the finding's allowance, w = where the
   payload's own reading ends ("complete", "status", or the place it runs out of bytes).                       *)
EXTENDS CtrlMsgsDefs, Json, SequencesExt

CONSTANTS Tier,      \* "tiny" | "quick" | "thorough": bounds of the value space
          Fixed,     \* TRUE: the design follows proposed_fixes/X07-desc-len-overrun.diff (no finding left)
          Emit       \* print scenarios

VARIABLE scn
vars == <<scn>>

-----------------------------------------------------------------------------
\* bounded value space: ids, levels and description contents are determined by the position, free are the number of
\* applications (0..2), of contexts per application (0..2) and the length of every description (0..3)
AppIds == << <<65, 66, 0, 0>>, <<66, 67, 65, 66>> >>                                          \* "AB", "BCAB"
CtxIds == << << <<67, 0, 0, 0>>, <<65, 65, 66, 67>> >>, << <<66, 66, 0, 0>>, <<67, 65, 66, 0>> >> >>      \* "C" "AABC" / "BB" "CAB"
LLTS == << << <<4, 0>>, <<255, 1>> >>, << <<6, 255>>, <<0, 2>> >> >>
DescOf(pos, n) == SubSeq(<<97 + pos, (IF pos % 2 = 0 THEN 10 ELSE 228), 128 + pos>>, 1, n)       \* letter, LF or a-umlaut, 0x80..
DescLens(st) == IF ~HasD(st) THEN {0}
                ELSE IF Tier = "thorough" THEN {0, 1, 2, 3} ELSE IF Tier = "quick" THEN {0, 2} ELSE {0, 1}
MaxCtx == IF Tier = "tiny" THEN 1 ELSE 2
AppVariants(st, i) ==
  UNION {{[id |-> AppIds[i],
           cs |-> [j \in 1..nc |-> [id |-> CtxIds[i][j], ll |-> LLTS[i][j][1], ts |-> LLTS[i][j][2], d |-> DescOf(3 * (i - 1) + j, f[j])]],
           d |-> DescOf(3 * (i - 1), la)] : f \in [1..nc -> DescLens(st)], la \in DescLens(st)} : nc \in 0..MaxCtx}
MkApp(i, nc, dl) == [id |-> AppIds[i],
                     cs |-> [j \in 1..nc |-> [id |-> CtxIds[i][j], ll |-> LLTS[i][j][1], ts |-> LLTS[i][j][2], d |-> DescOf(3 * (i - 1) + j, dl)]],
                     d |-> DescOf(3 * (i - 1), dl)]
Few == {<<>>, <<MkApp(1, 1, 1)>>, <<MkApp(1, 1, 1), MkApp(2, MaxCtx, 1)>>}       \* for status / layout mismatches
Vals(st) == {<<>>} \cup {<<a>> : a \in AppVariants(st, 1)} \cup {<<a, b>> : a \in AppVariants(st, 1), b \in AppVariants(st, 2)}
Trailers == << <<>>, <<114, 101, 109, 111>>, <<0>> >>                                         \* none, "remo" (dlt-daemon), one NUL

Line(fam, id, be, typ, noar, short, nost, st, lay, val, enc, mset) ==
  [fam |-> fam, id |-> id, be |-> be, typ |-> typ, noar |-> noar, short |-> short, nost |-> nost, st |-> st, lay |-> lay,
   val |-> val, enc |-> enc, mset |-> mset]
\* 1: get_log_info responses with all descriptions (status 7)   2: status 3..6   3: status and layout do not belong together
LogInfoLines(p) ==
  IF p = 1 THEN {Line("loginfo", 3, be, "response", 1, 4, 0, 7, 7, v, Enc(7, be = 1, v), "full") : be \in {0, 1}, v \in Vals(7)}
  ELSE IF p = 2 THEN UNION {{Line("loginfo", 3, be, "response", 1, 4, 0, st, st, v, Enc(st, be = 1, v), "full") : be \in {0, 1}, v \in Vals(st)} : st \in 3..6}
  ELSE {Line("loginfo", 3, be, "response", 1, 4, 0, st, lay, v, Enc(lay, be = 1, v), "none") :
           be \in {0, 1}, v \in Few, st \in {0, 1, 2, 3, 4, 5, 6, 7, 8, 9, 255}, lay \in {3, 6, 7}}
\* 4: get_software_version: len32 text (good lengths with every truncation, then corrupted length fields)
SwTexts == {<<>>, <<83>>, <<83, 87, 32, 49>>, <<83, 10, 228, 128, 9, 49, 13>>}
SwBogus(n) == {<<0, 0, 0, 0>>, <<0, 0, 0, 1>>, <<0, 0, 0, n + 1>>, <<0, 0, 255, 255>>, <<0, 1, 0, 0>>, <<0, 1, 0, n>>, <<128, 0, 0, 0>>,
               <<255, 255, 255, 255>>} \cup (IF n > 0 THEN {<<0, 0, 0, n - 1>>} ELSE {})
SwLines == {Line("swver", 19, be, "response", 1, 4, 0, st, 0, <<>>, U32(be = 1, <<0, 0, 0, Len(t)>>) \o t, "trunc") : be \in {0, 1}, t \in SwTexts, st \in {0}}
           \cup UNION {{Line("swver", 19, be, "response", 1, 4, 0, 0, 0, <<>>, U32(be = 1, q) \o t, "none") : q \in SwBogus(Len(t))} : be \in {0, 1}, t \in SwTexts}
           \cup {Line("swver", 19, 0, "response", 1, 4, 0, st, 0, <<>>, <<2, 0, 0, 0, 83, 87>>, "none") : st \in {1, 2, 5, 8}}
\* 5: the dlt-daemon user services
SomeIds == {<<65, 80, 73, 68>>, <<65, 34, 0, 0>>, <<0, 0, 0, 0>>, <<200, 31, 92, 126>>}           \* APID, A", empty, odd bytes
UnregLines == {Line("unreg", 3841, be, "response", 1, 4, 0, 0, 0, <<>>, a \o c \o <<67, 79, 77, 73>>, "trunc") : be \in {0, 1}, a \in SomeIds, c \in {<<67, 84, 88, 0>>, <<127, 1, 65, 66>>}}
ConnLines == {Line("conn", 3842, be, "response", 1, 4, 0, 0, 0, <<>>, <<s>> \o c, "trunc") : be \in {0, 1}, s \in {0, 1, 2, 3, 255}, c \in SomeIds}
TzOffs == {<<0, 0, 0, 0>>, <<0, 0, 14, 16>>, <<255, 255, 255, 240>>, <<127, 255, 255, 255>>, <<128, 0, 0, 0>>, <<255, 255, 185, 176>>}
TzLines == {Line("tz", 3843, be, "response", 1, 4, 0, 0, 0, <<>>, U32(be = 1, q) \o <<d>>, "trunc") : be \in {0, 1}, q \in TzOffs, d \in {0, 1, 2, 255}}
\* 6: every service id x request/response x a few payloads (status bytes 0..9, 16, 255; no status byte; less than 4 bytes)
TextIds == DOMAIN SvcNames \cup {0, 21, 3840, 3855, 4095, 65536, 50331648}
TextPls == {<<>>, <<1>>, <<7, 0, 0>>, <<222, 173, 190, 239, 0>>}
TextLines == {Line("text", id, be, typ, noar, 4, 0, st, 0, <<>>, p, "none") : id \in TextIds, be \in {0, 1}, typ \in {"request", "response"},
                                                                          noar \in {1}, st \in {0, 8}, p \in TextPls}
             \cup {Line("text", id, 0, "response", 2, 4, 0, st, 0, <<>>, <<>>, "none") : id \in {1, 3, 19, 3841, 3842, 3843, 4095}, st \in (0..9) \cup {16, 255}}
             \cup {Line("text", id, be, typ, 0, 4, 1, 0, 0, <<>>, <<>>, "none") : id \in TextIds, be \in {0, 1}, typ \in {"request", "response"}}
             \cup {Line("text", id, be, typ, 1, sh, 1, 0, 0, <<>>, <<>>, "none") : id \in {3, 4095}, be \in {0, 1}, typ \in {"request", "response"}, sh \in 0..3}
Lines(p) == IF p <= 3 THEN LogInfoLines(p) ELSE IF p = 4 THEN SwLines ELSE IF p = 5 THEN UnregLines \cup ConnLines \cup TzLines ELSE TextLines

-----------------------------------------------------------------------------
\* the mutations of a line
MutsOf(s) ==
  IF s.mset = "none" THEN {<<0, 0, 0>>}
  ELSE {<<0, t, 0>> : t \in 0..2} \cup {<<1, n, 0>> : n \in 0..(Len(s.enc) - 1)}
       \cup (IF s.mset = "full" THEN UNION {{<<2, f.o, x>> : x \in FieldVals(f.a)} : f \in FieldsOf(s.lay, s.val)} ELSE {})
PlOf(s, m) == IF s.nost = 1 THEN <<>> ELSE <<s.st>> \o Mutate(s.be = 1, s.enc, m, Trailers[(IF m[1] = 0 THEN m[2] ELSE 0) + 1])
H(s, m) == [id |-> s.id, be |-> s.be, typ |-> s.typ, noar |-> s.noar, short |-> s.short, pl |-> PlOf(s, m)]

\* theorems about the encoder and the grammar (get_log_info lines whose layout belongs to the status)
IsPrefixVal(r, P) ==
  LET n == Len(r.apps) IN
  /\ n <= Len(P) /\ r.apps = SubSeq(P, 1, n)
  /\ (r.cur # <<>> => /\ n < Len(P) /\ r.cur[1].id = P[n + 1].id
                      /\ LET c == r.cur[1]  k == Len(c.cs) IN
                         /\ k + Len(c.pend) <= Len(P[n + 1].cs) /\ c.cs = SubSeq(P[n + 1].cs, 1, k)
                         /\ (c.pend # <<>> => c.pend[1] = [P[n + 1].cs[k + 1] EXCEPT !.d = <<>>]))
RoundTrip(s) == \A t \in 1..Len(Trailers) :
                   LET r == Parse(s.st, s.be = 1, s.enc \o Trailers[t], FALSE) IN r.ok /\ r.apps = Project(s.st, s.val)
TruncPrefix(s) == \A n \in 0..(Len(s.enc) - 1) :
                   LET r == Parse(s.st, s.be = 1, Trunc(s.enc, n), FALSE) IN ~r.ok /\ IsPrefixVal(r, Project(s.st, s.val))
FieldsInside(s) == \A f \in FieldsOf(s.lay, s.val) : f.o + 2 <= Len(s.enc) /\ R16(s.be = 1, s.enc, f.o) = f.a
Theorems(s) == (s.fam = "loginfo" /\ s.lay = s.st /\ s.st \in 3..7) => RoundTrip(s) /\ TruncPrefix(s) /\ FieldsInside(s)

\* the design's prediction for one mutation and the contract's verdict on it
PredOf(s, m) ==
  LET h == H(s, m)
      svc == DecSvc(h)
      dec == DecodeDesign(h, Fixed)
      rs == Parse(h.pl[1], h.be = 1, Tail(h.pl), FALSE)                    \* (only evaluated for svc = "loginfo")
      ok == IF svc = "loginfo" THEN DecOk(rs, dec.apps) ELSE DecodeOk(h, dec)
      kf == ~ok /\ svc = "loginfo" /\ LogInfoKF(h.pl[1], h.be = 1, Tail(h.pl), dec.apps)
      \* where the payload's own reading ends (for the driver's path counters and stratified sampling)
      w == IF svc # "loginfo" THEN svc ELSE IF rs.ok THEN (IF rs.w = "status" THEN "status" ELSE "complete") ELSE rs.w
  IN [m |-> m, dec |-> dec, ok |-> ok, kf |-> kf, w |-> w,
      \* the text of a get_log_info response depends on the status and the decoded value only; elsewhere on the bytes
      tkey |-> IF svc = "loginfo" /\ s.typ = "response" THEN <<h.pl[1]>> ELSE h.pl]
TextOf(s, dec, tkey) ==
  TextPred([id |-> s.id, be |-> s.be, typ |-> s.typ, noar |-> s.noar, short |-> s.short, pl |-> tkey], dec)

AllInOne ==
  LET s == scn
      P == {PredOf(s, m) : m \in MutsOf(s)}
      keys == SetToSeq({[dec |-> p.dec, tkey |-> p.tkey] : p \in P})
      preds == [i \in 1..Len(keys) |-> [dec |-> keys[i].dec, text |-> TextOf(s, keys[i].dec, keys[i].tkey)]]
      Idx(p) == CHOOSE i \in 1..Len(keys) : keys[i] = [dec |-> p.dec, tkey |-> p.tkey]
      Ps == SetToSeq(P)
  IN /\ Theorems(s)
     /\ \A p \in P : p.ok \/ (p.kf /\ ~Fixed)
     /\ (Emit => PrintT(<<"SCN", ToJson([fam |-> s.fam, id |-> s.id, be |-> s.be, typ |-> s.typ, noar |-> s.noar, short |-> s.short,
                                          nost |-> s.nost, st |-> s.st, lay |-> s.lay, val |-> s.val, enc |-> s.enc, trs |-> Trailers,
                                          preds |-> preds,
                                          muts |-> [i \in 1..Len(Ps) |-> <<Ps[i].m[1], Ps[i].m[2], Ps[i].m[3], Idx(Ps[i]),
                                                                          IF Ps[i].ok THEN 1 ELSE 0, IF Ps[i].kf THEN 1 ELSE 0, Ps[i].w>>]])>>))

NParts == 6
Init == \E p \in 1..NParts : scn \in Lines(p)
Next == UNCHANGED scn
Spec == Init /\ [][Next]_vars
=============================================================================
