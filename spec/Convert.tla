------------------------------ MODULE Convert ------------------------------
(* C14 - `adlt convert` emits exactly the selected messages (src/bin/adlt/convert.rs).

   Contract = design for this area (DESIGN.md section 6, C14).

   S   the *unfiltered annotated stream*: what the tool shows without any selection, in order.  One record per
       message: [index, key, lc, ecu, apid, ctid, ext, hash]  (index = number shown by the tool, key = identity of the
       message in the generated input, lc = lifecycle id, ext = has an extended header, hash = hash of the
       serialised message).
   q   the options: [b, e, lcs, ff, eac, sort, style, ofile]
         b, e    index window (absent = 0 / MaxIdx)         lcs   set of lifecycle ids ({} = no selection)
         ff      filters of the -f file, eac  filters of the --eac expressions (both sequences of filter records)
         sort    --sort            style  "a" | "x" | "s" | "none"          ofile  -o given

   A filter record is [kind, en, ecu, apid, ctid, rx]: kind "pos" | "neg" | "marker", en = enabled, "" = criterion absent.
   Only literal ECU / APID / CTID criteria are needed here (the full criterion language is C11's business);
   the set semantics is C12's Keep: positive OR (no enabled positive = pass), negative veto, markers/disabled ignored.

   Sel(S, q) is the set of positions of S satisfying all given selections.  The output contract: every sink selected
   by the options (screen for -a/-x/-s, the -o file) receives exactly Sel, each message once; in ascending S order
   without --sort, in any order with --sort.  Without --sort the contract admits exactly one complete output per
   sink (UnsortedDeterministic) - so two runs that differ only in the order of the file arguments and are both
   accepted against the same S have identical event sequences (PermuteFiles).                                   *)
EXTENDS Integers, Sequences, FiniteSets, TLC

MaxIdx == 2147483647
NoId == ""

Range(s) == {s[i] : i \in DOMAIN s}
Rev(s) == [i \in 1..Len(s) |-> s[Len(s) + 1 - i]]

-----------------------------------------------------------------------------
\* filters (literal ids only) and filter sets
\* A criterion is a literal id or - for --eac parts containing a regex character - a regular expression.  The code compiles
\* it with regex::bytes::Regex::new and tests is_match on the 4 id bytes: NOT anchored.  The forms used (w, v = character
\* sequences; the message carries its ids also as character sequences ecuc / apidc / ctidc, without the zero padding):
\*   alt      "w|v"      the id contains w or contains v            prefix   "w.*"   the id contains w
\*   aprefix  "^w"       the id starts with w                       class    "w[v]"  the id contains w followed by a character of v
\* A literal part selects exactly the id equal to it.
NoRx == [t |-> "none", w |-> <<>>, v |-> <<>>, s |-> ""]
Contains(cs, w) == \E i \in 1..(Len(cs) - Len(w) + 1) : SubSeq(cs, i, i + Len(w) - 1) = w
StartsWith(cs, w) == Len(w) <= Len(cs) /\ SubSeq(cs, 1, Len(w)) = w
RxMatch(r, cs) == CASE r.t = "alt" -> Contains(cs, r.w) \/ Contains(cs, r.v)
                    [] r.t = "prefix" -> Contains(cs, r.w)
                    [] r.t = "aprefix" -> StartsWith(cs, r.w)
                    [] r.t = "class" -> \E k \in DOMAIN r.v : Contains(cs, Append(r.w, r.v[k]))
                    [] OTHER -> FALSE
Crit(lit, r, present, id, cs) == IF r.t = "none" THEN lit = NoId \/ (present /\ lit = id)
                                 ELSE present /\ RxMatch(r, cs)
Match(f, m) == /\ f.en
               /\ Crit(f.ecu, f.rx.ecu, TRUE, m.ecu, m.ecuc)
               /\ Crit(f.apid, f.rx.apid, m.ext, m.apid, m.apidc)
               /\ Crit(f.ctid, f.rx.ctid, m.ext, m.ctid, m.ctidc)
Pos(F) == {k \in DOMAIN F : F[k].en /\ F[k].kind = "pos"}
Neg(F) == {k \in DOMAIN F : F[k].en /\ F[k].kind = "neg"}
Keep(F, m) == /\ (Pos(F) = {} \/ (\E k \in Pos(F) : Match(F[k], m)))
              /\ ~(\E k \in Neg(F) : Match(F[k], m))

\* the selection
Filters(q) == q.ff \o q.eac
InWindow(q, m) == q.b <= m.index /\ m.index <= q.e
InLcs(q, m) == q.lcs = {} \/ m.lc \in q.lcs
Sel(S, q) == {i \in DOMAIN S : InWindow(q, S[i]) /\ InLcs(q, S[i]) /\ Keep(Filters(q), S[i])}

Sinks(q) == (IF q.style # "none" THEN {"scr"} ELSE {}) \cup (IF q.ofile THEN {"file"} ELSE {})

\* may position i be the next message on a sink that already got the positions in `got` (a sequence)?
\* (the ...Sel variants take the already computed selection - trace validation evaluates Sel once per run)
CanEmitSel(sel, sorted, got, i) == /\ i \in sel \ Range(got)
                                   /\ (~sorted => \A j \in sel \ Range(got) : i <= j)
SinkDoneSel(sel, got) == sel \ Range(got) = {}
Remaining(S, q, got) == Sel(S, q) \ Range(got)
CanEmit(S, q, got, i) == CanEmitSel(Sel(S, q), q.sort, got, i)
SinkDone(S, q, got) == SinkDoneSel(Sel(S, q), got)

\* classification of a concrete window / lifecycle selection (used for coverage accounting and to tie the class names
\* in the scenarios to the numbers the driver chose; n = Len(S), ids = lifecycle ids occurring in S)
WinClass(b, e, n) == IF b = 0 /\ e = MaxIdx THEN "none"
                     ELSE IF b > e THEN "empty"
                     ELSE IF b >= n THEN "beyond"
                     ELSE IF e = MaxIdx THEN "b"
                     ELSE IF b = 0 THEN "e"
                     ELSE "in"
LcsClass(lcs, ids) == IF lcs = {} THEN "none"
                      ELSE IF lcs \cap ids = {} THEN "absent"
                      ELSE IF Cardinality(lcs) = 1 THEN "one"
                      ELSE "several"

-----------------------------------------------------------------------------
\* the bounded model: every stream of Streams x every option record of Opts (spec/mc/MCConvert.tla)
CONSTANTS Streams, Opts

VARIABLES A, o, scr, fil, done
vars == <<A, o, scr, fil, done>>

Init == A \in Streams /\ o \in Opts /\ scr = <<>> /\ fil = <<>> /\ done = FALSE

Line(i) == /\ ~done /\ "scr" \in Sinks(o) /\ CanEmit(A, o, scr, i)
           /\ scr' = Append(scr, i) /\ UNCHANGED <<A, o, fil, done>>
FileMsg(i) == /\ ~done /\ "file" \in Sinks(o) /\ CanEmit(A, o, fil, i)
              /\ fil' = Append(fil, i) /\ UNCHANGED <<A, o, scr, done>>
End == /\ ~done
       /\ ("scr" \in Sinks(o) => SinkDone(A, o, scr))
       /\ ("file" \in Sinks(o) => SinkDone(A, o, fil))
       /\ done' = TRUE /\ UNCHANGED <<A, o, scr, fil>>

Next == (\E i \in DOMAIN A : Line(i) \/ FileMsg(i)) \/ End
Spec == Init /\ [][Next]_vars /\ WF_vars(Next)

-----------------------------------------------------------------------------
\* the property (C14) on the model
NoDup(s) == \A i, j \in DOMAIN s : i # j => s[i] # s[j]
Ascending(s) == \A i \in 1..(Len(s) - 1) : s[i] < s[i + 1]
OnlySelected == Range(scr) \subseteq Sel(A, o) /\ Range(fil) \subseteq Sel(A, o)
EachOnce == NoDup(scr) /\ NoDup(fil)
OrderedUnlessSorted == ~o.sort => Ascending(scr) /\ Ascending(fil)
CompleteAtEnd == done => /\ ("scr" \in Sinks(o) => Range(scr) = Sel(A, o))
                         /\ ("file" \in Sinks(o) => Range(fil) = Sel(A, o))
                         /\ ("scr" \notin Sinks(o) => scr = <<>>)
                         /\ ("file" \notin Sinks(o) => fil = <<>>)
UnsortedDeterministic == ~o.sort => /\ Cardinality({i \in DOMAIN A : CanEmit(A, o, scr, i)}) <= 1
                                    /\ Cardinality({i \in DOMAIN A : CanEmit(A, o, fil, i)}) <= 1
\* laws of the selection itself
SelLaws == /\ Sel(A, o) \subseteq {i \in DOMAIN A : o.b <= A[i].index /\ A[i].index <= o.e}
           /\ (o.lcs # {} => \A i \in Sel(A, o) : A[i].lc \in o.lcs)
           /\ ((o.b = 0 /\ o.e = MaxIdx /\ o.lcs = {} /\ Filters(o) = <<>>) => Sel(A, o) = DOMAIN A)
           /\ Sel(A, o) = Sel(A, [o EXCEPT !.sort = ~o.sort, !.style = "none", !.ofile = ~o.ofile])
           /\ Sel(A, o) = Sel(A, [o EXCEPT !.b = 0, !.e = MaxIdx]) \cap Sel(A, [o EXCEPT !.lcs = {}, !.ff = <<>>, !.eac = <<>>])
           /\ Sel(A, o) = Sel(A, [o EXCEPT !.ff = o.eac, !.eac = o.ff])       \* order of the filters is irrelevant
           /\ Sel(A, o) = Sel(A, [o EXCEPT !.ff = Rev(o.ff) \o o.ff, !.eac = Rev(o.eac)])   \* ... and so are duplicates: a function of the SET
Terminates == <>done
=============================================================================
