----------------------------- MODULE LcListing -----------------------------
(* C07, listing clause - design model of get_sorted_lifecycles_as_vec (src/lifecycle/mod.rs).

   A table is a set of lifecycles [id, start, res] where res = 0 or the id of an OLDER lifecycle it resumes (ids grow with
   creation; the resumed lifecycle may be missing from the table, e.g. after a merge).  The repaired listing (fix: 45e0114)
   sorts by the key (SortTime, id) with

        SortTime(lc) = start(lc)                                   if lc resumes nothing that is listed
                     = Max(start(lc), SortTime(resumed lc) + 1)    otherwise

   TLC checks over ALL tables within the bounds: the key is a total order, so the listing exists and is unique; it is a
   permutation of the table; a resumed lifecycle is listed after the one it resumes; without resumes it is ordered by
   start time.  `OldComparatorConsistent` states what the pinned snapshot's pairwise comparator would have needed
   (transitivity) - TLC refutes it with a 3-lifecycle table (config LcListing_snapshot.cfg), which is finding #14.     *)
EXTENDS Integers, Sequences, FiniteSets, TLC

CONSTANTS MaxLcs, Starts

VARIABLES table, done
vars == <<table, done>>

Lc(i, s, r) == [id |-> i, start |-> s, res |-> r]
\* all tables with ids 1..k (any subset may be missing), starts in Starts, resume links to smaller ids or 0; chosen step by step so
\* that TLC enumerates the initial states without building one big set
Init == /\ done = FALSE
        /\ \E k \in 0..MaxLcs :
             \E st \in [1..k -> Starts] :
               \E rs \in {f \in [1..k -> 0..k] : \A i \in 1..k : f[i] < i} :
                 \E present \in SUBSET (1..k) :
                   table = {Lc(i, st[i], rs[i]) : i \in present}
Next == ~done /\ done' = TRUE /\ UNCHANGED table
Spec == Init /\ [][Next]_vars

ById(i) == CHOOSE lc \in table : lc.id = i
Listed(i) == \E lc \in table : lc.id = i
Max(a, b) == IF a > b THEN a ELSE b

RECURSIVE SortTime(_)
SortTime(lc) == IF lc.res # 0 /\ Listed(lc.res) /\ lc.res < lc.id
                THEN Max(lc.start, SortTime(ById(lc.res)) + 1)
                ELSE lc.start
KeyLess(a, b) == SortTime(a) < SortTime(b) \/ (SortTime(a) = SortTime(b) /\ a.id < b.id)

\* the listing = the unique sequence sorted by the key
Listings == {s \in [1..Cardinality(table) -> table] :
               /\ \A i, j \in DOMAIN s : i < j => KeyLess(s[i], s[j])}
Pos(s, lc) == CHOOSE k \in DOMAIN s : s[k] = lc

TotalOrder == \A a, b \in table : a # b => (KeyLess(a, b) \/ KeyLess(b, a)) /\ ~(KeyLess(a, b) /\ KeyLess(b, a))
ExistsUnique == Cardinality(Listings) = 1
Obligations == \A s \in Listings :
   /\ {s[k] : k \in DOMAIN s} = table                                                       \* each lifecycle exactly once
   /\ \A lc \in table : (lc.res # 0 /\ Listed(lc.res)) => Pos(s, ById(lc.res)) < Pos(s, lc)  \* never before the one it resumes
   /\ ((\A lc \in table : lc.res = 0) => \A i, j \in DOMAIN s : i < j => s[i].start <= s[j].start)

\* the pinned snapshot's pairwise comparator
OldLess(a, b) == IF b.res = a.id THEN TRUE ELSE IF a.res = b.id THEN FALSE ELSE a.start < b.start
OldComparatorConsistent == \A a, b, c \in table : (OldLess(a, b) /\ OldLess(b, c)) => ~OldLess(c, a)
=============================================================================
