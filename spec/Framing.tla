------------------------------- MODULE Framing -------------------------------
(* C01 - design model of DltMessageIterator::next (src/utils/dltmessageiterator.rs) over the two parse functions of
   src/dlt/mod.rs, on a scaled token grammar (DESIGN.md section 6, C01).

   Tokens are numbers: 9 = storage frame marker (S), 8 = serial frame marker (R), everything else is data.
     storage message  <<S, h, L, p1..pL>>   (MinStorage = 3 tokens  ~ 20 bytes)
     serial  message  <<R, L, p1..pL>>      (MinSerial  = 2 tokens  ~  8 bytes; MinSerial < MinStorage as in the code)
   A stream is a sequence of segments of ONE framing: messages and marker-free garbage runs (the domain of C01).
   The iterator is the three-mode resynchronisation machine of the code (undetected -> storage | serial, latched by the
   first success): storage probe first unless serial is latched; on `invalid` fall through to the serial probe (undetected)
   or skip one token (storage latched); on `notenough` stop. The whole rest of the stream is visible (Cursor / low mark
   >= maximal message).

   SCALE NOTE: garbage runs of the token model are at most MaxG tokens, i.e. never longer than a maximal message. The real
   iterator carries byte counters (bytes_skipped, bytes_processed) across next() calls; behaviour that depends on their
   magnitude (e.g. a run of > 65551 = 16 + 65535 garbage bytes before the first message) is outside this abstraction and is
   covered on the real code by the driver's scale classes (harness/src/bin/c01.rs: one run of 65551 / 65552 / 65553 /
   131072 / 200000 bytes at every position, both framings, partial markers at the 64 KiB boundaries, every front-end),
   judged by the same contract FramingTrace.tla.

   Properties (TLC, all streams within the bounds): when the iterator stops, the yielded messages are exactly the
   stream's messages, in order, numbered from `start`; skipped = garbage tokens (a trailing run shorter than a minimal
   message may stay unconsumed); off <= Len(stream).
   FINDING (DESIGN.md Appendix C #1): in undetected mode the storage probe answers `notenough` as soon as fewer than
   MinStorage tokens remain and the iterator stops - a serial message that starts within the last MinStorage-1 tokens of the
   input is never found if nothing was recognised before (shortest exhibit: the 2-token stream <<R,0>>). Named deviation
   KFc; FixShortSerial = TRUE models the repair (fix: e31fecc + follow-up: undetected + storage `notenough` + fewer than
   MinStorage tokens left -> still try the serial probe; with more data left a `notenough` stops the iterator in every mode,
   which keeps the parse of a suffix independent of preceding messages - C04). *)
EXTENDS Integers, Sequences, FiniteSets, TLC, Json

CONSTANTS MaxL,            \* payload classes 0..MaxL (tokens)
          MaxG,            \* garbage runs of 1..MaxG tokens
          N,               \* stream length bound (tokens)
          MaxSegs,         \* segments per stream
          Starts,          \* start indices
          KFShortSerial,   \* BOOLEAN: accept the known deviation
          FixShortSerial   \* BOOLEAN: model the proposed repair

S == 9
R == 8
MinStorage == 3
MinSerial == 2
Val(t) == IF t \in {S, R} THEN 0 ELSE t

Msg(n) == [k |-> "m", n |-> n]
Garb(n) == [k |-> "g", n |-> n]
SegSet == {Msg(n) : n \in 0..MaxL} \cup {Garb(n) : n \in 1..MaxG}
Hdr(fr) == IF fr = "storage" THEN MinStorage ELSE MinSerial
SegLen(fr, s) == IF s.k = "g" THEN s.n ELSE Hdr(fr) + s.n
SegToks(fr, s) == IF s.k = "g" THEN [i \in 1..s.n |-> 1]
                  ELSE IF fr = "storage" THEN <<S, 0, s.n>> \o [i \in 1..s.n |-> 0]
                  ELSE <<R, s.n>> \o [i \in 1..s.n |-> 0]
RECURSIVE Flat(_, _)
Flat(fr, sg) == IF sg = <<>> THEN <<>> ELSE SegToks(fr, Head(sg)) \o Flat(fr, Tail(sg))
RECURSIVE TotLen(_, _)
TotLen(fr, sg) == IF sg = <<>> THEN 0 ELSE SegLen(fr, Head(sg)) + TotLen(fr, Tail(sg))
Canonical(sg) == \A i \in 1..(Len(sg) - 1) : ~(sg[i].k = "g" /\ sg[i + 1].k = "g")
SegSeqs(fr) == {sg \in UNION {[1..k -> SegSet] : k \in 0..MaxSegs} : Canonical(sg) /\ TotLen(fr, sg) <= N}

\* ---- the two parse functions on a visible window w
ParseSto(w) ==
  IF Len(w) < MinStorage THEN [k |-> "ne", n |-> 0]
  ELSE IF w[1] # S THEN [k |-> "inv", n |-> 0]
  ELSE LET tot == MinStorage + Val(w[3]) IN
       IF Len(w) < tot THEN [k |-> "ne", n |-> 0]
       ELSE IF Len(w) - tot >= 1 /\ w[tot + 1] # S /\ (\E i \in 2..tot : w[i] = S) THEN [k |-> "inv", n |-> 0]
       ELSE [k |-> "ok", n |-> tot]
ParseSer(w) ==
  IF Len(w) < MinSerial THEN [k |-> "ne", n |-> 0]
  ELSE IF w[1] # R THEN [k |-> "inv", n |-> 0]
  ELSE LET tot == MinSerial + Val(w[2]) IN
       IF Len(w) < tot THEN [k |-> "inv", n |-> 0]                 \* as coded: invalid, not notenough
       ELSE IF Len(w) - tot >= 1 /\ w[tot + 1] # R /\ (\E i \in 2..tot : w[i] = R) THEN [k |-> "inv", n |-> 0]
       ELSE [k |-> "ok", n |-> tot]

VARIABLES framing, segs, start, off, mode, skipped, out, done
vars == <<framing, segs, start, off, mode, skipped, out, done>>

Stream == Flat(framing, segs)
Rest == SubSeq(Stream, off + 1, Len(Stream))

Init == /\ framing \in {"storage", "serial"}
        /\ segs \in SegSeqs(framing)
        /\ start \in Starts
        /\ off = 0 /\ mode = "undet" /\ skipped = 0 /\ out = <<>> /\ done = FALSE

Yield(n, m) == /\ out' = Append(out, [off |-> off, len |-> n, index |-> start + Len(out)])
               /\ off' = off + n /\ mode' = m /\ UNCHANGED <<skipped, done>>
Skip1 == off' = off + 1 /\ skipped' = skipped + 1 /\ UNCHANGED <<out, mode, done>>
Stop == done' = TRUE /\ UNCHANGED <<off, skipped, out, mode>>
TrySerial == LET r == ParseSer(Rest) IN
             IF r.k = "ok" THEN Yield(r.n, "serial") ELSE IF r.k = "inv" THEN Skip1 ELSE Stop

\* one iteration of the loop in next()
Step == /\ ~done
        /\ IF mode = "serial" THEN TrySerial
           ELSE LET r == ParseSto(Rest) IN
                IF r.k = "ok" THEN Yield(r.n, "storage")
                ELSE IF r.k = "inv" THEN (IF mode = "storage" THEN Skip1 ELSE TrySerial)
                ELSE IF FixShortSerial /\ mode = "undet" /\ Len(Rest) < MinStorage THEN TrySerial
                ELSE Stop
        /\ UNCHANGED <<framing, segs, start>>
Next == Step
Spec == Init /\ [][Next]_vars /\ WF_vars(Next)

-----------------------------------------------------------------------------
\* ground truth from the segment list
RECURSIVE Exp(_, _, _, _)
Exp(sg, o, i, acc) == IF sg = <<>> THEN acc
                      ELSE LET s == Head(sg) n == SegLen(framing, s) IN
                           IF s.k = "g" THEN Exp(Tail(sg), o + n, i, acc)
                           ELSE Exp(Tail(sg), o + n, i + 1, Append(acc, [off |-> o, len |-> n, index |-> i]))
ExpOut == Exp(segs, 0, start, <<>>)
RECURSIVE GarbSum(_)
GarbSum(sg) == IF sg = <<>> THEN 0 ELSE (IF Head(sg).k = "g" THEN Head(sg).n ELSE 0) + GarbSum(Tail(sg))
NMsgs == Len(ExpOut)
Trailing == IF segs # <<>> /\ segs[Len(segs)].k = "g" THEN segs[Len(segs)].n ELSE 0
Leading == IF segs # <<>> /\ segs[1].k = "g" THEN segs[1].n ELSE 0
Unconsumed == Len(Stream) - off
MinEnd == IF framing = "serial" /\ NMsgs > 0 THEN MinSerial ELSE MinStorage

Good == /\ out = ExpOut
        /\ Unconsumed >= 0 /\ Unconsumed < MinEnd /\ Unconsumed <= Trailing
        /\ skipped = GarbSum(segs) - Unconsumed
\* the known deviation: nothing recognised yet, fewer than MinStorage tokens left, serial framing
KFc == /\ framing = "serial" /\ NMsgs > 0 /\ out = <<>>
       /\ Unconsumed < MinStorage /\ skipped = off /\ off <= Leading

Property == done => (Good \/ (KFShortSerial /\ KFc))
Bounded == off <= Len(Stream) /\ skipped <= off
Numbered == \A i \in 1..Len(out) : out[i].index = start + i - 1
Terminates == <>done

Emit == done => PrintT(<<"SCN", ToJson([framing |-> framing, start |-> start, segs |-> segs, nout |-> Len(out), off |-> off,
                                        skipped |-> skipped, good |-> Good, kf |-> KFc])>>)
=============================================================================
