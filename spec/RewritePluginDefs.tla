------------------------- MODULE RewritePluginDefs -------------------------
(* X06 - the CONTRACT of adlt's Rewrite plugin (src/plugins/rewrite.rs) and of the plugin factory (src/plugins/factory.rs),
   as operators shared by the design model (RewritePlugin.tla) and the trace module (RewritePluginTrace.tla).

   Representation
     character  ASCII code (integer); token = sequence of characters without a blank; text = sequence of tokens
                (the concrete text is the tokens joined by single blanks, the empty sequence is the empty text)
     time stamp [s, f]: s * 10000 + f units of 0.1 ms (TLC integers are 32 bit: u32::MAX = [429496, 7295]); AnyTs = not required
     pattern    [as, ae, el]: optional ^ / $ anchors and elements joined by single blanks:
                  lit   the word w                      tok   (?<g>\S+)   one token        num  (?<g>\d+\.\d+)  one decimal token
                  rest  (?<g>.* )  all remaining tokens (only as last element; written without the blank)   opt  (?:(?<g>\S+) )?  (never last)
                  glued (?<g>.* ) written directly behind the preceding `lit` / `tok` element, without the blank (only as last
                        element, never first): it captures the rest of the text from the end of that token on, i.e. with its
                        leading blank - as token sequence: an EMPTY token followed by the remaining tokens. An empty token in
                        a text stands for two adjacent blanks (or a leading / trailing one); `tok` and `opt` need a non-empty one.
                g = "" is an unnamed capturing group. The domain guarantees that the token-level reading below is the
                regex engine's reading: literal words occur in texts only as whole tokens, a token that starts with
                digits '.' digits is a decimal as a whole, in a pattern without ^ a `num` element is preceded by a `lit` or `tok`
                element (it cannot start inside a token), without $ it is not the last element.
     filter     [en, not, ecu, apid, ctid, pk, pw]: enabled flag, negation, id criteria ("" = not set), payload criterion
                (none / has: the text contains the word pw / first: the text starts with the word pw)
     message    [ecu, hasext, apid, ctid, ts, pthas, pt, raw]: pt = payload text set by an earlier plugin (pthas), raw = the
                text the payload itself decodes to
   The statement (checks/x06.py META) in operators:
     Text          the text a rule sees = payload text if set, else the decoded payload
     FMatch        which messages a rule applies to (filter); Search: payload regex, leftmost match, greedy, backtracking order
     Outcomes      what ONE rule may do to a message: nothing unless filter and regex match; group `text` that took part ->
                   payload text := capture; group `timeStamp` that took part and holds ONE decimal number -> time stamp :=
                   number * 10000 rounded to nearest (exact ties: either neighbour; outside 0..u32::MAX: unchanged or the
                   nearest bound); a capture that is no number (starts with a letter other than i/n) -> unchanged; other
                   spellings a float parser may or may not take (exponents, inf, nan, ...) -> not required (AnyTs);
                   groups with other names, unnamed groups, groups that did not take part -> nothing.
                   KF (known finding X06 TextGroupUnset): a `text` group that did not take part erases a set payload text.
     Chain         the rules of all active Rewrite plugins in configured order, each working on the result of the previous
     Creates*      which configurations yield a plugin                                                                     *)
EXTENDS Integers, Sequences, FiniteSets

Idx(s) == 1..Len(s)
IsDigit(c) == c >= 48 /\ c <= 57
IsLetter(c) == (c >= 65 /\ c <= 90) \/ (c >= 97 /\ c <= 122)

-----------------------------------------------------------------------------
\* time stamps
Ts(s, f) == [s |-> s, f |-> f]
ZeroTs == Ts(0, 0)
MaxTs == Ts(429496, 7295)                      \* u32::MAX
AnyTs == Ts(-1, -1)
InRange(p) == p.s < 429496 \/ (p.s = 429496 /\ p.f <= 7295)
Inc(p) == IF p.f = 9999 THEN Ts(p.s + 1, 0) ELSE Ts(p.s, p.f + 1)

\* decimal numbers: [+-] digits [. digits] with at least one digit
Body(t) == IF Len(t) > 0 /\ t[1] \in {43, 45} THEN SubSeq(t, 2, Len(t)) ELSE t
IsNeg(t) == Len(t) > 0 /\ t[1] = 45
Dots(b) == {i \in Idx(b) : b[i] = 46}
IsDecimal(t) == LET b == Body(t) IN
  /\ Len(b) > 0
  /\ \A i \in Idx(b) : IsDigit(b[i]) \/ b[i] = 46
  /\ Cardinality(Dots(b)) <= 1
  /\ \E i \in Idx(b) : IsDigit(b[i])
DotPos(b) == IF Dots(b) = {} THEN Len(b) + 1 ELSE CHOOSE i \in Dots(b) : TRUE
IntDigits(b) == SubSeq(b, 1, DotPos(b) - 1)
FracDigits(b) == SubSeq(b, DotPos(b) + 1, Len(b))
NonZero(d) == {i \in Idx(d) : d[i] # 48}
Sig(d) == IF NonZero(d) = {} THEN <<>> ELSE SubSeq(d, CHOOSE i \in NonZero(d) : \A j \in NonZero(d) : i <= j, Len(d))
RECURSIVE ValOf(_)
ValOf(d) == IF d = <<>> THEN 0 ELSE ValOf(SubSeq(d, 1, Len(d) - 1)) * 10 + (d[Len(d)] - 48)
Huge(d) == Len(Sig(d)) > 6                     \* >= 1 000 000 s: beyond u32::MAX * 0.1 ms in any case
Pad4(fr) == [i \in 1..4 |-> IF i <= Len(fr) THEN fr[i] ELSE 48]
\* the digits behind the fourth fractional digit decide the rounding: 0 = down, 1 = up; both at an exact tie and beyond
\* the resolution of a 64-bit float (more than 9 fractional digits)
RoundChoices(fr) ==
  LET r == SubSeq(fr, 5, Len(fr)) IN
  IF NonZero(r) = {} THEN {0}
  ELSE IF Len(fr) > 9 THEN {0, 1}
  ELSE IF r[1] < 53 THEN {0}
  ELSE IF r[1] > 53 THEN {1}
  ELSE IF NonZero(SubSeq(r, 2, Len(r))) = {} THEN {0, 1} ELSE {1}
\* a capture that certainly is no number for any float parser
Wordy(t) == Len(t) > 0 /\ IsLetter(t[1]) /\ t[1] \notin {73, 105, 78, 110}

\* allowed new time stamps when the token t is captured as `timeStamp` and the time stamp is cur
TsResults(t, cur) ==
  IF IsDecimal(t) THEN
    LET b == Body(t)
        ip == IntDigits(b)
        fr == FracDigits(b)
    IN IF Huge(ip) THEN (IF IsNeg(t) THEN {cur, ZeroTs} ELSE {cur, MaxTs})
       ELSE LET base == Ts(ValOf(Sig(ip)), ValOf(Pad4(fr))) IN
            UNION {LET m == IF r = 1 THEN Inc(base) ELSE base IN
                   IF IsNeg(t) THEN (IF m = ZeroTs THEN {ZeroTs} ELSE {cur, ZeroTs})
                   ELSE (IF InRange(m) THEN {m} ELSE {cur, MaxTs}) : r \in RoundChoices(fr)}
  ELSE IF Wordy(t) THEN {cur}
  ELSE {AnyTs}
\* a capture of several tokens (or of nothing) is no number
TsOfCapture(v, cur) == IF Len(v) = 1 THEN TsResults(v[1], cur) ELSE {cur}

-----------------------------------------------------------------------------
\* payload regex on token level
IsNumTok(t) == /\ Cardinality(Dots(t)) = 1 /\ DotPos(t) > 1 /\ DotPos(t) < Len(t)
               /\ \A i \in Idx(t) : IsDigit(t[i]) \/ t[i] = 46
NoCap == [part |-> FALSE, v |-> <<>>]
Cap(v) == [part |-> TRUE, v |-> v]
Fail == [ok |-> FALSE, caps |-> <<>>]
Cons(c, r) == IF r.ok THEN [ok |-> TRUE, caps |-> <<c>> \o r.caps] ELSE Fail
OnlyOptsBefore(p, e) == \A j \in 1..(e - 1) : p.el[j].k = "opt"
\* elements e.. of pattern p against the tokens from position pos on; alternatives in the engine's priority order
RECURSIVE M(_, _, _, _)
M(p, toks, e, pos) ==
  LET L == Len(toks) IN
  IF e > Len(p.el) THEN (IF (~p.ae) \/ pos = L + 1 THEN [ok |-> TRUE, caps |-> <<>>] ELSE Fail)
  ELSE LET x == p.el[e] IN
    CASE x.k = "lit" -> (IF pos <= L /\ toks[pos] = x.w THEN Cons(NoCap, M(p, toks, e + 1, pos + 1)) ELSE Fail)
      [] x.k = "tok" -> (IF pos <= L /\ toks[pos] # <<>> THEN Cons(Cap(<<toks[pos]>>), M(p, toks, e + 1, pos + 1)) ELSE Fail)
      [] x.k = "num" -> (IF pos <= L /\ IsNumTok(toks[pos]) THEN Cons(Cap(<<toks[pos]>>), M(p, toks, e + 1, pos + 1)) ELSE Fail)
      [] x.k = "rest" -> (IF pos <= L THEN [ok |-> TRUE, caps |-> <<Cap(SubSeq(toks, pos, L))>>]
                          ELSE IF OnlyOptsBefore(p, e) THEN [ok |-> TRUE, caps |-> <<Cap(<<>>)>>] ELSE Fail)
      [] x.k = "glued" -> (IF pos <= L THEN [ok |-> TRUE, caps |-> <<Cap(<<<<>>>> \o SubSeq(toks, pos, L))>>]
                           ELSE [ok |-> TRUE, caps |-> <<Cap(<<>>)>>])
      [] x.k = "opt" -> (LET take == IF pos < L /\ toks[pos] # <<>> THEN Cons(Cap(<<toks[pos]>>), M(p, toks, e + 1, pos + 1)) ELSE Fail
                         IN IF take.ok THEN take ELSE Cons(NoCap, M(p, toks, e + 1, pos)))
      [] OTHER -> Fail
\* leftmost match
Search(p, toks) ==
  LET starts == IF p.as THEN {1} ELSE 1..(Len(toks) + 1)
      ok == {st \in starts : M(p, toks, 1, st).ok}
  IN IF ok = {} THEN Fail ELSE M(p, toks, 1, CHOOSE st \in ok : \A o \in ok : st <= o)

-----------------------------------------------------------------------------
\* filter of a rule (Filter::matches on the criteria of this domain): all criteria that are set must hold, `not` inverts
FMatch(f, m, text) ==
  /\ f.en
  /\ LET crit == /\ (f.ecu = "" \/ f.ecu = m.ecu)
                 /\ (f.apid = "" \/ (m.hasext /\ f.apid = m.apid))
                 /\ (f.ctid = "" \/ (m.hasext /\ f.ctid = m.ctid))
                 /\ CASE f.pk = "has" -> (\E i \in Idx(text) : text[i] = f.pw)
                      [] f.pk = "first" -> (Len(text) > 0 /\ text[1] = f.pw)
                      [] OTHER -> TRUE
     IN IF f.not THEN ~crit ELSE crit

-----------------------------------------------------------------------------
\* one rule on one message state st = [pthas, pt, ts, kf]
Text(st, m) == IF st.pthas THEN st.pt ELSE m.raw
St(pthas, pt, ts, kf) == [pthas |-> pthas, pt |-> pt, ts |-> ts, kf |-> kf]
Named(p, name) == {e \in Idx(p.el) : p.el[e].k \in {"tok", "num", "rest", "glued", "opt"} /\ p.el[e].g = name}
Outcomes(st, rule, m, KF) ==
  LET cur == Text(st, m) IN
  IF ~FMatch(rule.flt, m, cur) THEN {st}
  ELSE LET mm == Search(rule.pat, cur) IN
    IF ~mm.ok THEN {st}
    ELSE LET tg == Named(rule.pat, "text")            \* the domain has at most one group of each name per pattern
             sg == Named(rule.pat, "timeStamp")
             txt == IF tg = {} THEN {[pthas |-> st.pthas, pt |-> st.pt, kf |-> FALSE]}
                    ELSE LET c == mm.caps[CHOOSE e \in tg : TRUE] IN
                         IF c.part THEN {[pthas |-> TRUE, pt |-> c.v, kf |-> FALSE]}
                         ELSE {[pthas |-> st.pthas, pt |-> st.pt, kf |-> FALSE]}
                              \cup (IF KF /\ st.pthas THEN {[pthas |-> FALSE, pt |-> <<>>, kf |-> TRUE]} ELSE {})
             tss == IF sg = {} THEN {st.ts}
                    ELSE LET c == mm.caps[CHOOSE e \in sg : TRUE] IN
                         IF c.part THEN TsOfCapture(c.v, st.ts) ELSE {st.ts}
         IN {St(t.pthas, t.pt, x, st.kf \/ t.kf) : t \in txt, x \in tss}
RECURSIVE Fold(_, _, _, _, _)
Fold(S, rules, i, m, KF) == IF i > Len(rules) THEN S
                            ELSE Fold(UNION {Outcomes(st, rules[i], m, KF) : st \in S}, rules, i + 1, m, KF)
\* all results the contract allows for message m behind the rules (in this order)
Chain(rules, m, KF) == Fold({St(m.pthas, m.pt, m.ts, FALSE)}, rules, 1, m, KF)
Fits(st, out) == st.pthas = out.pthas /\ st.pt = out.pt /\ (st.ts = AnyTs \/ st.ts = out.ts)

-----------------------------------------------------------------------------
\* configurations: [nk, name, en, body, rules]
\*   nk    kind of the "name" member: str / absent / num / null        en   "enabled": absent / true / false / null / str / num
\*   body  Rewrite: rules (a "rewrites" array of `rules`) / norewrites / rewritesobj; other plugins: ok / missing / badtype
\*   rule  [shape (obj / num), nk (str / absent / num), name, fk (obj / absent / str / arr), ftype (absent / 0..4 / str), flt,
\*          rk (ok / absent / num / invalid), pat]
KnownNames == {"SomeIp", "Rewrite", "NonVerbose", "CAN", "FileTransfer", "Muniic", "Export"}
RuleValid(r) == r.shape = "obj" /\ r.nk = "str" /\ r.fk = "obj" /\ r.ftype \in {"absent", "0", "1", "2", "3"} /\ r.rk = "ok"
RewriteBodyOK(c) == c.body = "rules" /\ \A i \in Idx(c.rules) : RuleValid(c.rules[i])
BodyOK(c) == IF c.name = "Rewrite" THEN RewriteBodyOK(c) ELSE c.body = "ok"
\* get_plugin: "yes" / "no" / "open" (enabled: null - the factory takes it as enabled, every plugin refuses it: not required)
FactoryCreates(c) ==
  IF c.nk # "str" \/ c.name \notin KnownNames THEN "no"
  ELSE IF c.en \in {"false", "str", "num"} THEN "no"
  ELSE IF ~BodyOK(c) THEN "no"
  ELSE IF c.en = "null" THEN "open" ELSE "yes"
\* RewritePlugin::from_json (the convert path): any name that is a string, `enabled` a boolean if present
DirectCreates(c) ==
  IF c.nk # "str" \/ c.en \in {"str", "num"} \/ ~RewriteBodyOK(c) THEN "no"
  ELSE IF c.en = "null" THEN "open" ELSE "yes"
Creates(path, c) == IF path = "factory" THEN FactoryCreates(c) ELSE DirectCreates(c)
\* does a created plugin rewrite? (factory: only "Rewrite" is the Rewrite plugin; direct: every created one, unless disabled)
IsRewrite(path, c) == IF path = "factory" THEN c.name = "Rewrite" ELSE TRUE
Rewrites(path, c) == IsRewrite(path, c) /\ c.en # "false"
EnabledOf(c) == c.en # "false"
RuleNames(c) == [i \in Idx(c.rules) |-> c.rules[i].name]
\* the rules of the created plugins, in chain order; created = sequence of BOOLEAN per configuration
RECURSIVE ActiveRules(_, _, _, _)
ActiveRules(path, cfgs, created, i) ==
  IF i > Len(cfgs) THEN <<>>
  ELSE (IF created[i] /\ Rewrites(path, cfgs[i]) THEN cfgs[i].rules ELSE <<>>) \o ActiveRules(path, cfgs, created, i + 1)
-----------------------------------------------------------------------------
\* path tags (vacuity bookkeeping only, not part of the contract): which branches of the rule semantics a message exercises
TsTag(v) ==
  IF Len(v) # 1 THEN "ts_not_one_token"
  ELSE LET t == v[1] IN
    IF IsDecimal(t) THEN
      LET b == Body(t)
          ip == IntDigits(b)
          fr == FracDigits(b)
      IN IF Huge(ip) THEN (IF IsNeg(t) THEN "ts_negative" ELSE "ts_beyond_max")
         ELSE LET rc == RoundChoices(fr)
                  base == Ts(ValOf(Sig(ip)), ValOf(Pad4(fr)))
                  m == IF rc = {1} THEN Inc(base) ELSE base
              IN IF Cardinality(rc) = 2 THEN "ts_tie"
                 ELSE IF IsNeg(t) THEN (IF m = ZeroTs THEN "ts_negative_zero" ELSE "ts_negative")
                 ELSE IF ~InRange(m) THEN "ts_beyond_max"
                 ELSE IF m = MaxTs THEN "ts_exactly_max"
                 ELSE IF m = ZeroTs THEN "ts_zero"
                 ELSE IF rc = {1} THEN "ts_rounded_up"
                 ELSE IF NonZero(SubSeq(fr, 5, Len(fr))) # {} THEN "ts_rounded_down" ELSE "ts_exact"
    ELSE IF Wordy(t) THEN "ts_word" ELSE "ts_other_spelling"
AllTags == {"filter_no", "regex_no", "match_without_effect", "text_set", "text_group_unset", "text_group_unset_erasable", "ts_group_unset",
            "ts_not_one_token", "ts_negative", "ts_beyond_max", "ts_tie", "ts_negative_zero", "ts_exactly_max", "ts_zero",
            "ts_rounded_up", "ts_rounded_down", "ts_exact", "ts_word", "ts_other_spelling", "rule_sees_rewritten_text"}
RECURSIVE TagFold(_, _, _, _, _, _)
TagFold(pthas, pt, rew, rules, i, m) ==
  IF i > Len(rules) THEN {}
  ELSE LET rule == rules[i]
           cur == IF pthas THEN pt ELSE m.raw
       IN IF ~FMatch(rule.flt, m, cur) THEN {"filter_no"} \cup TagFold(pthas, pt, rew, rules, i + 1, m)
          ELSE LET mm == Search(rule.pat, cur) IN
            IF ~mm.ok THEN {"regex_no"} \cup TagFold(pthas, pt, rew, rules, i + 1, m)
            ELSE LET tg == Named(rule.pat, "text")
                     sg == Named(rule.pat, "timeStamp")
                     tc == mm.caps[CHOOSE e \in tg : TRUE]
                     sc == mm.caps[CHOOSE e \in sg : TRUE]
                     tt == IF tg = {} THEN {} ELSE IF tc.part THEN {"text_set"}
                           ELSE IF pthas THEN {"text_group_unset_erasable"} ELSE {"text_group_unset"}
                     st == IF sg = {} THEN {} ELSE IF sc.part THEN {TsTag(sc.v)} ELSE {"ts_group_unset"}
                     set == tg # {} /\ tc.part
                 IN (IF tt \cup st = {} THEN {"match_without_effect"} ELSE tt \cup st)
                    \cup (IF rew THEN {"rule_sees_rewritten_text"} ELSE {})
                    \cup TagFold(IF set THEN TRUE ELSE pthas, IF set THEN tc.v ELSE pt, rew \/ set, rules, i + 1, m)
Tags(rules, m) == TagFold(m.pthas, m.pt, FALSE, rules, 1, m)
=============================================================================
