---------------------------- MODULE ExportPlugin ----------------------------
(* X03 - design model of adlt's export plugin (src/plugins/export.rs) behind the lifecycle stage.

   Extra area (no listed property): ExportPlugin::from_json / process_msg / keep_lifecycle / get_export_file /
   sync_all, driven through plugins_process_msgs with parse_lifecycles_buffered_from_stream in front and the shared
   lifecycle table (evmap) between them, as remote.rs 2166-2199 wires it.

   A SCENARIO (chosen in Init) is a configuration, a family of lifecycles and a message stream:
     cfg   enabled, filters (kind pos/neg/mrk/evt, negated, ecu/apid/ctid criteria, enabled flag), lifecyclesToKeep
           (absent, or a list of [ecu, start, end, optional resume time] "from another run"), recorded-time window
           (from / to, inclusive), info texts (TRUE = non-empty)
     lcs   the lifecycles the stream makes the REAL lifecycle stage detect, in creation order: [ecu, s, e] = calculated
           start and end. Concretisation (driver): every message of lifecycle (s, e) carries the timestamp e - s and is
           received at e + d, d = number of earlier messages of that lifecycle. EnvOK states what the real detector
           needs so that it creates exactly these lifecycles (Lifecycle::update: new lifecycle iff resume or the
           calculated start lies behind the current end) and confirms none of them before the end of the stream (all
           times within one 59 s window) - so every lifecycle is published by the final publication with exactly
           these values, and TableOf mirrors Lifecycle::{end_time, is_resume, resume_start_time, resume_time}.
           If the real stage deviates, the driver sees different table entries than predicted ("environment drift")
           and the recorded run is decided by the trace contract instead - never an alarm by itself.
     msgs  [lc, apid] in stream order (per ECU the lifecycles appear in creation order)
   Times are ticks of 100 ms (the rule's 1.9 s tolerance = 19 ticks; resume detection 10 s / 30 s = 100 / 300).

   The plugin is modelled as coded: one Step = process_msg for one message (lookup of a not yet checked lifecycle in
   the table, first matching lifecycle-to-keep wins and is consumed, rewrite of the last negative filter, match_filters,
   recorded-time window, lazy creation of the file with the info messages, counters).

   The PROPERTY on the model (Contract*, evaluated when all messages are processed) is property-shaped: it speaks about
   the written file, the forwarded stream and the state counters and allows ANY consistent choice of which
   lifecycle-to-keep a lifecycle uses up when several contain it (ExportPluginTrace.tla is the same contract on
   recorded executions of the real code).                                                                          *)
EXTENDS Integers, Sequences, FiniteSets, TLC, Json

CONSTANTS LcAlphabet,      \* set of lifecycles [ecu, s, e]
          MaxLcs,          \* families of 1..MaxLcs lifecycles
          MaxMsgs,         \* streams of up to MaxMsgs messages
          Apids,           \* application ids of the messages ("-" = message without extended header)
          LciChoices,      \* set of [has |-> BOOLEAN, l |-> sequence of [ecu, start, end, hasres, resume]]
          FilterChoices,   \* set of sequences of [kind, neg, ecu, apid, ctid, en]
          WindowChoices,   \* set of [hasfrom, from, hasto, to]
          EnabledChoices,  \* subset of BOOLEAN
          InfoChoices      \* set of sequences of BOOLEAN (TRUE = a non-empty info text)

ResumeTol == 19            \* 1_900_000 us
ResumeGap == 100           \* MIN_RESUME_RECEPTION_TIME_GAP_US
ResumeBuf == 300           \* MAX_BUFFERING_DELAY_ON_RESUME_US
Horizon == 590             \* all scenario times lie in 0..Horizon: nothing is confirmed before the end of the stream
MsgCtid == "CTA"           \* all scenario messages carry this context id

VARIABLES cfg, lcs, msgs,                      \* the scenario (constant along a behaviour)
          k,                                   \* messages processed so far
          rem,                                 \* lifecycles_to_keep still unused (sequence of indices into cfg.lcis.l)
          checked,                             \* checked_lc_ids
          exported,                            \* lifecycles_exported (sequence of lifecycle numbers)
          file,                                \* positions of the messages written to the export file
          open,                                \* the export file exists (info messages written)
          fwd,                                 \* positions forwarded by the plugin stage
          nproc, nexp, panicked, done
vars == <<cfg, lcs, msgs, k, rem, checked, exported, file, open, fwd, nproc, nexp, panicked, done>>

Abs(x) == IF x < 0 THEN -x ELSE x
SeqsUpTo(n, S) == UNION {[1..j -> S] : j \in 0..n}
SeqsFromTo(a, b, S) == UNION {[1..j -> S] : j \in a..b}
Idx(s) == 1..Len(s)

-----------------------------------------------------------------------------
\* environment: the lifecycle stage on streams of this shape
NL(L) == Len(L)
PrevOf(L, i) == IF \E j \in 1..(i - 1) : L[j].ecu = L[i].ecu
                THEN CHOOSE j \in 1..(i - 1) : L[j].ecu = L[i].ecu /\ \A j2 \in (j + 1)..(i - 1) : L[j2].ecu # L[i].ecu
                ELSE 0
CountOf(M, i) == Cardinality({p \in Idx(M) : M[p].lc = i})
\* reception time of message p: e + (number of earlier messages of the same lifecycle)
DOf(M, p) == Cardinality({q \in 1..(p - 1) : M[q].lc = M[p].lc})
RxOf(L, M, p) == L[M[p].lc].e + DOf(M, p)
LastRx(L, M, j) == L[j].e + CountOf(M, j) - 1
IsResume(L, M, i) ==
  LET j == PrevOf(L, i) IN
  /\ j # 0
  /\ L[i].e >= LastRx(L, M, j) + ResumeGap                        \* reception gap
  /\ L[i].e - L[i].s >= L[j].e - L[j].s                           \* timestamp goes on
  /\ L[i].s >= L[j].s + ResumeGap                                 \* shift of the calculated start
  /\ (L[i].e - LastRx(L, M, j)) + ResumeBuf > L[i].s - L[j].s
EnvOK(L, M) ==
  /\ \A i \in Idx(L) : /\ L[i].s >= 0 /\ L[i].e > L[i].s /\ L[i].e - L[i].s <= 100      \* short: never "slightly overlapping"
                       /\ CountOf(M, i) >= 1 /\ CountOf(M, i) - 1 <= L[i].e - L[i].s    \* followers stay inside the lifecycle
                       /\ L[i].e + CountOf(M, i) <= Horizon
                       /\ LET j == PrevOf(L, i) IN j # 0 => (IsResume(L, M, i) \/ L[i].s > L[j].e)   \* a new lifecycle, never merged
  \* stream order: the first messages of the lifecycles appear in creation order, and per ECU a lifecycle's messages
  \* all come before the next lifecycle of that ECU starts
  /\ \A p, q \in Idx(M) : (p < q /\ L[M[p].lc].ecu = L[M[q].lc].ecu) => M[p].lc <= M[q].lc
  /\ \A i \in 1..(Len(L) - 1) : (CHOOSE p \in Idx(M) : M[p].lc = i /\ \A q \in 1..(p - 1) : M[q].lc # i)
                                 < (CHOOSE p \in Idx(M) : M[p].lc = i + 1 /\ \A q \in 1..(p - 1) : M[q].lc # i + 1)
\* the table entry of lifecycle i as every reader sees it once it is published (Lifecycle accessors)
TableOf(L, M, i) ==
  LET j == PrevOf(L, i)
      res == IsResume(L, M, i) IN
  [ecu |-> L[i].ecu, start |-> L[i].s, end |-> L[i].e, isres |-> res,
   rstart |-> L[i].s,                                              \* resume_start_time: s > resumed start by ResumeGap
   rtime |-> IF res THEN L[j].s + (L[i].e - L[i].s) ELSE L[i].s]   \* resume_time = start + min_ts - (start - resumed.start)

Families == {L \in SeqsFromTo(1, MaxLcs, LcAlphabet) : \A a, b \in Idx(L) : a < b => L[a] # L[b]}
Streams(L) == {M \in SeqsFromTo(Len(L), MaxMsgs, [lc : Idx(L), apid : Apids]) : EnvOK(L, M)}

-----------------------------------------------------------------------------
\* the plugin as coded
MsgAt(p) == [ecu |-> lcs[msgs[p].lc].ecu, apid |-> msgs[p].apid, ctid |-> IF msgs[p].apid = "-" THEN "-" ELSE MsgCtid,
             lc |-> msgs[p].lc, rx |-> RxOf(lcs, msgs, p)]
Table(i) == TableOf(lcs, msgs, i)

\* ExportPlugin::keep_lifecycle
KeepLc(lci, ecu, t) ==
  /\ lci.ecu = ecu
  /\ IF lci.hasres
     THEN t.isres /\ t.rstart >= lci.start /\ t.end <= lci.end /\ Abs(t.rtime - lci.resume) < ResumeTol
     ELSE ~t.isres /\ t.start >= lci.start /\ t.end <= lci.end

\* Filter::matches restricted to the id criteria: every criterion must hold (an id criterion needs the extended header), negated by `not`
Crit(f, m) == (f.ecu = "" \/ f.ecu = m.ecu) /\ (f.apid = "" \/ f.apid = m.apid) /\ (f.ctid = "" \/ f.ctid = m.ctid)
FMatch(f, m) == IF f.neg THEN ~Crit(f, m) ELSE Crit(f, m)
\* from_json keeps only enabled filters, by kind; marker filters are stored but never consulted
OfKind(kd) == SelectSeq(cfg.filters, LAMBDA f : f.en /\ f.kind = kd)
AnyMatch(F, m) == \E x \in Idx(F) : FMatch(F[x], m)
HasLcFilter == cfg.lcis.has /\ cfg.lcis.l # <<>>
\* match_filters with the lifecycle filter {type 1, not, lifecycles: exp} as last negative filter (exp = [u32::MAX] at first)
MatchFilters(m, exp) ==
  /\ (OfKind("pos") = <<>> \/ AnyMatch(OfKind("pos"), m))
  /\ ~AnyMatch(OfKind("neg"), m)
  /\ (HasLcFilter => \E x \in Idx(exp) : exp[x] = m.lc)
  /\ (OfKind("evt") = <<>> \/ AnyMatch(OfKind("evt"), m))
InWindow(m) == (cfg.win.hasfrom => m.rx >= cfg.win.from) /\ (cfg.win.hasto => m.rx <= cfg.win.to)

Init ==
  /\ lcs \in Families
  /\ msgs \in Streams(lcs)
  /\ cfg \in [enabled : EnabledChoices, filters : FilterChoices, lcis : LciChoices, win : WindowChoices, infos : InfoChoices]
  /\ k = 0 /\ rem = [x \in 1..Len(cfg.lcis.l) |-> x] /\ checked = {} /\ exported = <<>> /\ file = <<>> /\ open = FALSE
  /\ fwd = <<>> /\ nproc = 0 /\ nexp = 0 /\ panicked = FALSE /\ done = FALSE

Remove(s, x) == [y \in 1..(Len(s) - 1) |-> IF y < x THEN s[y] ELSE s[y + 1]]

Step ==
  /\ ~done /\ k < Len(msgs)
  /\ LET p == k + 1
         m == MsgAt(p)
     IN IF ~cfg.enabled
        THEN /\ fwd' = Append(fwd, p) /\ k' = p
             /\ UNCHANGED <<rem, checked, exported, file, open, nproc, nexp, panicked>>
        ELSE
        LET doCheck == rem # <<>> /\ m.lc \notin checked
            cands == IF doCheck THEN {x \in Idx(rem) : KeepLc(cfg.lcis.l[rem[x]], m.ecu, Table(m.lc))} ELSE {}
            hit == cands # {}
            first == IF hit THEN CHOOSE x \in cands : \A y \in cands : x <= y ELSE 0       \* Iterator::position
            exp2 == IF hit THEN Append(exported, m.lc) ELSE exported
            write == MatchFilters(m, exp2) /\ InWindow(m)
        IN /\ rem' = (IF hit THEN Remove(rem, first) ELSE rem)
           /\ checked' = (IF doCheck THEN checked \cup {m.lc} ELSE checked)
           /\ exported' = exp2
           /\ file' = (IF write THEN Append(file, p) ELSE file)
           /\ open' = (open \/ write)
           /\ nexp' = (IF write THEN nexp + 1 ELSE nexp)
           /\ nproc' = nproc + 1
           /\ fwd' = Append(fwd, p) /\ k' = p
           /\ UNCHANGED panicked
  /\ UNCHANGED <<cfg, lcs, msgs, done>>

Finish == ~done /\ k = Len(msgs) /\ done' = TRUE
          /\ UNCHANGED <<cfg, lcs, msgs, k, rem, checked, exported, file, open, fwd, nproc, nexp, panicked>>

Next == Step \/ Finish
Spec == Init /\ [][Next]_vars

-----------------------------------------------------------------------------
\* The property (the contract), stated on the observables: forwarded stream, written file, state counters.
N == Len(msgs)
\* lifecycles in the order in which their first message reaches the plugin = 1..Len(lcs)
\* possible outcomes of the keep decisions: which lifecycles-to-keep are still unused, which lifecycles are kept (in order)
RECURSIVE Poss(_)
Poss(i) ==
  IF i = 0 THEN {[rem |-> {x : x \in 1..Len(cfg.lcis.l)}, kept |-> <<>>]}
  ELSE UNION {LET c == {x \in o.rem : KeepLc(cfg.lcis.l[x], lcs[i].ecu, Table(i))}
              IN IF c = {} THEN {o} ELSE {[rem |-> o.rem \ {x}, kept |-> Append(o.kept, i)] : x \in c}
              : o \in Poss(i - 1)}
PassesFilters(m) ==
  /\ (OfKind("pos") = <<>> \/ AnyMatch(OfKind("pos"), m))
  /\ ~AnyMatch(OfKind("neg"), m)
  /\ (OfKind("evt") = <<>> \/ AnyMatch(OfKind("evt"), m))
Selected(p, kept) == LET m == MsgAt(p) IN
  cfg.enabled /\ PassesFilters(m) /\ InWindow(m) /\ (HasLcFilter => \E x \in Idx(kept) : kept[x] = m.lc)
Expected(kept) == SelectSeq([p \in 1..N |-> p], LAMBDA p : Selected(p, kept))
NInfo == Cardinality({x \in Idx(cfg.infos) : cfg.infos[x]})

ContractForward == fwd = [p \in 1..N |-> p] /\ ~panicked
ContractFile == \E o \in Poss(Len(lcs)) :
                   /\ file = Expected(o.kept)
                   /\ open = (Expected(o.kept) # <<>>)
                   /\ (cfg.enabled => exported = o.kept /\ nexp = Len(file) /\ nproc = N)
ContractOK == ContractForward /\ ContractFile
PropertyHolds == done => ContractOK
\* sanity of the model itself
TypeOK == /\ k \in 0..Len(msgs) /\ Len(fwd) = k /\ Len(file) <= k /\ nexp = Len(file)
          /\ \A x \in Idx(exported) : exported[x] \in checked
          /\ Len(rem) + Len(exported) = Len(cfg.lcis.l)

\* scenario emission: one line per finished behaviour with the predicted observables and the contract's verdict
EmitScn == done =>
  PrintT(<<"SCN", ToJson([
     cfg |-> [enabled |-> cfg.enabled, filters |-> cfg.filters, haslcis |-> cfg.lcis.has, lcis |-> cfg.lcis.l,
              hasfrom |-> cfg.win.hasfrom, from |-> cfg.win.from, hasto |-> cfg.win.hasto, to |-> cfg.win.to, infos |-> cfg.infos],
     lcs |-> lcs,
     msgs |-> [p \in 1..N |-> [lc |-> msgs[p].lc, apid |-> msgs[p].apid, d |-> DOf(msgs, p)]],
     pred |-> [snaps |-> [i \in Idx(lcs) |-> Table(i)], written |-> file, kept |-> exported, file |-> open,
               ninfo |-> IF open THEN 1 + NInfo ELSE 0,
               st_proc |-> nproc, st_exp |-> nexp, ok |-> ContractOK]])>>)
=============================================================================
