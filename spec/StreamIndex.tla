---------------------------- MODULE StreamIndex ----------------------------
(* C16, library layer - the incremental stream index (process_stream_new_msgs, src/utils/remote_utils.rs:138-197;
   DESIGN.md section 6 C16 / Appendix K).

   A log of N messages (positions 0..N-1, `match` = the positions the stream's filters keep) arrives in arbitrary
   batches (Arrive); the server loop calls Process(c) with a chunk limit c at arbitrary moments, exactly as coded:
     stream: index min(new, c) new messages;
     query:  part-chunks of c until |filtered| = window end, with the first-unwanted resume marker;
   Grow = stream_change_window raising the window end of a query.
   Invariants (for every batching, chunk size and match set): the index is strictly increasing, holds only matching
   positions that have arrived, misses nothing matching below the progress marker, the marker never passes the
   arrived length; a stream's index is exactly the matches below the marker, a query's index a prefix of all matches.
   Emission (Emit): every behaviour of MaxSteps steps with the predicted (filtered, processed) after every step.  *)
EXTENDS Integers, Sequences, FiniteSets, TLC, Json

CONSTANTS N, Chunks, MaxWin, MaxSteps

VARIABLES w0, match, isStream, winEnd, allLen, processed, filtered, hist, steps
vars == <<w0, match, isStream, winEnd, allLen, processed, filtered, hist, steps>>

Min2(a, b) == IF a < b THEN a ELSE b
\* ascending sequence of the matching positions in [lo, hi)
RECURSIVE MatchSeq(_, _)
MatchSeq(lo, hi) == IF lo >= hi THEN <<>> ELSE (IF lo \in match THEN <<lo>> ELSE <<>>) \o MatchSeq(lo + 1, hi)

Init == /\ match \in SUBSET (0..(N - 1)) /\ isStream \in BOOLEAN /\ winEnd \in 0..MaxWin /\ w0 = winEnd
        /\ allLen = 0 /\ processed = 0 /\ filtered = <<>> /\ hist = <<>> /\ steps = 0

Arrive(k) == /\ allLen + k <= N /\ allLen' = allLen + k /\ steps' = steps + 1
             /\ hist' = Append(hist, [op |-> "arrive", k |-> k, f |-> filtered, p |-> processed])
             /\ UNCHANGED <<w0, match, isStream, winEnd, processed, filtered>>

\* the query loop as coded; state [f, p, start]
RECURSIVE QLoop(_, _, _, _, _, _)
QLoop(f, p, start, maxIdx, off, part) ==
  IF Len(f) < winEnd /\ start < maxIdx THEN
     LET nrWanted == winEnd - Len(f)
         maxThis == Min2(maxIdx, start + part)
         m == MatchSeq(off + start, off + maxThis)
     IN IF Len(m) <= nrWanted THEN QLoop(f \o m, off + maxThis, maxThis, maxIdx, off, part)
        ELSE QLoop(f \o SubSeq(m, 1, nrWanted), m[nrWanted + 1], maxThis, maxIdx, off, part)
  ELSE [f |-> f, p |-> p]

Process(c) ==
  LET off == Min2(processed, allLen)
      newLen == allLen - off
      maxIdx == Min2(newLen, c)
  IN /\ steps' = steps + 1
     /\ IF newLen = 0 THEN UNCHANGED <<processed, filtered>>
        ELSE IF isStream THEN /\ filtered' = filtered \o MatchSeq(off, off + maxIdx) /\ processed' = off + maxIdx
        ELSE LET r == QLoop(filtered, processed, 0, maxIdx, off, c) IN filtered' = r.f /\ processed' = r.p
     /\ hist' = Append(hist, [op |-> "process", k |-> c, f |-> filtered', p |-> processed'])
     /\ UNCHANGED <<w0, match, isStream, winEnd, allLen>>

\* stream_change_window on a query: the requested end may grow
Grow == /\ ~isStream /\ winEnd < MaxWin + 1 /\ winEnd' = winEnd + 1 /\ steps' = steps + 1
        /\ hist' = Append(hist, [op |-> "grow", k |-> winEnd + 1, f |-> filtered, p |-> processed])
        /\ UNCHANGED <<w0, match, isStream, allLen, processed, filtered>>

Next == /\ steps < MaxSteps
        /\ \/ \E k \in 1..N : Arrive(k)
           \/ \E c \in Chunks : Process(c)
           \/ Grow
Spec == Init /\ [][Next]_vars

-----------------------------------------------------------------------------
Increasing == \A i \in 1..(Len(filtered) - 1) : filtered[i] < filtered[i + 1]
OnlyMatches == \A i \in 1..Len(filtered) : filtered[i] \in match /\ filtered[i] < allLen
NothingSkipped == \A m \in match : m < processed /\ m < allLen => \E i \in 1..Len(filtered) : filtered[i] = m
ProcessedBound == processed <= allLen
StreamExact == isStream => filtered = MatchSeq(0, processed)
QueryPrefix == ~isStream => filtered = SubSeq(MatchSeq(0, N), 1, Len(filtered))

Emit == steps = MaxSteps =>
          PrintT(<<"SCN", ToJson([n |-> N, m |-> [i \in 1..N |-> IF (i - 1) \in match THEN 1 ELSE 0],
                                  s |-> isStream, w |-> w0, h |-> hist])>>)
=============================================================================
