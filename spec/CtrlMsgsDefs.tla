---------------------------- MODULE CtrlMsgsDefs ----------------------------
(* X07 - control-message payloads: the codec (AUTOSAR DLT get_log_info [Dlt197] / PRS_Dlt_00197..., get_software_version,
   and the dlt-daemon user services unregister_context, connection_info, timezone) and the text shown for a control
   message.  Pure definitions, no state:

     Enc            ENCODER: abstract value (applications with contexts, levels, descriptions) -> response parameter bytes
     Trunc/SetField the truncation and field-corruption operators on an encoding, FieldsOf = its count / length fields
     Parse          the GRAMMAR of the response parameter as a total function on byte strings: either the value the bytes
                    denote (trailing bytes are ignored) or "the payload ends before the grammar is satisfied" together with
                    what was complete up to that point
     DecOk ...      CONTRACT for the five decoders (what a user may rely on, maximally nondeterministic where the payload
                    is too short: nothing, or a prefix-consistent part of the value)
     TextExp        CONTRACT for the text: a function of (service id, request/response, status, decoded value)
     CodeDecode     DESIGN: parse_ctrl_log_info_payload as coded (used only for predictions / the design-refines-contract check)

   Representation.  Bytes are sequences of 0..255, offsets are 0-based.  An optional value is <<>> or <<x>>.
   Abstract application  [id |-> 4 bytes, cs |-> Seq(context), d |-> bytes]; context [id |-> 4 bytes, ll |-> byte,
   ts |-> byte, d |-> bytes] (an empty description is "no description").
   Decoded application   [id, cs |-> Seq([id, ll |-> Opt(-128..127), ts |-> Opt(-128..127), d |-> Opt(text)]), d |-> Opt(text)];
   a text is a sequence of bytes on the grammar side and a sequence of Unicode code points on the observed side.       *)
EXTENDS Integers, Sequences, FiniteSets, TLC

-----------------------------------------------------------------------------
\* bytes
Sub(b, o, n) == [j \in 1..n |-> b[o + j]]
U16(be, x) == IF be THEN <<x \div 256, x % 256>> ELSE <<x % 256, x \div 256>>
R16(be, b, o) == IF be THEN b[o + 1] * 256 + b[o + 2] ELSE b[o + 1] + b[o + 2] * 256
S8(x) == IF x >= 128 THEN x - 256 ELSE x
BE4(be, b, o) == IF be THEN Sub(b, o, 4) ELSE <<b[o + 4], b[o + 3], b[o + 2], b[o + 1]>>     \* most significant byte first
Huge == 1000000                  \* "longer than any payload" (payloads are shorter than 65536 bytes; TLC integers are 32 bit)
RLen32(be, b, o) == LET q == BE4(be, b, o) IN IF q[1] # 0 \/ q[2] # 0 THEN Huge ELSE q[3] * 256 + q[4]
RI32(be, b, o) == LET q == BE4(be, b, o) IN S8(q[1]) * 16777216 + q[2] * 65536 + q[3] * 256 + q[4]
U32(be, q) == IF be THEN q ELSE <<q[4], q[3], q[2], q[1]>>                                    \* q = 4 bytes, MSB first
RECURSIVE Cat(_)
Cat(ss) == IF ss = <<>> THEN <<>> ELSE Head(ss) \o Cat(Tail(ss))
RECURSIVE SumSeq(_)
SumSeq(s) == IF s = <<>> THEN 0 ELSE Head(s) + SumSeq(Tail(s))
Opt(x, has) == IF has THEN <<x>> ELSE <<>>

-----------------------------------------------------------------------------
\* get_log_info: layout of the response parameter per status ([Dlt197]); counts and lengths are 16-bit fields
HasLL(st) == st \in {4, 6, 7}
HasTS(st) == st \in {5, 6, 7}
HasD(st) == st = 7
CtxFix(st) == 4 + (IF HasLL(st) THEN 1 ELSE 0) + (IF HasTS(st) THEN 1 ELSE 0)

\* ENCODER
EncD(be, d) == U16(be, Len(d)) \o d
EncCtx(st, be, c) == c.id \o (IF HasLL(st) THEN <<c.ll>> ELSE <<>>) \o (IF HasTS(st) THEN <<c.ts>> ELSE <<>>)
                          \o (IF HasD(st) THEN EncD(be, c.d) ELSE <<>>)
EncApp(st, be, a) == a.id \o U16(be, Len(a.cs)) \o Cat([j \in 1..Len(a.cs) |-> EncCtx(st, be, a.cs[j])])
                          \o (IF HasD(st) THEN EncD(be, a.d) ELSE <<>>)
Enc(st, be, v) == U16(be, Len(v)) \o Cat([i \in 1..Len(v) |-> EncApp(st, be, v[i])])

\* what a decoder has to return for Enc(st, be, v) (descriptions still as bytes)
ProjCtx(st, c) == [id |-> c.id, ll |-> Opt(S8(c.ll), HasLL(st)), ts |-> Opt(S8(c.ts), HasTS(st)), d |-> Opt(c.d, HasD(st) /\ c.d # <<>>)]
ProjApp(st, a) == [id |-> a.id, cs |-> [j \in 1..Len(a.cs) |-> ProjCtx(st, a.cs[j])], d |-> Opt(a.d, HasD(st) /\ a.d # <<>>)]
Project(st, v) == IF st \in 3..7 THEN [i \in 1..Len(v) |-> ProjApp(st, v[i])] ELSE <<>>

\* the count / length fields of Enc(st, be, v): [o |-> offset, a |-> actual value, k |-> kind]
CtxLen(st, c) == CtxFix(st) + (IF HasD(st) THEN 2 + Len(c.d) ELSE 0)
AppLen(st, a) == 6 + SumSeq([j \in 1..Len(a.cs) |-> CtxLen(st, a.cs[j])]) + (IF HasD(st) THEN 2 + Len(a.d) ELSE 0)
AppStart(st, v, i) == 2 + SumSeq([i2 \in 1..(i - 1) |-> AppLen(st, v[i2])])
CtxStart(st, v, i, j) == AppStart(st, v, i) + 6 + SumSeq([j2 \in 1..(j - 1) |-> CtxLen(st, v[i].cs[j2])])
FieldsOf(st, v) ==
  {[o |-> 0, a |-> Len(v), k |-> "napp"]}
  \cup {[o |-> AppStart(st, v, i) + 4, a |-> Len(v[i].cs), k |-> "nctx"] : i \in 1..Len(v)}
  \cup (IF HasD(st) THEN {[o |-> CtxStart(st, v, i, Len(v[i].cs) + 1), a |-> Len(v[i].d), k |-> "alen"] : i \in 1..Len(v)} ELSE {})
  \cup (IF HasD(st) THEN UNION {{[o |-> CtxStart(st, v, i, j) + CtxFix(st), a |-> Len(v[i].cs[j].d), k |-> "clen"] : j \in 1..Len(v[i].cs)} : i \in 1..Len(v)}
        ELSE {})
FieldVals(a) == {x \in {0, 1, a - 1, a + 1, a + 256, 65535} : x >= 0 /\ x <= 65535 /\ x # a}      \* (a + 256: same low byte)

\* truncation / field corruption / trailer.  A mutation is <<k, a, b>>:
\*   <<0, t, 0>> nothing cut, trailer number t appended (0 = none)   <<1, n, 0>> cut to the first n bytes
\*   <<2, o, x>> the 16-bit field at offset o set to x                <<9, 0, 0>> (traces only) free bytes, no encoding behind
Trunc(e, n) == SubSeq(e, 1, n)
SetField(be, e, o, x) == [j \in 1..Len(e) |-> IF j = o + 1 THEN U16(be, x)[1] ELSE IF j = o + 2 THEN U16(be, x)[2] ELSE e[j]]
Mutate(be, e, m, trailer) == IF m[1] = 0 THEN e \o trailer ELSE IF m[1] = 1 THEN Trunc(e, m[2]) ELSE SetField(be, e, m[2], m[3])

-----------------------------------------------------------------------------
\* GRAMMAR.  Parse(st, be, b, lenient) reads b as  count16 app*,  app = id4 count16 ctx* [len16 text],
\* ctx = id4 [level] [status] [len16 text].  Result [ok, apps, cur, w]:
\*   ok = TRUE   the counts are satisfied within b (bytes behind the last application are ignored); apps = the value
\*   ok = FALSE  b ends too early: apps = the applications complete before that point, cur = <<>> or <<[id, cs, pend]>> the
\*               application being read (cs = its complete contexts, pend = <<>> or <<the context whose description is cut>>),
\*               w = where: "count" "apphdr" "ctx" "cdlen" "cdesc" "adlen" "adesc"
\* lenient = TRUE is NOT the grammar: a description whose length field exceeds the rest of b is taken as absent and
\* reading goes on right behind the length field (parse_ctrl_log_info_payload as coded, finding KF_X07_DescLenOverrun).
PDesc(be, b, o, lenient) ==
  IF Len(b) - o < 2 THEN [r |-> "nolen", d |-> <<>>, o |-> o]
  ELSE LET n == R16(be, b, o) IN
       IF n <= Len(b) - o - 2 THEN [r |-> "ok", d |-> Sub(b, o + 2, n), o |-> o + 2 + n]
       ELSE IF lenient THEN [r |-> "ok", d |-> <<>>, o |-> o + 2]
       ELSE [r |-> "over", d |-> <<>>, o |-> o + 2]

RECURSIVE PCtxs(_, _, _, _, _, _, _)
PCtxs(st, be, b, o, n, acc, lenient) ==
  IF n = 0 THEN [ok |-> TRUE, o |-> o, cs |-> acc, w |-> "", pend |-> <<>>]
  ELSE IF Len(b) - o < CtxFix(st) THEN [ok |-> FALSE, o |-> o, cs |-> acc, w |-> "ctx", pend |-> <<>>]
  ELSE LET ll == Opt(S8(b[o + 5]), HasLL(st))
           c0 == [id |-> Sub(b, o, 4), ll |-> ll, ts |-> Opt(S8(b[o + 5 + Len(ll)]), HasTS(st)), d |-> <<>>]
           o1 == o + CtxFix(st)
       IN IF ~HasD(st) THEN PCtxs(st, be, b, o1, n - 1, Append(acc, c0), lenient)
          ELSE LET pd == PDesc(be, b, o1, lenient) IN
               IF pd.r = "ok" THEN PCtxs(st, be, b, pd.o, n - 1, Append(acc, [c0 EXCEPT !.d = Opt(pd.d, pd.d # <<>>)]), lenient)
               ELSE [ok |-> FALSE, o |-> pd.o, cs |-> acc, w |-> (IF pd.r = "nolen" THEN "cdlen" ELSE "cdesc"), pend |-> <<c0>>]

RECURSIVE PApps(_, _, _, _, _, _, _)
PApps(st, be, b, o, n, acc, lenient) ==
  IF n = 0 THEN [ok |-> TRUE, apps |-> acc, cur |-> <<>>, w |-> ""]
  ELSE IF Len(b) - o < 6 THEN [ok |-> FALSE, apps |-> acc, cur |-> <<>>, w |-> "apphdr"]
  ELSE LET id == Sub(b, o, 4)
           pc == PCtxs(st, be, b, o + 6, R16(be, b, o + 4), <<>>, lenient)
       IN IF ~pc.ok THEN [ok |-> FALSE, apps |-> acc, cur |-> <<[id |-> id, cs |-> pc.cs, pend |-> pc.pend]>>, w |-> pc.w]
          ELSE IF ~HasD(st) THEN PApps(st, be, b, pc.o, n - 1, Append(acc, [id |-> id, cs |-> pc.cs, d |-> <<>>]), lenient)
          ELSE LET pd == PDesc(be, b, pc.o, lenient) IN
               IF pd.r = "ok" THEN PApps(st, be, b, pd.o, n - 1, Append(acc, [id |-> id, cs |-> pc.cs, d |-> Opt(pd.d, pd.d # <<>>)]), lenient)
               ELSE [ok |-> FALSE, apps |-> acc, cur |-> <<[id |-> id, cs |-> pc.cs, pend |-> <<>>]>>,
                     w |-> (IF pd.r = "nolen" THEN "adlen" ELSE "adesc")]

Parse(st, be, b, lenient) ==
  IF st \notin 3..7 THEN [ok |-> TRUE, apps |-> <<>>, cur |-> <<>>, w |-> "status"]       \* no list in this response
  ELSE IF Len(b) < 2 THEN [ok |-> FALSE, apps |-> <<>>, cur |-> <<>>, w |-> "count"]
  ELSE PApps(st, be, b, 2, R16(be, b, 0), <<>>, lenient)

-----------------------------------------------------------------------------
\* texts: one character per byte; CR, LF, TAB are shown as blanks; printable ASCII and 0xA0..0xFF as themselves
\* (ISO-8859-1 and Windows-1252 agree there); which character stands for the other C0 controls, DEL and 0x80..0x9F is
\* left open by the contract (the code uses Windows-1252: W1252 below, used by the design only)
CpOk(byte, cp) == IF byte \in {9, 10, 13} THEN cp = 32
                  ELSE IF (byte >= 32 /\ byte <= 126) \/ byte >= 160 THEN cp = byte
                  ELSE TRUE
TextOk(bytes, cps) == Len(cps) = Len(bytes) /\ \A j \in 1..Len(bytes) : CpOk(bytes[j], cps[j])
W1252 == <<8364, 129, 8218, 402, 8222, 8230, 8224, 8225, 710, 8240, 352, 8249, 338, 141, 381, 143,
           144, 8216, 8217, 8220, 8221, 8226, 8211, 8212, 732, 8482, 353, 8250, 339, 157, 382, 376>>
Cp1252(b) == IF b \in {9, 10, 13} THEN 32 ELSE IF b >= 128 /\ b <= 159 THEN W1252[b - 127] ELSE b
ToText(bytes) == [j \in 1..Len(bytes) |-> Cp1252(bytes[j])]

-----------------------------------------------------------------------------
\* CONTRACT get_log_info (p.. = grammar side, o.. = observed)
OptTextOk(pd, od) == Len(od) = Len(pd) /\ (pd # <<>> => TextOk(pd[1], od[1]))
CtxOk(pc, oc) == oc.id = pc.id /\ oc.ll = pc.ll /\ oc.ts = pc.ts /\ OptTextOk(pc.d, oc.d)
CtxsOk(pcs, ocs) == Len(ocs) = Len(pcs) /\ \A j \in 1..Len(pcs) : CtxOk(pcs[j], ocs[j])
AppOk(pa, oa) == oa.id = pa.id /\ CtxsOk(pa.cs, oa.cs) /\ OptTextOk(pa.d, oa.d)
AppsOk(pas, oas) == Len(oas) = Len(pas) /\ \A i \in 1..Len(pas) : AppOk(pas[i], oas[i])
\* the payload ended early (r.ok = FALSE): nothing, or complete applications in order, or all of them plus the application
\* being read with its id, a prefix of its contexts as far as they were read, and no description for what is cut
PartialOk(r, obs) ==
  LET n == Len(r.apps) IN
  \/ (Len(obs) <= n /\ \A i \in 1..Len(obs) : AppOk(r.apps[i], obs[i]))
  \/ /\ r.cur # <<>> /\ Len(obs) = n + 1
     /\ \A i \in 1..n : AppOk(r.apps[i], obs[i])
     /\ LET c == r.cur[1]
            a == obs[n + 1]
            full == c.cs \o c.pend
        IN /\ a.id = c.id /\ a.d = <<>> /\ Len(a.cs) <= Len(full)
           /\ \A j \in 1..Len(a.cs) : CtxOk(full[j], a.cs[j])
DecOk(r, obs) == IF r.ok THEN AppsOk(r.apps, obs) ELSE PartialOk(r, obs)
LogInfoOk(st, be, b, obs) == DecOk(Parse(st, be, b, FALSE), obs)
\* the finding: the strict grammar is not met, a description length overran the payload, and the observation is what
\* the lenient reading gives
LogInfoKF(st, be, b, obs) == LET rs == Parse(st, be, b, FALSE) IN
  /\ ~rs.ok /\ rs.w \in {"cdesc", "adesc"} /\ ~PartialOk(rs, obs) /\ DecOk(Parse(st, be, b, TRUE), obs)
\* the strict grammar was left in a description although the lenient reading also satisfies the contract? (statistics only)
DescOverrun(st, be, b) == LET rs == Parse(st, be, b, FALSE) IN ~rs.ok /\ rs.w \in {"cdesc", "adesc"}

\* DESIGN get_log_info: the decoder as coded (fixed = TRUE: with proposed_fixes/X07-desc-len-overrun.diff)
DCtx(c) == [id |-> c.id, ll |-> c.ll, ts |-> c.ts, d |-> (IF c.d = <<>> THEN <<>> ELSE <<ToText(c.d[1])>>)]
DApp(a) == [id |-> a.id, cs |-> [j \in 1..Len(a.cs) |-> DCtx(a.cs[j])], d |-> (IF a.d = <<>> THEN <<>> ELSE <<ToText(a.d[1])>>)]
CodeDecode(st, be, b, fixed) ==
  LET r == Parse(st, be, b, ~fixed) IN
  IF r.ok \/ r.w \in {"apphdr", "adlen", "adesc"} THEN [i \in 1..Len(r.apps) |-> DApp(r.apps[i])] ELSE <<>>

-----------------------------------------------------------------------------
\* CONTRACT of the four small decoders.  Observed: [some |-> 0/1, ...]
\* get_software_version: len32 text; shorter payload: nothing (or as much of the text as is there)
SwParse(be, b) == IF Len(b) < 4 THEN [ok |-> FALSE, t |-> <<>>]
                  ELSE LET n == RLen32(be, b, 0) IN
                       IF n <= Len(b) - 4 THEN [ok |-> TRUE, t |-> Sub(b, 4, n)] ELSE [ok |-> FALSE, t |-> Sub(b, 4, Len(b) - 4)]
SwOk(be, b, obs) == LET r == SwParse(be, b) IN
  IF r.ok THEN obs.some = 1 /\ TextOk(r.t, obs.t)
  ELSE obs.some = 0 \/ (Len(obs.t) <= Len(r.t) /\ TextOk(SubSeq(r.t, 1, Len(obs.t)), obs.t))
SwDesign(be, b) == LET r == SwParse(be, b) IN [some |-> (IF r.ok THEN 1 ELSE 0), t |-> (IF r.ok THEN ToText(r.t) ELSE <<>>)]
\* unregister_context: application id, context id, communication interface = exactly 12 bytes (longer: left open between
\* nothing and the first 12 bytes)
UnregVal(b) == <<Sub(b, 0, 4), Sub(b, 4, 4), Sub(b, 8, 4)>>
UnregOk(b, obs) == IF Len(b) < 12 THEN obs.some = 0
                   ELSE IF Len(b) = 12 THEN obs.some = 1 /\ obs.ids = UnregVal(b)
                   ELSE obs.some = 0 \/ obs.ids = UnregVal(b)
UnregDesign(b) == IF Len(b) = 12 THEN [some |-> 1, ids |-> UnregVal(b)] ELSE [some |-> 0, ids |-> <<>>]
\* connection_info: state, communication interface = exactly 5 bytes
ConnOk(b, obs) == IF Len(b) < 5 THEN obs.some = 0
                  ELSE IF Len(b) = 5 THEN obs.some = 1 /\ obs.state = b[1] /\ obs.id = Sub(b, 1, 4)
                  ELSE obs.some = 0 \/ (obs.state = b[1] /\ obs.id = Sub(b, 1, 4))
ConnDesign(b) == IF Len(b) = 5 THEN [some |-> 1, state |-> b[1], id |-> Sub(b, 1, 4)] ELSE [some |-> 0, state |-> 0, id |-> <<>>]
\* timezone: offset to GMT in seconds (signed 32 bit), daylight saving flag = exactly 5 bytes
TzOk(be, b, obs) == IF Len(b) < 5 THEN obs.some = 0
                    ELSE IF Len(b) = 5 THEN obs.some = 1 /\ obs.off = RI32(be, b, 0) /\ obs.dst = (IF b[5] > 0 THEN 1 ELSE 0)
                    ELSE obs.some = 0 \/ (obs.off = RI32(be, b, 0) /\ obs.dst = (IF b[5] > 0 THEN 1 ELSE 0))
TzDesign(be, b) == IF Len(b) = 5 THEN [some |-> 1, off |-> RI32(be, b, 0), dst |-> (IF b[5] > 0 THEN 1 ELSE 0)]
                   ELSE [some |-> 0, off |-> 0, dst |-> 0]

-----------------------------------------------------------------------------
\* CONTRACT text of a non-verbose control message.  Case header h: [id, be, typ "request"/"response", noar, short, pl]
\* (pl = payload behind the 4-byte service id: status byte first for a response; short < 4: only that many payload bytes)
SvcNames ==
  (1 :> "set_log_level") @@ (2 :> "set_trace_status") @@ (3 :> "get_log_info") @@ (4 :> "get_default_log_level") @@
  (5 :> "store_config") @@ (6 :> "reset_to_factory_default") @@ (7 :> "set_com_interface_status") @@
  (8 :> "set_com_interface_max_bandwidth") @@ (9 :> "set_verbose_mode") @@ (10 :> "set_message_filtering") @@
  (11 :> "set_timing_packets") @@ (12 :> "get_local_time") @@ (13 :> "use_ecu_id") @@ (14 :> "use_session_id") @@
  (15 :> "use_timestamp") @@ (16 :> "use_extended_header") @@ (17 :> "set_default_log_level") @@
  (18 :> "set_default_trace_status") @@ (19 :> "get_software_version") @@ (20 :> "message_buffer_overflow") @@
  (3841 :> "unregister_context") @@ (3842 :> "connection_info") @@ (3843 :> "timezone") @@ (3844 :> "MARKER") @@
  (3845 :> "offline_logstorage") @@ (3846 :> "passive_node_connect") @@ (3847 :> "passive_node_connection_status") @@
  (3848 :> "set_all_log_level") @@ (3849 :> "set_all_trace_status") @@ (3850 :> "undefined") @@ (3851 :> "reserved_b") @@
  (3852 :> "reserved_c") @@ (3853 :> "reserved_d") @@ (3854 :> "reserved_e")
SvcName(id) == IF id \in DOMAIN SvcNames THEN SvcNames[id] ELSE "service(" \o ToString(id) \o ")"
HexS == <<"0", "1", "2", "3", "4", "5", "6", "7", "8", "9", "a", "b", "c", "d", "e", "f">>
HexC == <<48, 49, 50, 51, 52, 53, 54, 55, 56, 57, 97, 98, 99, 100, 101, 102>>
Hex2S(x) == HexS[(x \div 16) + 1] \o HexS[(x % 16) + 1]
StatusText(s) == IF s = 0 THEN "ok" ELSE IF s = 1 THEN "not_supported" ELSE IF s = 2 THEN "error" ELSE IF s = 3 THEN "perm_denied"
                 ELSE IF s = 4 THEN "warning" ELSE IF s = 8 THEN "no_matching_context_id" ELSE Hex2S(s)
\* "0f 00 a1": two lower-case digits per byte, one blank between bytes (as code points)
HexCps(b) == [j \in 1..(IF Len(b) = 0 THEN 0 ELSE 3 * Len(b) - 1) |->
                LET x == b[(j + 2) \div 3] IN
                IF j % 3 = 1 THEN HexC[(x \div 16) + 1] ELSE IF j % 3 = 2 THEN HexC[(x % 16) + 1] ELSE 32]
\* an id as shown: up to the first NUL, control characters as '-', bytes above 0x7e as '?'
IdLen(id) == IF id[1] = 0 THEN 0 ELSE IF id[2] = 0 THEN 1 ELSE IF id[3] = 0 THEN 2 ELSE IF id[4] = 0 THEN 3 ELSE 4
IdText(id) == [j \in 1..IdLen(id) |-> IF id[j] < 32 THEN 45 ELSE IF id[j] > 126 THEN 63 ELSE id[j]]

\* JSON values as the driver normalises them: [t |-> type, v |-> sequence]; object members sorted by key
JS(cps) == [t |-> "s", v |-> cps]
JN(n) == [t |-> "n", v |-> <<n>>]
JB(x) == [t |-> "b", v |-> <<IF x THEN 1 ELSE 0>>]
JZ == [t |-> "z", v |-> <<>>]
JA(sq) == [t |-> "a", v |-> sq]
JO(members) == [t |-> "o", v |-> members]
M(k, x) == [k |-> k, x |-> x]
JOptS(od) == IF od = <<>> THEN JZ ELSE JS(od[1])
JOptN(on) == IF on = <<>> THEN JZ ELSE JN(on[1])
CtxJ(c) == JO(<<M("ctid", JS(IdText(c.id))), M("desc", JOptS(c.d)), M("log_level", JOptN(c.ll)), M("trace_status", JOptN(c.ts))>>)
AppJ(a) == JO(<<M("apid", JS(IdText(a.id))), M("ctids", JA([j \in 1..Len(a.cs) |-> CtxJ(a.cs[j])])), M("desc", JOptS(a.d))>>)
AppsJ(apps) == JA([i \in 1..Len(apps) |-> AppJ(apps[i])])
Connected == <<99, 111, 110, 110, 101, 99, 116, 101, 100>>
Disconnected == <<100, 105, 115>> \o Connected
Unknown == <<117, 110, 107, 110, 111, 119, 110>>

\* which decoder's result the text of h depends on ("none": no decoder involved)
DecSvc(h) == IF h.short < 4 \/ Len(h.pl) = 0 THEN "none"
             ELSE IF h.id = 3 THEN "loginfo" ELSE IF h.id = 19 THEN "swver" ELSE IF h.id = 3841 THEN "unreg"
             ELSE IF h.id = 3842 THEN "conn" ELSE IF h.id = 3843 THEN "tz" ELSE "none"
Txt(head, rest) == [head |-> head, rest |-> rest, json |-> <<>>]
TxtJ(head, j) == [head |-> head, rest |-> <<>>, json |-> <<j>>]
\* the text as a function of (service id, request/response, status, decoded value dec); [head, rest, json]: head = the
\* bracket part as a string, then either free text `rest` (code points) or " " and a JSON value `json`
TextExp(h, dec) ==
  IF h.short < 4 THEN Txt("[<args missing>]", <<>>)
  ELSE LET name == SvcName(h.id) IN
  IF h.typ = "request" THEN Txt("[" \o name \o "]", <<32>> \o HexCps(h.pl))
  ELSE IF Len(h.pl) = 0 THEN Txt("[" \o name \o "]", <<>>)
  ELSE LET head == "[" \o name \o " " \o StatusText(h.pl[1]) \o "]"
           p == Tail(h.pl)
           dump == Txt(head, <<32>> \o HexCps(p))
       IN IF h.id = 19 THEN Txt(head, IF dec.some = 1 THEN <<32>> \o dec.t ELSE <<>>)
          ELSE IF h.id = 3 THEN TxtJ(head, AppsJ(dec.apps))
          ELSE IF h.id = 3841 THEN
               (IF dec.some = 1 THEN TxtJ(head, JO(<<M("apid", JS(IdText(dec.ids[1]))), M("comid", JS(IdText(dec.ids[3]))),
                                                     M("ctid", JS(IdText(dec.ids[2])))>>)) ELSE dump)
          ELSE IF h.id = 3842 THEN
               (IF dec.some = 1 THEN TxtJ(head, JO(<<M("comid", JS(IdText(dec.id))),
                                                     M("state", JS(IF dec.state = 1 THEN Disconnected ELSE IF dec.state = 2 THEN Connected ELSE Unknown))>>))
                ELSE dump)
          ELSE IF h.id = 3843 THEN
               (IF dec.some = 1 THEN TxtJ(head, JO(<<M("gmt_off_secs", JN(dec.off)), M("is_dst", JB(dec.dst = 1))>>)) ELSE dump)
          ELSE dump
\* observed text event o: [head, rest, json, hdr4, req, resp]
MsgTextOk(h, dec, o) == LET e == TextExp(h, dec) IN
  /\ o.head = e.head
  /\ (IF e.json # <<>> THEN o.json = e.json ELSE o.rest = e.rest)
  /\ o.hdr4 = <<"control", h.typ, "N", ToString(h.noar)>>
  /\ o.req = (IF h.typ = "request" THEN 1 ELSE 0) /\ o.resp = (IF h.typ = "response" THEN 1 ELSE 0)
TextPred(h, dec) == LET e == TextExp(h, dec) IN
  [head |-> e.head, rest |-> e.rest, json |-> e.json, hdr4 |-> <<"control", h.typ, "N", ToString(h.noar)>>,
   req |-> (IF h.typ = "request" THEN 1 ELSE 0), resp |-> (IF h.typ = "response" THEN 1 ELSE 0)]

\* CONTRACT of the decoder DecSvc(h) names, on the payload behind the status byte; observed dec event o: [svc, ...]
DecodeOk(h, o) ==
  LET svc == DecSvc(h)  be == h.be = 1 IN
  /\ o.svc = svc
  /\ (svc = "loginfo" => LogInfoOk(h.pl[1], be, Tail(h.pl), o.apps))
  /\ (svc = "swver" => SwOk(be, Tail(h.pl), o))
  /\ (svc = "unreg" => UnregOk(Tail(h.pl), o))
  /\ (svc = "conn" => ConnOk(Tail(h.pl), o))
  /\ (svc = "tz" => TzOk(be, Tail(h.pl), o))
DecodeDesign(h, fixed) ==
  LET svc == DecSvc(h)  be == h.be = 1  p == Tail(h.pl) IN
  IF svc = "loginfo" THEN [svc |-> svc, apps |-> CodeDecode(h.pl[1], be, p, fixed)]
  ELSE IF svc = "swver" THEN [svc |-> svc] @@ SwDesign(be, p)
  ELSE IF svc = "unreg" THEN [svc |-> svc] @@ UnregDesign(p)
  ELSE IF svc = "conn" THEN [svc |-> svc] @@ ConnDesign(p)
  ELSE IF svc = "tz" THEN [svc |-> svc] @@ TzDesign(be, p)
  ELSE [svc |-> "none"]
=============================================================================
