------------------------ MODULE SeekChainCloneTrace ------------------------
(* C20 - trace validation of the cloneable reader (CloneableSeekableReader over a plain cursor or over a multi-volume
   SeekableChain) against one reference cursor PER CLONE over the same bytes.

   trace lines (ndjson), real byte counts:
     {"ev":"reset","case":n,"hdr":{"total":t,"nc":k,"concat":[bytes] or [] when t > 64,"below":"cursor"|"chain","sizes":[..]}}
     {"ev":"read","c":c,"n":n,"k":k,"eq":b,"hash":h,"ref_hash":h2,"data":[bytes] or []}    clone c: read(buf of n bytes) = Ok(k);
            eq = the k bytes equal the reference slice at the clone's own position
     {"ev":"seek","c":c,"from":"start"|"cur"|"end","a":arg,"ok":b,"r":result}
     {"ev":"clone","c":c2,"a":c}            clone c2 is dropped and made anew from clone c
     {"ev":"rte","c":c,"k":k,"eq":b,"hash":h,"ref_hash":h2}                                 read_to_end on clone c
     {"ev":"end"} / {"ev":"panic","msg":..}
   Contract: every clone behaves like its own cursor over the bytes: read returns k <= n bytes Concat[pos[c], pos[c]+k), k = 0
   only for n = 0 or at the end; a seek (target inside [0, total]) returns the target; a new clone starts where its origin is;
   operations on one clone never move another one.                                                                    *)
EXTENDS Integers, Sequences, FiniteSets, TLC, Json, IOUtils

Rec == ndJsonDeserialize(IOEnv.TRACE)

VARIABLES l, case, phase, hdr, pos, viol
vars == <<l, case, phase, hdr, pos, viol>>

NoHdr == [total |-> 0, nc |-> 0, concat |-> <<>>]
Init == l = 1 /\ case = -1 /\ phase = "idle" /\ hdr = NoHdr /\ pos = <<>> /\ viol = {}

Ev(e) == l <= Len(Rec) /\ Rec[l].ev = e /\ l' = l + 1
Cur == Rec[l]
Total == hdr.total
IsClone(c) == c \in 1..hdr.nc

Reset == /\ Ev("reset")
         /\ case' = Cur.case /\ hdr' = Cur.hdr /\ pos' = [c \in 1..Cur.hdr.nc |-> 0] /\ phase' = "running"
         /\ viol' = (IF phase = "running" THEN viol \cup {case} ELSE viol)

DataOk(p, k) == /\ Cur.eq /\ Cur.hash = Cur.ref_hash
                /\ (Len(hdr.concat) > 0 => Cur.data = SubSeq(hdr.concat, p + 1, p + k))

Read == /\ Ev("read") /\ phase = "running" /\ IsClone(Cur.c)
        /\ LET c == Cur.c  k == Cur.k IN
           /\ k >= 0 /\ k <= Cur.n /\ pos[c] + k <= Total
           /\ DataOk(pos[c], k)
           /\ (k = 0 => (Cur.n = 0 \/ pos[c] = Total))
           /\ pos' = [pos EXCEPT ![c] = @ + k]
        /\ UNCHANGED <<case, phase, hdr, viol>>

Target == IF Cur.from = "start" THEN Cur.a ELSE IF Cur.from = "cur" THEN pos[Cur.c] + Cur.a ELSE Total + Cur.a
Seek == /\ Ev("seek") /\ phase = "running" /\ IsClone(Cur.c)
        /\ Cur.from \in {"start", "cur", "end"}
        /\ Target >= 0 /\ Target <= Total
        /\ Cur.ok /\ Cur.r = Target
        /\ pos' = [pos EXCEPT ![Cur.c] = Target]
        /\ UNCHANGED <<case, phase, hdr, viol>>

Clone == /\ Ev("clone") /\ phase = "running" /\ IsClone(Cur.c) /\ IsClone(Cur.a)
         /\ pos' = [pos EXCEPT ![Cur.c] = pos[Cur.a]]
         /\ UNCHANGED <<case, phase, hdr, viol>>

Rte == /\ Ev("rte") /\ phase = "running" /\ IsClone(Cur.c)
       /\ Cur.k = Total - pos[Cur.c] /\ Cur.eq /\ Cur.hash = Cur.ref_hash
       /\ pos' = [pos EXCEPT ![Cur.c] = Total]
       /\ UNCHANGED <<case, phase, hdr, viol>>

End == /\ Ev("end") /\ phase = "running"
       /\ phase' = "ended" /\ UNCHANGED <<case, hdr, pos, viol>>

Matches == ENABLED Read \/ ENABLED Seek \/ ENABLED Clone \/ ENABLED Rte \/ ENABLED End
Reject == /\ l <= Len(Rec) /\ Cur.ev # "reset" /\ phase = "running" /\ ~Matches
          /\ PrintT(<<"CASE_REJECTED", case, l, ToJson(Cur)>>)
          /\ l' = l + 1 /\ phase' = "rejected" /\ viol' = viol \cup {case}
          /\ UNCHANGED <<case, hdr, pos>>
SkipRest == /\ l <= Len(Rec) /\ Cur.ev # "reset" /\ phase \in {"rejected", "ended", "idle"}
            /\ l' = l + 1
            /\ (IF phase = "ended" THEN viol' = viol \cup {case} /\ phase' = "rejected"
                                   ELSE UNCHANGED <<viol, phase>>)
            /\ UNCHANGED <<case, hdr, pos>>

Next == Reset \/ Read \/ Seek \/ Clone \/ Rte \/ End \/ Reject \/ SkipRest
Spec == Init /\ [][Next]_vars

AtEnd == l = Len(Rec) + 1
FinalViol == IF phase = "running" THEN viol \cup {case} ELSE viol
Report == AtEnd => PrintT(<<"VERDICT", ToJson([violations |-> FinalViol, known |-> {}])>>)
Accepted == IF TLCGet("stats").diameter - 1 = Len(Rec) THEN TRUE
            ELSE Print(<<"TRACE_NOT_CONSUMED", TLCGet("stats").diameter, Len(Rec)>>, FALSE)
=============================================================================
