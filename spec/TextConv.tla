------------------------------- MODULE TextConv -------------------------------
(* X04 - the text-log converters as line-driven state machines (design module, implementation-shaped):

     Kind = "asc"     src/utils/asc2dltmsgiterator.rs   Asc2DltMsgIterator   (+ get_ecuid_for_namespace)
     Kind = "logcat"  src/utils/logcat2dltmsgiterator.rs LogCat2DltMsgIterator (+ utils::get_apid_for_tag)
     Kind = "genlog"  src/utils/genlog2dltmsgiterator.rs GenLog2DltMsgIterator (+ utils::get_apid_for_tag)

   A case (chosen in Init) is a sequence of files converted one after the other in ONE namespace, each by a fresh
   iterator.  One `Line` step consumes one line and appends 0, 1 or 2 messages; `EndFile` closes the file.
   State of the iterator (st), of the namespace (keys: ECU names of CAN channels, tags: tag -> APID):

     asc     date/dated  time base from the last `date` line (construction time before the first one)
             off         offset added to time stamps when a reference time is given (0.1 ms)
             fneg        first negative offset since the last date line (time stamps of negative offsets count from it)
             chmap       channel -> ECU of this file (first use binds; BusMapping name or AUTO name in the namespace)
     logcat  lastmono    last up-time stamp (initially 10000 s), tref/hasref: origin of absolute-mode time stamps
             seen        tags already announced by this iterator
     genlog  first/hasfirst  reception time of the first record, seen

   The code's known deviations are modelled as coded and can be repaired by constants (FALSE = the tree as it is):
     FixTrail     a CAN / CAN FD line that ends with its last data byte keeps its data bytes
     FixUpper     frame ids written with upper-case hex digits are accepted
     FixPrevYear  a logcat date of the previous year is taken as absolute time instead of a negative up-time (panic)

   TLC checks on every case: the output conforms to the contract of TextConvDefs (with the findings' allowances,
   and strictly whenever no finding is touched), and reception times are ordered like the file's time stamps.
   EmitScn prints one scenario per case: input, predicted messages, the strict contract's verdict.              *)
EXTENDS TextConvDefs, Json

CONSTANTS Kind, Tier, Cases(_), FixTrail, FixUpper, FixPrevYear, Emit

VARIABLES files, f, i, st, keys, tags, obs, ends, done
vars == <<files, f, i, st, keys, tags, obs, ends, done>>

NsMod == 7                                       \* the namespace number (mod 100) of scenario cases
Now == [s |-> 1700000000, us |-> 0]              \* stands for the iterator's construction time (asc without date line)
Huge == 2000000001                               \* what the driver reports for values beyond 2 * 10^9

Msg(idx, rx, dms, ecu, apid, ctid, mstp, mtin, verb, noar, plen, id, data, hastext, text, svc, cst, cnt, papid, nctx, desc) ==
  [index |-> idx, mcnt |-> idx % 256, htyp |-> 53, len |-> 22 + plen, rx_s |-> rx.s, rx_us |-> rx.us, dms |-> dms,
   ecu |-> ecu, apid |-> apid, ctid |-> ctid, mstp |-> mstp, mtin |-> mtin, verb |-> verb, noar |-> noar, plen |-> plen,
   id |-> id, data |-> data, hastext |-> hastext, text |-> text,
   svc |-> svc, cst |-> cst, cnt |-> cnt, papid |-> papid, nctx |-> nctx, desc |-> desc, cwf |-> TRUE]
InfoMsg(idx, rx, dms, ecu, apid, ctid, descChars) ==
  Msg(idx, rx, dms, ecu, apid, ctid, "ctrl", 2, FALSE, 2, 15 + Len(descChars), 0, <<>>, FALSE, "", 3, 7, 1, apid, 0, Str(descChars))
LogMsg(idx, rx, dms, ecu, apid, ctid, mtin, text) ==
  Msg(idx, rx, dms, ecu, apid, ctid, "log", mtin, TRUE, 0, 0, 0, <<>>, TRUE, text, 0, 0, 0, "", 0, "")
Res(s, k, t, msgs, panic) == [st |-> s, keys |-> k, tags |-> t, msgs |-> msgs, panic |-> panic]

-----------------------------------------------------------------------------
\* ASC
AscInit == [dated |-> FALSE, date |-> Now, off |-> 0, fneg |-> TZero, chmap |-> <<>>]
CanName(p) == IF p < 10 THEN "CAN" \o ToString(p) ELSE IF p < 100 THEN "CA" \o ToString(p) ELSE "C" \o ToString(p)
\* get_ecu + get_ecuid_for_namespace
GetEcu(s, k, ch, hasname, name) ==
  IF ch \in DOMAIN s.chmap THEN [ecu |-> s.chmap[ch], st |-> s, keys |-> k]
  ELSE LET key == IF hasname THEN name ELSE "AUTO_CAN_ID_" \o ToString(Len(k) + 1)
           P == {p \in 1..Len(k) : k[p] = key}
           pos == IF P # {} THEN Min(P) ELSE Len(k) + 1
           ecu == CanName(pos)
       IN [ecu |-> ecu, st |-> [s EXCEPT !.chmap = @ @@ (ch :> ecu)], keys |-> IF P # {} THEN k ELSE Append(k, key)]

AscFrame(s, k, t, idx, l) ==
  LET ts == AscTs(l)
      neg == TLess(ts, TZero)
      s1 == IF neg /\ s.fneg = TZero THEN [s EXCEPT !.fneg = ts] ELSE s
      g == GetEcu(s1, k, l.ch, FALSE, "")
      d == TSub(ts, s1.fneg)
      q == IF TLess(d, TZero) THEN DmsCeil(d) ELSE DmsFloor(d)            \* i64 division truncates towards zero
      dms == IF ~neg THEN s1.off + DmsFloor(ts)
             ELSE IF s1.off > 0 THEN MaxI(0, s1.off + DmsCeil(ts))         \* saturating_sub of the truncated magnitude
             ELSE IF q < 0 THEN Huge ELSE q                                \* `as u32` of a negative value
      hasdata == AscDataLen(l) > 0 /\ (l.trail # 0 \/ FixTrail)            \* loc_d_end < line.len()
      data == IF hasdata THEN l.data ELSE <<>>
      rx == TAdd(s1.date, ts)
      m == IF l.k = "err"
           THEN Msg(idx, rx, dms, g.ecu, "CAN", "TC", "nw", 2, FALSE, 2, 0, 0, <<>>, TRUE, "Error Frame", 0, 0, 0, "", 0, "")
           ELSE Msg(idx, rx, dms, g.ecu, "CAN", "TC", "nw", 2, FALSE, 2, 4 + Len(data), l.id, data, FALSE, "", 0, 0, 0, "", 0, "")
  IN Res(g.st, g.keys, t, <<m>>, FALSE)

AscStep(fh, s, k, t, idx, l) ==
  IF AscIsFrame(l) THEN (IF AscUpper(l) /\ ~FixUpper THEN Res(s, k, t, <<>>, FALSE)      \* [0-9a-fx]+ does not match
                         ELSE AscFrame(s, k, t, idx, l))
  ELSE IF l.k = "date" THEN
       LET d == AscDate(l) IN
       Res([s EXCEPT !.date = d, !.dated = TRUE, !.fneg = TZero,
                     !.off = (IF fh.hasref /\ TLess(fh.ref, d) THEN DmsFloor(TSub(d, fh.ref)) ELSE @)], k, t, <<>>, FALSE)
  ELSE IF l.k = "map" THEN
       LET g == GetEcu(s, k, l.ch, TRUE, Str(l.name)) IN
       Res(g.st, g.keys, t, <<InfoMsg(idx, s.date, s.off, g.ecu, "CAN", "TC", l.name)>>, FALSE)
  ELSE Res(s, k, t, <<>>, FALSE)

-----------------------------------------------------------------------------
\* get_apid_for_tag (exact)
Upper == {"A", "B", "C", "D", "E", "F", "G", "H", "I", "J", "K", "L", "M", "N", "O", "P", "Q", "R", "S", "T", "U", "V",
          "W", "X", "Y", "Z"}
Count(cs, P(_)) == Cardinality({j \in 1..Len(cs) : P(cs[j])})
RECURSIVE SnakeFrom(_, _, _, _, _)
SnakeFrom(cs, j, ab, take, need) ==
  IF j > Len(cs) \/ Len(ab) >= 4 THEN ab
  ELSE IF cs[j] = "_" THEN SnakeFrom(cs, j + 1, ab, TRUE, need)
  ELSE IF take \/ need > 0 THEN SnakeFrom(cs, j + 1, Append(ab, cs[j]), FALSE, IF take THEN need ELSE need - 1)
  ELSE SnakeFrom(cs, j + 1, ab, FALSE, need)
RECURSIVE CamelFrom(_, _, _, _)
CamelFrom(cs, j, ab, need) ==
  IF j > Len(cs) \/ Len(ab) >= 4 THEN ab
  ELSE IF cs[j] \in Upper THEN CamelFrom(cs, j + 1, Append(ab, cs[j]), need)
  ELSE IF need > 0 THEN CamelFrom(cs, j + 1, Append(ab, cs[j]), need - 1)
  ELSE CamelFrom(cs, j + 1, ab, need)
Abbrev(cs) ==
  IF Len(cs) <= 4 THEN cs
  ELSE IF \E j \in 1..Len(cs) : cs[j] = "_"
       THEN LET nu == Count(cs, LAMBDA c : c = "_") IN SnakeFrom(cs, 1, <<>>, TRUE, IF nu < 3 THEN 3 - nu ELSE 0)
       ELSE LET nc == Count(cs, LAMBDA c : c \in Upper) IN CamelFrom(cs, 1, <<>>, IF nc < 4 THEN 4 - nc ELSE 0)
RECURSIVE Zeros(_)
Zeros(n) == IF n <= 0 THEN "" ELSE "0" \o Zeros(n - 1)
\* get_4digit_str
Get4(ab, it) ==
  IF it = 0 THEN Str(ab)
  ELSE LET ln == IF it < 10 THEN 1 ELSE IF it < 100 THEN 2 ELSE IF it < 1000 THEN 3 ELSE 4
           needed == IF ln > 3 THEN 0 ELSE 4 - ln
       IN IF needed > Len(ab) THEN Str(ab) \o Zeros(4 - Len(ab) - ln) \o ToString(it)
          ELSE Str(SubSeq(ab, 1, needed)) \o ToString(it)
RECURSIVE FirstFree(_, _, _)
FirstFree(ab, it, used) == IF Get4(ab, it) \in used THEN FirstFree(ab, it + 1, used) ELSE Get4(ab, it)
\* t: sequence of [tag, apid] of the namespace
GetApid(t, cs) ==
  LET tag == Str(cs)
      P == {p \in 1..Len(t) : t[p].tag = tag}
  IN IF P # {} THEN [apid |-> t[Min(P)].apid, tags |-> t]
     ELSE LET a == FirstFree(Abbrev(cs), 0, {t[p].apid : p \in 1..Len(t)}) IN [apid |-> a, tags |-> Append(t, [tag |-> tag, apid |-> a])]

\* announcement (first record of a tag in this iterator) + the record itself
LogPair(s, k, t, idx, ecu, ctid, l, rx, ts, mtin, text) ==
  LET tag == Str(l.tag)
      g == GetApid(t, l.tag)
      new == tag \notin s.seen
      dms == DmsFloor(ts)
      s2 == [s EXCEPT !.seen = @ \cup {tag}]
  IN IF new /\ tag # ""
     THEN Res(s2, k, g.tags, <<InfoMsg(idx, rx, dms, ecu, g.apid, ctid, l.tag), LogMsg(idx + 1, rx, dms, ecu, g.apid, ctid, mtin, text)>>, FALSE)
     ELSE Res(s2, k, g.tags, <<LogMsg(idx, rx, dms, ecu, g.apid, ctid, mtin, text)>>, FALSE)

-----------------------------------------------------------------------------
\* logcat
LcInit == [lastmono |-> [s |-> 10000, us |-> 0], hasref |-> FALSE, tref |-> TZero, seen |-> {}]
LcStep(fh, s, k, t, idx, l) ==
  LET ref == LcRefDate(fh.mod)
      ecu == FixedEcu("logcat", NsMod)
      jan1 == [s |-> LcJan1(ref), us |-> 0]
  IN IF l.k = "mono" THEN LET ts == LcMonoTs(l) IN LogPair(s, k, t, idx, ecu, "LogC", l, TAdd(fh.mod, ts), ts, LcMtin(l.lvl), LcText(l))
     ELSE IF l.k = "tt" THEN
       LET T == LcT(ref, l) IN
       IF T.s < jan1.s + 43200 /\ ~(FixPrevYear /\ T.s < jan1.s)
       THEN LET d == TSub(T, jan1) IN                                           \* case a: up-time since 1 Jan
            IF TLess(d, TZero) THEN Res(s, k, t, <<>>, TRUE)                     \* negative duration as u64 + start time: overflow
            ELSE LogPair([s EXCEPT !.lastmono = d], k, t, idx, ecu, "LogC", l, TAdd(fh.mod, d), d, LcMtin(l.lvl), LcText(l))
       ELSE IF s.hasref                                                         \* case b: absolute time
            THEN LogPair(s, k, t, idx, ecu, "LogC", l, T, TSat(TSub(T, s.tref)), LcMtin(l.lvl), LcText(l))
            ELSE LogPair([s EXCEPT !.hasref = TRUE, !.tref = TSub(T, s.lastmono)], k, t, idx, ecu, "LogC", l, T, s.lastmono,
                         LcMtin(l.lvl), LcText(l))
     ELSE Res(s, k, t, <<>>, FALSE)

-----------------------------------------------------------------------------
\* genlog
GlInit == [hasfirst |-> FALSE, first |-> TZero, seen |-> {}]
GlStep(fh, s, k, t, idx, l) ==
  IF l.k = "rec" THEN
     LET T == GlT(l)
         ts == IF s.hasfirst THEN TSat(TSub(T, s.first)) ELSE TZero
         s1 == IF s.hasfirst THEN s ELSE [s EXCEPT !.hasfirst = TRUE, !.first = T]
     IN LogPair(s1, k, t, idx, FixedEcu("genlog", NsMod), "GenL", l, T, ts, GlMtin(l.lvl), l.msg)
  ELSE Res(s, k, t, <<>>, FALSE)

-----------------------------------------------------------------------------
InitSt == IF Kind = "asc" THEN AscInit ELSE IF Kind = "logcat" THEN LcInit ELSE GlInit
Step(fh, s, k, t, idx, l) == IF Kind = "asc" THEN AscStep(fh, s, k, t, idx, l)
                             ELSE IF Kind = "logcat" THEN LcStep(fh, s, k, t, idx, l) ELSE GlStep(fh, s, k, t, idx, l)

Init == /\ \E p \in 1..3 : files \in Cases(p)
        /\ f = 1 /\ i = 1 /\ st = InitSt /\ keys = <<>> /\ tags = <<>>
        /\ obs = <<<<>>>> /\ ends = <<>> /\ done = FALSE

Line == /\ ~done /\ i <= Len(files[f].lines)
        /\ LET r == Step(files[f], st, keys, tags, files[f].start + Len(obs[f]), files[f].lines[i]) IN
           IF r.panic THEN /\ ends' = Append(ends, "panic") /\ done' = TRUE /\ UNCHANGED <<f, i, st, keys, tags, obs>>
           ELSE /\ st' = r.st /\ keys' = r.keys /\ tags' = r.tags /\ obs' = [obs EXCEPT ![f] = @ \o r.msgs] /\ i' = i + 1
                /\ UNCHANGED <<f, ends, done>>
        /\ UNCHANGED files

EndFile == /\ ~done /\ i > Len(files[f].lines)
           /\ ends' = Append(ends, "eof")
           /\ IF f < Len(files) THEN /\ f' = f + 1 /\ i' = 1 /\ st' = InitSt /\ obs' = Append(obs, <<>>) /\ UNCHANGED done
                                ELSE /\ done' = TRUE /\ UNCHANGED <<f, i, st, obs>>
           /\ UNCHANGED <<files, keys, tags>>

Next == Line \/ EndFile
Spec == Init /\ [][Next]_vars /\ WF_vars(Next)

-----------------------------------------------------------------------------
KFNow == [upper |-> ~FixUpper, notrail |-> ~FixTrail, prev |-> ~FixPrevYear]
AllLines == {<<a, b>> \in (1..Len(files)) \X (1..20) : b <= Len(files[a].lines)}
LineAt(p) == files[p[1]].lines[p[2]]
Touched == \E p \in AllLines :
             \/ (Kind = "asc" /\ ((AscUpper(LineAt(p)) /\ ~FixUpper) \/ (AscNoTrail(LineAt(p)) /\ ~FixTrail)))
             \/ (Kind = "logcat" /\ ~FixPrevYear /\ LineAt(p).k = "tt" /\ LcMode(LcRefDate(files[p[1]].mod), LineAt(p)) = "prev")

\* the design conforms to the contract: with the findings' allowances always, strictly when no finding is touched
ConformsKF == done => Conforms(KFNow, Kind, NsMod, files, obs, ends)
StrictUnlessTouched == (done /\ ~Touched) => Conforms(NoKF, Kind, NsMod, files, obs, ends)
\* the strict contract notices every finding that changes the output (the allowances are needed, i.e. not vacuous)
Terminates == <>done

\* reception times follow the file: non-decreasing time stamps (one time base) give non-decreasing reception times
RxSeq(a) == [j \in 1..Len(obs[a]) |-> [s |-> obs[a][j].rx_s, us |-> obs[a][j].rx_us]]
NonDecr(sq) == \A j \in 1..(Len(sq) - 1) : TLeq(sq[j], sq[j + 1])
LineTimes(a) ==
  LET L == files[a].lines IN
  IF Kind = "asc" THEN [j \in 1..Len(L) |-> IF AscIsFrame(L[j]) THEN AscTs(L[j]) ELSE TZero]
  ELSE IF Kind = "genlog" THEN [j \in 1..Len(L) |-> IF L[j].k = "rec" THEN GlT(L[j]) ELSE TZero]
  ELSE [j \in 1..Len(L) |-> IF L[j].k = "mono" THEN LcMonoTs(L[j]) ELSE IF L[j].k = "tt" THEN LcT(LcRefDate(files[a].mod), L[j]) ELSE TZero]
OneBase(a) ==
  LET L == files[a].lines
      R == {j \in 1..Len(L) : (Kind = "asc" /\ AscYields(L[j])) \/ (Kind = "logcat" /\ LcIsRec(L[j])) \/ (Kind = "genlog" /\ L[j].k = "rec")}
  IN /\ (Kind = "asc" => /\ Len(L) > 0 /\ L[1].k = "date" /\ \A j \in 2..Len(L) : L[j].k \notin {"date", "map"})
     /\ (Kind = "logcat" => \/ \A j \in R : L[j].k = "mono"
                            \/ \A j \in R : L[j].k = "tt" /\ LcMode(LcRefDate(files[a].mod), L[j]) = "up"
                            \/ \A j \in R : L[j].k = "tt" /\ LcMode(LcRefDate(files[a].mod), L[j]) = "abs")
     /\ \A j1, j2 \in R : j1 < j2 => TLeq(LineTimes(a)[j1], LineTimes(a)[j2])
Monotone == done => \A a \in 1..Len(obs) : OneBase(a) => NonDecr(RxSeq(a))

\* scenario emission
Slow == Kind = "asc" /\ \E a \in 1..Len(files) : \E j \in 1..Len(files[a].lines) :
            AscYields(files[a].lines[j]) /\ ~\E j0 \in 1..(j - 1) : files[a].lines[j0].k = "date"
EmitScn == (done /\ Emit) =>
  PrintT(<<"SCN", ToJson([kind |-> Kind, nsmod |-> NsMod, files |-> files, pred |-> obs, ends |-> ends,
                          ok |-> Conforms(NoKF, Kind, NsMod, files, obs, ends), slow |-> Slow])>>)
\* the three checks in one invariant (each conformance is evaluated once per finished case)
AllInOne == done =>
  LET strict == Conforms(NoKF, Kind, NsMod, files, obs, ends)
      withkf == IF KFNow = NoKF THEN strict ELSE Conforms(KFNow, Kind, NsMod, files, obs, ends)
  IN /\ withkf
     /\ (~Touched => strict)
     /\ \A a \in 1..Len(obs) : OneBase(a) => NonDecr(RxSeq(a))
     /\ (Emit => PrintT(<<"SCN", ToJson([kind |-> Kind, nsmod |-> NsMod, files |-> files, pred |-> obs, ends |-> ends,
                                          ok |-> strict, slow |-> Slow])>>))
=============================================================================
