------------------------------ MODULE Pipeline ------------------------------
(* C13 - processing pipelines over bounded channels (DESIGN.md section 6, C13).

   Processes: 0 = producer, 1..NS = stages, NS+1 = consumer; channel i connects process i to process i+1 and is a
   bounded FIFO of capacity caps[i] (0 = rendezvous: a value can only be handed over while the receiver waits).
   A stage is a deterministic sequential transducer with an internal buffer (what adlt's stages are):
       "id"    forwards everything                                  (plugins that keep everything)
       "hold"  holds messages and releases them in order in bursts  (lifecycle detection: buffered_msgs)
       "drop"  forwards only some messages                          (filter_as_streams, plugins returning false)
       "heap"  releases the smallest key once more than H are held  (buffer_sort_messages)
   and at end of input flushes what it still holds.

   Every send goes through the helper adlt::utils::sync_sender_send_delay_if_full, modelled by its atomic steps:
       TrySendOk            try_send succeeded
       TrySendFull          try_send returned Full(m)   -> Sleeping (10 ms)
       Wake                 the sleep is over           -> Blocking
       BlockingSend         send(m) completes as soon as there is room
       SendErr              try_send returned Disconnected(m) / send(m) returned Err: the receiver is gone
   Two error-handling styles of the code are modelled:
       "return"    the stage function returns on the first send error (plugins_process_msgs, buffer_sort_messages,
                   filter_as_streams, the producers in convert.rs / remote.rs): sender and receiver are dropped
       "continue"  parse_lifecycles_buffered_from_stream: an error inside one of its inner release loops only ends
                   that loop - the stage keeps consuming its input (and failing to send) until the input ends or
                   the main-loop send fails; both continuations are allowed at every error.
   Rendezvous hand-over needs one side PARKED: try_send succeeds on a capacity-0 channel only while the receiver is
   parked in a blocking receive, try_recv only while a sender is parked in a blocking send.  The consumer's style is
   explicit (cstyle): "block" = recv()/recv_timeout() (parks), "poll" = try_recv + sleep (never parks; remote.rs's
   close-drain loop).  The helper's contract is therefore: AFTER A Full THE SENDER PARKS (blocking send) UNTIL THE MESSAGE
   IS TAKEN OR THE RECEIVER IS GONE - Wake leads to "block", never back to another try_send.  PollingHelper = TRUE is the
   deviation "retry try_send after every sleep" (model self-test only): with a polling consumer on a rendezvous channel
   nothing is ever handed over and Termination fails.
   The consumer may drop its receiver (dropAt = number of messages it takes before; -1 = never).

   The lifecycle ("hold") stage also PUBLISHES its table (evmap refresh) under a refresh index, the way
   parse_lifecycles_buffered_from_stream does: on every confirmation (burst release) the confirmed entry `a` (= number of
   messages consumed so far), at end of input the still buffered entry `b`, and after the final flush the final state of
   `a`; consumers follow the table incrementally by the index (remote.rs process_file_context: take what carries an index
   larger than the largest one seen).  pub = [val, idx, next, ok]; an observer process folds with exactly that rule.
   Invariants PublishIdxMonotone (every publish that changes the visible table carries an index strictly larger than
   any index published before) and FoldUpToDate (an observer that has seen the current index holds the current table).
   SkipIdxStep = TRUE is the deviation "index not advanced after the end-of-stream publish" (model self-test only).

   Safety (TLC, every capacity vector and every interleaving): what the consumer received is a prefix of RefOut,
   the output of the same transducers composed functionally (= the run with unbounded channels, Kahn semantics), and
   equal to it when the consumer never dropped; no channel ever holds more than its capacity.
   Liveness (weak fairness per process): every process terminates - in particular after the consumer dropped. *)
EXTENDS Integers, Sequences, FiniteSets, TLC, Json

CONSTANTS NMsgs,        \* the producer sends 1..NMsgs
          Kinds,        \* sequence of stage kinds
          Styles,       \* sequence of error styles, "return" | "continue", one per stage
          CapAlphabet,  \* capacities a channel may have
          DropChoices,  \* values of dropAt (-1 = the consumer never drops)
          H,            \* the heap stage holds at most H messages
          PStalls, CStalls,  \* pacing hints for the real run (no effect here: TLC explores every schedule anyway)
          ConsumerStyles,  \* subset of {"block", "poll"}
          StylesEverywhere, \* FALSE: choose the style only where it matters (last channel is a rendezvous channel) - fewer states
          PollingHelper,   \* FALSE = as coded
          Observe,      \* TRUE: a table observer polls at arbitrary points (more states)
          SkipIdxStep   \* FALSE = as coded

NS == Len(Kinds)
C == NS + 1
Procs == 0..C
Chans == 0..NS

VARIABLES caps, dropAt, pstall, cstall, cstyle,      \* scenario parameters, fixed in Init
          pc,        \* [Procs -> "recv" | "send" | "sleep" | "block" | "done"]
          st,        \* [1..NS -> transducer state]
          outq,      \* [0..NS -> outputs of the current batch still to be sent]
          fin,       \* [0..NS -> input exhausted, the current batch is the last]
          q,         \* [Chans -> FIFO content]
          sAlive, rAlive,   \* [Chans -> sender / receiver of the channel still exists]
          received, dropped,
          seen,      \* messages consumed by the lifecycle stage
          pub,       \* published table: [val |-> [a, b], idx |-> index of the last publish, next |-> next index, ok]
          obs        \* the incremental observer: [last |-> largest index seen, val |-> folded table]
params == <<caps, dropAt, pstall, cstall, cstyle>>
vars == <<caps, dropAt, pstall, cstall, cstyle, pc, st, outq, fin, q, sAlive, rAlive, received, dropped, seen, pub, obs>>

-----------------------------------------------------------------------------
\* the stage transducers
HeapKey(m) == IF m % 2 = 1 THEN m + 2 ELSE m            \* arrival order is not key order
KeyLT(a, b) == HeapKey(a) < HeapKey(b) \/ (HeapKey(a) = HeapKey(b) /\ a < b)
MinOf(S) == CHOOSE x \in S : \A y \in S : x = y \/ KeyLT(x, y)
RECURSIVE SortedSeq(_)
SortedSeq(S) == IF S = {} THEN <<>> ELSE LET x == MinOf(S) IN <<x>> \o SortedSeq(S \ {x})

InitSt(k) == IF k = "heap" THEN {} ELSE <<>>
StageStep(k, s, m) ==
  CASE k = "id"   -> [st |-> s, outs |-> <<m>>]
    [] k = "hold" -> IF m % 3 = 0 THEN [st |-> <<>>, outs |-> Append(s, m)] ELSE [st |-> Append(s, m), outs |-> <<>>]
    [] k = "drop" -> [st |-> s, outs |-> IF m % 4 = 2 THEN <<>> ELSE <<m>>]
    [] k = "heap" -> LET h == s \cup {m} IN
                     IF Cardinality(h) > H THEN [st |-> h \ {MinOf(h)}, outs |-> <<MinOf(h)>>] ELSE [st |-> h, outs |-> <<>>]
StageFlush(k, s) == CASE k = "hold" -> s [] k = "heap" -> SortedSeq(s) [] OTHER -> <<>>

\* reference semantics: the transducers composed functionally (unbounded channels)
RunStage(k, in) == LET RECURSIVE R(_, _, _)
                       R(i, s, acc) == IF i > Len(in) THEN acc \o StageFlush(k, s)
                                       ELSE LET r == StageStep(k, s, in[i]) IN R(i + 1, r.st, acc \o r.outs)
                   IN R(1, InitSt(k), <<>>)
RECURSIVE RunChain(_, _)
RunChain(j, in) == IF j > NS THEN in ELSE RunChain(j + 1, RunStage(Kinds[j], in))
Input == [i \in 1..NMsgs |-> i]
RefOut == RunChain(1, Input)

-----------------------------------------------------------------------------
Init == /\ caps \in [Chans -> CapAlphabet] /\ dropAt \in DropChoices /\ pstall \in PStalls /\ cstall \in CStalls
        /\ cstyle \in (IF StylesEverywhere \/ caps[NS] = 0 THEN ConsumerStyles ELSE {"block"})
        /\ pc = [p \in Procs |-> IF p = 0 THEN "send" ELSE "recv"]
        /\ st = [p \in 1..NS |-> InitSt(Kinds[p])]
        /\ outq = [p \in 0..NS |-> IF p = 0 THEN Input ELSE <<>>]
        /\ fin = [p \in 0..NS |-> p = 0]
        /\ q = [i \in Chans |-> <<>>]
        /\ sAlive = [i \in Chans |-> TRUE] /\ rAlive = [i \in Chans |-> TRUE]
        /\ received = <<>> /\ dropped = FALSE
        /\ seen = 0 /\ pub = [val |-> [a |-> 0, b |-> FALSE], idx |-> 0, next |-> 1, ok |-> TRUE]
        /\ obs = [last |-> 0, val |-> [a |-> 0, b |-> FALSE]]

\* room in channel i; a rendezvous channel takes a value only while its receiver waits in recv
HasSpace(i) == IF caps[i] = 0 THEN q[i] = <<>> /\ pc[i + 1] = "recv" ELSE Len(q[i]) < caps[i]
\* does the receiver of channel i park while it waits? (the stages do: `for m in inflow`; the consumer depends on its style)
ReceiverParks(i) == i # NS \/ cstyle = "block"

\* publishing (lifecycle stage only)
IsLc(p) == p >= 1 /\ p <= NS /\ Kinds[p] = "hold"
Pub(s, v, step) == [val |-> v, idx |-> s.next, next |-> IF step THEN s.next + 1 ELSE s.next,
                    ok |-> s.ok /\ (v # s.val => s.next > s.idx)]
EndPub(s) == Pub(s, [s.val EXCEPT !.b = TRUE], ~SkipIdxStep)          \* end of input: the still buffered lifecycles (rule #1)
FinalPub(s) == Pub(s, [a |-> seen, b |-> TRUE], TRUE)                  \* forced refresh after the final flush
\* the table when stage p returns (p = lifecycle stage: the code after its main loop publishes twice)
PubOnReturn(p) == IF ~IsLc(p) THEN pub ELSE IF fin[p] THEN FinalPub(pub) ELSE FinalPub(EndPub(pub))

\* process p ends: its sender and its receiver disappear
Terminate(p) == /\ pc' = [pc EXCEPT ![p] = "done"]
                /\ sAlive' = [sAlive EXCEPT ![p] = FALSE]
                /\ rAlive' = IF p >= 1 THEN [rAlive EXCEPT ![p - 1] = FALSE] ELSE rAlive

\* the head of outq[p] goes into channel p
Transfer(p) == /\ q' = [q EXCEPT ![p] = Append(@, Head(outq[p]))]
               /\ outq' = [outq EXCEPT ![p] = Tail(@)]
               /\ IF Tail(outq[p]) # <<>> THEN pc' = [pc EXCEPT ![p] = "send"] /\ UNCHANGED <<sAlive, rAlive>>
                  ELSE IF fin[p] THEN Terminate(p)
                  ELSE pc' = [pc EXCEPT ![p] = "recv"] /\ UNCHANGED <<sAlive, rAlive>>
               /\ pub' = (IF Tail(outq[p]) = <<>> /\ fin[p] THEN PubOnReturn(p) ELSE pub)
               /\ UNCHANGED <<params, st, fin, received, dropped, seen, obs>>

\* try_send: at capacity 0 it needs a PARKED receiver; a blocking send at capacity 0 is itself parked, so a polling receiver finds it
TrySendOk(p) == pc[p] = "send" /\ rAlive[p] /\ HasSpace(p) /\ (caps[p] = 0 => ReceiverParks(p)) /\ Transfer(p)
TrySendFull(p) == /\ pc[p] = "send" /\ rAlive[p] /\ (~HasSpace(p) \/ caps[p] = 0)   \* (rendezvous: the receiver may not be parked yet)
                  /\ pc' = [pc EXCEPT ![p] = "sleep"]
                  /\ UNCHANGED <<params, st, outq, fin, q, sAlive, rAlive, received, dropped, seen, pub, obs>>
Wake(p) == /\ pc[p] = "sleep" /\ pc' = [pc EXCEPT ![p] = IF PollingHelper THEN "send" ELSE "block"]
           /\ UNCHANGED <<params, st, outq, fin, q, sAlive, rAlive, received, dropped, seen, pub, obs>>
BlockingSend(p) == pc[p] = "block" /\ rAlive[p] /\ HasSpace(p) /\ Transfer(p)

StyleOf(p) == IF p = 0 THEN "return" ELSE Styles[p]
SendErr(p) == /\ pc[p] \in {"send", "block"} /\ ~rAlive[p]                    \* Disconnected(m) / Err(m): m is gone with the consumer
              /\ outq' = [outq EXCEPT ![p] = <<>>]
              /\ \/ Terminate(p) /\ pub' = PubOnReturn(p)                      \* the stage function returns
                 \/ /\ StyleOf(p) = "continue" /\ ~fin[p]                    \* inner loop ended, keep consuming
                    /\ pc' = [pc EXCEPT ![p] = "recv"] /\ UNCHANGED <<sAlive, rAlive, pub>>
              /\ UNCHANGED <<params, st, fin, q, received, dropped, seen, obs>>

RecvMsg(p) == /\ pc[p] = "recv" /\ q[p - 1] # <<>>
              /\ LET r == StageStep(Kinds[p], st[p], Head(q[p - 1])) IN
                 /\ st' = [st EXCEPT ![p] = r.st] /\ outq' = [outq EXCEPT ![p] = r.outs]
                 /\ pc' = [pc EXCEPT ![p] = IF r.outs = <<>> THEN "recv" ELSE "send"]
              /\ q' = [q EXCEPT ![p - 1] = Tail(@)]
              /\ IF IsLc(p)
                 THEN /\ seen' = seen + 1          \* a confirmation (burst release) publishes the confirmed entry first
                      /\ pub' = (IF Head(q[p - 1]) % 3 = 0 THEN Pub(pub, [pub.val EXCEPT !.a = seen + 1], TRUE) ELSE pub)
                 ELSE UNCHANGED <<seen, pub>>
              /\ UNCHANGED <<params, fin, sAlive, rAlive, received, dropped, obs>>
RecvEnd(p) == /\ pc[p] = "recv" /\ q[p - 1] = <<>> /\ ~sAlive[p - 1]
              /\ LET f == StageFlush(Kinds[p], st[p]) IN
                 /\ outq' = [outq EXCEPT ![p] = f] /\ fin' = [fin EXCEPT ![p] = TRUE]
                 /\ st' = [st EXCEPT ![p] = InitSt(Kinds[p])]
                 /\ IF f = <<>> THEN Terminate(p) ELSE pc' = [pc EXCEPT ![p] = "send"] /\ UNCHANGED <<sAlive, rAlive>>
                 /\ pub' = (IF ~IsLc(p) THEN pub ELSE IF f = <<>> THEN FinalPub(EndPub(pub)) ELSE EndPub(pub))
              /\ UNCHANGED <<params, q, received, dropped, seen, obs>>

CRecv == /\ pc[C] = "recv" /\ q[NS] # <<>> /\ (dropAt = -1 \/ Len(received) < dropAt)
         /\ received' = Append(received, Head(q[NS])) /\ q' = [q EXCEPT ![NS] = Tail(@)]
         /\ UNCHANGED <<params, pc, st, outq, fin, sAlive, rAlive, dropped, seen, pub, obs>>
CEnd == /\ pc[C] = "recv" /\ q[NS] = <<>> /\ ~sAlive[NS]
        /\ pc' = [pc EXCEPT ![C] = "done"] /\ rAlive' = [rAlive EXCEPT ![NS] = FALSE]
        /\ UNCHANGED <<params, st, outq, fin, q, sAlive, received, dropped, seen, pub, obs>>
CDrop == /\ pc[C] = "recv" /\ dropAt >= 0 /\ Len(received) = dropAt
         /\ pc' = [pc EXCEPT ![C] = "done"] /\ rAlive' = [rAlive EXCEPT ![NS] = FALSE] /\ dropped' = TRUE
         /\ UNCHANGED <<params, st, outq, fin, q, sAlive, received, seen, pub, obs>>

\* the table observer (remote.rs rule): take the table iff it carries an index larger than the largest one seen
Poll == /\ Observe /\ pub.idx > obs.last
        /\ obs' = [last |-> pub.idx, val |-> pub.val]
        /\ UNCHANGED <<params, pc, st, outq, fin, q, sAlive, rAlive, received, dropped, seen, pub>>

SenderNext(p) == TrySendOk(p) \/ TrySendFull(p) \/ Wake(p) \/ BlockingSend(p) \/ SendErr(p)
PNext(p) == IF p = C THEN CRecv \/ CEnd \/ CDrop
            ELSE IF p = 0 THEN SenderNext(0)
            ELSE SenderNext(p) \/ RecvMsg(p) \/ RecvEnd(p)
Next == (\E p \in Procs : PNext(p)) \/ Poll
Spec == Init /\ [][Next]_vars /\ \A p \in Procs : WF_vars(PNext(p))
SpecEmit == Init /\ [][FALSE]_vars          \* scenario emission only needs the initial states

-----------------------------------------------------------------------------
\* the property (C13) on the model
AllDone == \A p \in Procs : pc[p] = "done"
IsPrefix(a, b) == Len(a) <= Len(b) /\ \A i \in 1..Len(a) : a[i] = b[i]
PrefixOfRef == IsPrefix(received, RefOut)                         \* never a lost, duplicated, reordered or invented message
CompleteIfNoDrop == (AllDone /\ ~dropped) => received = RefOut    \* a full channel only delays
DropExact == dropped => Len(received) = dropAt
ChanBound == \A i \in Chans : Len(q[i]) <= (IF caps[i] = 0 THEN 1 ELSE caps[i])
DoneIsFinal == \A p \in 0..NS : pc[p] = "done" => ~sAlive[p]
PublishIdxMonotone == pub.ok        \* a publish that changes the visible table has an index larger than every earlier one
FoldUpToDate == obs.last >= pub.idx => obs.val = pub.val     \* following by index never ends with a stale table
FinalTableComplete == (\E p \in 1..NS : IsLc(p) /\ pc[p] = "done") => pub.val = [a |-> seen, b |-> TRUE]
Termination == <>AllDone                                          \* with and without a consumer drop
DropTerminates == dropped ~> AllDone

\* scenario emission: one line per initial state
EmitScn == PrintT(<<"SCN", ToJson([caps |-> [i \in 1..(NS + 1) |-> caps[i - 1]], drop_at |-> dropAt, kinds |-> Kinds,
                                   nmsgs |-> NMsgs, nout |-> Len(RefOut), pstall |-> pstall, cstall |-> cstall, cstyle |-> cstyle])>>)
=============================================================================
