--------------------------- MODULE ConvertTrace ---------------------------
(* C14 - trace validation of recorded runs of the real `adlt convert` binary against the contract of Convert.tla.

   A trace file holds, per generated input set, one *reference* case followed by many *selection* cases.

   reference case (the tool without any selection defines the unfiltered annotated stream A):
     {"ev":"reset","case":n,"hdr":{"kind":"ref","set":k,"gen":[{key,hash,ecu,apid,ctid,ext,ecuc,apidc,ctidc},...]}}   gen = what the driver wrote (..c = ids as characters)
     {"ev":"refline","index":i,"key":k,"ecu":..,"apid":..,"ctid":..,"ext":b}    one per line of `convert -a <files>`
     {"ev":"exit","code":c}
     {"ev":"lc","id":l,"ecu":..,"n":count}                                     one per line of the lifecycle listing of `convert <files>`
     {"ev":"member","id":l,"idx":[indices]}                                     lines of `convert -s --lcs=l <files>`, one run per listed id
     {"ev":"end"}
   contract: the lines are exactly the generated messages (every key once, ids as generated), numbered 0,1,2,...; the
   lifecycle runs partition the indices, every member has the ECU of its lifecycle and the sizes equal the listed counts.

   selection case:
     {"ev":"reset","case":n,"hdr":{"kind":"sel","set":k,"opts":{winc,lcsc,b,e,lcs:[..],eac:[..],ff:[..],ffmt,sort,style,ofile},"perm":[..]}}
     {"ev":"line","index":i,"key":k,"ecu":..,"apid":..,"ctid":..}               one per stdout message line
     {"ev":"exit","code":c}
     {"ev":"filemsg","key":k,"hash":h}                                          one per message of the re-read -o file
     {"ev":"end"}
   contract: Convert!CanEmit for every line / file message (selected, not yet emitted, ascending unless --sort; the line
   shows the index and ids of that message of A; the file message has the hash of the generated message), exit code 0,
   `end` only when every selected sink got all of Sel.  `perm` is the order of the file arguments (the reference uses
   the identity): because the contract is deterministic without --sort, accepted runs are identical for all orders.

   Any other event (panic, nofile, ...) matches no action => the case is rejected.  Selection cases whose reference
   case was rejected cannot be judged and are skipped (phase "noref", reported separately).                    *)
EXTENDS Integers, Sequences, FiniteSets, TLC, Json, IOUtils

C == INSTANCE Convert WITH Streams <- {}, Opts <- {}, A <- <<>>, o <- <<>>, scr <- <<>>, fil <- <<>>, done <- FALSE

Rec == ndJsonDeserialize(IOEnv.TRACE)
Range(s) == {s[i] : i \in DOMAIN s}

VARIABLES l, case, phase, kind, AA, gen, lcs, seen, refset, cset, o, sel, scr, fil, exited, viol, skipped
vars == <<l, case, phase, kind, AA, gen, lcs, seen, refset, cset, o, sel, scr, fil, exited, viol, skipped>>

NoOpts == [b |-> 0, e |-> C!MaxIdx, lcs |-> {}, ff |-> <<>>, eac |-> <<>>, sort |-> FALSE, style |-> "none", ofile |-> FALSE]
Init == /\ l = 1 /\ case = -1 /\ phase = "idle" /\ kind = "" /\ AA = <<>> /\ gen = <<>> /\ lcs = <<>> /\ seen = {}
        /\ refset = -1 /\ cset = -1 /\ o = NoOpts /\ sel = {} /\ scr = <<>> /\ fil = <<>> /\ exited = FALSE /\ viol = {} /\ skipped = {}

Ev(e) == l <= Len(Rec) /\ Rec[l].ev = e /\ l' = l + 1
Cur == Rec[l]
Unfinished == phase = "running"

OptsOf(h) == [b |-> h.b, e |-> h.e, lcs |-> Range(h.lcs), ff |-> h.ff, eac |-> h.eac,
              sort |-> h.sort, style |-> h.style, ofile |-> h.ofile]

ResetRef == /\ Ev("reset") /\ Cur.hdr.kind = "ref"
            /\ case' = Cur.case /\ kind' = "ref" /\ phase' = "running"
            /\ AA' = <<>> /\ gen' = Cur.hdr.gen /\ lcs' = <<>> /\ seen' = {} /\ refset' = -1 /\ cset' = Cur.hdr.set
            /\ o' = NoOpts /\ sel' = {} /\ scr' = <<>> /\ fil' = <<>> /\ exited' = FALSE
            /\ viol' = IF Unfinished THEN viol \cup {case} ELSE viol
            /\ UNCHANGED skipped
ResetSel == /\ Ev("reset") /\ Cur.hdr.kind = "sel"
            /\ case' = Cur.case /\ kind' = "sel"
            /\ IF refset = Cur.hdr.set THEN phase' = "running" /\ UNCHANGED skipped
                                       ELSE phase' = "noref" /\ skipped' = skipped \cup {Cur.case}
            /\ o' = OptsOf(Cur.hdr.opts) /\ sel' = C!Sel(AA, OptsOf(Cur.hdr.opts)) /\ scr' = <<>> /\ fil' = <<>> /\ exited' = FALSE
            /\ viol' = IF Unfinished THEN viol \cup {case} ELSE viol
            /\ UNCHANGED <<AA, gen, lcs, seen, refset, cset>>

-----------------------------------------------------------------------------
\* reference case
RefLine == /\ Ev("refline") /\ phase = "running" /\ kind = "ref" /\ ~exited
           /\ Cur.index = Len(AA)                                           \* numbered 0, 1, 2, ... in output order
           /\ \A i \in DOMAIN AA : AA[i].key # Cur.key                      \* each input message once
           /\ \E g \in DOMAIN gen :
                 /\ gen[g].key = Cur.key /\ gen[g].ecu = Cur.ecu /\ gen[g].ext = Cur.ext
                 /\ gen[g].apid = Cur.apid /\ gen[g].ctid = Cur.ctid        \* it is an input message, ids as written
                 /\ AA' = Append(AA, [index |-> Cur.index, key |-> Cur.key, lc |-> 0, ecu |-> Cur.ecu, apid |-> Cur.apid,
                                      ctid |-> Cur.ctid, ext |-> Cur.ext, hash |-> gen[g].hash,
                                      ecuc |-> gen[g].ecuc, apidc |-> gen[g].apidc, ctidc |-> gen[g].ctidc])
           /\ UNCHANGED <<case, phase, kind, gen, lcs, seen, refset, cset, o, sel, scr, fil, exited, viol, skipped>>
RefExit == /\ Ev("exit") /\ phase = "running" /\ kind = "ref" /\ ~exited
           /\ Cur.code = 0 /\ Len(AA) = Len(gen)                            \* no selection => every input message was emitted
           /\ exited' = TRUE
           /\ UNCHANGED <<case, phase, kind, AA, gen, lcs, seen, refset, cset, o, sel, scr, fil, viol, skipped>>
LcRow == /\ Ev("lc") /\ phase = "running" /\ kind = "ref" /\ exited /\ seen = {}
         /\ \A r \in DOMAIN lcs : lcs[r].id # Cur.id
         /\ Cur.id > 0
         /\ lcs' = Append(lcs, [id |-> Cur.id, ecu |-> Cur.ecu, n |-> Cur.n])
         /\ UNCHANGED <<case, phase, kind, AA, gen, seen, refset, cset, o, sel, scr, fil, exited, viol, skipped>>
Member == /\ Ev("member") /\ phase = "running" /\ kind = "ref" /\ exited
          /\ Cur.id \notin seen
          /\ \E r \in DOMAIN lcs :
                /\ lcs[r].id = Cur.id
                /\ Len(Cur.idx) = lcs[r].n                                              \* listed count
                /\ \A j \in DOMAIN Cur.idx :
                      /\ Cur.idx[j] \in 0..(Len(AA) - 1)
                      /\ AA[Cur.idx[j] + 1].lc = 0                                      \* in no other lifecycle
                      /\ AA[Cur.idx[j] + 1].ecu = lcs[r].ecu                            \* a lifecycle belongs to one ECU
                      /\ (\A j2 \in DOMAIN Cur.idx : j2 # j => Cur.idx[j2] # Cur.idx[j])
          /\ AA' = [i \in DOMAIN AA |-> IF (i - 1) \in Range(Cur.idx) THEN [AA[i] EXCEPT !.lc = Cur.id] ELSE AA[i]]
          /\ seen' = seen \cup {Cur.id}
          /\ UNCHANGED <<case, phase, kind, gen, lcs, refset, cset, o, sel, scr, fil, exited, viol, skipped>>
RefEnd == /\ Ev("end") /\ phase = "running" /\ kind = "ref" /\ exited
          /\ seen = {lcs[r].id : r \in DOMAIN lcs}
          /\ \A i \in DOMAIN AA : AA[i].lc # 0                                          \* every message is in a lifecycle
          /\ phase' = "ended" /\ refset' = cset
          /\ UNCHANGED <<case, kind, AA, gen, lcs, seen, cset, o, sel, scr, fil, exited, viol, skipped>>

-----------------------------------------------------------------------------
\* selection case
Line == /\ Ev("line") /\ phase = "running" /\ kind = "sel" /\ ~exited
        /\ "scr" \in C!Sinks(o)
        /\ \E i \in DOMAIN AA :
              /\ AA[i].index = Cur.index /\ AA[i].key = Cur.key
              /\ AA[i].ecu = Cur.ecu /\ AA[i].apid = Cur.apid /\ AA[i].ctid = Cur.ctid
              /\ C!CanEmitSel(sel, o.sort, scr, i)
              /\ scr' = Append(scr, i)
        /\ UNCHANGED <<case, phase, kind, AA, gen, lcs, seen, refset, cset, o, sel, fil, exited, viol, skipped>>
Exit == /\ Ev("exit") /\ phase = "running" /\ kind = "sel" /\ ~exited
        /\ Cur.code = 0
        /\ exited' = TRUE
        /\ UNCHANGED <<case, phase, kind, AA, gen, lcs, seen, refset, cset, o, sel, scr, fil, viol, skipped>>
FileMsg == /\ Ev("filemsg") /\ phase = "running" /\ kind = "sel" /\ exited
           /\ "file" \in C!Sinks(o)
           /\ \E i \in DOMAIN AA :
                 /\ AA[i].key = Cur.key /\ AA[i].hash = Cur.hash
                 /\ C!CanEmitSel(sel, o.sort, fil, i)
                 /\ fil' = Append(fil, i)
           /\ UNCHANGED <<case, phase, kind, AA, gen, lcs, seen, refset, cset, o, sel, scr, exited, viol, skipped>>
End == /\ Ev("end") /\ phase = "running" /\ kind = "sel" /\ exited
       /\ ("scr" \in C!Sinks(o) => C!SinkDoneSel(sel, scr))
       /\ ("file" \in C!Sinks(o) => C!SinkDoneSel(sel, fil))
       /\ phase' = "ended"
       /\ UNCHANGED <<case, kind, AA, gen, lcs, seen, refset, cset, o, sel, scr, fil, exited, viol, skipped>>

-----------------------------------------------------------------------------
Matches == ENABLED RefLine \/ ENABLED RefExit \/ ENABLED LcRow \/ ENABLED Member \/ ENABLED RefEnd
           \/ ENABLED Line \/ ENABLED Exit \/ ENABLED FileMsg \/ ENABLED End
Reject == /\ l <= Len(Rec) /\ Cur.ev # "reset" /\ phase = "running" /\ ~Matches
          /\ PrintT(<<"CASE_REJECTED", case, l, ToJson(Cur)>>)
          /\ l' = l + 1 /\ phase' = "rejected" /\ viol' = viol \cup {case}
          /\ UNCHANGED <<case, kind, AA, gen, lcs, seen, refset, cset, o, sel, scr, fil, exited, skipped>>
SkipRest == /\ l <= Len(Rec) /\ Cur.ev # "reset" /\ phase \in {"rejected", "ended", "idle", "noref"}
            /\ l' = l + 1
            /\ IF phase = "ended" THEN viol' = viol \cup {case} /\ phase' = "rejected"      \* events after `end`
                                  ELSE UNCHANGED <<viol, phase>>
            /\ refset' = IF phase = "ended" /\ kind = "ref" THEN -1 ELSE refset
            /\ UNCHANGED <<case, kind, AA, gen, lcs, seen, cset, o, sel, scr, fil, exited, skipped>>

Next == ResetRef \/ ResetSel \/ RefLine \/ RefExit \/ LcRow \/ Member \/ RefEnd \/ Line \/ Exit \/ FileMsg \/ End
        \/ Reject \/ SkipRest
Spec == Init /\ [][Next]_vars

AtEnd == l = Len(Rec) + 1
FinalViol == IF phase = "running" THEN viol \cup {case} ELSE viol
Report == AtEnd => PrintT(<<"VERDICT", ToJson([violations |-> FinalViol, known |-> {}, skipped |-> skipped])>>)
Accepted == IF TLCGet("stats").diameter - 1 = Len(Rec) THEN TRUE
            ELSE Print(<<"TRACE_NOT_CONSUMED", TLCGet("stats").diameter, Len(Rec)>>, FALSE)
=============================================================================
