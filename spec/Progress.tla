------------------------------ MODULE Progress ------------------------------
(* X02 - design module of adlt::utils::progress::ProgressNonAsyncFuture (src/utils/progress.rs) as a concurrent object.

   Three parties, all interleavings:

     the OBJECT as coded   progress : one atomic word (a value identifier here; the code packs cur | max << 32 into
                                      an AtomicU64, so a store/load of the pair is one atomic step)
                           flag     : the AtomicBool shall_cancel
                           handle   : Option<JoinHandle>  "some" | "taken" (result was delivered) | "dropped"
                           poll()   : if the handle is there and the thread is finished: take + join => Done(r) / Err(());
                                      otherwise Progress(load(progress))      -- also after the result was delivered
                           cancel() : flag := TRUE                  cur_progress() : load(progress)
                           drop     : the handle is dropped = the thread is detached; the flag is NOT set
     the WORKER            a script (sequence of steps, see ProgressContract) executed one gate token per step:
                           upd = store(progress), chk/chkx/wait = load(flag) (+ control flow), ret/panic = end of closure;
                           `Finish` is the thread ending after the closure returned (is_finished() turns true)
     the OBSERVER          (the test driver) releases steps (Go), receives the worker's reports (Ack) and the thread-end
                           signal (FinRecv), and is the owner calling poll / cur_progress / cancel / drop

   Sync = TRUE   one worker step = release + execution + report (+ thread end + its signal) in ONE atomic action:
                 exactly the interleavings the driver can realise deterministically; used for scenario emission
   Sync = FALSE  release, execution, report, thread end and its signal are separate actions and up to MaxOut steps may be
                 outstanding: owner calls race with the worker's steps (atomicity only of the single loads and stores)

   Every behaviour carries the contract state `cs` (ProgressContract!CStep over the observer's events): ContractHolds
   is the refinement check design => contract.  Independent invariants and the temporal properties are stated below. *)
EXTENDS ProgressContract, TLC, Json

CONSTANTS Scripts,        \* set of worker scripts (sequences of [op, v])
          Table,          \* value id -> <<cur, max>> (Table[0] = <<0, 0>>); only used for the monotonicity statement
          MaxOps,         \* owner calls per behaviour (Mode = "free")
          MaxOut,         \* outstanding (released, unacknowledged) steps (Sync = FALSE)
          MaxSpin,        \* iterations of a `wait` step that see the request unset (bounded exploration only)
          Sync, Live,     \* Live = TRUE: unbounded steps, no bookkeeping growth (liveness configs)
          Mode,           \* "free": any MaxOps owner calls; "loop": the owner polls until the result arrives (unit tests)
          CancelInLoop,   \* Mode = "loop": the owner calls cancel() after the first poll that showed progress
          DropCancels,    \* FALSE = as coded; TRUE = variant of proposed_fixes/X02-drop-cancels.diff (drop sets the request)
          Emit            \* record the observer's events (scenario emission)

VARIABLES script, wpc, gate, acks, prog, flag, wst, res, handle, finq, nops, goCount, cs, hist, ndeliv, lastObs, mono, polled
vars == <<script, wpc, gate, acks, prog, flag, wst, res, handle, finq, nops, goCount, cs, hist, ndeliv, lastObs, mono, polled>>
objv == <<prog, flag, handle>>

Init == /\ script \in Scripts
        /\ wpc = 1 /\ gate = 0 /\ acks = <<>> /\ prog = 0 /\ flag = FALSE
        /\ wst = "run" /\ res = "none" /\ handle = "some" /\ finq = 0
        /\ nops = 0 /\ goCount = 0 /\ cs = CInit(script) /\ hist = <<>> /\ ndeliv = 0 /\ lastObs = 0 /\ mono = TRUE
        /\ polled = FALSE

\* observer's record of an event: contract state (always) and compact history (emission)
Enc(e) == IF e.ev = "go" THEN <<1, 0>>
          ELSE IF e.ev = "ack" THEN <<2, IF e.seen THEN 1 ELSE 0>>
          ELSE IF e.ev = "fin" THEN <<3, 0>>
          ELSE IF e.ev = "poll" THEN (IF e.res = "progress" THEN <<4, e.v>> ELSE IF e.res = "done" THEN <<5, e.v>> ELSE <<6, 0>>)
          ELSE IF e.ev = "cur" THEN <<7, e.v>>
          ELSE IF e.ev = "cancel" THEN <<8, 0>>
          ELSE <<9, 0>>
RECURSIVE Fold(_, _)
Fold(s, es) == IF es = <<>> THEN s ELSE Fold(CStep(s, Head(es)), Tail(es))
Log(es) == /\ cs' = Fold(cs, es)
           /\ hist' = (IF Emit THEN hist \o [i \in 1..Len(es) |-> Enc(es[i])] ELSE hist)

-----------------------------------------------------------------------------
\* the worker: execution of script[wpc]; returns the report
Step == script[wpc]
Report == EvAck(Step.op, IF Step.op \in {"upd", "ret"} THEN Step.v ELSE 0, Step.op \in CtlOps /\ flag)
WNext == IF Step.op = "chkx" /\ flag THEN Len(script)
         ELSE IF Step.op = "wait" /\ ~flag THEN wpc
         ELSE wpc + 1
Effect == /\ prog' = (IF Step.op = "upd" THEN Step.v ELSE prog)
          /\ wpc' = WNext
          /\ res' = (IF Step.op = "ret" THEN "ok" ELSE IF Step.op = "panic" THEN "panic" ELSE res)
Last == Step.op \in {"ret", "panic"}
Budget == Live \/ goCount < Len(script) + MaxSpin

SyncStep == /\ Sync /\ wst = "run" /\ Budget
            /\ Effect
            /\ wst' = (IF Last THEN "finished" ELSE "run")
            /\ finq' = (IF Last THEN 2 ELSE finq)
            /\ goCount' = (IF Live THEN goCount ELSE goCount + 1)
            /\ Log(IF Last THEN <<EvGo, Report, EvFin>> ELSE <<EvGo, Report>>)
            /\ UNCHANGED <<script, gate, acks, flag, handle, nops, ndeliv, lastObs, mono, polled>>

Go == /\ ~Sync /\ Budget /\ gate + Len(acks) < MaxOut
      /\ cs.term = "none"                             \* the observer releases nothing after the last step was reported
      /\ gate' = gate + 1 /\ goCount' = (IF Live THEN goCount ELSE goCount + 1)
      /\ Log(<<EvGo>>)
      /\ UNCHANGED <<script, wpc, acks, prog, flag, wst, res, handle, finq, nops, ndeliv, lastObs, mono, polled>>
Exec == /\ ~Sync /\ wst = "run" /\ gate > 0
        /\ Effect
        /\ gate' = gate - 1 /\ acks' = Append(acks, Report)
        /\ wst' = (IF Last THEN "returned" ELSE "run")
        /\ UNCHANGED <<script, flag, handle, finq, nops, goCount, cs, hist, ndeliv, lastObs, mono, polled>>
Finish == /\ ~Sync /\ wst = "returned"
          /\ wst' = "finished" /\ finq' = 1
          /\ UNCHANGED <<script, wpc, gate, acks, prog, flag, res, handle, nops, goCount, cs, hist, ndeliv, lastObs, mono, polled>>
Ack == /\ ~Sync /\ acks # <<>>
       /\ acks' = Tail(acks)
       /\ Log(<<Head(acks)>>)
       /\ UNCHANGED <<script, wpc, gate, prog, flag, wst, res, handle, finq, nops, goCount, ndeliv, lastObs, mono, polled>>
FinRecv == /\ ~Sync /\ finq = 1 /\ acks = <<>>            \* the driver drains the reports before it logs the signal
           /\ finq' = 2
           /\ Log(<<EvFin>>)
           /\ UNCHANGED <<script, wpc, gate, acks, prog, flag, wst, res, handle, nops, goCount, ndeliv, lastObs, mono, polled>>
Worker == SyncStep \/ Exec \/ Finish
Observer == Go \/ Ack \/ FinRecv

-----------------------------------------------------------------------------
\* the owner's calls on the object as coded
Leq(a, b) == Table[a][1] <= Table[b][1]
Saw(v) == /\ lastObs' = v
          /\ mono' = (mono /\ Leq(lastObs, v))
CanCall == IF Mode = "free" THEN nops < MaxOps /\ handle # "dropped" ELSE handle # "dropped" /\ ndeliv = 0
Count == nops' = (IF Mode = "free" THEN nops + 1 ELSE nops)

Poll == /\ CanCall /\ Count
        /\ IF handle = "some" /\ wst = "finished"
           THEN /\ handle' = "taken" /\ ndeliv' = ndeliv + 1
                /\ Log(<<IF res = "ok" THEN EvPoll("done", script[Len(script)].v) ELSE EvPoll("err", 0)>>)
                /\ UNCHANGED <<lastObs, mono>>
           ELSE /\ Log(<<EvPoll("progress", prog)>>) /\ Saw(prog)
                /\ UNCHANGED <<handle, ndeliv>>
        /\ polled' = TRUE
        /\ UNCHANGED <<script, wpc, gate, acks, prog, flag, wst, res, finq, goCount>>
CurProgress == /\ Mode = "free" /\ CanCall /\ Count
               /\ Log(<<EvCur(prog)>>) /\ Saw(prog)
               /\ UNCHANGED <<script, wpc, gate, acks, prog, flag, wst, res, handle, finq, goCount, ndeliv, polled>>
Cancel == /\ CanCall /\ Count
          /\ (Mode = "loop" => CancelInLoop /\ polled /\ ~flag)
          /\ flag' = TRUE
          /\ Log(<<EvCancel>>)
          /\ UNCHANGED <<script, wpc, gate, acks, prog, wst, res, handle, finq, goCount, ndeliv, lastObs, mono, polled>>
Drop == /\ Mode = "free" /\ CanCall /\ Count
        /\ handle' = "dropped" /\ flag' = (flag \/ DropCancels)
        /\ Log(<<EvDrop>>)
        /\ UNCHANGED <<script, wpc, gate, acks, prog, wst, res, finq, goCount, ndeliv, lastObs, mono, polled>>
Owner == Poll \/ CurProgress \/ Cancel \/ Drop

Next == Worker \/ Observer \/ Owner
Spec == Init /\ [][Next]_vars
\* fairness: the worker thread runs and the observer keeps the gate open; in "loop" mode the owner keeps calling
FairSpec == Spec /\ WF_vars(Worker) /\ WF_vars(Observer)
                 /\ (IF Mode = "loop" THEN WF_vars(Poll) /\ WF_vars(Cancel) ELSE TRUE)

ViewNoHist == <<script, wpc, gate, acks, prog, flag, wst, res, handle, finq, nops, goCount, cs, ndeliv, lastObs, mono, polled>>

-----------------------------------------------------------------------------
\* safety
TypeOK == /\ wpc \in 1..(Len(script) + 1) /\ gate \in 0..MaxOut /\ prog \in DOMAIN Table /\ flag \in BOOLEAN
          /\ wst \in {"run", "returned", "finished"} /\ res \in {"none", "ok", "panic"}
          /\ handle \in {"some", "taken", "dropped"} /\ finq \in 0..2 /\ ndeliv \in 0..1
ContractHolds == cs.ok                                           \* design => contract (R1..R5 on every behaviour)
AtMostOnce == ndeliv <= 1
ResultOnlyAfterEnd == ndeliv = 1 => wst = "finished" /\ res # "none" /\ handle # "some"
FinalValueAfterResult == ndeliv = 1 => prog = cs.val \/ cs.out > 0      \* nothing changes the value after the end
\* a worker that reports non-decreasing positions (cur <= max, max fixed) is observed with non-decreasing positions <= max
MonoScript == LET u == SelectSeq(script, LAMBDA st : st.op = "upd") IN
                 /\ \A i \in 1..Len(u) : Table[u[i].v][1] <= Table[u[i].v][2]
                 /\ \A i \in 1..(Len(u) - 1) : Leq(u[i].v, u[i + 1].v) /\ Table[u[i].v][2] = Table[u[i + 1].v][2]
MonotoneObserved == MonoScript => mono /\ (lastObs # 0 => Table[lastObs][1] <= Table[lastObs][2])
\* the flag is only ever set by cancel(): dropping does not cancel (documented limit, see DropNeverLeaks)
FlagOnlyByCancel == flag => cs.cancelled \/ (DropCancels /\ handle = "dropped")

\* liveness (FairSpec)
NoWait == \A i \in 1..Len(script) : script[i].op # "wait"
Finished == wst = "finished"
WorkerWaitFree == NoWait => <>Finished              \* no owner call (nor its absence) ever blocks the worker
CancelTerminates == flag ~> Finished                \* after cancel() every scripted worker ends
LoopDelivers == (NoWait \/ CancelInLoop) => <>(ndeliv = 1)   \* the unit tests' loops terminate with the result
\* EXPECTED TO FAIL (documented limit): a worker that only ends on cancel outlives an object dropped without cancel()
DropNeverLeaks == (handle = "dropped") ~> Finished

-----------------------------------------------------------------------------
\* scenario emission (Sync, Emit): one line per maximal behaviour = script + observer events with the model's predictions
OwnerDone == nops = MaxOps \/ handle = "dropped"
WorkerDone == finq = 2 \/ goCount = Len(script) + MaxSpin
EmitScn == (Emit /\ OwnerDone /\ WorkerDone) =>
              PrintT(<<"SCN", ToJson([script |-> script, ev |-> hist, ok |-> cs.ok])>>)
=============================================================================
