---------------------------- MODULE SorterTrace ----------------------------
(* C10 - trace validation: one recorded run of the real adlt::utils::buffer_sort_messages per case.

   trace lines (ndjson), all times in ticks relative to the case's base (the unit is the driver's choice and does
   not matter: the contract is linear), idx = 0-based position of a message in the input:
     {"ev":"reset","case":n,"hdr":{"D":d,"W":w,"base":b,
                                   "table":[{"id":i,"start":s},...],            the lifecycle table id |-> start
                                   "msgs":[{"lc":i,"rx":t,"ts":t,"ctrl":bool},...]}}   the input, in order
     {"ev":"out","idx":i,"intact":b}    one per message handed to the outflow closure (intact: equal to the input
                                        message in every field; idx is read from a tag in the payload)
     {"ev":"end"}                       buffer_sort_messages returned Ok
     {"ev":"err"} / {"ev":"panic",..}   it returned Err although the outflow never fails / it panicked: no action matches

   The contract is the property.  The calculated time of every message is computed HERE from the logged table
   and message fields:  calc = rx for control requests, else min(start(lc) + ts, rx), a lifecycle missing in the
   table counting as start 0 (absolute, i.e. -base).  boundOK (also evaluated here) = reception times never
   decrease, every rx - calc <= D, and every lifecycle is in the table (narrower reading: the ordering claim
   needs a defined lifecycle start).
     Out(i): i is pending (no invention, no duplicate), the message is unchanged; if boundOK its key (calc, idx)
             is greater than the previous key (ordered by calculated time, ties in original order).
     End:    nothing is pending (no loss).                                                                 *)
EXTENDS Integers, Sequences, FiniteSets, TLC, Json, IOUtils

Rec == ndJsonDeserialize(IOEnv.TRACE)

VARIABLES l, case, phase, hl, pending, lastC, lastI, bound, viol
vars == <<l, case, phase, hl, pending, lastC, lastI, bound, viol>>

Init == l = 1 /\ case = -1 /\ phase = "idle" /\ hl = 0 /\ pending = {} /\ lastC = 0 /\ lastI = -1 /\ bound = FALSE /\ viol = {}

Ev(e) == l <= Len(Rec) /\ Rec[l].ev = e /\ l' = l + 1
Cur == Rec[l]

Min2(a, b) == IF a < b THEN a ELSE b
InTable(h, lc) == \E j \in 1..Len(h.table) : h.table[j].id = lc
StartOf(h, lc) == IF InTable(h, lc) THEN h.table[CHOOSE j \in 1..Len(h.table) : h.table[j].id = lc].start ELSE 0 - h.base
CalcOf(h, m) == IF m.ctrl THEN m.rx ELSE Min2(StartOf(h, m.lc) + m.ts, m.rx)
BoundOK(h) == /\ \A i \in 1..Len(h.msgs) : /\ InTable(h, h.msgs[i].lc)
                                           /\ h.msgs[i].rx - CalcOf(h, h.msgs[i]) <= h.D
              /\ \A i \in 1..(Len(h.msgs) - 1) : h.msgs[i].rx <= h.msgs[i + 1].rx

Reset == /\ Ev("reset")
         /\ case' = Cur.case /\ hl' = l /\ pending' = 0..(Len(Cur.hdr.msgs) - 1)
         /\ LET b == BoundOK(Cur.hdr) IN bound' = b /\ PrintT(<<"BOUND", Cur.case, b>>)   \* coverage information only
         /\ lastC' = 0 /\ lastI' = -1
         /\ phase' = "running"
         /\ viol' = IF phase = "running" THEN viol \cup {case} ELSE viol     \* previous case never ended

Hdr == Rec[hl].hdr
KeyLT(c1, i1, c2, i2) == c1 < c2 \/ (c1 = c2 /\ i1 < i2)

Out == /\ Ev("out") /\ phase = "running"
       /\ Cur.idx \in pending                                        \* a message of the input, not yet delivered
       /\ Cur.intact                                                 \* unaltered
       /\ LET c == CalcOf(Hdr, Hdr.msgs[Cur.idx + 1]) IN
          /\ (bound /\ lastI >= 0 => KeyLT(lastC, lastI, c, Cur.idx))   \* ordered by (calculated time, index)
          /\ lastC' = c /\ lastI' = Cur.idx
       /\ pending' = pending \ {Cur.idx}
       /\ UNCHANGED <<case, phase, hl, bound, viol>>

End == /\ Ev("end") /\ phase = "running" /\ pending = {}
       /\ phase' = "ended" /\ UNCHANGED <<case, hl, pending, lastC, lastI, bound, viol>>

Matches == ENABLED Out \/ ENABLED End
Reject == /\ l <= Len(Rec) /\ Cur.ev # "reset" /\ phase = "running" /\ ~Matches
          /\ PrintT(<<"CASE_REJECTED", case, l, ToJson(Cur)>>)
          /\ l' = l + 1 /\ phase' = "rejected" /\ viol' = viol \cup {case}
          /\ UNCHANGED <<case, hl, pending, lastC, lastI, bound>>
SkipRest == /\ l <= Len(Rec) /\ Cur.ev # "reset" /\ phase \in {"rejected", "ended", "idle"}
            /\ l' = l + 1
            /\ IF phase = "ended" THEN viol' = viol \cup {case} /\ phase' = "rejected"   \* events after `end`
                                  ELSE UNCHANGED <<viol, phase>>
            /\ UNCHANGED <<case, hl, pending, lastC, lastI, bound>>

Next == Reset \/ Out \/ End \/ Reject \/ SkipRest
Spec == Init /\ [][Next]_vars

AtEnd == l = Len(Rec) + 1
FinalViol == IF phase = "running" THEN viol \cup {case} ELSE viol
Report == AtEnd => PrintT(<<"VERDICT", ToJson([violations |-> FinalViol, known |-> {}])>>)
Accepted == IF TLCGet("stats").diameter - 1 = Len(Rec) THEN TRUE
            ELSE Print(<<"TRACE_NOT_CONSUMED", TLCGet("stats").diameter, Len(Rec)>>, FALSE)
=============================================================================
