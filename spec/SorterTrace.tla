---------------------------- MODULE SorterTrace ----------------------------
(* C10 - trace validation: one recorded run of the real adlt::utils::buffer_sort_messages per case.

   trace lines (ndjson), all times in ticks relative to the case's base (the unit is the driver's choice and does
   not matter: the contract is linear).  A message's identity is uid = its 0-based position in the input (a tag in
   the payload); its index FIELD (DltMessage::index) is separate data and may be unset / repeated:
     {"ev":"reset","case":n,"hdr":{"D":d,"W":w,"base":b,
                                   "table":[{"id":i,"start":s},...],            the lifecycle table id |-> start
                                   "msgs":[{"index":k,"lc":i,"rx":t,"ts":t,"ctrl":bool},...]}}   the input, in order
     {"ev":"out","uid":i,"index":k,"intact":b}   one per message handed to the outflow closure (uid from the payload tag,
                                        index = its index field, intact: equal to input message uid in every field)
     BURST cases (hdr.kind = "burst": more messages inside the buffering window than the sorter preallocates, 10^6 and
     more) carry the input as a few linear families instead of a message list, and ONE summary event instead of the
     out events (a 10^6-event trace is too expensive to validate):
       hdr: "msgs":[], "hash_in":h, "segs":[{"n":n,"q":q,"rx0":t,"rxs":d,"ts0":t,"tss":d,"lc":i,"idx0":k},...]
            message j (0-based) of a segment: k = j div q, rx = rx0 + k*rxs, ts = ts0 + k*tss, index = uid = idx0 + j
       {"ev":"burst_out","count":c,"hash":h,"not_intact":m,"first_inv":p,...}   c messages were handed to the outflow, h =
            multiset hash (sum of the per-message hashes mod 2^31) of what came out (hash_in: of what went in), m = how
            many differed from the input message of their uid, p = 0-based output position of the first message whose
            key (calc, index) is smaller than its predecessor's, -1 if none (the driver scans with the calc of the family)
     {"ev":"end"}                       buffer_sort_messages returned Ok
     {"ev":"err"} / {"ev":"panic",..}   it returned Err although the outflow never fails / it panicked: no action matches

   The contract is the property.  The calculated time of every message is computed HERE from the logged table
   and message fields:  calc = rx for control requests, else min(start(lc) + ts, rx), a lifecycle missing in the
   table counting as start 0 (absolute, i.e. -base).  boundOK (also evaluated here) = reception times never
   decrease, every rx - calc <= D, and every lifecycle is in the table (narrower reading: the ordering claim
   needs a defined lifecycle start).
     Out(u): u is pending (no invention, no duplicate), the message is unchanged - for EVERY input, whatever its index
             fields are; if boundOK its calculated time is not smaller than the previous one, and - only when the
             input's index fields increase strictly along the input (narrower reading: then "original order" and
             index order coincide) - ties come in original order.  With repeated / unordered index fields no order
             among equal calculated times is required.
     End:    nothing is pending (no loss).
     BurstOut (burst cases): count = number of input messages, equal multiset hash, nothing altered; if boundOK - evaluated
             here from the families (they are linear, so the extremes lie at the ends) - no inversion.                                                                 *)
EXTENDS Integers, Sequences, FiniteSets, TLC, Json, IOUtils

Rec == ndJsonDeserialize(IOEnv.TRACE)

VARIABLES l, case, phase, hl, pending, lastC, lastI, bound, ties, sumSeen, viol
vars == <<l, case, phase, hl, pending, lastC, lastI, bound, ties, sumSeen, viol>>

Init == /\ l = 1 /\ case = -1 /\ phase = "idle" /\ hl = 0 /\ pending = {} /\ lastC = 0 /\ lastI = -1 /\ bound = FALSE
        /\ ties = FALSE /\ sumSeen = FALSE /\ viol = {}

Ev(e) == l <= Len(Rec) /\ Rec[l].ev = e /\ l' = l + 1
Cur == Rec[l]

Min2(a, b) == IF a < b THEN a ELSE b
InTable(h, lc) == \E j \in 1..Len(h.table) : h.table[j].id = lc
StartOf(h, lc) == IF InTable(h, lc) THEN h.table[CHOOSE j \in 1..Len(h.table) : h.table[j].id = lc].start ELSE 0 - h.base
CalcOf(h, m) == IF m.ctrl THEN m.rx ELSE Min2(StartOf(h, m.lc) + m.ts, m.rx)
BoundOK(h) == /\ \A i \in 1..Len(h.msgs) : /\ InTable(h, h.msgs[i].lc)
                                           /\ h.msgs[i].rx - CalcOf(h, h.msgs[i]) <= h.D
              /\ \A i \in 1..(Len(h.msgs) - 1) : h.msgs[i].rx <= h.msgs[i + 1].rx
\* index fields strictly increasing along the input: index order = original order
IndexOrdered(h) == \A i \in 1..(Len(h.msgs) - 1) : h.msgs[i].index < h.msgs[i + 1].index

\* burst cases: the input is a list of linear families
SegK(g) == (g.n - 1) \div g.q                                   \* last group number of a segment
SegDelay(h, g, k) == (g.rx0 + k * g.rxs) - (StartOf(h, g.lc) + g.ts0 + k * g.tss)      \* rx - (start + ts)
RECURSIVE SumN(_, _)
SumN(sg, i) == IF i = 0 THEN 0 ELSE sg[i].n + SumN(sg, i - 1)
BurstBoundOK(h) ==
    /\ \A i \in 1..Len(h.segs) : LET g == h.segs[i] IN
          /\ g.n >= 1 /\ g.q >= 1 /\ g.rxs >= 0 /\ InTable(h, g.lc)
          /\ g.ts0 >= 0 /\ g.ts0 + SegK(g) * g.tss >= 0
          /\ SegDelay(h, g, 0) >= 0 /\ SegDelay(h, g, 0) <= h.D                       \* (no capping, within the bound,
          /\ SegDelay(h, g, SegK(g)) >= 0 /\ SegDelay(h, g, SegK(g)) <= h.D           \*  linear in k: extremes at the ends)
          /\ g.idx0 = SumN(h.segs, i - 1)                                              \* consecutive indices
    /\ \A i \in 1..(Len(h.segs) - 1) : h.segs[i].rx0 + SegK(h.segs[i]) * h.segs[i].rxs <= h.segs[i + 1].rx0
IsBurst(h) == h.kind = "burst"

Reset == /\ Ev("reset")
         /\ case' = Cur.case /\ hl' = l /\ pending' = 0..(Len(Cur.hdr.msgs) - 1) /\ sumSeen' = FALSE
         /\ LET b == IF IsBurst(Cur.hdr) THEN BurstBoundOK(Cur.hdr) ELSE BoundOK(Cur.hdr) IN bound' = b /\ PrintT(<<"BOUND", Cur.case, b, IndexOrdered(Cur.hdr)>>)   \* coverage information only
         /\ lastC' = 0 /\ lastI' = -1 /\ ties' = IndexOrdered(Cur.hdr)
         /\ phase' = "running"
         /\ viol' = IF phase = "running" THEN viol \cup {case} ELSE viol     \* previous case never ended

Hdr == Rec[hl].hdr
KeyLT(c1, i1, c2, i2) == c1 < c2 \/ (c1 = c2 /\ i1 < i2)

Out == /\ Ev("out") /\ phase = "running"
       /\ Cur.uid \in pending                                        \* a message of the input, not yet delivered
       /\ Cur.intact /\ Cur.index = Hdr.msgs[Cur.uid + 1].index        \* unaltered
       /\ LET c == CalcOf(Hdr, Hdr.msgs[Cur.uid + 1]) IN
          /\ (bound /\ lastI >= 0 => IF ties THEN KeyLT(lastC, lastI, c, Cur.uid)   \* by calculated time, ties in original order
                                              ELSE lastC <= c)                        \* by calculated time
          /\ lastC' = c /\ lastI' = Cur.uid
       /\ pending' = pending \ {Cur.uid}
       /\ UNCHANGED <<case, phase, hl, bound, ties, sumSeen, viol>>

BurstOut == /\ Ev("burst_out") /\ phase = "running" /\ IsBurst(Hdr) /\ ~sumSeen
            /\ Cur.count = SumN(Hdr.segs, Len(Hdr.segs))             \* nothing lost, nothing invented or duplicated ...
            /\ Cur.hash = Hdr.hash_in /\ Cur.not_intact = 0           \* ... the same multiset, unaltered
            /\ (bound => Cur.first_inv = -1)                          \* ordered by (calculated time, index)
            /\ sumSeen' = TRUE
            /\ UNCHANGED <<case, phase, hl, pending, lastC, lastI, bound, ties, viol>>

End == /\ Ev("end") /\ phase = "running" /\ pending = {} /\ (IsBurst(Hdr) => sumSeen)
       /\ phase' = "ended" /\ UNCHANGED <<case, hl, pending, lastC, lastI, bound, ties, sumSeen, viol>>

Matches == ENABLED Out \/ ENABLED End \/ ENABLED BurstOut
Reject == /\ l <= Len(Rec) /\ Cur.ev # "reset" /\ phase = "running" /\ ~Matches
          /\ PrintT(<<"CASE_REJECTED", case, l, ToJson(Cur)>>)
          /\ l' = l + 1 /\ phase' = "rejected" /\ viol' = viol \cup {case}
          /\ UNCHANGED <<case, hl, pending, lastC, lastI, bound, ties, sumSeen>>
SkipRest == /\ l <= Len(Rec) /\ Cur.ev # "reset" /\ phase \in {"rejected", "ended", "idle"}
            /\ l' = l + 1
            /\ IF phase = "ended" THEN viol' = viol \cup {case} /\ phase' = "rejected"   \* events after `end`
                                  ELSE UNCHANGED <<viol, phase>>
            /\ UNCHANGED <<case, hl, pending, lastC, lastI, bound, ties, sumSeen>>

Next == Reset \/ Out \/ BurstOut \/ End \/ Reject \/ SkipRest
Spec == Init /\ [][Next]_vars

AtEnd == l = Len(Rec) + 1
FinalViol == IF phase = "running" THEN viol \cup {case} ELSE viol
Report == AtEnd => PrintT(<<"VERDICT", ToJson([violations |-> FinalViol, known |-> {}])>>)
Accepted == IF TLCGet("stats").diameter - 1 = Len(Rec) THEN TRUE
            ELSE Print(<<"TRACE_NOT_CONSUMED", TLCGet("stats").diameter, Len(Rec)>>, FALSE)
=============================================================================
