---------------------------- MODULE ProgressTrace ----------------------------
(* X02 - trace validation: recorded executions of the real ProgressNonAsyncFuture decided against ProgressContract.

   trace lines (ndjson), one observer thread, program order (see ProgressContract for the vocabulary and the rules):
     {"ev":"reset","case":n,"hdr":{"script":[{"op":..,"v":..},..],"mode":..,"vals":[..]}}
     {"ev":"go"}  {"ev":"ack","op":..,"v":..,"seen":b}  {"ev":"fin"}
     {"ev":"poll","res":"progress"|"done"|"err","v":k,"n":count}   (n identical consecutive answers are logged once)
     {"ev":"cur","v":k}  {"ev":"cancel"}  {"ev":"drop"}  {"ev":"end"}
     {"ev":"hang","op":..} {"ev":"panic","op":..,"msg":..} {"ev":"nofin"}      no contract rule allows these

   Each event is fed to the contract function CStep; a case whose event the contract does not allow is recorded in
   `viol` and skipped up to the next reset (in-spec recovery), so one TLC run decides all cases.                    *)
EXTENDS ProgressContract, TLC, Json, IOUtils

Rec == ndJsonDeserialize(IOEnv.TRACE)

VARIABLES l, case, phase, cs, viol
vars == <<l, case, phase, cs, viol>>

NoScript == <<[op |-> "ret", v |-> 0]>>
Init == l = 1 /\ case = -1 /\ phase = "idle" /\ cs = CInit(NoScript) /\ viol = {}

Cur == Rec[l]
Reset == /\ l <= Len(Rec) /\ Cur.ev = "reset" /\ l' = l + 1
         /\ case' = Cur.case /\ cs' = CInit(Cur.hdr.script) /\ phase' = "running"
         /\ viol' = (IF phase = "running" THEN viol \cup {case} ELSE viol)        \* previous case never ended

Event == /\ l <= Len(Rec) /\ Cur.ev # "reset" /\ phase = "running"
         /\ CStep(cs, Cur).ok
         /\ cs' = CStep(cs, Cur) /\ l' = l + 1
         /\ phase' = (IF Cur.ev = "end" THEN "ended" ELSE phase)
         /\ UNCHANGED <<case, viol>>
Reject == /\ l <= Len(Rec) /\ Cur.ev # "reset" /\ phase = "running"
          /\ ~CStep(cs, Cur).ok
          /\ PrintT(<<"CASE_REJECTED", case, l, ToJson(Cur)>>)
          /\ l' = l + 1 /\ phase' = "rejected" /\ viol' = viol \cup {case}
          /\ UNCHANGED <<case, cs>>
SkipRest == /\ l <= Len(Rec) /\ Cur.ev # "reset" /\ phase \in {"rejected", "ended", "idle"}
            /\ l' = l + 1
            /\ (IF phase = "ended" THEN viol' = viol \cup {case} /\ phase' = "rejected"   \* events after `end`
                                   ELSE UNCHANGED <<viol, phase>>)
            /\ UNCHANGED <<case, cs>>

Next == Reset \/ Event \/ Reject \/ SkipRest
Spec == Init /\ [][Next]_vars

AtEnd == l = Len(Rec) + 1
FinalViol == IF phase = "running" THEN viol \cup {case} ELSE viol
Report == AtEnd => PrintT(<<"VERDICT", ToJson([violations |-> FinalViol, known |-> {}])>>)
Accepted == IF TLCGet("stats").diameter - 1 = Len(Rec) THEN TRUE
            ELSE Print(<<"TRACE_NOT_CONSUMED", TLCGet("stats").diameter, Len(Rec)>>, FALSE)
=============================================================================
