------------------------------ MODULE EacStats ------------------------------
(* X01 - ECU / APID / CTID statistics collector (src/utils/eac_stats.rs): DESIGN module, shaped like the code.

   The collector is three nested hash maps  ecu -> (nr_msgs, apid -> (desc, ctid -> (nr_msgs, desc))).
   Here: key sets (which entries exist) plus total functions for the values, one pure operator per method:

     AddMsg(s, op)          EacStats::add_msg: entry(ecu).nr_msgs += 1; with an extended header
                            entry(apid).entry(ctid).nr_msgs += 1; a non-verbose control response whose message id
                            is get_log_info and whose status is 7 feeds every description found by
                            parse_ctrl_log_info_payload into EcuStats::add_desc (application first, then its contexts,
                            in payload order)
     AddDesc(s, e, a, c, d) EcuStats::add_desc: entry(apid) [ .entry(ctid) ]; the description is stored only if there
                            is none yet ("does not get overwritten")
     ApiDesc                EacStats::add_desc: entry(ecu) first (used by the non-verbose/FIBEX plugin)
     EcuList / Pred         what the public maps / the remote types show (ApidStats::nr_msgs and EacStats::nr_msgs
                            are sums, as coded)

   A behaviour feeds up to MaxLen inputs of `Alphabet` (see EacStatsContract for the input records).
   Invariants: the contract on every reachable state (ContractHolds), the sum statements (Sums), nesting of the
   key sets, order independence between ECUs (the part of the state that belongs to ECU e equals the state of a
   collector fed with e's inputs only), and as action properties: entries never disappear, counts never decrease,
   a stored description never changes.  With Emit = TRUE every reachable state prints one scenario line
   (inputs, predicted snapshot, the contract's verdict on it).                                                *)
EXTENDS EacStatsContract, SequencesExt, TLC, Json

CONSTANTS E, A, C,        \* universes of ECU / application / context ids (positive integers)
          Alphabet,       \* set of input records
          MaxLen, Emit

VARIABLES st, hist
vars == <<st, hist>>

EA == E \X A
EAC == E \X A \X C
Empty == [ecus |-> {}, nr |-> [e \in E |-> 0],
          aps |-> {}, adesc |-> [p \in EA |-> 0],
          cts |-> {}, cn |-> [q \in EAC |-> 0], cdesc |-> [q \in EAC |-> 0]]

\* ---- the methods, as coded ----------------------------------------------------------------------------------
AddDesc(s, e, a, c, d) ==
   LET s1 == [s EXCEPT !.aps = @ \cup {<<e, a>>}] IN
   IF c = 0 THEN [s1 EXCEPT !.adesc[<<e, a>>] = (IF @ = 0 THEN d ELSE @)]
   ELSE [s1 EXCEPT !.cts = @ \cup {<<e, a, c>>}, !.cdesc[<<e, a, c>>] = (IF @ = 0 THEN d ELSE @)]

RECURSIVE LearnCts(_, _, _, _)
LearnCts(s, e, a, cs) ==
   IF cs = <<>> THEN s
   ELSE LearnCts((IF Head(cs).d # 0 THEN AddDesc(s, e, a, Head(cs).c, Head(cs).d) ELSE s), e, a, Tail(cs))
RECURSIVE LearnApps(_, _, _)
LearnApps(s, e, apps) ==
   IF apps = <<>> THEN s
   ELSE LET ap == Head(apps)
            s1 == IF ap.d # 0 THEN AddDesc(s, e, ap.a, 0, ap.d) ELSE s
        IN LearnApps(LearnCts(s1, e, ap.a, ap.cs), e, Tail(apps))

AddMsg(s, op) ==
   LET e == op.e
       s1 == [s EXCEPT !.ecus = @ \cup {e}, !.nr[e] = @ + 1] IN
   IF ~HasIds(op) THEN s1
   ELSE LET s2 == [s1 EXCEPT !.aps = @ \cup {<<e, op.a>>}, !.cts = @ \cup {<<e, op.a, op.c>>},
                             !.cn[<<e, op.a, op.c>>] = @ + 1] IN
        IF op.k = "resp" /\ op.st = 7 THEN LearnApps(s2, e, op.apps) ELSE s2

Apply(s, op) == IF op.k = "desc" THEN AddDesc([s EXCEPT !.ecus = @ \cup {op.e}], op.e, op.a, op.c, op.d)
                ELSE AddMsg(s, op)

RECURSIVE Run(_, _)
Run(s, ops) == IF ops = <<>> THEN s ELSE Run(Apply(s, Head(ops)), Tail(ops))

\* ---- what an observer sees ----------------------------------------------------------------------------------
CtKeys(s, e, a) == {c \in C : <<e, a, c>> \in s.cts}
ApKeys(s, e) == {a \in A : <<e, a>> \in s.aps}
CtList(s, e, a) == LET ks == SetToSeq(CtKeys(s, e, a)) IN
   [i \in 1..Len(ks) |-> [ctid |-> ks[i], n |-> s.cn[<<e, a, ks[i]>>], desc |-> s.cdesc[<<e, a, ks[i]>>]]]
ApidN(s, e, a) == LET l == CtList(s, e, a) IN SumSeq([i \in 1..Len(l) |-> l[i].n])          \* ApidStats::nr_msgs
ApList(s, e) == LET ks == SetToSeq(ApKeys(s, e)) IN
   [i \in 1..Len(ks) |-> [apid |-> ks[i], desc |-> s.adesc[<<e, ks[i]>>], n |-> ApidN(s, e, ks[i]), ctids |-> CtList(s, e, ks[i])]]
EcuList(s) == LET ks == SetToSeq(s.ecus) IN
   [i \in 1..Len(ks) |-> [ecu |-> ks[i], n |-> s.nr[ks[i]], apids |-> ApList(s, ks[i])]]
TotalOf(s) == LET l == EcuList(s) IN SumSeq([i \in 1..Len(l) |-> l[i].n])                   \* EacStats::nr_msgs

\* order-free prediction for the replay (JSON arrays in arbitrary order; the driver sorts both sides)
Pred(s) == [total |-> TotalOf(s),
            ecus |-> {[ecu |-> e, n |-> s.nr[e],
                       apids |-> {[apid |-> a, desc |-> s.adesc[<<e, a>>], n |-> ApidN(s, e, a),
                                   ctids |-> {[ctid |-> c, n |-> s.cn[<<e, a, c>>], desc |-> s.cdesc[<<e, a, c>>]]
                                              : c \in CtKeys(s, e, a)}] : a \in ApKeys(s, e)}] : e \in s.ecus}]

\* ---- behaviours ---------------------------------------------------------------------------------------------
Init == st = Empty /\ hist = <<>>
Feed(op) == /\ Len(hist) < MaxLen /\ st' = Apply(st, op) /\ hist' = Append(hist, op)
Next == \E op \in Alphabet : Feed(op)
Spec == Init /\ [][Next]_vars

\* ---- properties ---------------------------------------------------------------------------------------------
N == Len(hist)
ContractHolds == SnapOk(hist, N, "direct", EcuList(st), TotalOf(st))
Sums == SumsOk(hist, N, EcuList(st), TotalOf(st))
KeysNested == /\ \A q \in st.cts : <<q[1], q[2]>> \in st.aps
              /\ \A p \in st.aps : p[1] \in st.ecus
              /\ \A e \in E : (st.nr[e] > 0 => e \in st.ecus)
              /\ \A q \in EAC : (st.cn[q] > 0 => q \in st.cts) /\ (st.cdesc[q] # 0 => q \in st.cts)
              /\ \A p \in EA : st.adesc[p] # 0 => p \in st.aps

\* the part of a state that belongs to ECU e
PartOf(s, e) == [ecus |-> s.ecus \cap {e}, nr |-> [x \in E |-> IF x = e THEN s.nr[x] ELSE 0],
                   aps |-> {p \in s.aps : p[1] = e}, adesc |-> [p \in EA |-> IF p[1] = e THEN s.adesc[p] ELSE 0],
                   cts |-> {q \in s.cts : q[1] = e},
                   cn |-> [q \in EAC |-> IF q[1] = e THEN s.cn[q] ELSE 0],
                   cdesc |-> [q \in EAC |-> IF q[1] = e THEN s.cdesc[q] ELSE 0]]
OfEcu(e) == SelectSeq(hist, LAMBDA o : o.e = e)
OrderIndependence == \A e \in E : PartOf(st, e) = Run(Empty, OfEcu(e))
\* ... and the state is the union of its ECU parts (nothing is shared between ECUs)
Recomposed == /\ st.ecus = UNION {PartOf(st, e).ecus : e \in E}
              /\ st = Run(Empty, hist)

\* entries never disappear, counts never decrease, a stored description never changes
Monotone == [][/\ st.ecus \subseteq st'.ecus /\ st.aps \subseteq st'.aps /\ st.cts \subseteq st'.cts
               /\ \A e \in E : st.nr[e] <= st'.nr[e]
               /\ \A q \in EAC : st.cn[q] <= st'.cn[q] /\ (st.cdesc[q] # 0 => st'.cdesc[q] = st.cdesc[q])
               /\ \A p \in EA : st.adesc[p] # 0 => st'.adesc[p] = st.adesc[p]]_vars

\* ---- scenario emission --------------------------------------------------------------------------------------
\* `split`: for behaviours that involve several ECUs, what a collector fed with one ECU's inputs alone shows
Involved == {hist[i].e : i \in 1..N}
EmitScn == (Emit /\ N >= 1) =>
   PrintT(<<"SCN", ToJson([ops |-> hist, pred |-> Pred(st), contract_ok |-> ContractHolds,
                           split |-> (IF Cardinality(Involved) > 1
                                      THEN {[ecu |-> e, pred |-> Pred(Run(Empty, OfEcu(e)))] : e \in Involved} ELSE {})])>>)
=============================================================================
