---------------------------- MODULE FileTransfer ----------------------------
(* C17 - embedded file transfers (src/plugins/file_transfer.rs): design module.

   NT transfers with distinct keys (ecu, lifecycle, serial) are sent over one log: each an announcement FLST,
   data packages FLDA 1..n (all of size bs except the last, 1..bs bytes) and an end marker FLFI.  The sender/log
   injects at most one fault per transfer (and at most MaxFaults in total): drop any item, duplicate a data
   package (re-send any already sent one, at any later point), swap two neighbouring data packages, resize a
   data package.  Transfers interleave arbitrarily; up to MaxNoise unrelated messages are mixed in.

   The plugin is modelled as coded (FileTransfer::add_flda, check_finished, the FLST/FLDA/FLFI branches of
   process_msg incl. the recovery mode for a lost announcement with nr_packages = u64::MAX).

   Invariants: Safe (complete => content bit-exact), NeverCompleteOnDamage, CompleteWhenInOrder (no duplicate),
   DupIsTheOnlyDeviation (finding #11: with a duplicate before the end the plugin ends Incomplete), and
   ClassesAgree: the wire-based reading of the statement (FileTransferDefs!Scan, used by the trace contract)
   classifies every behaviour exactly like the fault labels of this sender.
   With AutoSave = TRUE the auto-save directory is part of the state (base names may be shared by interleaved transfers,
   files may appear in the directory at any time): DirGrowsOnly, DirJustified.
   With Emit = TRUE every finished behaviour prints one scenario line (wire script + predicted state kinds).   *)
EXTENDS FileTransferDefs, TLC, Json

CONSTANTS NT, MaxPk, BufSizes, MaxNoise, MaxFaults, Emit,
          AutoSave,  \* TRUE: the auto-save directory is part of the state: transfers may share a base name, files may appear in
                     \*       the directory at any time (MaxEnv); only used with MaxFaults = 0 (a lost announcement changes the name)
          MaxEnv,    \* number of files the environment may create in the auto-save directory (any time, any base name in use)
          Names,     \* TRUE: the alphabetical order of the file names is chosen freely (rank, incl. equal names) - the state report is checked
          RoundRobin,\* TRUE: only round-robin interleavings (keeps the enumeration with three transfers small)
          FullLast,  \* TRUE: only files whose last package is full (keeps the auto-save enumeration small)
          DupAlso,   \* TRUE: one duplicate may be injected IN ADDITION to the single fault (used to judge the repair of #11)
          FixDup     \* TRUE: the proposed repair of finding #11 (a package below next_package is a duplicate: ignored, not counted)

T == 1..NT
VARIABLES shape,    \* [T -> [n, bs, last]]  the files
          sp,       \* [T -> position in the ideal script]
          fault,    \* [T -> fault label]
          wire,     \* history: what was actually sent
          noise,    \* number of unrelated messages sent
          pl,       \* [T -> plugin record for that key]
          dups,     \* [T -> number of additional duplicates injected (DupAlso)]
          base,     \* [T -> base name (an id) of the transfer's file name]; transfers may share one (AutoSave)
          dir,      \* the auto-save directory: set of [b |-> base name, c |-> content owner (transfer id, 0 = environment)]; only grows
          dirh,     \* history: the directory after every wire item
          rank,     \* [T -> alphabetical rank of the transfer's file name] (equal ranks = equal names)
          order     \* the transfers in order of occurrence (= the plugin's `transfers` vector: idx = position in it)
vars == <<shape, sp, fault, wire, noise, pl, dups, base, dir, dirh, rank, order>>
ASSUME AutoSave => MaxFaults = 0

BIG == 1000000      \* stands for u64::MAX packages in recovery mode

PkLen(t, k) == IF k = shape[t].n THEN shape[t].last ELSE shape[t].bs
Lens(t) == [k \in 1..shape[t].n |-> PkLen(t, k)]
FileSize(t) == (shape[t].n - 1) * shape[t].bs + shape[t].last
Ideal(t) == <<[t |-> t, k |-> "FLST", pkg |-> 0, len |-> 0, orig |-> TRUE]>>
            \o [i \in 1..shape[t].n |-> [t |-> t, k |-> "FLDA", pkg |-> i, len |-> PkLen(t, i), orig |-> TRUE]]
            \o <<[t |-> t, k |-> "FLFI", pkg |-> 0, len |-> 0, orig |-> TRUE]>>

NoEntry == [known |-> FALSE, st |-> "none", nrP |-> 0, bufS |-> 0, fsz |-> 0, nextP |-> 1, recvd |-> 0, payload |-> 0, data |-> <<>>]

MaxB == CHOOSE b \in BufSizes : \A c \in BufSizes : c <= b
Shapes == {r \in [n : 1..MaxPk, bs : BufSizes, last : 1..MaxB] : r.last <= r.bs /\ (FullLast => r.last = r.bs)}
Init == /\ shape \in [T -> Shapes]
        /\ base \in (IF AutoSave THEN {f \in [T -> T] : \A t \in T : f[t] <= t /\ (f[t] = t \/ f[t] = 1)} ELSE {[t \in T |-> t]})
        /\ dir = {} /\ dirh = <<>>
        /\ rank \in (IF Names THEN [T -> T] ELSE {[t \in T |-> t]}) /\ order = <<>>
        /\ sp = [t \in T |-> 0] /\ fault = [t \in T |-> "none"] /\ wire = <<>> /\ noise = 0
        /\ pl = [t \in T |-> NoEntry] /\ dups = [t \in T |-> 0]

\* ---- plugin, as coded -------------------------------------------------------------------------------------
\* check_finished: returns [st, fsz]
CheckFinished(fromFlfi, s, nx, rc, py, fs, np) ==
  IF fromFlfi THEN
     IF rc = nx - 1 THEN (IF s = "MissingStart" THEN [st |-> "Complete", fsz |-> (IF fs = 0 THEN py ELSE fs)] ELSE [st |-> s, fsz |-> fs])
     ELSE [st |-> "Incomplete", fsz |-> fs]
  ELSE IF nx > np /\ (fs = 0 \/ fs = py) THEN [st |-> "Complete", fsz |-> py]
  ELSE IF rc >= np THEN [st |-> "Incomplete", fsz |-> fs]
  ELSE [st |-> s, fsz |-> fs]

\* add_flda on an existing entry p
AddFlda(p, m) ==
  IF FixDup /\ p.st \in {"Started", "MissingStart"} /\ m.pkg < p.nextP THEN p
  ELSE IF p.st \in {"Started", "MissingStart"} THEN
     LET bs == IF m.pkg = 1 /\ p.bufS = 0 THEN m.len ELSE p.bufS
         rc == p.recvd + 1
         acc == m.pkg = p.nextP /\ (m.len = bs \/ (p.nextP = p.nrP /\ m.len < bs))
         nx == IF acc THEN p.nextP + 1 ELSE p.nextP
         py == IF acc THEN p.payload + m.len ELSE p.payload
         cf == CheckFinished(FALSE, p.st, nx, rc, py, p.fsz, p.nrP)
     IN [p EXCEPT !.bufS = bs, !.recvd = rc, !.nextP = nx, !.payload = py,
                  !.data = (IF acc THEN Append(p.data, <<m.pkg, m.len, m.orig>>) ELSE p.data),
                  !.st = cf.st, !.fsz = cf.fsz]
  ELSE p

Plugin(p, t, m) ==
  IF m.k = "FLST" THEN
     [known |-> TRUE, st |-> "Started", nrP |-> shape[t].n, bufS |-> shape[t].bs, fsz |-> FileSize(t),
      nextP |-> 1, recvd |-> 0, payload |-> 0, data |-> <<>>]
  ELSE IF m.k = "FLDA" THEN
     IF p.known THEN AddFlda(p, m)
     ELSE IF m.pkg = 1 THEN   \* recovery: announcement lost, first package seen
        AddFlda([known |-> TRUE, st |-> "MissingStart", nrP |-> BIG, bufS |-> 0, fsz |-> 0, nextP |-> 1, recvd |-> 0,
                 payload |-> 0, data |-> <<>>], m)
     ELSE p
  ELSE \* FLFI
     IF p.known THEN LET cf == CheckFinished(TRUE, p.st, p.nextP, p.recvd, p.payload, p.fsz, p.nrP) IN [p EXCEPT !.st = cf.st, !.fsz = cf.fsz]
     ELSE p

\* ---- sender with faults -----------------------------------------------------------------------------------
Item(t, i) == Ideal(t)[i]
\* check_auto_save, as coded: when a transfer becomes Complete its bytes are written to <dir>/<base name> unless that exists NOW
HasName(d, b) == \E e \in d : e.b = b
AutoDir(t, p2) == IF AutoSave /\ pl[t].st # "Complete" /\ p2.st = "Complete" /\ ~HasName(dir, base[t])
                  THEN dir \cup {[b |-> base[t], c |-> t]} ELSE dir
Send(t, m) == LET p2 == Plugin(pl[t], t, m)
                  d2 == AutoDir(t, p2)
              IN /\ pl' = [pl EXCEPT ![t] = p2] /\ wire' = Append(wire, m) /\ dir' = d2 /\ dirh' = Append(dirh, d2)
                 /\ order' = (IF ~pl[t].known /\ p2.known THEN Append(order, t) ELSE order)
MayFault(t) == fault[t] = "none" /\ Cardinality({u \in T : fault[u] # "none"}) < MaxFaults

Normal(t) == /\ fault[t] # "swapA" /\ sp[t] < Len(Ideal(t)) /\ Send(t, Item(t, sp[t] + 1))
             /\ (RoundRobin => \A u \in T : sp[t] <= sp[u])
             /\ sp' = [sp EXCEPT ![t] = @ + 1] /\ UNCHANGED <<fault, noise>>
Drop(t) == /\ MayFault(t) /\ sp[t] < Len(Ideal(t)) /\ sp' = [sp EXCEPT ![t] = @ + 1]
           /\ fault' = [fault EXCEPT ![t] = (IF Item(t, sp[t] + 1).k = "FLDA" THEN "dropPkg"
                                             ELSE IF Item(t, sp[t] + 1).k = "FLST" THEN "dropFLST" ELSE "dropFLFI")]
           /\ UNCHANGED <<wire, pl, noise, dir, dirh, order>>
Dup(t) == /\ MayFault(t)
          /\ \E j \in 2..sp[t] : Item(t, j).k = "FLDA" /\ Send(t, Item(t, j))
          /\ fault' = [fault EXCEPT ![t] = "dup"] /\ UNCHANGED <<sp, noise>>
\* a duplicate on top of another fault (or before it): the fault label of the other fault is kept
DupExtra(t) == /\ DupAlso /\ dups[t] = 0 /\ fault[t] # "dup"
               /\ \E j \in 1..Len(wire) : wire[j].t = t /\ wire[j].k = "FLDA" /\ Send(t, wire[j])   \* exactly what was on the wire
               /\ dups' = [dups EXCEPT ![t] = 1] /\ UNCHANGED <<sp, fault, noise>>
SwapA(t) == /\ MayFault(t) /\ sp[t] + 2 <= Len(Ideal(t)) /\ Item(t, sp[t] + 1).k = "FLDA" /\ Item(t, sp[t] + 2).k = "FLDA"
            /\ Send(t, Item(t, sp[t] + 2)) /\ fault' = [fault EXCEPT ![t] = "swapA"] /\ UNCHANGED <<sp, noise>>
SwapB(t) == /\ fault[t] = "swapA" /\ Send(t, Item(t, sp[t] + 1)) /\ sp' = [sp EXCEPT ![t] = @ + 2]
            /\ fault' = [fault EXCEPT ![t] = "swap"] /\ UNCHANGED noise
Resize(t) == /\ MayFault(t) /\ sp[t] < Len(Ideal(t)) /\ Item(t, sp[t] + 1).k = "FLDA"
             /\ \E l \in (1..(shape[t].bs + 1)) \ {Item(t, sp[t] + 1).len} :
                   Send(t, [Item(t, sp[t] + 1) EXCEPT !.len = l, !.orig = FALSE])
             /\ sp' = [sp EXCEPT ![t] = @ + 1] /\ fault' = [fault EXCEPT ![t] = "resize"] /\ UNCHANGED noise
Noise == /\ noise < MaxNoise /\ noise' = noise + 1
         /\ wire' = Append(wire, [t |-> 0, k |-> "X", pkg |-> 0, len |-> 0, orig |-> TRUE])
         /\ dirh' = Append(dirh, dir) /\ UNCHANGED <<sp, fault, pl, dir, order>>
\* environment: a file with a base name in use appears in the auto-save directory (pkg = the base name)
Env == /\ AutoSave /\ Cardinality({e \in dir : e.c = 0}) < MaxEnv
       /\ \E b \in {base[t] : t \in T} :
             /\ ~HasName(dir, b)
             /\ dir' = dir \cup {[b |-> b, c |-> 0]}
             /\ wire' = Append(wire, [t |-> 0, k |-> "ENV", pkg |-> b, len |-> 0, orig |-> TRUE])
             /\ dirh' = Append(dirh, dir')
       /\ UNCHANGED <<sp, fault, pl, noise, order>>

Next == /\ UNCHANGED <<shape, base, rank>>
        /\ \/ \E t \in T : (Normal(t) \/ Drop(t) \/ Dup(t) \/ SwapA(t) \/ SwapB(t) \/ Resize(t)) /\ UNCHANGED dups
           \/ \E t \in T : DupExtra(t)
           \/ Noise /\ UNCHANGED dups
           \/ Env /\ UNCHANGED dups
Spec == Init /\ [][Next]_vars

\* ---- properties -------------------------------------------------------------------------------------------
Finished == \A t \in T : sp[t] = Len(Ideal(t)) /\ fault[t] # "swapA"
Original(t) == [i \in 1..shape[t].n |-> <<i, PkLen(t, i), TRUE>>]
DamageFaults == {"dropPkg", "swapA", "swap", "resize"}

Safe == \A t \in T : pl[t].st = "Complete" => pl[t].data = Original(t)
\* the contract's safety half, on the wire: complete only if all packages arrived in order, unchanged
SafeWire == \A t \in T : pl[t].st = "Complete" => AllArrived(wire, t, Lens(t), Len(wire))
NeverCompleteOnDamage == \A t \in T : fault[t] \in DamageFaults => pl[t].st # "Complete"
CompleteWhenInOrder == Finished => \A t \in T : fault[t] \in {"none", "dropFLFI"} => pl[t].st = "Complete"
\* finding #11: a duplicate makes the transfer Incomplete exactly when it arrived while packages were outstanding
DupIsTheOnlyDeviation ==
  Finished => \A t \in T : fault[t] = "dup" =>
     IF DupBeforeEnd(wire, t, Lens(t), Len(wire)) /\ ~FixDup THEN pl[t].st = "Incomplete" ELSE pl[t].st = "Complete"
\* with the repair: duplicates are tolerated (the statement), also in recovery mode when all packages have the same size
CompleteWithDup == (FixDup /\ Finished) => \A t \in T : fault[t] = "dup" => pl[t].st = "Complete"
\* the contract's wire-based classification agrees with the sender's fault labels
ClassesAgree ==
  \A t \in T : LET s == Scan(wire, t, Lens(t), Len(wire)) IN
     /\ (fault[t] \in {"swapA", "swap", "resize"} => s.dmg)
     /\ (fault[t] \in {"none", "dropFLST", "dropFLFI", "dup"} => ~s.dmg)
     /\ (Finished /\ fault[t] \in {"none", "dropFLST", "dropFLFI", "dup"} => s.next = shape[t].n + 1)
     /\ (Finished /\ fault[t] = "dropPkg" => (s.dmg \/ s.next <= shape[t].n))
     /\ (s.dup => fault[t] = "dup")
     /\ (fault[t] = "dropFLST" <=> (sp[t] >= 1 /\ ~Announced(wire, t, Len(wire))))

\* the auto-save directory: entries never change or vanish (action property), one entry per name, every entry is the
\* environment's or the bytes of a COMPLETE transfer with that base name
DirGrowsOnly == [][\A e \in dir : e \in dir']_vars
DirJustified == /\ \A e, f \in dir : e.b = f.b => e = f
                /\ \A e \in dir : e.c = 0 \/ (pl[e.c].st = "Complete" /\ base[e.c] = e.b)
                /\ Len(dirh) = Len(wire)

\* the state report (update_state, as coded): every transfer is listed twice - by occurrence and sorted by name (stable) -
\* and every entry carries idx = the position of ITS transfer in `order`, under which the save command finds the bytes
RECURSIVE InsertSorted(_, _)
InsertSorted(sq, e) == IF sq = <<>> THEN <<e>>
                       ELSE IF rank[Head(sq).label] <= rank[e.label] THEN <<Head(sq)>> \o InsertSorted(Tail(sq), e)
                       ELSE <<e>> \o sq
RECURSIVE SortedByName(_)
SortedByName(sq) == IF sq = <<>> THEN <<>> ELSE InsertSorted(SortedByName(SubSeq(sq, 1, Len(sq) - 1)), sq[Len(sq)])
ByOccurrence == [i \in 1..Len(order) |-> [label |-> order[i], idx |-> i, complete |-> pl[order[i]].st = "Complete"]]
ByName == SortedByName(ByOccurrence)
\* idx designates the transfer the label describes, in every list; the by-name list is ordered and a permutation
IdxDesignates == /\ \A i \in 1..Len(ByOccurrence) : order[ByOccurrence[i].idx] = ByOccurrence[i].label
                 /\ \A i \in 1..Len(ByName) : order[ByName[i].idx] = ByName[i].label
                 /\ Len(ByName) = Len(order) /\ \A t \in T : pl[t].known => \E i \in 1..Len(ByName) : ByName[i].label = t
                 /\ \A i \in 1..(Len(ByName) - 1) : rank[ByName[i].label] <= rank[ByName[i + 1].label]

\* ---- scenario emission ------------------------------------------------------------------------------------
Kind(t) == CASE pl[t].st = "none" -> "none" [] pl[t].st = "Started" -> "started" [] pl[t].st = "MissingStart" -> "missing"
             [] pl[t].st = "Complete" -> "complete" [] pl[t].st = "Incomplete" -> "incomplete"
\* the contract's completeness half on this behaviour (FALSE only for the known duplicate deviation)
LiveOk(t) == (Announced(wire, t, Len(wire)) /\ AllArrived(wire, t, Lens(t), Len(wire))) => pl[t].st = "Complete"
EmitScn == (Emit /\ Finished) =>
   PrintT(<<"SCN", ToJson([shape |-> shape, wire |-> wire, kinds |-> [t \in T |-> Kind(t)], fault |-> fault,
                           saves |-> [t \in T |-> pl[t].st = "Complete"],   \* the save command yields the original bytes
                           auto |-> AutoSave, base |-> base, dir |-> dir, dirh |-> dirh,
                           names |-> Names, rank |-> rank, by_occ |-> ByOccurrence, by_name |-> ByName,
                           contract_ok |-> (\A t \in T : LiveOk(t))])>>)
=============================================================================
