----------------------------- MODULE FilterSet -----------------------------
(* C12 - filter sets: positive OR, negative veto, event AND; order and counts kept
   (src/filter/functions.rs filter_as_streams, src/utils/remote_utils.rs match_filters / StreamContext::from,
   src/plugins/export.rs).  Contract module (DESIGN.md section 6, C12); extends the filter semantics of Filter.tla.

   A filter set Fs is a sequence of abstract filters (Filter.tla) with kind 0 positive, 1 negative, 2 marker, 3 event.
   Only enabled filters count; marker filters never take part in the selection.

     Keep(Fs, m, withEvents) ==  (no enabled positive filter exists or some positive filter matches m)
                              /\ no enabled negative filter matches m
                              /\ (withEvents => no enabled event filter exists or some event filter matches m)

   withEvents is TRUE for the set matcher used by remote streams (StreamContext::from + process_stream_new_msgs), searches
   and the export plugin (match_filters; the plugin additionally drops messages outside its lifecycles to keep) and
   FALSE for the stream filter of `adlt convert` (filter_as_streams), which knows positive and negative filters only.

   Stream contract (filter_as_streams on an input sequence): the forwarded messages are exactly the kept ones, in
   their original order and unchanged; passed = number forwarded, passed + filtered = number received.            *)
EXTENDS Filter

KPos == 0
KNeg == 1
KMarker == 2
KEvent == 3

Active(Fs, k) == {i \in 1..Len(Fs) : Fs[i].enabled /\ Fs[i].kind = k}
SomeMatch(Fs, k, m) == \E i \in Active(Fs, k) : Match(Fs[i], m)
Keep(Fs, m, withEvents) ==
    /\ (Active(Fs, KPos) = {} \/ SomeMatch(Fs, KPos, m))
    /\ ~SomeMatch(Fs, KNeg, m)
    /\ (withEvents => (Active(Fs, KEvent) = {} \/ SomeMatch(Fs, KEvent, m)))

\* the export plugin: the set matcher (event filters included) on its configured filters, and - if lifecycles to keep are
\* configured - only messages of those lifecycles (keepLcs = the set of their ids; {} = none configured)
ExportKeep(Fs, m, keepLcs) == Keep(Fs, m, TRUE) /\ (keepLcs = {} \/ m.lc \in keepLcs)

\* positions (1-based) of the kept messages of the stream s (a sequence of indices into the message table msgs)
KeptPos(Fs, msgs, s) == {p \in 1..Len(s) : Keep(Fs, msgs[s[p]], FALSE)}
\* the forwarded positions as a sequence
FwdSeq(Fs, msgs, s) ==
    LET R[i \in 0..Len(s)] == IF i = 0 THEN <<>>
                              ELSE IF Keep(Fs, msgs[s[i]], FALSE) THEN Append(R[i - 1], i) ELSE R[i - 1]
    IN R[Len(s)]
=============================================================================
