-------------------------- MODULE FileTransferDefs --------------------------
(* C17 - what the statement says about one transfer, as a function of the messages that were on the wire
   (pure definitions shared by FileTransfer.tla (design, cross-check) and FileTransferTrace.tla (contract)).

   A wire item is a record [t, k, pkg, len, orig]:
       t     transfer it belongs to (0 = unrelated message)
       k     "FLST" (announcement) | "FLDA" (data package) | "FLFI" (end marker) | "X" (unrelated)
       pkg   package number (FLDA), len = its payload length,
       orig  TRUE iff the payload is exactly the original package `pkg` of that file
   `lens` is the sequence of the original package lengths of the transfer (all equal except possibly the last).

   Scan: the statement's reading of the data packages of one transfer, in arrival order:
       the next expected package, unchanged              -> accepted (next advances)
       a package that was already accepted, unchanged    -> a duplicate: tolerated
       anything else (a later package = one is missing or out of order, a package of inconsistent size/content)
                                                         -> the transfer is damaged for good                *)
EXTENDS Integers, Sequences, FiniteSets

ScanInit == [next |-> 1, dmg |-> FALSE, dup |-> FALSE, dupBeforeEnd |-> FALSE]

ScanStep(s, it, lens) ==
  IF s.dmg THEN s
  ELSE IF it.pkg = s.next /\ it.pkg <= Len(lens) /\ it.orig /\ it.len = lens[it.pkg] THEN [s EXCEPT !.next = s.next + 1]
  ELSE IF it.pkg >= 1 /\ it.pkg < s.next /\ it.orig /\ it.len = lens[it.pkg]
       THEN [s EXCEPT !.dup = TRUE, !.dupBeforeEnd = (s.dupBeforeEnd \/ s.next <= Len(lens))]
  ELSE [s EXCEPT !.dmg = TRUE]

RECURSIVE ScanFrom(_, _, _, _, _, _)
ScanFrom(wire, t, lens, i, upto, s) ==
  IF i > upto THEN s
  ELSE ScanFrom(wire, t, lens, i + 1, upto,
                IF wire[i].t = t /\ wire[i].k = "FLDA" THEN ScanStep(s, wire[i], lens) ELSE s)

\* the scan of transfer t over the first `upto` wire items
Scan(wire, t, lens, upto) == ScanFrom(wire, t, lens, 1, upto, ScanInit)

\* all packages have arrived, in order, unchanged (duplicates tolerated), nothing damaged
AllArrived(wire, t, lens, upto) == LET s == Scan(wire, t, lens, upto) IN ~s.dmg /\ s.next = Len(lens) + 1
Damaged(wire, t, lens, upto) == Scan(wire, t, lens, upto).dmg
\* the announcement was on the wire before position upto
Announced(wire, t, upto) == \E i \in 1..upto : wire[i].t = t /\ wire[i].k = "FLST"
\* a duplicate arrived while packages were still outstanding (the circumstances of known finding #11)
DupBeforeEnd(wire, t, lens, upto) == Scan(wire, t, lens, upto).dupBeforeEnd
=============================================================================
