-------------------------- MODULE ProgressContract --------------------------
(* X02 - what a caller of adlt::utils::progress::ProgressNonAsyncFuture can rely on (src/utils/progress.rs).

   The object runs a worker closure on its own thread.  The worker reports progress (upd_progress(cur,max)) and may
   read a cancel request (shall_cancel); the owner polls (poll / cur_progress), may call cancel() and may drop the
   object.  The contract is written over what an observer sees who controls the worker through a gate:

     go                          the observer released one more worker step (a token was put into the gate channel)
     ack  op v seen              the observer received the worker's report that a step was executed:
                                   op = "upd"   the worker called upd_progress(value v)
                                   op = "chk"   the worker loaded the cancel request and saw `seen`, goes on
                                   op = "chkx"  same, and if seen it jumps to its last step (early exit)
                                   op = "wait"  same, and unless seen it repeats this step (loop until cancelled)
                                   op = "ret"   the worker is about to return value v
                                   op = "panic" the worker is about to panic
     fin                         the observer received the signal that the worker THREAD has ended (sent by a
                                 thread-local destructor of the worker thread, i.e. after the closure's result was stored)
     poll res v                  poll() returned: res = "progress" (v = value), "done" (v = result), "err"
     cur v                       cur_progress() returned value v
     cancel / drop               cancel() returned / the object was dropped (possibly concurrently, see driver)
     end                         end of the case

   Progress values are value identifiers (0 = the initial (0,0), k > 0 = k-th entry of the case's value table; the
   driver maps the u32 pairs it reads to identifiers by equality, an unknown pair gets an identifier that is in no
   script).  Every event is logged by ONE observer thread in its program order; the orders the rules rely on are
   happens-before edges: go(k) -> step k (channel), step k -> ack(k) (channel), thread end -> fin (channel).

   The contract state is a record, the contract a FUNCTION  CStep(state, event) -> state ; a state with ok = FALSE
   means "no rule allows this event" (a violation).  It is deterministic (angelic choices are resolved canonically,
   see Observe), so a trace module can decide a recorded execution event by event and a design module can carry the
   contract state along all its behaviours (refinement check by invariant).

   Rules (the guarantees):
     R1 value     poll()/cur_progress() return a value the worker really reported: the value after the steps known to be
                  executed, or of one of the steps released but not yet acknowledged; never older than a value the
                  owner has already seen (reads of one location are coherent); before any report: (0,0).
     R2 result    poll() returns Done(r) only if the worker was released to return, r is the value it returned, and
                  at most once; Err only if the worker was released to panic.  After the result was delivered poll() keeps
                  answering (progress with the final value, or Err), never a second result.
     R3 final     once the result was delivered, poll()/cur_progress() show the LAST value the worker reported (join).
     R4 prompt    (StrictFin) after the worker thread has ended, the next poll() delivers the result.
     R5 cancel    the worker sees the cancel request as not set if its step was acknowledged before cancel() was
                  called, as set if its step was released after cancel() returned, and either way in between; once it saw
                  it set it never sees it unset again.  cancel() does not itself end the worker or change the progress
                  or the result.
     R6 nonblock  poll/cur_progress/cancel return although the worker is blocked or running (a call that does not
                  return is logged as `hang`, a panic as `panic`: no rule allows these events).
   Not claimed (unspecified in the code, narrower reading): what the worker sees of the cancel request after the object
   was dropped without cancel() (the code leaves it unset: a worker that only ends on cancel then runs forever);
   whether drop waits for the worker; what poll() answers after delivery beyond "no second result".                 *)
EXTENDS Integers, Sequences, FiniteSets

CONSTANT StrictFin            \* BOOLEAN: rule R4 on/off (off if the harness' thread-end signal failed calibration)

Max(S) == CHOOSE x \in S : \A y \in S : y <= x
Min(S) == CHOOSE x \in S : \A y \in S : x <= y

CtlOps == {"chk", "chkx", "wait"}
Linear(script) == \A i \in 1..Len(script) : script[i].op \in {"upd", "chk", "ret", "panic"}

CInit(script) == [script |-> script, lin |-> Linear(script),
                  pc |-> 1,             \* next script step to be acknowledged
                  out |-> 0,            \* steps released, not yet acknowledged
                  obs |-> 0,            \* (linear scripts) how many of the outstanding steps are known executed by observation
                  val |-> 0,            \* value after the acknowledged steps
                  cancelled |-> FALSE,  \* cancel() has returned
                  cOut |-> 0,           \* outstanding steps that were released before cancel() returned
                  sawTrue |-> FALSE,    \* a worker step saw the cancel request
                  term |-> "none",      \* "ret"/"panic": the worker announced its last step
                  fin |-> FALSE, delivered |-> FALSE, dropped |-> FALSE, ok |-> TRUE]

Fail(s) == [s EXCEPT !.ok = FALSE]

\* value after the first j outstanding steps (linear scripts)
ValAfter(s, j) == LET idx == {i \in s.pc..(s.pc + j - 1) : i <= Len(s.script) /\ s.script[i].op = "upd"}
                  IN IF idx = {} THEN s.val ELSE s.script[Max(idx)].v
UpTo(s) == IF s.lin THEN s.pc + s.out - 1 ELSE Len(s.script)
\* outstanding upd steps not yet known to be executed
UpdIdx(s) == {i \in (IF s.lin THEN s.pc + s.obs ELSE s.pc)..UpTo(s) : i <= Len(s.script) /\ s.script[i].op = "upd"}
Base(s) == IF s.lin THEN ValAfter(s, s.obs) ELSE s.val
Cands(s) == IF s.out = 0 THEN {s.val} ELSE {Base(s)} \cup {s.script[i].v : i \in UpdIdx(s)}
\* R1: the observed value is possible; the earliest explanation is kept (later observations may only need more steps executed)
Observe(s, v) == IF v \notin Cands(s) THEN Fail(s)
                 ELSE IF s.lin /\ s.out > 0 /\ v # Base(s)
                      THEN [s EXCEPT !.obs = Min({i \in UpdIdx(s) : s.script[i].v = v}) - s.pc + 1]
                 ELSE s
Released(s, kind) == \/ s.term = kind
                     \/ s.out > 0 /\ \E i \in s.pc..UpTo(s) : i <= Len(s.script) /\ s.script[i].op = kind
ResultVal(s) == s.script[Len(s.script)].v

SeenOK(s, seen) == IF s.cancelled THEN (IF s.cOut > 0 THEN (s.sawTrue => seen) ELSE seen)
                   ELSE IF s.dropped THEN (s.sawTrue => seen)
                   ELSE ~seen

NextPc(s, e) == IF e.op = "chkx" /\ e.seen THEN Len(s.script)
                ELSE IF e.op = "wait" /\ ~e.seen THEN s.pc
                ELSE s.pc + 1

Dec(n) == IF n > 0 THEN n - 1 ELSE 0

CStep(s, e) ==
  IF ~s.ok THEN s
  ELSE IF e.ev = "go" THEN
     (IF s.term = "none" THEN [s EXCEPT !.out = @ + 1] ELSE Fail(s))
  ELSE IF e.ev = "ack" THEN
     (IF s.out > 0 /\ s.pc <= Len(s.script) /\ s.term = "none" /\ e.op = s.script[s.pc].op
         /\ (e.op \in {"upd", "ret"} => e.v = s.script[s.pc].v)
         /\ (e.op \in CtlOps => SeenOK(s, e.seen))
      THEN [s EXCEPT !.pc = NextPc(s, e), !.out = @ - 1, !.obs = Dec(@), !.cOut = Dec(@),
                     !.val = IF e.op = "upd" THEN e.v ELSE @,
                     !.sawTrue = @ \/ (e.op \in CtlOps /\ e.seen),
                     !.term = IF e.op \in {"ret", "panic"} THEN e.op ELSE @]
      ELSE Fail(s))
  ELSE IF e.ev = "fin" THEN
     (IF s.term # "none" /\ ~s.fin THEN [s EXCEPT !.fin = TRUE] ELSE Fail(s))
  ELSE IF e.ev = "poll" THEN
     (IF s.dropped THEN Fail(s)
      ELSE IF e.res = "done" THEN
         (IF ~s.delivered /\ Released(s, "ret") /\ e.v = ResultVal(s)
          THEN [s EXCEPT !.delivered = TRUE, !.obs = s.out] ELSE Fail(s))
      ELSE IF e.res = "err" THEN
         (IF s.delivered THEN s
          ELSE IF Released(s, "panic") THEN [s EXCEPT !.delivered = TRUE, !.obs = s.out]
          ELSE Fail(s))
      ELSE IF e.res = "progress" THEN
         (IF StrictFin /\ s.fin /\ ~s.delivered THEN Fail(s) ELSE Observe(s, e.v))
      ELSE Fail(s))
  ELSE IF e.ev = "cur" THEN
     (IF s.dropped THEN Fail(s) ELSE Observe(s, e.v))
  ELSE IF e.ev = "cancel" THEN
     (IF s.dropped THEN Fail(s)
      ELSE IF s.cancelled THEN s
      ELSE [s EXCEPT !.cancelled = TRUE, !.cOut = s.out])
  ELSE IF e.ev = "drop" THEN
     (IF s.dropped THEN Fail(s) ELSE [s EXCEPT !.dropped = TRUE])
  ELSE IF e.ev = "end" THEN s
  ELSE Fail(s)                           \* hang, panic, nofin, anything else

\* event constructors (the design module and the trace lines use the same vocabulary)
EvGo == [ev |-> "go"]
EvAck(op, v, seen) == [ev |-> "ack", op |-> op, v |-> v, seen |-> seen]
EvFin == [ev |-> "fin"]
EvPoll(res, v) == [ev |-> "poll", res |-> res, v |-> v]
EvCur(v) == [ev |-> "cur", v |-> v]
EvCancel == [ev |-> "cancel"]
EvDrop == [ev |-> "drop"]
=============================================================================
