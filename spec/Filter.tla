------------------------------- MODULE Filter -------------------------------
(* C11 - a filter matches exactly the conjunction of its criteria (src/filter/filter_impl.rs, functions.rs,
   src/bin/adlt/convert.rs).  Design = contract for this area (DESIGN.md section 6, C11); shared by C12.

   ABSTRACT MESSAGE   [ecu, ext, apid, ctid, vmm, text, lc]
     ecu/apid/ctid  4-tuples over 0..n (0 = NUL padding, 1.. = characters; concretisation 1->'A' 2->'B' 3->'a' 4->'1')
     ext            the message has an extended header (apid/ctid/vmm exist only then; kept at Zero4/0 otherwise)
     vmm            the verb_mstp_mtin byte 0..255 (bit0 verbose, bits 1..3 MSTP, bits 4..7 MTIN)
     text           payload text, a sequence of character codes (0 = ' ', 1..26 = 'a'..'z', 101..126 = 'A'..'Z',
                    200 + ASCII for every other character); for messages with a real payload it is the text the code
                    base itself renders for the unfiltered message (payload_as_text)
     lc             lifecycle id (0 = none)

   ABSTRACT FILTER    [kind, enabled, not, ecu, apid, ctid, type, lmin, lmax, pay, lcs]
     id criterion   [k, cls, w, w2]   k = "none" | "lit" | "re"
                    "lit": the word w (1..5 characters) denotes the id Pad4(w): short => NUL padded, over-long => cut
                    "re" : a regular expression searched in the 4 id bytes (NULs included); classes with their
                           concrete syntax (Dot -> '.', see Syn):
                             contains  w        "w"        some position matches w
                             prefix    w        "^w"       position 1 matches w
                             suffix    w        "w$"       the last Len(w) bytes match w
                             alt       w w2     "w|w2"     contains w or contains w2
                             ncalt     w w2     "(?:w|w2)" the same inside a non-capturing group     (payload only)
                             flagged   w        "(?s)w"    contains w (behind a flag group)          (payload only)
                             named     w        "(?P<n>w)" contains w (inside a named group)         (payload only)
                           classes that also match the EMPTY word (they hold for every id with 4 bytes, but - like every
                           apid/ctid criterion - never for a message without extended header, where there is no id):
                             any                ".*"       always
                             opt       w        "w?"       always (w one character, optional)
                             altempty  w        "w|"       always (alternation with an empty branch)
                             contains  <<>>     ""         always (the empty regex; JSON with ...IsRegex and public fields only)
                             empty              "^$"       only the empty word: never for 4 id bytes
                             nostar    w        "^[^w]*$"  no byte equals the character w (NUL bytes are fine)
     type criterion [k, v, mask]      "vmm"  (JSON verb_mstp_mtin = v): value v under mask 0x0f if MTIN(v) = 0 else 0xff
                                      "mstp" (JSON mstp = v, DLF control messages = 3): value (v%8)*2 under mask 0x0e
                                      "raw"  (public field): value v under mask
                    holds iff  (vmm & mask) = value
     lmin, lmax     -1 = none, else 0..6: holds iff MSTP = 0 (log) and MTIN >= lmin  resp. MTIN <= lmax
     pay criterion  [k, cls, w, w2, ic]  "sub": text contains w; "re": class as above on the text; ic = ignore case
     lcs criterion  [k, ids]          "list" with a non-empty ids: holds iff lc is a member; empty list = no criterion.
                    Set semantics: neither the order of the ids nor repeated ids matter
     Match(f, m) == f.enabled /\ (Crit(f, m) # f.not);  apid/ctid/type/level criteria never hold without ext.

   FRONT-ENDS (Expressible(fe, f)): json / jsona (JSON with / without explicit ...IsRegex keys), dlf (dlt-viewer DLF, the
   filter alone in its file with every element written), dlfa (DLF with only the elements of the specified criteria and
   without enableregexp_Appid/_Context, as a later filter of a file that starts with other, fully specified filters), conv (dlt-convert "APID CTID " list), eac (ECU:APID:CTID), api
   (Filter::new + public fields).  Every front-end that can express f must build a filter deciding Match(f, .).

   This module has no constants and no variables (it is EXTENDed by FilterTrace, FilterSet and spec/mc/MCFilter.tla,
   which holds the enumerated universes, the model-checked invariants and the scenario emission).                  *)
EXTENDS Integers, Sequences, FiniteSets, TLC, Json, Bitwise

Dot    == 99      \* regex '.'
Caret  == 90      \* '^'
Pipe   == 91      \* '|'
Dollar == 92      \* '$'
LBr    == 93      \* '['
RBr    == 94      \* ']'
Star   == 95      \* '*'
QMark  == 96      \* '?'

-----------------------------------------------------------------------------
\* ids
Zero4 == <<0, 0, 0, 0>>
Pad4(w) == [i \in 1..4 |-> IF i <= Len(w) THEN w[i] ELSE 0]

\* pattern p (characters and Dot) at position i of the sequence x
PatAt(p, x, i) == /\ i >= 1 /\ i + Len(p) - 1 <= Len(x)
                  /\ \A j \in 1..Len(p) : p[j] = Dot \/ p[j] = x[i + j - 1]
ContainsPat(p, x) == \E i \in 1..(Len(x) - Len(p) + 1) : PatAt(p, x, i)
ReHolds(cls, w, w2, x) ==
    CASE cls = "contains" -> ContainsPat(w, x)
      [] cls = "prefix"   -> PatAt(w, x, 1)
      [] cls = "suffix"   -> PatAt(w, x, Len(x) - Len(w) + 1)
      [] cls = "alt"      -> ContainsPat(w, x) \/ ContainsPat(w2, x)
      [] cls = "ncalt"    -> ContainsPat(w, x) \/ ContainsPat(w2, x)      \* "(?:w|w2)"  non-capturing group
      [] cls \in {"flagged", "named"} -> ContainsPat(w, x)               \* "(?s)w" (flag group), "(?P<n>w)" (named group)
      [] cls \in {"any", "opt", "altempty"} -> TRUE
      [] cls = "empty"    -> Len(x) = 0
      [] cls = "nostar"   -> \A i \in 1..Len(x) : x[i] # w[1]

NoId == [k |-> "none", cls |-> "", w |-> <<>>, w2 |-> <<>>]
Lit(w) == [k |-> "lit", cls |-> "", w |-> w, w2 |-> <<>>]
Re(cls, w, w2) == [k |-> "re", cls |-> cls, w |-> w, w2 |-> w2]

IdHolds(c, x) == CASE c.k = "none" -> TRUE
                   [] c.k = "lit"  -> x = Pad4(c.w)
                   [] c.k = "re"   -> ReHolds(c.cls, c.w, c.w2, x)

\* concrete syntax of an id / payload criterion as a token sequence (the driver maps tokens to ASCII)
Syn(c) == CASE c.k = "none"     -> <<>>
            [] c.k \in {"lit", "sub"} -> c.w
            [] c.cls = "contains" -> c.w
            [] c.cls = "prefix"   -> <<Caret>> \o c.w
            [] c.cls = "suffix"   -> c.w \o <<Dollar>>
            [] c.cls = "alt"      -> c.w \o <<Pipe>> \o c.w2
            \* payload regexes that START with "(?" (a group modifier, not the ignore-case flag): 240 '(' 241 ')' 258 ':' 260 '<' 262 '>'
            [] c.cls = "ncalt"    -> <<240, QMark, 258>> \o c.w \o <<Pipe>> \o c.w2 \o <<241>>
            [] c.cls = "flagged"  -> <<240, QMark, 19, 241>> \o c.w
            [] c.cls = "named"    -> <<240, QMark, 116, 260, 14, 262>> \o c.w \o <<241>>
            [] c.cls = "any"      -> <<Dot, Star>>
            [] c.cls = "opt"      -> c.w \o <<QMark>>
            [] c.cls = "altempty" -> c.w \o <<Pipe>>
            [] c.cls = "empty"    -> <<Caret, Dollar>>
            [] c.cls = "nostar"   -> <<Caret, LBr, Caret>> \o c.w \o <<RBr, Star, Dollar>>
HasReChar(s) == \E i \in 1..Len(s) : s[i] \in {Dot, Caret, Pipe, Dollar, LBr, RBr, Star, QMark}
\* an empty string in a DLF element or an ECU:APID:CTID part means "no criterion", so it cannot carry the empty regex
NonEmptySyn(c) == c.k = "none" \/ Len(Syn(c)) > 0
\* regex auto-detection (contains_regex_chars) yields the intended kind
AutoOk(c) == c.k = "none" \/ ((c.k = "re") = HasReChar(Syn(c)))

-----------------------------------------------------------------------------
\* message type and log level
Mstp(b) == (b \div 2) % 8
Mtin(b) == b \div 16
NoType == [k |-> "none", v |-> 0, mask |-> 0]
TVmm(v) == [k |-> "vmm", v |-> v, mask |-> 0]
TMstp(v) == [k |-> "mstp", v |-> v, mask |-> 0]
TRaw(v, mask) == [k |-> "raw", v |-> v, mask |-> mask]
TypeVal(c) == CASE c.k = "vmm" -> c.v [] c.k = "mstp" -> (c.v % 8) * 2 [] c.k = "raw" -> c.v
TypeMask(c) == CASE c.k = "vmm" -> (IF Mtin(c.v) = 0 THEN 15 ELSE 255) [] c.k = "mstp" -> 14 [] c.k = "raw" -> c.mask
TypeHolds(c, m) == c.k = "none" \/ (m.ext /\ (m.vmm & TypeMask(c)) = TypeVal(c))
LMinHolds(l, m) == l = -1 \/ (m.ext /\ Mstp(m.vmm) = 0 /\ Mtin(m.vmm) >= l)
LMaxHolds(l, m) == l = -1 \/ (m.ext /\ Mstp(m.vmm) = 0 /\ Mtin(m.vmm) <= l)

-----------------------------------------------------------------------------
\* payload text
\* further characters of a text (digits, punctuation) have the code 200 + ASCII; they have no case
Low(ch) == IF ch \in 101..126 THEN ch - 100 ELSE ch
LowS(s) == [i \in 1..Len(s) |-> Low(s[i])]
NoPay == [k |-> "none", cls |-> "", w |-> <<>>, w2 |-> <<>>, ic |-> FALSE]
PSub(w, ic) == [k |-> "sub", cls |-> "", w |-> w, w2 |-> <<>>, ic |-> ic]
PRe(cls, w, w2, ic) == [k |-> "re", cls |-> cls, w |-> w, w2 |-> w2, ic |-> ic]
PayHolds(c, text) ==
    IF c.k = "none" THEN TRUE
    ELSE LET t  == IF c.ic THEN LowS(text) ELSE text
             w  == IF c.ic THEN LowS(c.w) ELSE c.w
             w2 == IF c.ic THEN LowS(c.w2) ELSE c.w2
         IN IF c.k = "sub" THEN ContainsPat(w, t) ELSE ReHolds(c.cls, w, w2, t)

\* lifecycles
NoLcs == [k |-> "none", ids |-> <<>>]
LcList(ids) == [k |-> "list", ids |-> ids]
\* membership in the SET of listed ids (order and multiplicity of the list are irrelevant)
LcIdSet(c) == {c.ids[i] : i \in 1..Len(c.ids)}
LcHolds(c, m) == c.k = "none" \/ LcIdSet(c) = {} \/ m.lc \in LcIdSet(c)

-----------------------------------------------------------------------------
\* the property
NeedsExt(f) == f.apid.k # "none" \/ f.ctid.k # "none" \/ f.type.k # "none" \/ f.lmin # -1 \/ f.lmax # -1
Crit(f, m) == /\ IdHolds(f.ecu, m.ecu)
              /\ (f.apid.k # "none" => (m.ext /\ IdHolds(f.apid, m.apid)))
              /\ (f.ctid.k # "none" => (m.ext /\ IdHolds(f.ctid, m.ctid)))
              /\ TypeHolds(f.type, m)
              /\ LMinHolds(f.lmin, m)
              /\ LMaxHolds(f.lmax, m)
              /\ PayHolds(f.pay, m.text)
              /\ LcHolds(f.lcs, m)
Match(f, m) == f.enabled /\ (Crit(f, m) # f.not)

-----------------------------------------------------------------------------
\* a filter without criteria
EmptyFilter(kind, en, nt) ==
    [kind |-> kind, enabled |-> en, not |-> nt, ecu |-> NoId, apid |-> NoId, ctid |-> NoId, type |-> NoType,
     lmin |-> -1, lmax |-> -1, pay |-> NoPay, lcs |-> NoLcs]

-----------------------------------------------------------------------------
\* front-ends: the expressible subset (the denotation of an expressible filter is the filter itself)
OnlyIds(f) == f.type.k = "none" /\ f.lmin = -1 /\ f.lmax = -1 /\ f.pay.k = "none" /\ f.lcs.k = "none"
SomeId(f) == f.ecu.k # "none" \/ f.apid.k # "none" \/ f.ctid.k # "none"
\* a payload regex criterion is written with letters, digits, blanks and Dot only (no character that needs escaping)
ReTok(t) == t \in 0..26 \/ t \in 101..126 \/ t \in 248..257 \/ t = Dot
ReSafe(c) == c.k # "re" \/ ((\A i \in 1..Len(c.w) : ReTok(c.w[i])) /\ (\A i \in 1..Len(c.w2) : ReTok(c.w2[i])))
Expressible(fe, f) == ReSafe(f.pay) /\
    CASE fe = "json"  -> f.type.k # "raw"
      [] fe = "jsona" -> f.type.k # "raw" /\ SomeId(f) /\ AutoOk(f.ecu) /\ AutoOk(f.apid) /\ AutoOk(f.ctid)
      [] fe = "dlf"   -> /\ ~f.not /\ f.lcs.k = "none" /\ f.ecu.k \in {"none", "lit"}
                         /\ (f.type.k = "none" \/ (f.type.k = "mstp" /\ f.type.v = 3))
                         /\ NonEmptySyn(f.apid) /\ NonEmptySyn(f.ctid)
      [] fe = "dlfa"  -> /\ ~f.not /\ f.lcs.k = "none" /\ f.ecu.k \in {"none", "lit"}
                         /\ (f.type.k = "none" \/ (f.type.k = "mstp" /\ f.type.v = 3))
                         /\ AutoOk(f.apid) /\ AutoOk(f.ctid)
      [] fe = "conv"  -> /\ f.enabled /\ ~f.not /\ f.kind = 0 /\ OnlyIds(f) /\ f.ecu.k = "none"
                         /\ f.apid.k = "lit" /\ Len(f.apid.w) <= 4 /\ f.ctid.k = "lit" /\ Len(f.ctid.w) <= 4
      [] fe = "eac"   -> /\ f.enabled /\ ~f.not /\ f.kind = 0 /\ OnlyIds(f) /\ SomeId(f)
                         /\ AutoOk(f.ecu) /\ AutoOk(f.apid) /\ AutoOk(f.ctid)
                         /\ NonEmptySyn(f.ecu) /\ NonEmptySyn(f.apid) /\ NonEmptySyn(f.ctid)
      [] fe = "api"   -> ~f.not /\ f.pay.k \in {"none", "sub"} /\ ~f.pay.ic /\ f.type.k \in {"none", "raw"}
FrontEnds == {"json", "jsona", "dlf", "dlfa", "conv", "eac", "api"}
FrontEndsOf(f) == {fe \in FrontEnds : Expressible(fe, f)}
=============================================================================
