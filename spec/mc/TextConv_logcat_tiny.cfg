SPECIFICATION Spec
CONSTANTS
  Kind = "logcat"
  Tier = "tiny"
  Cases <- MCCases
  FixTrail = FALSE
  FixUpper = FALSE
  FixPrevYear = FALSE
  Emit = FALSE
INVARIANTS ConformsKF StrictUnlessTouched Monotone
PROPERTIES Terminates
CHECK_DEADLOCK FALSE
