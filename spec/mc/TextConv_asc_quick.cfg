SPECIFICATION Spec
CONSTANTS
  Kind = "asc"
  Tier = "quick"
  Cases <- MCCases
  FixTrail = FALSE
  FixUpper = FALSE
  FixPrevYear = FALSE
  Emit = TRUE
INVARIANTS AllInOne
CHECK_DEADLOCK FALSE
