SPECIFICATION Spec
CHECK_DEADLOCK FALSE
CONSTANTS
  CL = 2
  LMs = {3}
  Extra = {0}
  SrcLens = {9}
  MaxOps = 4
  ConsumeNs = {2, 3}
  ReadNs = {1, 6}
  SeekOn = TRUE
  TrackHist = TRUE
  FixSeekGap = TRUE
  KFSeekGap = FALSE
INVARIANTS Window Bounds NoEarlyEof LowMarkKept EmptyOnlyAtEnd SeekContent TaintOnlyBySeekGap Emit
