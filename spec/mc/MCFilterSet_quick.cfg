SPECIFICATION Spec
CONSTANTS
  MaxTotal = 2
  MaxPerKind = 3
INVARIANTS SetRules StreamOrder Counts Closed EmitAgrees
CHECK_DEADLOCK FALSE
