SPECIFICATION Spec
CHECK_DEADLOCK FALSE
CONSTANTS
  MaxL = 2
  MaxG = 3
  N = 10
  MaxSegs = 5
  Starts = {0, 5}
  KFShortSerial = FALSE
  FixShortSerial = FALSE
INVARIANTS Property Bounded Numbered
PROPERTY Terminates
