SPECIFICATION Spec
CONSTANTS
  NT = 3
  MaxPk = 1
  BufSizes = {2}
  MaxNoise = 0
  MaxFaults = 0
  Emit = TRUE
  FixDup = TRUE
  AutoSave = FALSE
  MaxEnv = 0
  Names = TRUE
  RoundRobin = TRUE
  FullLast = TRUE
  DupAlso = FALSE
INVARIANTS Safe SafeWire CompleteWhenInOrder IdxDesignates EmitScn
CHECK_DEADLOCK FALSE
