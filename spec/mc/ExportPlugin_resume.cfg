SPECIFICATION Spec
CONSTANTS
  LcAlphabet <- LcAlpha_resume
  MaxLcs = 3
  MaxMsgs = 4
  Apids <- OneApid
  LciChoices <- LciChoices_resume
  FilterChoices <- NoFilters
  WindowChoices <- NoWindow
  EnabledChoices <- OnlyEnabled
  InfoChoices <- NoInfos
INVARIANTS TypeOK PropertyHolds EmitScn
CHECK_DEADLOCK FALSE
