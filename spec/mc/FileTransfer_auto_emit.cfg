SPECIFICATION Spec
CONSTANTS
  NT = 2
  MaxPk = 2
  BufSizes = {2}
  MaxNoise = 0
  MaxFaults = 0
  Emit = TRUE
  FixDup = TRUE
  AutoSave = TRUE
  MaxEnv = 1
  Names = FALSE
  RoundRobin = FALSE
  FullLast = TRUE
  DupAlso = FALSE
INVARIANTS Safe SafeWire CompleteWhenInOrder DirJustified IdxDesignates EmitScn
PROPERTY DirGrowsOnly
CHECK_DEADLOCK FALSE
