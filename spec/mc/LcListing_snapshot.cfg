SPECIFICATION Spec
CONSTANTS
  MaxLcs = 3
  Starts = {0, 1, 2}
INVARIANTS OldComparatorConsistent
CHECK_DEADLOCK FALSE
