SPECIFICATION Spec
CONSTANTS
  MaxLen = 2
  Streams <- StreamsVal
  Opts <- OptsVal
INVARIANTS OnlySelected EachOnce OrderedUnlessSorted CompleteAtEnd UnsortedDeterministic SelLaws
PROPERTY Terminates
CHECK_DEADLOCK FALSE
