SPECIFICATION Spec
CONSTANTS
  MaxLen = 3
  NC = 2
  Emit = TRUE
  Fixed = FALSE
  MaxOps = 5
  Gen = TRUE
VIEW View
CONSTRAINT Bounded
CHECK_DEADLOCK FALSE
