SPECIFICATION Spec
CONSTANTS
  N = 5
  Chunks = {1, 2, 3}
  MaxWin = 2
  MaxSteps = 4
INVARIANTS Increasing OnlyMatches NothingSkipped ProcessedBound StreamExact QueryPrefix Emit
CHECK_DEADLOCK FALSE
