SPECIFICATION Spec
CONSTANTS
  MaxSteps = 6
  MaxStreams = 3
  Depth = 3
  Level = "full"
  RecordHist = FALSE
INVARIANTS TypeOK Consistent TableTotal CloseThenOpen
PROPERTIES AllAnswered CloseAnswered
CHECK_DEADLOCK FALSE
