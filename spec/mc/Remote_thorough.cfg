SPECIFICATION Spec
CONSTANTS
  MaxSteps = 5
  MaxStreams = 3
  Depth = 2
  Level = "quick"
  RecordHist = FALSE
INVARIANTS TypeOK Consistent TableTotal CloseThenOpen
PROPERTIES AllAnswered CloseAnswered ErrKeepsState
CHECK_DEADLOCK FALSE
