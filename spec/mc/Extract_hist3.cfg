SPECIFICATION Spec
CONSTANTS
  Names <- NamesHist
  DirNames <- DirsQuick
  MaxMembers = 2
  GlobClasses <- HistClasses
  MinReq = 3
  MaxReq = 3
  AllowAlias = FALSE
  Emit = TRUE
INVARIANTS Confined NeverHostile DistinctTargets ExactMatchesItself EmitScn
CHECK_DEADLOCK FALSE
