SPECIFICATION Spec
CONSTANTS
  MaxChain = 2
  MaxIn = 1
INVARIANTS InOrderOnce DroppedOnlyWhereAllowed FramesRespected UntouchedByDecoders TimesUntouchedByAnon
PROPERTY Terminates
CHECK_DEADLOCK FALSE
