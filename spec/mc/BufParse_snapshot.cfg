SPECIFICATION Spec
CHECK_DEADLOCK FALSE
CONSTANTS
  MaxL = 2
  N = 7
  LM = 4
INVARIANTS ChunkIndependent
