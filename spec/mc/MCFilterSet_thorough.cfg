SPECIFICATION Spec
CONSTANTS
  MaxTotal = 4
  MaxPerKind = 3
INVARIANTS SetRules StreamOrder Counts Closed
CHECK_DEADLOCK FALSE
