SPECIFICATION Spec
CONSTANTS
  MaxTotal = 3
  MaxPerKind = 3
INVARIANTS SetRules StreamOrder Counts Closed EmitAgrees
CHECK_DEADLOCK FALSE
