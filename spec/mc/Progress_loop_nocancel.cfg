SPECIFICATION FairSpec
CONSTANTS
  Scripts <- ScriptsVal
  Table <- TableVal
  StrictFin = TRUE
  NV = 2
  MaxBody = 2
  MaxOps = 0
  MaxOut = 2
  MaxSpin = 1
  Sync = FALSE
  Live = TRUE
  Mode = "loop"
  CancelInLoop = FALSE
  DropCancels = FALSE
  Emit = FALSE
INVARIANTS TypeOK ContractHolds AtMostOnce ResultOnlyAfterEnd FinalValueAfterResult MonotoneObserved FlagOnlyByCancel
PROPERTIES LoopDelivers WorkerWaitFree
CHECK_DEADLOCK FALSE
