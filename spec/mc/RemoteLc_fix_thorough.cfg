INIT RInit
NEXT RNext
CONSTANTS
  Ecus = {"A"}
  MaxMsgs = 5
  RxDeltas = {0, 1, 11}
  TsVals = {0, 70}
  Kinds = {"norm"}
  IdxDeltas = {1}
  FixMerged = TRUE
  Scheds = {0}
  FreePolls = TRUE
  PartialRecv = TRUE
  EacTimer = FALSE
  FixWithdraw = TRUE
VIEW RView
INVARIANTS NoMissingNoStale ExtraOnlyRemoved FileInfoOk EacOk CountsOk TableMirror NoExtra
CHECK_DEADLOCK FALSE
