SPECIFICATION Spec
CONSTANTS
  MaxSteps = 4
  MaxStreams = 2
  Depth = 1
  Level = "full"
  RecordHist = FALSE
INVARIANTS TypeOK Consistent TableTotal CloseThenOpen
PROPERTIES AllAnswered CloseAnswered ErrKeepsState
CHECK_DEADLOCK FALSE
