SPECIFICATION Spec
CONSTANTS
  MaxLen = 4
  NC = 3
  Emit = TRUE
  Fixed = FALSE
  MaxOps = 6
  Gen = TRUE
VIEW View
CONSTRAINT Bounded
CHECK_DEADLOCK FALSE
