SPECIFICATION Spec
CONSTANTS
  NMsgs = 6
  Kinds <- KindsLF
  Styles <- StylesLF
  CapAlphabet = {0, 1, 2}
  DropChoices <- DropsUpTo4
  H = 1
  PStalls = {0}
  ConsumerStyles = {"block", "poll"}
  StylesEverywhere = FALSE
  PollingHelper = FALSE
  Observe = TRUE
  SkipIdxStep = FALSE
  CStalls = {0}
INVARIANTS PrefixOfRef CompleteIfNoDrop DropExact ChanBound DoneIsFinal PublishIdxMonotone FoldUpToDate FinalTableComplete
PROPERTIES Termination DropTerminates
CHECK_DEADLOCK FALSE
