----------------------------- MODULE MCEacStats -----------------------------
(* X01 - input alphabets for model checking EacStats.tla (a .cfg cannot hold records/sequences). *)
EXTENDS EacStats

Op(k, e, a, c, d, s, apps) == [k |-> k, e |-> e, a |-> a, c |-> c, d |-> d, st |-> s, apps |-> apps]
App(a, d, cs) == [a |-> a, d |-> d, cs |-> cs]
Ct(c, d) == [c |-> c, d |-> d]
D == {1, 2}

Plain(es) == {Op("plain", e, 0, 0, 0, 0, <<>>) : e \in es}
Log(eacs) == {Op("log", q[1], q[2], q[3], 0, 0, <<>>) : q \in eacs}

\* application lists of get_log_info responses
S1 == {<<App(a, d, <<>>)>> : a \in A, d \in D}                                  \* application description only
S2 == {<<App(q[1], 0, <<Ct(q[2], q[3])>>)>> : q \in A \X C \X D}                \* context description only
S3 == {<<App(1, p[1], <<Ct(1, p[2])>>)>> : p \in D \X D}                        \* both
S4 == {<<App(1, 1, <<>>), App(1, 2, <<>>)>>,                                    \* the same application twice
       <<App(1, 1, <<Ct(1, 1)>>), App(2, 2, <<Ct(1, 2), Ct(2, 1)>>)>>,          \* two applications
       <<App(2, 0, <<Ct(1, 1), Ct(1, 2)>>)>>,                                   \* the same context twice
       <<App(2, 0, <<Ct(2, 0)>>)>>}                                             \* named, nothing described
Look == <<App(1, 1, <<Ct(1, 2)>>)>>
Resp(es, shapes) == {Op("resp", e, 1, 1, 0, 7, s) : e \in es, s \in shapes}
\* inputs that count but must not teach: look-alike payloads in log messages / other services / requests, real requests,
\* well-formed responses without descriptions (status 3..6), failed responses (status 8)
NonTeach(es) == {Op(k, e, 1, 1, 0, 0, Look) : k \in {"log", "nvlog", "svc", "req"}, e \in es}
                \cup {Op("req", e, 1, 1, 0, 0, <<>>) : e \in es}
                \cup {Op("resp", e, 1, 1, 0, s, Look) : s \in {3, 6}, e \in es}
                \cup {Op("resp", e, 1, 1, 0, 8, <<>>) : e \in es}
Api(es, as, cs) == {Op("desc", q[1], q[2], q[3], q[4], 0, <<>>) : q \in es \X as \X cs \X D}

\* quick: most inputs for ECU 1, a few for ECU 2 (isolation between ECUs); the thorough alphabet is a superset
S2q == {<<App(q[1], 0, <<Ct(q[2], 1)>>)>> : q \in A \X C}
AlphaQuick == Plain(E) \cup Log({1} \X A \X C) \cup Log({<<2, 1, 1>>, <<2, 2, 1>>})
              \cup Resp({1}, S1 \cup S2q \cup S3 \cup S4) \cup Resp({2}, {<<App(1, 1, <<>>)>>, <<App(1, 2, <<>>)>>, <<App(1, 0, <<Ct(1, 1)>>)>>})
              \cup (NonTeach({1}) \ {Op("resp", 1, 1, 1, 0, 3, Look)})
              \cup Api({1}, {1}, {0, 1}) \cup Api({1}, {2}, {0}) \cup Api({2}, {1}, {0})
\* thorough: symmetric in the ECUs
AlphaFull == Plain(E) \cup Log(E \X A \X C) \cup Resp(E, S1 \cup S2 \cup S3 \cup S4) \cup NonTeach(E) \cup Api(E, A, {0} \cup C)
\* deep: descriptions only (who wins / where entries come from), one ECU plus a witness of the other
AlphaDeep == Plain({1}) \cup Log({<<1, 1, 1>>, <<1, 1, 2>>, <<2, 1, 1>>})
             \cup Resp({1}, S3 \cup {<<App(1, 1, <<>>), App(1, 2, <<>>)>>, <<App(2, 0, <<Ct(1, 1), Ct(1, 2)>>)>>})
             \cup Resp({2}, {<<App(1, 2, <<Ct(1, 1)>>)>>})
             \cup {Op("resp", 1, 1, 1, 0, 6, Look), Op("nvlog", 1, 1, 1, 0, 0, Look)}
             \cup Api({1}, {1}, {0, 1}) \cup Api({2}, {1}, {1})
=============================================================================
