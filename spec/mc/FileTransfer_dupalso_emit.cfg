SPECIFICATION Spec
CONSTANTS
  NT = 1
  MaxPk = 4
  BufSizes = {1, 3}
  MaxNoise = 0
  MaxFaults = 1
  Emit = TRUE
  FixDup = TRUE
  AutoSave = FALSE
  MaxEnv = 0
  Names = FALSE
  RoundRobin = FALSE
  FullLast = FALSE
  DupAlso = TRUE
INVARIANTS Safe SafeWire IdxDesignates EmitScn
CHECK_DEADLOCK FALSE
