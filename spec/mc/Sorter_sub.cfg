SPECIFICATION Spec
CONSTANTS
  Ecus <- EcusVal
  LcOfEcu <- LcOfEcuVal
  LcStart <- LcStartSub
  W = 2
  D = 4
  MaxMsgs = 3
  RxDeltas = {0, 1, 2}
  Delays <- DelaysSubVal
  CtrlDelays = {3}
  Sec = 20000
  TsGrid = 2
  TickUs = 50
  BaseTicks = 20000000
  IndexMode = "pos"
  Record = FALSE
INVARIANTS ThrAtLeastD Permutation OrderedUnderBound HeldUntilOld
CHECK_DEADLOCK FALSE
