SPECIFICATION Spec
CONSTANTS
  Ecus <- EcusVal
  LcOfEcu <- LcOfEcuVal
  LcStart <- LcStartVal
  W = 2
  D = 2
  MaxMsgs = 3
  RxDeltas = {0, 1}
  Delays = {0, 2, 5}
  CtrlDelays = {}
  IndexMode = "zero"
  Record = TRUE
INVARIANTS EmitScn
CHECK_DEADLOCK FALSE
