SPECIFICATION FairSpec
CONSTANTS
  Scripts <- ScriptsVal
  Table <- TableVal
  StrictFin = TRUE
  NV = 1
  MaxBody = 1
  MaxOps = 2
  MaxOut = 1
  MaxSpin = 1
  Sync = FALSE
  Live = TRUE
  Mode = "free"
  CancelInLoop = FALSE
  Emit = FALSE
PROPERTIES DropNeverLeaks
CHECK_DEADLOCK FALSE
