INIT RInit
NEXT RNext
CONSTANTS
  Ecus = {"A", "B"}
  MaxMsgs = 3
  RxDeltas = {0, 61}
  TsVals = {70}
  Kinds = {"norm", "ctrl"}
  IdxDeltas = {1}
  FixMerged = TRUE
  Scheds = {1}
  FreePolls = FALSE
  PartialRecv = FALSE
  EacTimer = FALSE
  FixWithdraw = FALSE
INVARIANTS REmit NoMissingNoStale ExtraOnlyRemoved FileInfoOk EacOk CountsOk TableMirror
CHECK_DEADLOCK FALSE
