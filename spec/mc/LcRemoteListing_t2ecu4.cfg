\* thorough tier: two ECUs, 4 messages (resume chains on both ECUs)
\* (the check derives the variant for the code as it is - ChainKey = FALSE, AsIsOnlyKf instead of ChainStrict ResumedAfterOrigin - from this
\*  file while the known finding KF_C07_ResumeChainKey is open)
SPECIFICATION Spec
CONSTANTS
  Ecus = {"A", "B"}
  MaxMsgs = 4
  RxDeltas = {0, 11}
  TsVals = {0, 11, 30}
  Kinds = {"norm"}
  IdxDeltas = {1}
  FixMerged = TRUE
  ChainKey = TRUE
INVARIANTS Emit ListingExists KeyIsStartIfNoResume ChainStrict ResumedAfterOrigin NoResumeByStart OriginStable CtrlOnlyNeverResume
CHECK_DEADLOCK FALSE
