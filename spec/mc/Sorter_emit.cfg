SPECIFICATION Spec
CONSTANTS
  Ecus <- EcusVal
  LcOfEcu <- LcOfEcuVal
  LcStart <- LcStartVal
  W = 2
  D = 2
  MaxMsgs = 3
  RxDeltas = {0, 1, 3}
  Delays <- DelaysFull
  CtrlDelays = {5}
  Sec = 1
  TsGrid = 1
  TickUs = 1000000
  BaseTicks = 1640995200
  IndexMode = "pos"
  Record = TRUE
INVARIANTS EmitScn
CHECK_DEADLOCK FALSE
