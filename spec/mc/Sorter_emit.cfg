SPECIFICATION Spec
CONSTANTS
  Ecus <- EcusVal
  LcOfEcu <- LcOfEcuVal
  LcStart <- LcStartVal
  W = 2
  D = 2
  MaxMsgs = 3
  RxDeltas = {0, 1, 3}
  Delays <- DelaysFull
  CtrlDelays = {5}
  IndexMode = "pos"
  Record = TRUE
INVARIANTS EmitScn
CHECK_DEADLOCK FALSE
