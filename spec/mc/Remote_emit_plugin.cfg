SPECIFICATION Spec
CONSTANTS
  MaxSteps = 4
  MaxStreams = 2
  Depth = 1
  Level = "plugin"
  RecordHist = TRUE
INVARIANTS Emit
CHECK_DEADLOCK FALSE
