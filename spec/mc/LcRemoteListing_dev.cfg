SPECIFICATION Spec
CONSTANTS
  Ecus = {"A"}
  MaxMsgs = 5
  RxDeltas = {0, 1, 11}
  TsVals = {0, 11, 12, 20, 30}
  Kinds = {"norm"}
  IdxDeltas = {1}
  FixMerged = TRUE
INVARIANTS ChainStrict OriginStable
CHECK_DEADLOCK FALSE
