------------------------- MODULE MCExtractVolumes -------------------------
EXTENDS ExtractVolumes
\* look-alike neighbours of trace.zip.00N
DecoysAll == {[prefix |-> "trace.zip.old", ext |-> ".zip", nd |-> 3],     \* trace.zip.old.zip.001  (starts with the full name)
              [prefix |-> "trace.zip.1", ext |-> ".zip", nd |-> 3],
              [prefix |-> "trace.zip", ext |-> ".zip", nd |-> 3],         \* trace.zip.zip.001
              [prefix |-> "trace2", ext |-> ".zip", nd |-> 3],
              [prefix |-> "xtrace", ext |-> ".zip", nd |-> 3],            \* ends with the name
              [prefix |-> "trac", ext |-> ".zip", nd |-> 3],              \* the name starts with it
              [prefix |-> "Trace", ext |-> ".zip", nd |-> 3],             \* case variants
              [prefix |-> "TRACE", ext |-> ".zip", nd |-> 3],
              [prefix |-> "trace", ext |-> ".ZIP", nd |-> 3],             \* no volume at all
              [prefix |-> "trace", ext |-> ".7z", nd |-> 3],              \* other extension
              [prefix |-> "trace", ext |-> ".zip", nd |-> 4],             \* trace.zip.0010: four digits, no volume
              [prefix |-> "trace.zip.old", ext |-> ".zip", nd |-> 4]}
=============================================================================
