SPECIFICATION CSpec
CONSTANTS
  Ecus = {"A"}
  MaxMsgs = 4
  RxDeltas = {0}
  TsVals = {0}
  Kinds = {"norm"}
  IdxDeltas = {1}
  FixMerged = TRUE
  Delays = {0, 30}
  OffTimes = {1, 100}
  BootTs = {0, 12, 100}
  MaxBoots = 3
INVARIANTS CleanEmit ExactOutsideKF NoPanic C05 C06 C07
CHECK_DEADLOCK FALSE
