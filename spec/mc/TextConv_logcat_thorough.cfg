SPECIFICATION Spec
CONSTANTS
  Kind = "logcat"
  Tier = "thorough"
  Cases <- MCCases
  FixTrail = FALSE
  FixUpper = FALSE
  FixPrevYear = FALSE
  Emit = TRUE
INVARIANTS AllInOne
CHECK_DEADLOCK FALSE
