SPECIFICATION Spec
CONSTANTS
  Vers = {0, 1, 2, 3, 4, 5, 6, 7}
  PayClasses = {0, 1, 2, 3, 7, 1003, 1002, 1001, 1000}
  MicrosSet = {0, 1, 999999}
INVARIANTS DomainOk Thm_RoundTrip Thm_NormalForm Thm_Idempotent Thm_NoWrap Thm_RoundTripX XReached MaxReached EmitRecords
CHECK_DEADLOCK FALSE
