SPECIFICATION Spec
CONSTANTS
  MaxLen = 2
  Streams <- StreamsVal
  Opts <- OptsQuick
INVARIANTS OnlySelected EachOnce OrderedUnlessSorted CompleteAtEnd UnsortedDeterministic SelLaws
PROPERTY Terminates
CHECK_DEADLOCK FALSE
