SPECIFICATION Spec
CONSTANTS
  E = {1, 2}
  A = {1, 2}
  C = {1, 2}
  MaxLen = 4
  Emit = TRUE
  Alphabet <- AlphaDeep
INVARIANTS ContractHolds Sums KeysNested OrderIndependence Recomposed EmitScn
PROPERTY Monotone
CHECK_DEADLOCK FALSE
