\* thorough tier: the stream alphabet of Lc_emit_kinds4.cfg (control requests, messages without timestamp) plus timestamp 11
\* (the check derives the variant for the code as it is - ChainKey = FALSE, AsIsOnlyKf instead of ChainStrict ResumedAfterOrigin - from this
\*  file while the known finding KF_C07_ResumeChainKey is open)
SPECIFICATION Spec
CONSTANTS
  Ecus = {"A"}
  MaxMsgs = 4
  RxDeltas = {0, 11, 61}
  TsVals = {0, 11, 70}
  Kinds = {"norm", "ctrl", "nots"}
  IdxDeltas = {1}
  FixMerged = TRUE
  ChainKey = TRUE
INVARIANTS Emit ListingExists KeyIsStartIfNoResume ChainStrict ResumedAfterOrigin NoResumeByStart OriginStable CtrlOnlyNeverResume
CHECK_DEADLOCK FALSE
