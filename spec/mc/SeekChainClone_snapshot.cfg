SPECIFICATION Spec
CONSTANTS
  MaxLen = 3
  NC = 2
  Emit = FALSE
  Fixed = FALSE
  MaxOps = 5
  Gen = FALSE
VIEW View
INVARIANTS Ok
CHECK_DEADLOCK FALSE
