SPECIFICATION Spec
CONSTANTS
  Ids = {1, 2}
  Counts = {0, 1, 2, 65534, 65535}
  Sizes = {0, 1, 3, 65535}
  Idxs = {0, 1, 65535}
  Lens = {0, 1, 3, 4}
  MaxLen = 0
INVARIANTS EmitAlphabet
CHECK_DEADLOCK FALSE
