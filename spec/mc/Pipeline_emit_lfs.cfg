SPECIFICATION SpecEmit
CONSTANTS
  NMsgs = 4
  Kinds <- KindsLFS
  Styles <- StylesLFS
  CapAlphabet = {0, 1}
  DropChoices <- DropsLFS
  H = 1
  PStalls = {0}
  ConsumerStyles = {"block", "poll"}
  StylesEverywhere = TRUE
  PollingHelper = FALSE
  Observe = FALSE
  SkipIdxStep = FALSE
  CStalls = {0}
INVARIANTS EmitScn
CHECK_DEADLOCK FALSE
