----------------------------- MODULE MCConvert -----------------------------
(* bounded model of Convert.tla: all streams of up to MaxLen messages over a small universe x a product option space *)
EXTENDS Convert

CONSTANT MaxLen

F(k, en, e, a, c) == [kind |-> k, en |-> en, ecu |-> e, apid |-> a, ctid |-> c]
MsgU == [ecu : {"E1", "E2"}, apid : {"A1", "A2"}, ctid : {"C1"}, ext : {TRUE}, lc : {1, 2}]
          \cup [ecu : {"E1", "E2"}, apid : {""}, ctid : {""}, ext : {FALSE}, lc : {1, 2}]
Mk(m, i) == [index |-> i - 1, key |-> i, lc |-> m.lc, ecu |-> m.ecu, apid |-> m.apid, ctid |-> m.ctid, ext |-> m.ext, hash |-> i]
StreamsVal == UNION {{[i \in 1..n |-> Mk(f[i], i)] : f \in [1..n -> MsgU]} : n \in 0..MaxLen}

FilterSets == { <<>>,
                <<F("pos", TRUE, "E1", "", "")>>,
                <<F("neg", TRUE, "", "A1", "")>>,
                <<F("pos", TRUE, "", "A1", "C1"), F("neg", TRUE, "E2", "", "")>>,
                <<F("pos", FALSE, "E1", "", ""), F("marker", TRUE, "E2", "", "")>>,
                <<F("pos", TRUE, "E1", "", ""), F("pos", TRUE, "", "A2", "")>> }
OptsVal == [b : {0, 1}, e : {0, 1, MaxIdx}, lcs : {{}, {1}, {1, 2}, {9}}, ff : FilterSets,
            eac : {<<>>, <<F("pos", TRUE, "", "A2", "")>>}, sort : BOOLEAN, style : {"a", "none"}, ofile : BOOLEAN]
OptsQuick == [b : {0, 1}, e : {0, MaxIdx}, lcs : {{}, {1}, {9}}, ff : FilterSets,
              eac : {<<>>}, sort : BOOLEAN, style : {"a", "none"}, ofile : BOOLEAN]
=============================================================================
