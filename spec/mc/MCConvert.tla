----------------------------- MODULE MCConvert -----------------------------
(* bounded model of Convert.tla: all streams of up to MaxLen messages over a small universe x a product option space *)
EXTENDS Convert

CONSTANT MaxLen

NoRx3 == [ecu |-> NoRx, apid |-> NoRx, ctid |-> NoRx]
F(k, en, e, a, c) == [kind |-> k, en |-> en, ecu |-> e, apid |-> a, ctid |-> c, rx |-> NoRx3]
Chars == [x \in {"E1", "E2", "A1", "A2", "C1", ""} |->
             CASE x = "E1" -> <<"E", "1">> [] x = "E2" -> <<"E", "2">> [] x = "A1" -> <<"A", "1">> [] x = "A2" -> <<"A", "2">>
               [] x = "C1" -> <<"C", "1">> [] OTHER -> <<>>]
\* regex criteria: apid contains "2" (prefix form), ecu starts with "E" followed by 1 (class form)
RxF == [F("pos", TRUE, "", "", "") EXCEPT !.rx = [NoRx3 EXCEPT !.apid = [t |-> "prefix", w |-> <<"2">>, v |-> <<>>, s |-> "2.*"]]]
RxG == [F("neg", TRUE, "", "", "") EXCEPT !.rx = [NoRx3 EXCEPT !.ecu = [t |-> "class", w |-> <<"E">>, v |-> <<"1">>, s |-> "E[1]"]]]
MsgU == [ecu : {"E1", "E2"}, apid : {"A1", "A2"}, ctid : {"C1"}, ext : {TRUE}, lc : {1, 2}]
          \cup [ecu : {"E1", "E2"}, apid : {""}, ctid : {""}, ext : {FALSE}, lc : {1, 2}]
Mk(m, i) == [index |-> i - 1, key |-> i, lc |-> m.lc, ecu |-> m.ecu, apid |-> m.apid, ctid |-> m.ctid, ext |-> m.ext, hash |-> i,
            ecuc |-> Chars[m.ecu], apidc |-> Chars[m.apid], ctidc |-> Chars[m.ctid]]
StreamsVal == UNION {{[i \in 1..n |-> Mk(f[i], i)] : f \in [1..n -> MsgU]} : n \in 0..MaxLen}

FilterSets == { <<>>,
                <<F("pos", TRUE, "E1", "", "")>>,
                <<F("neg", TRUE, "", "A1", "")>>,
                <<F("pos", TRUE, "", "A1", "C1"), F("neg", TRUE, "E2", "", "")>>,
                <<F("pos", FALSE, "E1", "", ""), F("marker", TRUE, "E2", "", "")>>,
                <<F("pos", TRUE, "E1", "", ""), F("pos", TRUE, "", "A2", "")>>,
                <<RxF>>, <<RxF, RxG>> }
OptsVal == [b : {0, 1}, e : {0, 1, MaxIdx}, lcs : {{}, {1}, {1, 2}, {9}}, ff : FilterSets,
            eac : {<<>>, <<F("pos", TRUE, "", "A2", "")>>}, sort : BOOLEAN, style : {"a", "none"}, ofile : BOOLEAN]
OptsQuick == [b : {0, 1}, e : {0, MaxIdx}, lcs : {{}, {1}, {9}}, ff : FilterSets,
              eac : {<<>>}, sort : BOOLEAN, style : {"a", "none"}, ofile : BOOLEAN]
=============================================================================
