SPECIFICATION Spec
CONSTANTS
  MaxSteps = 6
  MaxStreams = 2
  Depth = 1
  Level = "onepass"
  RecordHist = TRUE
INVARIANTS Emit
CHECK_DEADLOCK FALSE
