SPECIFICATION SpecEmit
CONSTANTS
  NMsgs = 4
  Kinds <- KindsLF
  Styles <- StylesLF
  CapAlphabet = {0, 1, 2}
  DropChoices <- DropsLF
  H = 1
  PStalls = {0}
  ConsumerStyles = {"block", "poll"}
  StylesEverywhere = TRUE
  PollingHelper = FALSE
  Observe = FALSE
  SkipIdxStep = FALSE
  CStalls = {0}
INVARIANTS EmitScn
CHECK_DEADLOCK FALSE
