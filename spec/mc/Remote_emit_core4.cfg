SPECIFICATION Spec
CONSTANTS
  MaxSteps = 4
  MaxStreams = 2
  Depth = 1
  Level = "core"
  RecordHist = TRUE
INVARIANTS Emit
CHECK_DEADLOCK FALSE
