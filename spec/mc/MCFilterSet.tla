---------------------------- MODULE MCFilterSet ----------------------------
(* C12 - bounded universe, model-checked invariants and scenario emission for spec/FilterSet.tla.

   Filter sets are multisets of at most MaxTotal items (at most MaxPerKind of one kind); an item is one of NB base
   filters (overlapping criteria from Filter.tla's universe, enabled or not, negated or not) with one of the four kinds.
   The message table holds 8 messages, Streams the 4-message input sequences.
     SPECIFICATION Spec  : a set is chosen, then a stream, then the stream filter is stepped message by message;
                           invariants: the set-level rules of the statement and the stream contract.
     SPECIFICATION ESpec : one behaviour per set; EmitScn prints the set (item numbers), Keep for every message with and
                           without event filters and the predicted forwarding of every stream. The tables (items,
                           messages, streams) are printed once (TAB line).                                         *)
EXTENDS FilterSet

CONSTANTS MaxTotal, MaxPerKind

A == 1
B == 2
E(k) == EmptyFilter(k, TRUE, FALSE)
Pool(k) == << E(k),                                                        \* 1 matches every message
              EmptyFilter(k, FALSE, FALSE),                                \* 2 disabled, no criteria
              [E(k) EXCEPT !.ecu = Lit(<<A, B>>)],                         \* 3 ecu AB
              [EmptyFilter(k, TRUE, TRUE) EXCEPT !.ecu = Lit(<<A, B>>)],   \* 4 not (ecu AB)
              [E(k) EXCEPT !.apid = Re("contains", <<B>>, <<>>)],          \* 5 apid contains B (needs ext header)
              [E(k) EXCEPT !.type = TMstp(3)],                             \* 6 control messages
              [E(k) EXCEPT !.pay = PSub(<<6, 15, 15>>, TRUE)],             \* 7 payload "foo", ignoring case
              [EmptyFilter(k, FALSE, FALSE) EXCEPT !.ecu = Lit(<<A, B>>)]  \* 8 ecu AB, disabled
           >>
NB == Len(Pool(0))
NI == 4 * NB
KindOf(j) == (j - 1) \div NB
Item(j) == Pool(KindOf(j))[((j - 1) % NB) + 1]

RECURSIVE MS(_, _)
MS(n, lo) == IF n = 0 THEN {<<>>} ELSE UNION {{<<j>> \o t : t \in MS(n - 1, j)} : j \in lo..NI}
PerKindOk(s) == \A k \in 0..3 : Cardinality({i \in 1..Len(s) : KindOf(s[i]) = k}) <= MaxPerKind
Sets == {s \in UNION {MS(n, 1) : n \in 0..MaxTotal} : PerKindOk(s)}
FsOf(s) == [i \in 1..Len(s) |-> Item(s[i])]

Msg(ecu, ext, apid, ctid, vmm, text, lc) == [ecu |-> ecu, ext |-> ext, apid |-> apid, ctid |-> ctid, vmm |-> vmm, text |-> text, lc |-> lc]
Msgs == << Msg(<<A, B, 0, 0>>, TRUE, <<A, B, 0, 0>>, <<B, A, 0, 0>>, 65, <<6, 15, 15, 0, 2, 1, 18>>, 1),       \* "foo bar"
           Msg(<<B, A, 0, 0>>, TRUE, <<A, A, 0, 0>>, <<B, A, 0, 0>>, 65, <<106, 115, 115, 0, 2, 1, 18>>, 1),   \* "FOO bar"
           Msg(<<A, B, 0, 0>>, FALSE, Zero4, Zero4, 0, <<2, 1, 18>>, 1),                                       \* "bar"
           Msg(<<B, A, 0, 0>>, TRUE, <<B, B, 0, 0>>, <<A, 0, 0, 0>>, 38, <<2, 1, 18>>, 2),                     \* control response
           Msg(<<A, B, 0, 0>>, TRUE, <<A, A, 0, 0>>, <<A, 0, 0, 0>>, 22, <<6, 15, 15>>, 2),                    \* control request "foo"
           Msg(<<A, 0, 0, 0>>, TRUE, <<B, 0, 0, 0>>, <<B, A, 0, 0>>, 65, <<>>, 2),
           Msg(<<B, A, 0, 0>>, FALSE, Zero4, Zero4, 0, <<106, 15, 15>>, 0),                                    \* "Foo"
           Msg(<<A, B, 0, 0>>, TRUE, <<A, B, 0, 0>>, <<A, B, 0, 0>>, 64, <<2, 1, 18>>, 3) >>
NM == Len(Msgs)
Streams == << <<1, 2, 3, 4>>, <<5, 6, 7, 8>>, <<1, 1, 1, 1>>, <<4, 3, 2, 1>>, <<2, 5, 2, 8>>, <<3, 7, 6, 1>> >>
NS == Len(Streams)

ASSUME PrintT(<<"TAB", ToJson([pool |-> [j \in 1..NI |-> Item(j)], msgs |-> Msgs, streams |-> Streams])>>)

VARIABLES items, si, i, out, passed, filtered, pc
vars == <<items, si, i, out, passed, filtered, pc>>
Fs == FsOf(items)
S == Streams[si]

Init == items \in Sets /\ si = 0 /\ i = 0 /\ out = <<>> /\ passed = 0 /\ filtered = 0 /\ pc = "set"
Choose == pc = "set" /\ si' \in 1..NS /\ pc' = "run" /\ UNCHANGED <<items, i, out, passed, filtered>>
Step == /\ pc = "run" /\ i < Len(S)
        /\ i' = i + 1
        /\ IF Keep(Fs, Msgs[S[i + 1]], FALSE)
             THEN out' = Append(out, i + 1) /\ passed' = passed + 1 /\ UNCHANGED filtered
             ELSE filtered' = filtered + 1 /\ UNCHANGED <<out, passed>>
        /\ UNCHANGED <<items, si, pc>>
Finish == pc = "run" /\ i = Len(S) /\ pc' = "done" /\ UNCHANGED <<items, si, i, out, passed, filtered>>
Next == Choose \/ Step \/ Finish
Spec == Init /\ [][Next]_vars

\* ---- the statement on the model (SetRules is evaluated once per set, on the state that starts stream 1)
ActiveOnly(F) == SelectSeq(F, LAMBDA f : f.enabled /\ f.kind # KMarker)
Rev(F) == [k \in 1..Len(F) |-> F[Len(F) + 1 - k]]
SetRules == (pc = "run" /\ si = 1 /\ i = 0) => \A k \in 1..NM : \A we \in BOOLEAN : LET m == Msgs[k] IN
    /\ Keep(Fs, m, we) = Keep(ActiveOnly(Fs), m, we)                          \* disabled and marker filters have no effect
    /\ (ActiveOnly(Fs) = <<>> => Keep(Fs, m, we))                             \* nothing active: everything is kept
    /\ ((\E j \in 1..Len(Fs) : Fs[j].enabled /\ Fs[j].kind = KNeg /\ Match(Fs[j], m)) => ~Keep(Fs, m, we))   \* veto
    /\ (Keep(Fs, m, TRUE) => Keep(Fs, m, FALSE))                              \* event filters only remove
    /\ ((Keep(Fs, m, FALSE) /\ Active(Fs, KEvent) = {}) => Keep(Fs, m, TRUE))
    /\ Keep(Rev(Fs), m, we) = Keep(Fs, m, we)                                 \* the order of the filters is irrelevant
    /\ (Keep(Fs, m, FALSE) => (Active(Fs, KPos) = {} \/ \E j \in Active(Fs, KPos) : Match(Fs[j], m)))
StreamOrder == pc \in {"run", "done"} =>
    /\ \A k \in 1..(Len(out) - 1) : out[k] < out[k + 1]
    /\ {out[k] : k \in 1..Len(out)} = {p \in KeptPos(Fs, Msgs, S) : p <= i}
Counts == pc \in {"run", "done"} => (passed = Len(out) /\ passed + filtered = i)
Closed == pc = "done" => (out = FwdSeq(Fs, Msgs, S) /\ i = Len(S))

\* ---- scenario emission (SPECIFICATION ESpec)
EDone == pc = "set" /\ pc' = "emitted" /\ UNCHANGED <<items, si, i, out, passed, filtered>>
ESpec == Init /\ [][EDone]_vars
EmitScn == pc = "emitted" =>
    PrintT(<<"SCN", ToJson([items  |-> items,
                            keepEv |-> [k \in 1..NM |-> Keep(Fs, Msgs[k], TRUE)],
                            keepNo |-> [k \in 1..NM |-> Keep(Fs, Msgs[k], FALSE)],
                            fwd    |-> [k \in 1..NS |-> LET q == FwdSeq(Fs, Msgs, Streams[k])
                                                          IN [pos |-> q, passed |-> Len(q), filtered |-> Len(Streams[k]) - Len(q)]]])>>)
=============================================================================
