---------------------------- MODULE MCFilterSet ----------------------------
(* C12 - bounded universe, model-checked invariants and scenario emission for spec/FilterSet.tla.

   Filter sets are multisets of at most MaxTotal items (at most MaxPerKind of one kind); an item is one of NB base
   filters (overlapping criteria from Filter.tla's universe: id, type alone and combined with an id, payload, lifecycle;
   enabled or not, negated or not) as positive, negative or event filter, one of 3 marker filters, or one of 2 positive apid+ctid filters (dlt-convert list form).
   The message table holds 15 messages; for every field (ecu, apid, ctid, message type, verbose bit, text, lifecycle, and
   ecu without extended header) there is a message that differs from message 1 (resp. 8) in exactly that field, so that a decision which wrongly depends on the history of the
   stream (e.g. one re-used from the previous message) differs from Keep. The streams are a few short ones (incl. the
   empty one) and one Euler circuit in which EVERY ordered pair of messages (also a message with itself) is adjacent once.
     SPECIFICATION Spec  : a set is chosen, then a stream, then the stream filter is stepped message by message;
                           invariants: the set-level rules of the statement and the stream contract.
     SPECIFICATION ESpec : one behaviour per set; EmitScn prints the set (item numbers), Keep for every message with and
                           without event filters and the predicted forwarding of every stream. The tables (items,
                           messages, streams) are printed once (TAB line).                                         *)
EXTENDS FilterSet

CONSTANTS MaxTotal, MaxPerKind
ASSUME MaxTotal <= 4

A == 1
B == 2
E(k) == EmptyFilter(k, TRUE, FALSE)
Pool(k) == << E(k),                                                        \* 1 matches every message
              EmptyFilter(k, FALSE, FALSE),                                \* 2 disabled, no criteria
              [E(k) EXCEPT !.ecu = Lit(<<A, B>>)],                         \* 3 ecu AB
              [EmptyFilter(k, TRUE, TRUE) EXCEPT !.ecu = Lit(<<A, B>>)],   \* 4 not (ecu AB)
              [E(k) EXCEPT !.apid = Re("contains", <<B>>, <<>>)],          \* 5 apid contains B (needs ext header)
              [E(k) EXCEPT !.type = TMstp(3)],                             \* 6 control messages
              [E(k) EXCEPT !.pay = PSub(<<6, 15, 15>>, TRUE)],             \* 7 payload "foo", ignoring case
              [EmptyFilter(k, FALSE, FALSE) EXCEPT !.ecu = Lit(<<A, B>>)], \* 8 ecu AB, disabled
              [E(k) EXCEPT !.type = TVmm(65)],                             \* 9 exactly verbose log info (verb_mstp_mtin 0x41)
              [E(k) EXCEPT !.ecu = Lit(<<A, B>>), !.type = TMstp(3)],      \* 10 control messages of ecu AB
              [EmptyFilter(k, TRUE, TRUE) EXCEPT !.type = TMstp(3)],       \* 11 not control
              [E(k) EXCEPT !.lcs = LcList(<<2>>)],                         \* 12 lifecycle 2
              [E(k) EXCEPT !.ctid = Lit(<<B, A>>)],                        \* 13 ctid BA
              [E(k) EXCEPT !.ecu = Lit(<<B, A>>), !.apid = Lit(<<A, B>>)], \* 14 apid AB on ecu BA
              [E(k) EXCEPT !.apid = Re("contains", <<B>>, <<>>), !.lcs = LcList(<<2, 1>>)]   \* 15 apid contains B in lifecycles 1, 2
           >>
NB == Len(Pool(0))
\* two positive filters of the form a dlt-convert list can hold (apid and ctid literal): sets of them are loaded from such a list
ConvPool == << [E(KPos) EXCEPT !.apid = Lit(<<A, B>>), !.ctid = Lit(<<B, A>>)], [E(KPos) EXCEPT !.apid = Lit(<<A, A>>), !.ctid = Lit(<<B, A>>)] >>
ItemTab == Pool(KPos) \o Pool(KNeg) \o Pool(KEvent) \o <<Pool(KMarker)[1], Pool(KMarker)[3], Pool(KMarker)[6]>> \o ConvPool
NI == Len(ItemTab)
Item(j) == ItemTab[j]
KindOf(j) == ItemTab[j].kind

\* multisets as non-decreasing sequences of item numbers (building the set of all multisets first made the computation of
\* the initial states take minutes; Init enumerates them directly)
NonDecr(s) == \A i \in 1..(Len(s) - 1) : s[i] <= s[i + 1]
PerKindOk(s) == \A k \in 0..3 : Cardinality({i \in 1..Len(s) : KindOf(s[i]) = k}) <= MaxPerKind
IsSet(s) == NonDecr(s) /\ PerKindOk(s)
FsOf(s) == [i \in 1..Len(s) |-> Item(s[i])]

Msg(ecu, ext, apid, ctid, vmm, text, lc) == [ecu |-> ecu, ext |-> ext, apid |-> apid, ctid |-> ctid, vmm |-> vmm, text |-> text, lc |-> lc]
AB0 == <<A, B, 0, 0>>
BA0 == <<B, A, 0, 0>>
FooBar == <<6, 15, 15, 0, 2, 1, 18>>
Msgs == << Msg(AB0, TRUE, AB0, BA0, 65, FooBar, 1),                                  \* 1  address X, verbose log info, "foo bar"
           Msg(AB0, TRUE, AB0, BA0, 38, FooBar, 1),                                  \* 2  = 1 but control response
           Msg(AB0, TRUE, AB0, BA0, 65, <<2, 1, 18>>, 1),                            \* 3  = 1 but text "bar"
           Msg(AB0, TRUE, AB0, BA0, 65, FooBar, 2),                                  \* 4  = 1 but lifecycle 2
           Msg(AB0, TRUE, AB0, BA0, 64, FooBar, 1),                                  \* 5  = 1 but non-verbose
           Msg(BA0, TRUE, <<A, A, 0, 0>>, BA0, 65, <<106, 115, 115, 0, 2, 1, 18>>, 1),  \* 6  address Y, "FOO bar"
           Msg(BA0, TRUE, <<A, A, 0, 0>>, BA0, 22, <<106, 115, 115, 0, 2, 1, 18>>, 1),  \* 7  = 6 but control request
           Msg(AB0, FALSE, Zero4, Zero4, 0, <<2, 1, 18>>, 1),                        \* 8  no extended header, "bar"
           Msg(AB0, FALSE, Zero4, Zero4, 0, <<106, 15, 15>>, 2),                     \* 9  = 8 but "Foo", lifecycle 2
           Msg(<<A, 0, 0, 0>>, TRUE, <<B, 0, 0, 0>>, BA0, 65, <<>>, 2),              \* 10 other address, empty text
           Msg(AB0, TRUE, AB0, AB0, 38, <<2, 1, 18>>, 3),                            \* 11 = address X but ctid AB, control
           Msg(BA0, TRUE, AB0, BA0, 65, FooBar, 1),                                  \* 12 = 1 but ecu BA (same apid/ctid on another ecu)
           Msg(BA0, FALSE, Zero4, Zero4, 0, <<2, 1, 18>>, 1),                        \* 13 = 8 but ecu BA (no extended header)
           Msg(AB0, TRUE, <<A, A, 0, 0>>, BA0, 65, FooBar, 1),                       \* 14 = 1 but apid AA
           Msg(AB0, TRUE, AB0, AB0, 65, FooBar, 1) >>                                \* 15 = 1 but ctid AB
NM == Len(Msgs)
\* Euler circuit of the complete directed graph (with loops) on the messages
Euler == << 1, 1, 2, 1, 3, 1, 4, 1, 5, 1, 6, 1, 7, 1, 8, 1, 9, 1, 10, 1, 11, 1, 12, 1, 13, 1, 14, 1, 15, 2, 2, 3, 2, 4, 2, 5, 2,
            6, 2, 7, 2, 8, 2, 9, 2, 10, 2, 11, 2, 12, 2, 13, 2, 14, 2, 15, 3, 3, 4, 3, 5, 3, 6, 3, 7, 3, 8, 3, 9, 3, 10, 3, 11, 3,
            12, 3, 13, 3, 14, 3, 15, 4, 4, 5, 4, 6, 4, 7, 4, 8, 4, 9, 4, 10, 4, 11, 4, 12, 4, 13, 4, 14, 4, 15, 5, 5, 6, 5, 7, 5,
            8, 5, 9, 5, 10, 5, 11, 5, 12, 5, 13, 5, 14, 5, 15, 6, 6, 7, 6, 8, 6, 9, 6, 10, 6, 11, 6, 12, 6, 13, 6, 14, 6, 15, 7,
            7, 8, 7, 9, 7, 10, 7, 11, 7, 12, 7, 13, 7, 14, 7, 15, 8, 8, 9, 8, 10, 8, 11, 8, 12, 8, 13, 8, 14, 8, 15, 9, 9, 10, 9,
            11, 9, 12, 9, 13, 9, 14, 9, 15, 10, 10, 11, 10, 12, 10, 13, 10, 14, 10, 15, 11, 11, 12, 11, 13, 11, 14, 11, 15, 12,
            12, 13, 12, 14, 12, 15, 13, 13, 14, 13, 15, 14, 14, 15, 15, 1 >>
ASSUME NM = 15 /\ \A a \in 1..NM : \A b \in 1..NM : \E p \in 1..(Len(Euler) - 1) : Euler[p] = a /\ Euler[p + 1] = b
\* the last stream is the one the driver also feeds with a paced producer (filter on its own thread)
Desc == [k \in 1..NM |-> NM + 1 - k]     \* every message once, in the opposite order of first occurrence
Streams == << Euler, <<>>, <<2, 1, 2, 2>>, <<6, 7, 1, 5>>, <<11, 10, 9, 8>>, <<1, 1, 1, 1>>, Desc, <<3, 7, 10, 1, 9, 5>> >>
NS == Len(Streams)

\* the export plugin is fed with messages whose lifecycle belongs to their ecu (AB: lifecycles 1 and 2, BA: 3, others: 4):
\* the message table with the lifecycle re-assigned, every message twice (before / after its lifecycle was looked up)
XLc(mm) == IF mm.ecu = AB0 THEN (IF mm.lc = 2 THEN 2 ELSE 1) ELSE IF mm.ecu = BA0 THEN 3 ELSE 4
XMsgs == [k \in 1..NM |-> [Msgs[k] EXCEPT !.lc = XLc(Msgs[k])]]
XStream == Desc \o [k \in 1..NM |-> k]
XKeepOpts == << {}, {1}, {2}, {1, 3} >>      \* lifecycles to keep of the export configurations
NX == Len(XKeepOpts)

ASSUME PrintT(<<"TAB", ToJson([pool |-> ItemTab, msgs |-> Msgs, streams |-> Streams, xmsgs |-> XMsgs, xstream |-> XStream,
                               xkeepopts |-> XKeepOpts])>>)

VARIABLES items, si, i, out, passed, filtered, pc
vars == <<items, si, i, out, passed, filtered, pc>>
Fs == FsOf(items)
S == Streams[si]

\* four non-decreasing slots over 0..NI, 0 = unused (MaxTotal <= 4): enumerated directly, nothing is built and filtered
Init == (\E x1 \in 0..NI : \E x2 \in x1..NI : \E x3 \in x2..NI : \E x4 \in x3..NI :
            LET q == SelectSeq(<<x1, x2, x3, x4>>, LAMBDA v : v # 0) IN Len(q) <= MaxTotal /\ IsSet(q) /\ items = q)
        /\ si = 0 /\ i = 0 /\ out = <<>> /\ passed = 0 /\ filtered = 0 /\ pc = "set"
Choose == pc = "set" /\ si' \in 1..NS /\ pc' = "run" /\ UNCHANGED <<items, i, out, passed, filtered>>
Step == /\ pc = "run" /\ i < Len(S)
        /\ i' = i + 1
        /\ IF Keep(Fs, Msgs[S[i + 1]], FALSE)
             THEN out' = Append(out, i + 1) /\ passed' = passed + 1 /\ UNCHANGED filtered
             ELSE filtered' = filtered + 1 /\ UNCHANGED <<out, passed>>
        /\ UNCHANGED <<items, si, pc>>
Finish == pc = "run" /\ i = Len(S) /\ pc' = "done" /\ UNCHANGED <<items, si, i, out, passed, filtered>>
Next == Choose \/ Step \/ Finish
Spec == Init /\ [][Next]_vars

\* ---- the statement on the model (SetRules is evaluated once per set, on the state that starts stream 1)
ActiveOnly(F) == SelectSeq(F, LAMBDA f : f.enabled /\ f.kind # KMarker)
Rev(F) == [k \in 1..Len(F) |-> F[Len(F) + 1 - k]]
SetRules == (pc = "run" /\ si = 1 /\ i = 0) => \A k \in 1..NM : \A we \in BOOLEAN : LET m == Msgs[k] IN
    /\ Keep(Fs, m, we) = Keep(ActiveOnly(Fs), m, we)                          \* disabled and marker filters have no effect
    /\ (ActiveOnly(Fs) = <<>> => Keep(Fs, m, we))                             \* nothing active: everything is kept
    /\ ((\E j \in 1..Len(Fs) : Fs[j].enabled /\ Fs[j].kind = KNeg /\ Match(Fs[j], m)) => ~Keep(Fs, m, we))   \* veto
    /\ (Keep(Fs, m, TRUE) => Keep(Fs, m, FALSE))                              \* event filters only remove
    /\ ((Keep(Fs, m, FALSE) /\ Active(Fs, KEvent) = {}) => Keep(Fs, m, TRUE))
    /\ Keep(Rev(Fs), m, we) = Keep(Fs, m, we)                                 \* the order of the filters is irrelevant
    /\ (Keep(Fs, m, FALSE) => (Active(Fs, KPos) = {} \/ \E j \in Active(Fs, KPos) : Match(Fs[j], m)))
    /\ ExportKeep(Fs, m, {}) = Keep(Fs, m, TRUE)                               \* export without lifecycles to keep
    /\ \A c \in 1..NX : ExportKeep(Fs, XMsgs[k], XKeepOpts[c]) =
                            (Keep(Fs, XMsgs[k], TRUE) /\ (XKeepOpts[c] = {} \/ XMsgs[k].lc \in XKeepOpts[c]))
\* step by step: the message just handled is the last forwarded one iff it is kept (the whole sequence is compared with
\* FwdSeq once per stream in Closed)
StreamOrder == (pc \in {"run", "done"} /\ i > 0) =>
    LET kept == Keep(Fs, Msgs[S[i]], FALSE) IN
    /\ (kept => (Len(out) > 0 /\ out[Len(out)] = i))
    /\ (~kept => (Len(out) = 0 \/ out[Len(out)] < i))
    /\ (Len(out) > 1 => out[Len(out) - 1] < out[Len(out)])
Counts == pc \in {"run", "done"} => (passed = Len(out) /\ passed + filtered = i)
Closed == pc = "done" => (out = FwdSeq(Fs, Msgs, S) /\ i = Len(S))

\* ---- scenario emission (SPECIFICATION ESpec)
EDone == pc = "set" /\ pc' = "emitted" /\ UNCHANGED <<items, si, i, out, passed, filtered>>
ESpec == Init /\ [][EDone]_vars
\* the forwarding of a stream derived from the Keep vector of the message table (equal to FwdSeq, see EmitAgrees)
FwdFrom(kn, s) ==
    LET R[p \in 0..Len(s)] == IF p = 0 THEN <<>> ELSE IF kn[s[p]] THEN Append(R[p - 1], p) ELSE R[p - 1]
    IN R[Len(s)]
KeepVec(we) == [k \in 1..NM |-> Keep(Fs, Msgs[k], we)]
EmitAgrees == pc = "done" => FwdFrom(KeepVec(FALSE), S) = FwdSeq(Fs, Msgs, S)
EmitScn == pc = "emitted" =>
    LET kn == KeepVec(FALSE) IN
    PrintT(<<"SCN", ToJson([items  |-> items,
                            keepEv |-> KeepVec(TRUE),
                            keepNo |-> kn,
                            xkeep  |-> LET kx == [k \in 1..NM |-> Keep(Fs, XMsgs[k], TRUE)]      \* = ExportKeep, see SetRules
                                       IN [c \in 1..NX |-> [k \in 1..NM |-> kx[k] /\ (XKeepOpts[c] = {} \/ XMsgs[k].lc \in XKeepOpts[c])]],
                            fwd    |-> [k \in 1..NS |-> LET q == FwdFrom(kn, Streams[k])
                                                          IN [pos |-> q, passed |-> Len(q), filtered |-> Len(Streams[k]) - Len(q)]]])>>)
=============================================================================
