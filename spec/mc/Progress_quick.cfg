SPECIFICATION Spec
CONSTANTS
  Scripts <- ScriptsVal
  Table <- TableVal
  StrictFin = TRUE
  NV = 2
  MaxBody = 2
  MaxOps = 3
  MaxOut = 2
  MaxSpin = 1
  Sync = FALSE
  Live = FALSE
  Mode = "free"
  CancelInLoop = FALSE
  DropCancels = FALSE
  Emit = FALSE
INVARIANTS TypeOK ContractHolds AtMostOnce ResultOnlyAfterEnd FinalValueAfterResult MonotoneObserved FlagOnlyByCancel
VIEW ViewNoHist
CHECK_DEADLOCK FALSE
