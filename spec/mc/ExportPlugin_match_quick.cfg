SPECIFICATION Spec
CONSTANTS
  LcAlphabet <- LcAlpha_match
  MaxLcs = 2
  MaxMsgs = 3
  Apids <- OneApid
  LciChoices <- LciChoices_match_q
  FilterChoices <- NoFilters
  WindowChoices <- NoWindow
  EnabledChoices <- OnlyEnabled
  InfoChoices <- NoInfos
INVARIANTS TypeOK PropertyHolds EmitScn
CHECK_DEADLOCK FALSE
