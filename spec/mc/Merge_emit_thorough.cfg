SPECIFICATION Spec
CONSTANTS
  MaxSrc = 3
  MaxLen = 3
  Times = {0, 1, 2}
  Starts = {0}
  Kind = "chain"
INVARIANTS EmitFamilies
CHECK_DEADLOCK FALSE
