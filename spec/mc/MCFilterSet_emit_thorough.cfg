SPECIFICATION ESpec
CONSTANTS
  MaxTotal = 5
  MaxPerKind = 3
INVARIANTS EmitScn
CHECK_DEADLOCK FALSE
