SPECIFICATION ESpec
CONSTANTS
  MaxTotal = 4
  MaxPerKind = 3
INVARIANTS EmitScn
CHECK_DEADLOCK FALSE
