---- MODULE MCRemoteStreams ----
EXTENDS RemoteStreams
CoordsQuick == {0, 1, 2, 3, 5}
ChangesQuick == {<<0, 5>>, <<1, 2>>, <<2, 2>>, <<3, 5>>, <<0, 1>>}
SearchSetsQuick == {{0, 1, 2}, {0, 2}, {1}}
CoordsThorough == {0, 1, 2, 3, 4, 6}
ChangesThorough == {<<0, 6>>, <<1, 2>>, <<2, 2>>, <<4, 6>>, <<0, 1>>, <<1, 4>>, <<3, 1>>}
SearchSetsThorough == {{0, 1, 2, 3}, {0, 2}, {1, 2, 3}, {3}, {}}
====
