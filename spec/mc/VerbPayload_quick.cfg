SPECIFICATION Spec
CONSTANTS
  Alpha2 <- AlphaFull
  Alpha3 <- AlphaSmall
  AlphaC <- AlphaSmall
  MaxC = 2
  ShapeAlpha3 <- AlphaSmall
INVARIANTS SlicesInBounds OnGrid PrefixAlways ExactPrefix RoundTrip ClosedForm CorruptPrefix ShapesConform EmitScn
PROPERTY Terminates
CHECK_DEADLOCK FALSE
