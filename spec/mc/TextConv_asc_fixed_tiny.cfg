SPECIFICATION Spec
CONSTANTS
  Kind = "asc"
  Tier = "tiny"
  Cases <- MCCases
  FixTrail = TRUE
  FixUpper = TRUE
  FixPrevYear = TRUE
  Emit = FALSE
INVARIANTS AllInOne
CHECK_DEADLOCK FALSE
