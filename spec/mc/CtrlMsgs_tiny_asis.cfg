SPECIFICATION Spec
CONSTANTS
  Tier = "tiny"
  Fixed = FALSE
  Emit = TRUE
INVARIANT AllInOne
CHECK_DEADLOCK FALSE
