------------------------------ MODULE MCLayout ------------------------------
(* C02 - the finite instance of Layout.tla that TLC enumerates: every combination of the five htyp flags, the
   version-bit alphabet, the payload-size classes (0, 1, 2, max-1, max where max = 65535 - headers of THAT shape, so
   the original fits the 16 bit len field) and the storage-header micros extremes.  Field identities are small
   integers; the driver concretises every emitted record with seeded random ids / counters / times / payload bytes.
   One initial state per record; the theorems of Layout.tla are invariants; EmitRecords prints each record with the
   normal form TLC computed for it (used by the check only to measure design drift, never for the verdict).       *)
EXTENDS Integers, Sequences, FiniteSets, TLC, Json
INSTANCE Layout WITH NoTmsp <- 0, NoExt <- 0, NoId <- 0

CONSTANTS Vers,        \* version bits alphabet, e.g. {1, 0, 5}
          PayClasses,  \* c < 1000: payload of c bytes;  c >= 1000: MaxPay - (c - 1000) bytes (1000 = max, 1001 = max - 1)
          MicrosSet    \* storage header micros alphabet, e.g. {0, 999999}

VARIABLE m
PayOf(c, weid, wsid, wtms, ueh) == IF c < 1000 THEN c ELSE MaxPay(weid, wsid, wtms, ueh) - (c - 1000)

Msgs == { [ weid |-> weid, wsid |-> wsid, wtms |-> wtms, ueh |-> ueh, msbf |-> msbf, vers |-> vers,
            ecuSto |-> 1, ecuStd |-> IF weid THEN 2 ELSE 0, sid |-> IF wsid THEN 3 ELSE 0,
            tmsp |-> IF wtms THEN 4 ELSE 0, ext |-> IF ueh THEN 5 ELSE 0, mcnt |-> 6, secs |-> 7, micros |-> mic,
            pay |-> 8, payLen |-> PayOf(c, weid, wsid, wtms, ueh),
            len |-> HdrLen(weid, wsid, wtms, ueh) + PayOf(c, weid, wsid, wtms, ueh), cls |-> c ]
          : weid \in BOOLEAN, wsid \in BOOLEAN, wtms \in BOOLEAN, ueh \in BOOLEAN, msbf \in BOOLEAN,
            vers \in Vers, c \in PayClasses, mic \in MicrosSet }

Init == m \in Msgs
Next == UNCHANGED m
Spec == Init /\ [][Next]_m

DomainOk == WellFormed(m) /\ m.payLen >= 0
Thm_RoundTrip == RoundTrip(m)
Thm_NormalForm == NormalForm(m)
Thm_Idempotent == Idempotent(m)
Thm_NoWrap == NoWrap(m)
Thm_RoundTripX == RoundTripX(m)
\* the ECU / session id variants are not vacuous: they fit for every shape except the largest payload classes
XReached == (m.cls < 1000) => \A we \in BOOLEAN, ws \in BOOLEAN : FitsX(ParseView(m), we, ws)
\* the domain reaches the places the theorems are about: the class "max" fills the 16 bit len field for every shape
MaxReached == (m.cls = 1000) => Size(m) = StorageHdr + (U16 - 1)

EmitRecords == PrintT(<<"SCN", ToJson([m |-> m,
                                     nf |-> [htyp |-> htyp(Write(ParseView(m))), len |-> Write(ParseView(m)).len,
                                             bytes |-> WrittenBytes(ParseView(m))]])>>)
=============================================================================
