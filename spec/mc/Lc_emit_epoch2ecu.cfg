\* as Lc_emit_epoch4, two ECUs, three messages, control requests
SPECIFICATION Spec
CONSTANTS
  Ecus = {"A", "B"}
  MaxMsgs = 3
  RxDeltas = {0, 61}
  TsVals = {0, 20, 2000}
  Kinds = {"norm", "ctrl"}
  IdxDeltas = {1}
  FixMerged = TRUE

INVARIANTS EmitInv NoPanic C05 C05Safe C06 C07
CHECK_DEADLOCK FALSE
