SPECIFICATION Spec
CONSTANTS
  Ecus <- EcusVal
  LcOfEcu <- LcOfEcuVal
  LcStart <- LcStartVal
  W = 1
  D = 2
  MaxMsgs = 3
  RxDeltas = {0, 2}
  Delays <- DelaysSmall
  CtrlDelays = {}
  Sec = 1
  TsGrid = 1
  TickUs = 1000000
  BaseTicks = 1640995200
  IndexMode = "pos"
  Record = TRUE
INVARIANTS EmitScn
CHECK_DEADLOCK FALSE
