SPECIFICATION Spec
CONSTANTS
  Ecus <- EcusVal
  LcOfEcu <- LcOfEcuVal
  LcStart <- LcStartVal
  W = 1
  D = 2
  MaxMsgs = 3
  RxDeltas = {0, 2}
  Delays <- DelaysSmall
  CtrlDelays = {}
  IndexMode = "pos"
  Record = TRUE
INVARIANTS EmitScn
CHECK_DEADLOCK FALSE
