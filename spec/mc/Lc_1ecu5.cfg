SPECIFICATION Spec
CONSTANTS
  Ecus = {"A"}
  MaxMsgs = 5
  RxDeltas = {0, 1, 11, 61}
  TsVals = {0, 1, 20, 70}
  Kinds = {"norm"}
  IdxDeltas = {1}
  FixMerged = TRUE
VIEW View
INVARIANTS NoPanic C05 C05Safe C06 C07
CHECK_DEADLOCK FALSE
