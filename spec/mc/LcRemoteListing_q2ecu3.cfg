\* quick tier: two ECUs, 3 messages, same alphabets: a resume lifecycle next to a lifecycle of another ECU, equal keys of different ECUs
\* (the check derives the variant for the code as it is - ChainKey = FALSE, AsIsOnlyKf instead of ChainStrict ResumedAfterOrigin - from this
\*  file while the known finding KF_C07_ResumeChainKey is open)
SPECIFICATION Spec
CONSTANTS
  Ecus = {"A", "B"}
  MaxMsgs = 3
  RxDeltas = {0, 11}
  TsVals = {0, 11, 30}
  Kinds = {"norm"}
  IdxDeltas = {1}
  FixMerged = TRUE
  ChainKey = TRUE
INVARIANTS Emit ListingExists KeyIsStartIfNoResume ChainStrict ResumedAfterOrigin NoResumeByStart OriginStable CtrlOnlyNeverResume
CHECK_DEADLOCK FALSE
