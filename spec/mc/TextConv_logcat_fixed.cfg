SPECIFICATION Spec
CONSTANTS
  Kind = "logcat"
  Tier = "quick"
  Cases <- MCCases
  FixTrail = TRUE
  FixUpper = TRUE
  FixPrevYear = TRUE
  Emit = FALSE
INVARIANTS AllInOne
CHECK_DEADLOCK FALSE
