SPECIFICATION Spec
CHECK_DEADLOCK FALSE
CONSTANTS
  CL = 2
  LMs = {1, 2, 3, 4}
  Extra = {0, 1, 2}
  SrcLens = {0, 1, 2, 3, 5, 8, 11}
  MaxOps = 0
  ConsumeNs = {1, 2, 3, 4, 5}
  ReadNs = {0, 1, 3}
  SeekOn = TRUE
  TrackHist = FALSE
  FixSeekGap = TRUE
  KFSeekGap = FALSE
INVARIANTS Window Bounds NoEarlyEof LowMarkKept EmptyOnlyAtEnd SeekContent TaintOnlyBySeekGap
PROPERTIES Monotone MonotoneFill
