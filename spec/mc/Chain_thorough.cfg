SPECIFICATION Spec
CONSTANTS
  MaxSrc = 3
  MaxLen = 3
  Times = {0, 1, 2}
  Starts = {0, 7}
  Kind = "chain"
INVARIANTS PerSourceOrder Numbered Complete SortedIfSorted Concatenation
PROPERTY Terminates
CHECK_DEADLOCK FALSE
