SPECIFICATION Spec
CONSTANTS
  MaxVol = 3
  MaxDecoy = 2
  Decoys <- DecoysAll
  Emit = TRUE
INVARIANTS ContainsOpened OnlyOwnArchive Ordered AllOfIt EmitScn
CHECK_DEADLOCK FALSE
