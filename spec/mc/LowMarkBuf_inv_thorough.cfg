SPECIFICATION Spec
CHECK_DEADLOCK FALSE
CONSTANTS
  CL = 4
  LMs = {1, 3, 4, 5, 8}
  Extra = {0, 1, 4}
  SrcLens = {0, 1, 4, 7, 12, 17, 25}
  MaxOps = 0
  ConsumeNs = {1, 2, 3, 4, 5, 7, 8}
  ReadNs = {0, 1, 3, 6}
  SeekOn = TRUE
  TrackHist = FALSE
  FixSeekGap = TRUE
  KFSeekGap = FALSE
INVARIANTS Window Bounds NoEarlyEof LowMarkKept EmptyOnlyAtEnd SeekContent TaintOnlyBySeekGap
PROPERTIES Monotone MonotoneFill
