SPECIFICATION Spec
CHECK_DEADLOCK FALSE
CONSTANTS
  CL = 2
  LMs = {2}
  Extra = {0}
  SrcLens = {7}
  MaxOps = 4
  ConsumeNs = {2}
  ReadNs = {1}
  SeekOn = TRUE
  TrackHist = TRUE
  FixSeekGap = TRUE
  KFSeekGap = FALSE
INVARIANTS Window Bounds NoEarlyEof LowMarkKept EmptyOnlyAtEnd SeekContent TaintOnlyBySeekGap Emit
