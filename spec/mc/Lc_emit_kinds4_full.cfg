SPECIFICATION Spec
CONSTANTS
  Ecus = {"A"}
  MaxMsgs = 4
  RxDeltas = {0, 11, 61}
  TsVals = {0, 20, 70}
  Kinds = {"norm", "ctrl", "nots"}
  IdxDeltas = {1}
  FixMerged = TRUE

INVARIANTS EmitInv NoPanic C05 C05Safe C06 C07
CHECK_DEADLOCK FALSE
