SPECIFICATION Spec
CONSTANTS
  MaxChain = 2
  MaxIn = 2
INVARIANTS InOrderOnce DroppedOnlyWhereAllowed FramesRespected UntouchedByDecoders TimesUntouchedByAnon
PROPERTY Terminates
CHECK_DEADLOCK FALSE
