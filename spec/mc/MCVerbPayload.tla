--------------------------- MODULE MCVerbPayload ---------------------------
(* C18 - the finite instance of VerbPayload.tla that TLC explores: the decoder's cursor machine closed over
     - all argument sequences of length <= 2 over Alpha2 and of length 3 over Alpha3,
       each at EVERY truncation point 0..EncLen (corr = none), and
     - single-field corruptions of sequences of length 1..MaxC over AlphaC (untruncated): the type word of one
       argument replaced by a value of CorruptTIs, or the length prefix of one string / raw argument replaced by
       a value of CorruptLens.  After a corruption the cursor may leave the field grid; the words found there are
       unknown, so the machine reads ANY word of DesyncTIs / DesyncLens (nondeterminism).
   Invariants = the property on the model.  EmitScn prints one line per terminal state of an uncorrupted run
   (inputs + predicted slices) and one line per corrupted initial state (inputs + where to corrupt).            *)
EXTENDS VerbPayload, Json

CONSTANTS Alpha2, Alpha3, AlphaC, MaxC

A(k, w, n) == [kind |-> k, w |-> w, n |-> n]
AlphaFull  == {A("bool", 1, 0)} \cup {A("sint", w, 0) : w \in {1, 2, 4, 8}} \cup {A("uint", w, 0) : w \in {1, 2, 4, 8}}
              \cup {A("floa", w, 0) : w \in {4, 8}}
              \cup {A(k, 0, n) : k \in VarKinds, n \in {0, 1, 3}}
AlphaSmall == {A("bool", 1, 0), A("sint", 1, 0), A("uint", 4, 0), A("floa", 8, 0), A("strU", 0, 3), A("strA", 0, 0), A("rawd", 0, 1)}
AlphaMid   == AlphaSmall \cup {A("sint", 8, 0), A("uint", 2, 0), A("floa", 4, 0), A("strA", 0, 2), A("rawd", 0, 0), A("strU", 0, 1)}

\* type words a corrupted / lost cursor can meet: one per branch of the decoder (and the neighbours of every guard)
CorruptTIs == {TI_VARI + TI_UINT + 3, TI_FIXP + TI_FLOA + 3, TI_BOOL, TI_BOOL + 1, TI_BOOL + 2, TI_UINT, TI_UINT + 3,
               TI_UINT + 5, TI_UINT + 15, TI_SINT + 1, TI_FLOA + 1, TI_FLOA + 2, TI_FLOA + 4, TI_STRG + SCOD_UTF8, TI_RAWD,
               TI_ARAY + TI_UINT + 3, 0}
CorruptLens == {0, 1, 2, 4, 65535}
DesyncTIs  == {TI_VARI + TI_UINT + 3, TI_BOOL, TI_BOOL + 2, TI_UINT + 3, TI_UINT, TI_FLOA + 4, TI_FLOA + 1, TI_STRG, TI_RAWD, 0}
DesyncLens == {0, 2, 65535}

SeqsUpTo(n, S) == UNION {[1..k -> S] : k \in 0..n}
ArgSeqs == SeqsUpTo(2, Alpha2) \cup [1..3 -> Alpha3]
NoCorr == [pos |-> 0, field |-> "none", val |-> 0]
Corrs(args) == {[pos |-> p, field |-> "TI", val |-> v] : p \in 1..Len(args), v \in CorruptTIs}
               \cup {[pos |-> p, field |-> "LEN", val |-> v] : p \in {q \in 1..Len(args) : IsVar(args[q])}, v \in CorruptLens}
RealCorrs(args) == {c \in Corrs(args) : IF c.field = "TI" THEN c.val # TIof(args[c.pos]) ELSE c.val # args[c.pos].n}

VARIABLES args, corr, P, st
vars == <<args, corr, P, st>>

Init == \/ /\ args \in ArgSeqs /\ corr = NoCorr /\ P \in 0..EncLen(args) /\ st = Start
        \/ /\ args \in (SeqsUpTo(MaxC, AlphaC) \ {<<>>}) /\ corr \in RealCorrs(args) /\ P = EncLen(args) /\ st = Start

\* the words the cursor finds
ArgAt(idx)  == {i \in 1..Len(args) : OffsetOf(args, i) = idx}
LenAt(idx)  == {i \in 1..Len(args) : IsVar(args[i]) /\ OffsetOf(args, i) + 4 = idx}
ReadTI(idx)  == IF ArgAt(idx) # {} THEN LET i == CHOOSE x \in ArgAt(idx) : TRUE
                                        IN {IF corr.pos = i /\ corr.field = "TI" THEN corr.val ELSE TIof(args[i])}
                ELSE DesyncTIs
ReadLen(idx) == IF LenAt(idx) # {} THEN LET i == CHOOSE x \in LenAt(idx) : TRUE
                                        IN {IF corr.pos = i /\ corr.field = "LEN" THEN corr.val ELSE args[i].n}
                ELSE DesyncLens

Next == /\ st.run
        /\ \E ti \in ReadTI(st.idx) :
              IF NeedsLen(ti) /\ P >= st.idx + 6
              THEN \E ln \in ReadLen(st.idx + 4) : st' = Step(P, st, ti, ln)
              ELSE st' = Step(P, st, ti, 0)
        /\ UNCHANGED <<args, corr, P>>
Spec == Init /\ [][Next]_vars /\ WF_vars(Next)

-----------------------------------------------------------------------------
Done == ~st.run
Intact == corr = NoCorr
Min(a, b) == IF a < b THEN a ELSE b
\* never reads outside the payload (every slice taken, at every step, corrupted or not)
SlicesInBounds == InBounds(st.out, P)
\* an intact encoding: the cursor stays on the field grid, what was decoded so far is a prefix of the arguments
OnGrid == (Intact /\ st.run /\ P >= st.idx + 4) => ArgAt(st.idx) # {}
PrefixAlways == Intact => IsPrefixOf(st.out, args)
\* ... and at the end exactly the arguments that fit were decoded; untruncated: all of them
ExactPrefix == (Intact /\ Done) => Len(st.out) = Fitting(args, P)
RoundTrip == (Intact /\ Done /\ P = EncLen(args)) => (Len(st.out) = Len(args) /\ IsPrefixOf(st.out, args))
\* the machine and its closed form agree
ClosedForm == (Intact /\ Done) => st.out = Decode(args, P)
\* a corrupted field: everything before it is still decoded faithfully
CorruptPrefix == (~Intact) => /\ \A j \in 1..Min(Len(st.out), corr.pos - 1) : st.out[j] = Expected(args, j)
                              /\ (Done => Len(st.out) >= corr.pos - 1)
Terminates == <>Done

\* scenario emission
ArgJ(i) == [kind |-> args[i].kind, w |-> args[i].w, n |-> args[i].n, ti |-> TIof(args[i])]
EmitScn ==
  /\ (Intact /\ Done) =>
        PrintT(<<"SCN", ToJson([mode |-> IF P = EncLen(args) THEN "full" ELSE "trunc", args |-> [i \in 1..Len(args) |-> ArgJ(i)],
                                k |-> P, enclen |-> EncLen(args), out |-> st.out])>>)
  /\ (~Intact /\ st = Start) =>
        PrintT(<<"SCN", ToJson([mode |-> "corrupt", args |-> [i \in 1..Len(args) |-> ArgJ(i)], k |-> P, enclen |-> EncLen(args),
                                cpos |-> corr.pos, cfield |-> corr.field, cval |-> corr.val,
                                coff |-> OffsetOf(args, corr.pos) + (IF corr.field = "LEN" THEN 4 ELSE 0)])>>)
=============================================================================
