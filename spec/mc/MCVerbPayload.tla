--------------------------- MODULE MCVerbPayload ---------------------------
(* C18 - the finite instance of VerbPayload.tla that TLC explores: the decoder's cursor machine closed over
     - all argument sequences of length <= 2 over Alpha2 and of length 3 over Alpha3,
       each at EVERY truncation point 0..EncLen (corr = none), and
     - single-field corruptions of sequences of length 1..MaxC over AlphaC (untruncated): the type word of one
       argument replaced by a value of CorruptTIs, or the length prefix of one string / raw argument replaced by
       a value of CorruptLens.  After a corruption the cursor may leave the field grid; the words found there are
       unknown, so the machine reads ANY word of DesyncTIs / DesyncLens (nondeterminism).
   Invariants = the property on the model.  EmitScn prints one line per terminal state of an uncorrupted run
   (inputs + predicted slices) and one line per corrupted initial state (inputs + where to corrupt).

   Nested shapes (VerbShapes.tla): every untruncated argument sequence of length <= 2, and of length 3 over ShapeAlpha3,
   is additionally handed to the serde encoder through every form of Forms(args) - transparent wrappers, data-less and
   named values between the arguments, containers, the ASCII wrapper around every kind, the helper traits driven
   directly, to_payload.  ShapesConform: what the design (Ser) does with a form is allowed by the contract reading
   (CLeaves): an accepted form decodes to the handed values (optional names present or not), only non-plain forms are
   refused.  EmitScn prints one line per (sequence, form) with the predicted outcome (refusal and error, or slices). *)
EXTENDS VerbShapes, Json

CONSTANTS Alpha2, Alpha3, AlphaC, MaxC, ShapeAlpha3

A(k, w, n) == [kind |-> k, w |-> w, n |-> n]
AlphaFull  == {A("bool", 1, 0)} \cup {A("sint", w, 0) : w \in {1, 2, 4, 8}} \cup {A("uint", w, 0) : w \in {1, 2, 4, 8}}
              \cup {A("floa", w, 0) : w \in {4, 8}}
              \cup {A(k, 0, n) : k \in VarKinds, n \in {0, 1, 3}}
AlphaSmall == {A("bool", 1, 0), A("sint", 1, 0), A("uint", 4, 0), A("floa", 8, 0), A("strU", 0, 3), A("strA", 0, 0), A("rawd", 0, 1)}
AlphaShape == AlphaSmall \cup {A("rawd", 0, 0), A("strA", 0, 2), A("sint", 8, 0)}      \* sequences of 3 that are also handed over as nested shapes (thorough)
AlphaMid   == AlphaSmall \cup {A("sint", 8, 0), A("uint", 2, 0), A("floa", 4, 0), A("strA", 0, 2), A("rawd", 0, 0), A("strU", 0, 1)}

\* type words a corrupted / lost cursor can meet: one per branch of the decoder (and the neighbours of every guard)
\* (TI_SINT + 5 / TI_UINT + 5: 128 bit integers; SCOD_HEX / SCOD_BIN / SCOD_RSVD: string codings the renderer has no text for)
SCOD_HEX == 65536      SCOD_BIN == 98304      SCOD_RSVD == 131072
CorruptTIs == {TI_VARI + TI_UINT + 3, TI_FIXP + TI_FLOA + 3, TI_BOOL, TI_BOOL + 1, TI_BOOL + 2, TI_UINT, TI_UINT + 3,
               TI_UINT + 5, TI_UINT + 15, TI_SINT + 1, TI_SINT + 5, TI_FLOA + 1, TI_FLOA + 2, TI_FLOA + 4, TI_STRG + SCOD_UTF8, TI_RAWD,
               TI_STRG + SCOD_HEX, TI_STRG + SCOD_BIN, TI_STRG + SCOD_RSVD, TI_ARAY + TI_UINT + 3, 0}
CorruptLens == {0, 1, 2, 4, 65535}
DesyncTIs  == {TI_VARI + TI_UINT + 3, TI_BOOL, TI_BOOL + 2, TI_UINT + 3, TI_UINT, TI_FLOA + 4, TI_FLOA + 1, TI_STRG, TI_RAWD, 0}
DesyncLens == {0, 2, 65535}

SeqsUpTo(n, S) == UNION {[1..k -> S] : k \in 0..n}
ArgSeqs == SeqsUpTo(2, Alpha2) \cup [1..3 -> Alpha3]
NoCorr == [pos |-> 0, field |-> "none", val |-> 0]
Corrs(args) == {[pos |-> p, field |-> "TI", val |-> v] : p \in 1..Len(args), v \in CorruptTIs}
               \cup {[pos |-> p, field |-> "LEN", val |-> v] : p \in {q \in 1..Len(args) : IsVar(args[q])}, v \in CorruptLens}
RealCorrs(args) == {c \in Corrs(args) : IF c.field = "TI" THEN c.val # TIof(args[c.pos]) ELSE c.val # args[c.pos].n}

VARIABLES args, corr, P, st
vars == <<args, corr, P, st>>

Init == \/ /\ args \in ArgSeqs /\ corr = NoCorr /\ P \in 0..EncLen(args) /\ st = Start
        \/ /\ args \in (SeqsUpTo(MaxC, AlphaC) \ {<<>>}) /\ corr \in RealCorrs(args) /\ P = EncLen(args) /\ st = Start

\* the words the cursor finds
ArgAt(idx)  == {i \in 1..Len(args) : OffsetOf(args, i) = idx}
LenAt(idx)  == {i \in 1..Len(args) : IsVar(args[i]) /\ OffsetOf(args, i) + 4 = idx}
ReadTI(idx)  == IF ArgAt(idx) # {} THEN LET i == CHOOSE x \in ArgAt(idx) : TRUE
                                        IN {IF corr.pos = i /\ corr.field = "TI" THEN corr.val ELSE TIof(args[i])}
                ELSE DesyncTIs
ReadLen(idx) == IF LenAt(idx) # {} THEN LET i == CHOOSE x \in LenAt(idx) : TRUE
                                        IN {IF corr.pos = i /\ corr.field = "LEN" THEN corr.val ELSE args[i].n}
                ELSE DesyncLens

Next == /\ st.run
        /\ \E ti \in ReadTI(st.idx) :
              IF NeedsLen(ti) /\ P >= st.idx + 6
              THEN \E ln \in ReadLen(st.idx + 4) : st' = Step(P, st, ti, ln)
              ELSE st' = Step(P, st, ti, 0)
        /\ UNCHANGED <<args, corr, P>>
Spec == Init /\ [][Next]_vars /\ WF_vars(Next)

-----------------------------------------------------------------------------
Done == ~st.run
Intact == corr = NoCorr
Min(a, b) == IF a < b THEN a ELSE b
\* never reads outside the payload (every slice taken, at every step, corrupted or not)
SlicesInBounds == InBounds(st.out, P)
\* an intact encoding: the cursor stays on the field grid, what was decoded so far is a prefix of the arguments
OnGrid == (Intact /\ st.run /\ P >= st.idx + 4) => ArgAt(st.idx) # {}
PrefixAlways == Intact => IsPrefixOf(st.out, args)
\* ... and at the end exactly the arguments that fit were decoded; untruncated: all of them
ExactPrefix == (Intact /\ Done) => Len(st.out) = Fitting(args, P)
RoundTrip == (Intact /\ Done /\ P = EncLen(args)) => (Len(st.out) = Len(args) /\ IsPrefixOf(st.out, args))
\* the machine and its closed form agree
ClosedForm == (Intact /\ Done) => st.out = Decode(args, P)
\* a corrupted field: everything before it is still decoded faithfully
CorruptPrefix == (~Intact) => /\ \A j \in 1..Min(Len(st.out), corr.pos - 1) : st.out[j] = Expected(args, j)
                              /\ (Done => Len(st.out) >= corr.pos - 1)
Terminates == <>Done

-----------------------------------------------------------------------------
\* nested shapes: the forms an argument sequence is additionally handed over in (see VerbShapes.tla)
NameLen == <<1, 2, 5, 8>>          \* the driver's NAMES: "A" "Ok" "Third" "Variant9"
CharLen == <<1, 2, 3, 4>>          \* the driver's CHARS: 'c' U+00E4 U+20AC U+1F600
Nd(t, i, n, c) == [t |-> t, i |-> i, n |-> n, c |-> c]
Lf(i)      == Nd("leaf", i, 0, <<>>)
D0(t)      == Nd(t, 0, 0, <<>>)                         \* none / unit / unit_struct
W(t, x)    == Nd(t, 0, 0, <<x>>)                        \* some / newtype / wrapper
Ch(id)     == Nd("char", id, CharLen[id], <<>>)
Nm(t, id, xs) == Nd(t, id, NameLen[id], xs)             \* named nodes
Fields(xs) == [j \in 1..Len(xs) |-> Nm("field", ((j - 1) % 4) + 1, <<xs[j]>>)]
Cont(kind, xs) == CASE kind = "tuple_variant"  -> Nm("tuple_variant", 3, xs)
                    [] kind = "struct"         -> Nd("struct", 0, 0, Fields(xs))
                    [] kind = "struct_variant" -> Nm("struct_variant", 2, Fields(xs))
                    [] OTHER                   -> Nd(kind, 0, 0, xs)                  \* seq tuple tuple_struct map
WrapBy(code, x) == CASE code = "some" -> W("some", x)
                     [] code = "newtype" -> W("newtype", x)
                     [] code = "sn"  -> W("some", W("newtype", x))
                     [] code = "nss" -> W("newtype", W("some", W("some", x)))
                     [] OTHER -> x
Insert(s, p, x) == SubSeq(s, 1, p) \o <<x>> \o SubSeq(s, p + 1, Len(s))
\* values that can stand between the arguments
Between == {D0("none"), D0("unit"), D0("unit_struct"), Nm("unit_variant", 1, <<>>), Nm("unit_variant", 4, <<>>),
            Ch(1), Ch(2), Ch(3), Ch(4), W("some", D0("none")), W("newtype", D0("unit")), W("some", Ch(2)),
            W("newtype", Nm("unit_variant", 2, <<>>)), W("wrapper", Ch(1)), W("wrapper", Nm("unit_variant", 3, <<>>)),
            W("wrapper", D0("none"))}
ContKinds  == {"seq", "tuple", "tuple_struct", "map", "tuple_variant", "struct", "struct_variant"}
DirectSeqs == {"d_seq", "d_tuple", "d_tuple_struct", "d_tuple_variant", "d_map"}
DirectFlds == {"d_struct", "d_struct_variant"}
Form(via, tops) == [via |-> via, tops |-> tops]
Forms(a) ==
  LET n == Len(a)
      plain == [j \in 1..n |-> Lf(j)]
      somes == [j \in 1..n |-> W("some", Lf(j))]
  IN  {Form("args", [j \in 1..n |-> WrapBy(code, Lf(j))]) : code \in {"some", "newtype", "sn", "nss"}}
      \cup {Form("args", [plain EXCEPT ![p] = WrapBy(code, Lf(p))]) : p \in 1..n, code \in {"some", "newtype"}}
      \cup {Form("args", Insert(plain, p, x)) : p \in 0..n, x \in Between}
      \cup {Form("args", <<Cont(k, plain)>>) : k \in ContKinds}
      \cup {Form("args", [plain EXCEPT ![p] = Cont(k, <<Lf(p)>>)]) : p \in 1..n, k \in ContKinds}
      \cup {Form("args", <<W("some", Cont("tuple", plain))>>), Form("args", <<W("wrapper", Cont("seq", plain))>>),
            Form("args", <<W("newtype", Cont("struct", somes))>>)}
      \cup UNION {{Form("args", [plain EXCEPT ![p] = x]) :
                 x \in {W("wrapper", Lf(p)), W("wrapper", W("some", Lf(p))), W("wrapper", W("newtype", W("some", Lf(p)))),
                        W("wrapper", W("wrapper", Lf(p))), W("some", W("wrapper", Lf(p))),
                        Nm("newtype_variant", 2, <<Lf(p)>>), Nm("newtype_variant", 1, <<W("wrapper", Lf(p))>>)}} : p \in 1..n}
      \cup {Form(via, t) : via \in DirectSeqs, t \in {plain, somes} \cup {Insert(plain, p, D0("none")) : p \in 0..n}
                                                               \cup {Insert(plain, p, Ch(3)) : p \in {0, n}}}
      \cup {Form(via, Fields(t)) : via \in DirectFlds, t \in {plain, somes} \cup {Insert(plain, p, D0("unit")) : p \in 0..n}
                                                                       \cup {Insert(plain, p, Nm("unit_variant", 4, <<>>)) : p \in {0, n}}}
      \cup (IF n = 1 THEN {Form("to_payload", <<x>>) : x \in {Lf(1), W("some", Lf(1)), W("newtype", Lf(1)), W("wrapper", Lf(1)),
                                                                Cont("tuple", plain), Cont("seq", plain), Cont("struct", plain)}}
             ELSE IF n = 0 THEN {Form("to_payload", <<x>>) : x \in Between \cup {Cont(k, <<>>) : k \in ContKinds}}
             ELSE {})
ShapeScope == Intact /\ Done /\ P = EncLen(args) /\ (Len(args) <= 2 \/ \A j \in 1..Len(args) : args[j] \in ShapeAlpha3)

\* the abstract argument a contract leaf descriptor stands for
DescArg(a, d) == IF d.name \/ d.nd.t = "char" THEN A("strU", 0, d.nd.n + 1)
                 ELSE IF d.ascii /\ a[d.nd.i].kind = "rawd" THEN A("strA", 0, a[d.nd.i].n) ELSE a[d.nd.i]
Abs(lv) == [j \in 1..Len(lv) |-> A(lv[j].kind, lv[j].w, lv[j].n)]
RECURSIVE Keep(_, _, _, _)
Keep(a, D, k, S) == IF k > Len(D) THEN <<>> ELSE (IF k \in S THEN <<>> ELSE <<DescArg(a, D[k])>>) \o Keep(a, D, k + 1, S)
JudgedForm(a, D) == \A k \in 1..Len(D) : D[k].ascii => (D[k].solo /\ ~D[k].name /\ D[k].nd.t = "leaf" /\ a[D[k].nd.i].kind = "rawd")
\* the design refines the contract: accepted => the handed values (optional names kept or dropped) round-trip; refused => not plain
FormConforms(a, f) ==
  LET r == SerForm(a, f)  D == FormLeaves(f) IN
  IF r.ok THEN /\ JudgedForm(a, D)
               /\ \E S \in SUBSET OptIdx(D) : Abs(r.leaves) = Keep(a, D, 1, S)
               /\ LET out == Decode(r.leaves, EncLen(r.leaves)) IN Len(out) = Len(r.leaves) /\ IsPrefixOf(out, r.leaves)
  ELSE ~PlainForm(f)
ShapesConform == ShapeScope => \A f \in Forms(args) : FormConforms(args, f)

\* scenario emission
ArgJ(i) == [kind |-> args[i].kind, w |-> args[i].w, n |-> args[i].n, ti |-> TIof(args[i])]
EmitScn ==
  /\ (Intact /\ Done) =>
        PrintT(<<"SCN", ToJson([mode |-> IF P = EncLen(args) THEN "full" ELSE "trunc", args |-> [i \in 1..Len(args) |-> ArgJ(i)],
                                k |-> P, enclen |-> EncLen(args), out |-> st.out])>>)
  /\ (~Intact /\ st = Start) =>
        PrintT(<<"SCN", ToJson([mode |-> "corrupt", args |-> [i \in 1..Len(args) |-> ArgJ(i)], k |-> P, enclen |-> EncLen(args),
                                cpos |-> corr.pos, cfield |-> corr.field, cval |-> corr.val,
                                coff |-> OffsetOf(args, corr.pos) + (IF corr.field = "LEN" THEN 4 ELSE 0)])>>)
  /\ ShapeScope =>
        \A f \in Forms(args) :
           LET r == SerForm(args, f) IN
           PrintT(<<"SCN", ToJson([mode |-> "shape", args |-> [i \in 1..Len(args) |-> ArgJ(i)], via |-> f.via, tops |-> f.tops,
                                   ok |-> r.ok, err |-> r.err,
                                   leaves |-> [j \in 1..Len(r.leaves) |-> [kind |-> r.leaves[j].kind, w |-> r.leaves[j].w, n |-> r.leaves[j].n,
                                                                           ti |-> TIof(r.leaves[j]), src |-> r.leaves[j].src, si |-> r.leaves[j].si]],
                                   k |-> EncLen(r.leaves), enclen |-> EncLen(r.leaves),
                                   out |-> Decode(r.leaves, EncLen(r.leaves))])>>)
=============================================================================
