SPECIFICATION Spec
CONSTANTS
  MaxSrc = 3
  MaxLen = 2
  Times = {0, 1, 2}
  Starts = {0}
  Kind = "chain"
INVARIANTS EmitFamilies
CHECK_DEADLOCK FALSE
