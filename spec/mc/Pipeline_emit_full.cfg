SPECIFICATION SpecEmit
CONSTANTS
  NMsgs = 5
  Kinds <- KindsFull
  Styles <- StylesFull
  CapAlphabet = {0, 1, 2}
  DropChoices <- DropsFull
  H = 1
  PStalls = {0, 3}
  ConsumerStyles = {"block", "poll"}
  StylesEverywhere = FALSE
  PollingHelper = FALSE
  Observe = FALSE
  SkipIdxStep = FALSE
  CStalls = {0, 3}
INVARIANTS EmitScn
CHECK_DEADLOCK FALSE
