SPECIFICATION Spec
CONSTANTS
  N = 3
  Coords <- CoordsQuick
  ChangeWins <- ChangesQuick
  SearchSets <- SearchSetsQuick
INVARIANTS DeliveredPrefix OldIdsSilent StreamExact QueryExact MarkerOnce EmitScn
CHECK_DEADLOCK FALSE
