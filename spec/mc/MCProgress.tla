----------------------------- MODULE MCProgress -----------------------------
(* TLC-only helpers for Progress.tla: the bounded script universe and the value table. *)
EXTENDS Progress

CONSTANTS NV,        \* value identifiers 1..NV used by upd steps
          MaxBody    \* steps before the final ret/panic step

Alphabet == {[op |-> "upd", v |-> k] : k \in 1..NV} \cup {[op |-> o, v |-> 0] : o \in {"chk", "chkx", "wait"}}
Bodies == UNION {[1..k -> Alphabet] : k \in 0..MaxBody}
Finals == {[op |-> "ret", v |-> 42], [op |-> "panic", v |-> 0]}
ScriptsVal == {b \o <<f>> : b \in Bodies, f \in Finals}
\* 1..3 non-decreasing positions of a total of 3 (as both unit tests and remote.rs report them); 4 = a position beyond its total
TableVal == (0 :> <<0, 0>>) @@ (1 :> <<0, 3>>) @@ (2 :> <<1, 3>>) @@ (3 :> <<3, 3>>) @@ (4 :> <<2, 1>>)
=============================================================================
