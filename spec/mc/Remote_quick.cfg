SPECIFICATION Spec
CONSTANTS
  MaxSteps = 4
  MaxStreams = 2
  Depth = 2
  Level = "core"
  RecordHist = FALSE
INVARIANTS TypeOK Consistent TableTotal CloseThenOpen
PROPERTIES AllAnswered CloseAnswered ErrKeepsState
CHECK_DEADLOCK FALSE
