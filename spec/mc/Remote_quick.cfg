SPECIFICATION Spec
CONSTANTS
  MaxSteps = 4
  MaxStreams = 2
  Depth = 2
  Level = "core"
  RecordHist = FALSE
INVARIANTS TypeOK Consistent TableTotal CloseThenOpen
PROPERTIES AllAnswered CloseAnswered
CHECK_DEADLOCK FALSE
