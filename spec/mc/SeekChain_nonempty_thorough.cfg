SPECIFICATION Spec
CONSTANTS
  MaxVol = 4
  MinSize = 1
  MaxSize = 3
  Emit = FALSE
  Fixed = FALSE
VIEW View
INVARIANTS Ok PosAgree
CHECK_DEADLOCK FALSE
