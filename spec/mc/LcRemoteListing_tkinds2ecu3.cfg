\* thorough tier: the stream alphabet of Lc_emit_2ecu3_full.cfg (control requests: lifecycles that are never listed)
\* (the check derives the variant for the code as it is - ChainKey = FALSE, AsIsOnlyKf instead of ChainStrict ResumedAfterOrigin - from this
\*  file while the known finding KF_C07_ResumeChainKey is open)
SPECIFICATION Spec
CONSTANTS
  Ecus = {"A", "B"}
  MaxMsgs = 3
  RxDeltas = {0, 1, 11, 61}
  TsVals = {0, 1, 20, 70}
  Kinds = {"norm", "ctrl"}
  IdxDeltas = {1}
  FixMerged = TRUE
  ChainKey = TRUE
INVARIANTS Emit ListingExists KeyIsStartIfNoResume ChainStrict ResumedAfterOrigin NoResumeByStart OriginStable CtrlOnlyNeverResume
CHECK_DEADLOCK FALSE
