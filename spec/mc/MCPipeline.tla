----------------------------- MODULE MCPipeline -----------------------------
(* TLC-only constants of the pipeline model (a .cfg cannot hold sequences or negative numbers).
   Stage chains mirror adlt's wirings: lifecycle detection ("hold", error style "continue") first, then any of
   plugins ("id"/"drop"), time sort ("heap"), filter ("drop"), all with error style "return".               *)
EXTENDS Pipeline
KindsLF == <<"hold", "drop">>
StylesLF == <<"continue", "return">>
KindsLFS == <<"hold", "drop", "heap">>
StylesLFS == <<"continue", "return", "return">>
KindsFull == <<"hold", "id", "heap", "drop">>
StylesFull == <<"continue", "return", "return", "return">>
DropsUpTo3 == -1..3
DropsUpTo4 == -1..4
DropsSome == {-1, 0, 2, 4}
DropsNever == {-1}
DropsLF == {-1, 0, 2, 3}
DropsLFS == {-1, 1}
DropsFull == {-1, 0, 2, 4}
=============================================================================
