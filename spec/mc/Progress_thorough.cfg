SPECIFICATION Spec
CONSTANTS
  Scripts <- ScriptsVal
  Table <- TableVal
  StrictFin = TRUE
  NV = 4
  MaxBody = 3
  MaxOps = 4
  MaxOut = 3
  MaxSpin = 2
  Sync = FALSE
  Live = FALSE
  Mode = "free"
  CancelInLoop = FALSE
  DropCancels = FALSE
  Emit = FALSE
INVARIANTS TypeOK ContractHolds AtMostOnce ResultOnlyAfterEnd FinalValueAfterResult MonotoneObserved FlagOnlyByCancel
VIEW ViewNoHist
CHECK_DEADLOCK FALSE
