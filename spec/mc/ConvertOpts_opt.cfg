SPECIFICATION Spec
CONSTANTS
  Mode = "opt"
INVARIANTS EmitScn
CHECK_DEADLOCK FALSE
