SPECIFICATION Spec
CONSTANTS
  LcAlphabet <- LcAlpha_resume
  MaxLcs = 2
  MaxMsgs = 3
  Apids <- OneApid
  LciChoices <- LciChoices_resume_q
  FilterChoices <- NoFilters
  WindowChoices <- NoWindow
  EnabledChoices <- OnlyEnabled
  InfoChoices <- NoInfos
INVARIANTS TypeOK PropertyHolds EmitScn
CHECK_DEADLOCK FALSE
