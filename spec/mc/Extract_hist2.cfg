SPECIFICATION Spec
CONSTANTS
  Names <- NamesHist
  DirNames <- DirsQuick
  MaxMembers = 2
  GlobClasses <- HistClasses
  MinReq = 2
  MaxReq = 2
  Emit = TRUE
INVARIANTS Confined NeverHostile DistinctTargets ExactMatchesItself EmitScn
CHECK_DEADLOCK FALSE
