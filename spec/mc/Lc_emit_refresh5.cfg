SPECIFICATION Spec
CONSTANTS
  Ecus = {"A"}
  MaxMsgs = 5
  RxDeltas = {0, 61}
  TsVals = {0, 70}
  Kinds = {"norm"}
  IdxDeltas = {1, 100001}
  FixMerged = TRUE

INVARIANTS EmitInv NoPanic C05 C05Safe C06 C07
CHECK_DEADLOCK FALSE
