SPECIFICATION Spec
CONSTANTS
  NT = 1
  MaxPk = 4
  BufSizes = {1, 3}
  MaxNoise = 1
  MaxFaults = 1
  Emit = FALSE
  FixDup = TRUE
  AutoSave = FALSE
  MaxEnv = 0
  Names = FALSE
  RoundRobin = FALSE
  FullLast = FALSE
  DupAlso = FALSE
INVARIANTS Safe SafeWire NeverCompleteOnDamage CompleteWhenInOrder DupIsTheOnlyDeviation ClassesAgree CompleteWithDup IdxDesignates EmitScn
CHECK_DEADLOCK FALSE
