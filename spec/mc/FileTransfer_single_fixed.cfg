SPECIFICATION Spec
CONSTANTS
  NT = 1
  MaxPk = 4
  BufSizes = {1, 3}
  MaxNoise = 1
  MaxFaults = 1
  Emit = FALSE
  FixDup = TRUE
  AutoSave = FALSE
  MaxEnv = 0
  FullLast = FALSE
  DupAlso = FALSE
INVARIANTS Safe SafeWire NeverCompleteOnDamage CompleteWhenInOrder DupIsTheOnlyDeviation ClassesAgree CompleteWithDup EmitScn
CHECK_DEADLOCK FALSE
