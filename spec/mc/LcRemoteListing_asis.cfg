\* the key as the pinned tree computes it (against the START ESTIMATE of the resumed lifecycle): TLC refutes ChainStrict with the
\* four messages (rx, ts) = (1000,0) (1011,0) (1011,30) (1022,30) - informational witness of finding KF_C07_ResumeChainKey
SPECIFICATION Spec
CONSTANTS
  Ecus = {"A"}
  MaxMsgs = 4
  RxDeltas = {0, 11}
  TsVals = {0, 30}
  Kinds = {"norm"}
  IdxDeltas = {1}
  FixMerged = TRUE
  ChainKey = FALSE
INVARIANTS ChainStrict
CHECK_DEADLOCK FALSE
