SPECIFICATION CSpec
CONSTANTS
  Ecus = {"A", "B"}
  MaxMsgs = 4
  RxDeltas = {0}
  TsVals = {0}
  Kinds = {"norm"}
  IdxDeltas = {1}
  FixMerged = TRUE
  Delays = {0, 30}
  OffTimes = {1, 15}
  BootTs = {0, 12, 40}
  MaxBoots = 2
INVARIANTS ExactOutsideKF NoPanic C05 C06 C07
CHECK_DEADLOCK FALSE
