------------------------------ MODULE MCFilter ------------------------------
(* C11 - bounded universes, model-checked invariants and scenario emission for spec/Filter.tla.

   TLC enumerates filters with up to MaxCrit specified criteria (each criterion alone over its full variant set and the
   full field universe of the message, tuples of criteria over reduced sets).
     SPECIFICATION Spec  : every (filter, message) pair of the universe is a state; the invariants say what the
                           property statement says about Match (disabled, negation, no extended header, conjunction,
                           one failing criterion, type derivation rules, literal = exact, ignore-case only adds).
     SPECIFICATION ESpec : one behaviour per filter; EmitScn prints the filter, the front-ends that can express it,
                           the concrete syntax of its id/payload criteria, its messages and Match for each.          *)
EXTENDS Filter

CONSTANTS Chars,          \* id alphabet, e.g. {1, 2}
          TypeValsFull,   \* JSON verb_mstp_mtin values used when the type criterion stands alone
          TypeValsSmall,  \* ... in combination with other criteria
          RawFull,        \* raw (value*256 + mask) pairs used alone
          RawSmall,
          VmmSmall,       \* message type bytes used when a type/level criterion is combined with an unrelated criterion
          LevelsSmall,    \* level bounds used in combinations
          MaxCrit,        \* filters with 0..MaxCrit specified criteria are enumerated
          TripleSlots     \* slots (1..8) that take part in 3-criterion filters (only if MaxCrit >= 3)

Bytes == 0..255      \* for `TypeValsFull <- Bytes` in the thorough config
Words(lo, hi) == UNION {[1..k -> Chars] : k \in lo..hi}
MsgIds == {Pad4(w) : w \in Words(1, 4)}

-----------------------------------------------------------------------------
\* enumerated universes
\* texts: "foo bar" "FOO bar" "Foo" "bar foo" "" "fo" "a foO b" "BAR"
Texts == { <<6, 15, 15, 0, 2, 1, 18>>, <<106, 115, 115, 0, 2, 1, 18>>, <<106, 15, 15>>, <<2, 1, 18, 0, 6, 15, 15>>,
           <<>>, <<6, 15>>, <<1, 0, 6, 15, 115, 0, 2>>, <<102, 101, 118>> }
DefText == <<6, 15, 15, 0, 2, 1, 18>>
\* needles: "foo" "FOO" "Foo" "bar" "o b" "oo" "r"
Needles == { <<6, 15, 15>>, <<106, 115, 115>>, <<106, 15, 15>>, <<2, 1, 18>>, <<15, 0, 2>>, <<15, 15>>, <<18>> }
PayFull == {PSub(w, ic) : w \in Needles, ic \in BOOLEAN}
           \cup {PRe(cls, w, <<>>, ic) : cls \in {"contains", "prefix", "suffix"}, w \in Needles, ic \in BOOLEAN}
           \cup {PRe("contains", w, <<>>, ic) : w \in {<<6, Dot, 15>>, <<106, Dot, Dot, 0>>}, ic \in BOOLEAN}
           \cup {PRe("any", <<>>, <<>>, ic) : ic \in BOOLEAN} \cup {PRe("nostar", <<6>>, <<>>, ic) : ic \in BOOLEAN}
           \cup {PRe("alt", w, w2, ic) : w \in {<<106, 15, 15>>, <<2, 1, 18>>}, w2 \in {<<6, 15>>, <<102, 101>>}, ic \in BOOLEAN}
           \cup {PRe("ncalt", w, w2, ic) : w \in {<<106, 15, 15>>, <<2, 1, 18>>}, w2 \in {<<102, 101>>}, ic \in BOOLEAN}
           \cup {PRe(cls, w, <<>>, ic) : cls \in {"flagged", "named"}, w \in {<<106, 15, 15>>, <<2, 1, 18>>}, ic \in BOOLEAN}
PaySmall == { PSub(<<6, 15, 15>>, FALSE), PSub(<<6, 15, 15>>, TRUE), PSub(<<102, 101, 118>>, TRUE),
              PRe("prefix", <<6, 15>>, <<>>, FALSE), PRe("alt", <<106, 15, 15>>, <<102, 101>>, TRUE),
              PRe("ncalt", <<106, 15, 15>>, <<102, 101>>, TRUE) }

A == CHOOSE x \in Chars : \A y \in Chars : x <= y
B == CHOOSE x \in Chars \ {A} : \A y \in Chars \ {A} : x <= y
IdFull == {Lit(w) : w \in Words(1, 5)}
          \cup {Re(cls, w, <<>>) : cls \in {"contains", "prefix"}, w \in Words(1, 3)}
          \cup {Re("suffix", w, <<>>) : w \in Words(1, 2)}
          \cup {Re("alt", w, w2) : w \in Words(2, 2), w2 \in Words(2, 2)}
          \cup {Re("contains", <<x, Dot, y>>, <<>>) : x \in Chars, y \in Chars}
          \cup {Re("prefix", <<Dot, x>>, <<>>) : x \in Chars}
          \cup {Re("contains", w, <<>>) : w \in {<<A, B, A, B>>, <<A, A, A, A>>}}
          \* regexes that match the empty word
          \cup {Re("any", <<>>, <<>>), Re("empty", <<>>, <<>>), Re("contains", <<>>, <<>>)}
          \cup {Re(cls, <<x>>, <<>>) : cls \in {"opt", "nostar"}, x \in Chars}
          \cup {Re("altempty", w, <<>>) : w \in {<<A>>, <<A, B>>}}
IdSmall == { Lit(<<A, B>>), Lit(<<A, B, A, B, A>>), Re("contains", <<B, A>>, <<>>), Re("prefix", <<A>>, <<>>),
             Re("alt", <<A, A>>, <<B, A>>), Re("contains", <<A, Dot, A>>, <<>>), Re("any", <<>>, <<>>), Re("nostar", <<B>>, <<>>) }
MsgIdsSmall == { Pad4(<<A>>), Pad4(<<A, B>>), Pad4(<<B, A>>), <<A, B, A, B>>, <<B, A, B, A>>, <<A, A, A, B>> }
DefId == Pad4(<<A, B>>)

UnRaw(x) == TRaw(x \div 256, x % 256)
TypeFull == {TVmm(v) : v \in TypeValsFull} \cup {TMstp(v) : v \in 0..7} \cup {UnRaw(x) : x \in RawFull}
TypeSmall == {TVmm(v) : v \in TypeValsSmall} \cup {TMstp(0), TMstp(3)} \cup {UnRaw(x) : x \in RawSmall}
DefVmm == 65      \* 0x41: verbose log info

\* lifecycle lists of the sizes LcSizes over the even ids 2, 4, .. (odd ids and the ids below / above are non-members):
\* ascending, descending, zigzag (neither), and zigzag with repeated ids
LcSizes == {0, 1, 2, 4, 5, 8, 17}
LcAsc(n) == [i \in 1..n |-> 2 * i]
LcDesc(n) == [i \in 1..n |-> 2 * (n + 1 - i)]
LcZig(n) == [i \in 1..n |-> IF i % 2 = 1 THEN 2 * ((i + 1) \div 2) ELSE 2 * (n + 1 - (i \div 2))]
LcDup(n) == IF n = 0 THEN <<>> ELSE LcZig(n) \o <<LcZig(n)[1], LcZig(n)[n], LcZig(n)[(n + 1) \div 2]>>
LcsFull == {LcList(ids) : ids \in {<<1>>, <<3, 1>>, <<1, 2, 3>>}}
           \cup UNION {{LcList(LcAsc(n)), LcList(LcDesc(n)), LcList(LcZig(n)), LcList(LcDup(n))} : n \in LcSizes}
LcsSmall == {LcList(<<>>), LcList(<<2>>), LcList(<<3, 1>>), LcList(LcDesc(5))}
LcMax(ids) == IF Len(ids) = 0 THEN 2 ELSE CHOOSE x \in {ids[i] : i \in 1..Len(ids)} : \A i \in 1..Len(ids) : ids[i] <= x


\* a filter as a tuple of its 8 criterion slots: 1 ecu, 2 apid, 3 ctid, 4 type, 5 lmin, 6 lmax, 7 pay, 8 lcs
NoSlots == <<NoId, NoId, NoId, NoType, -1, -1, NoPay, NoLcs>>
Full(s) == CASE s \in 1..3 -> IdFull [] s = 4 -> TypeFull [] s \in 5..6 -> 0..6 [] s = 7 -> PayFull [] s = 8 -> LcsFull
Small(s) == CASE s \in 1..3 -> IdSmall [] s = 4 -> TypeSmall [] s \in 5..6 -> LevelsSmall [] s = 7 -> PaySmall [] s = 8 -> LcsSmall
Spec1 == UNION {{[NoSlots EXCEPT ![s] = x] : x \in Full(s)} : s \in 1..8}
Spec2 == UNION {UNION {{[NoSlots EXCEPT ![s] = x, ![t] = y] : x \in Small(s), y \in Small(t)} : t \in (s + 1)..8} : s \in 1..8}
Above(s) == {t \in TripleSlots : t > s}
Spec3 == UNION {UNION {UNION {{[NoSlots EXCEPT ![s] = x, ![t] = y, ![u] = z] : x \in Small(s), y \in Small(t), z \in Small(u)}
                 : u \in Above(t)} : t \in Above(s)} : s \in TripleSlots}
Specified(v) == {s \in 1..8 : v[s] # NoSlots[s]}
NSpec(v) == Cardinality(Specified(v))

FromSlots(v, kind, en, nt) ==
    [kind |-> kind, enabled |-> en, not |-> nt, ecu |-> v[1], apid |-> v[2], ctid |-> v[3], type |-> v[4],
     lmin |-> v[5], lmax |-> v[6], pay |-> v[7], lcs |-> v[8]]
Slots(f) == <<f.ecu, f.apid, f.ctid, f.type, f.lmin, f.lmax, f.pay, f.lcs>>

\* (slots, enabled, not) combinations that are enumerated: those that at least one front-end can express
EmitAll ==
    {<<NoSlots, en, nt>> : en \in BOOLEAN, nt \in BOOLEAN}
    \cup {<<v, TRUE, nt>> : v \in Spec1, nt \in BOOLEAN}
    \cup {<<v, FALSE, nt>> : v \in UNION {{[NoSlots EXCEPT ![s] = x] : x \in Small(s)} : s \in 1..8}, nt \in BOOLEAN}
    \cup (IF MaxCrit >= 2 THEN {<<v, TRUE, nt>> : v \in Spec2, nt \in BOOLEAN} ELSE {})
    \cup (IF MaxCrit >= 3 THEN {<<v, TRUE, nt>> : v \in Spec3, nt \in BOOLEAN} ELSE {})

EmitUniverse == {u \in EmitAll : FrontEndsOf(FromSlots(u[1], 0, u[2], u[3])) # {}}

\* messages a filter is asked about: the fields its criteria look at range over their universe (the full one if the
\* criterion stands alone), all other fields stay at a default
MsgsFor(v) ==
    LET S      == Specified(v)
        alone  == Cardinality(S) <= 1
        ids    == IF alone THEN MsgIds ELSE MsgIdsSmall
        ecuU   == IF 1 \in S THEN ids ELSE {DefId}
        apidU  == IF 2 \in S THEN ids ELSE {DefId}
        ctidU  == IF 3 \in S THEN ids ELSE {Pad4(<<B, A>>)}
        tyrel  == S \cap {4, 5, 6}
        vmmU   == IF tyrel = {} THEN {DefVmm} ELSE IF S \subseteq {4, 5, 6} THEN 0..255 ELSE VmmSmall
        textU  == IF 7 \in S THEN Texts ELSE {DefText}
        \* narrower reading: a message without lifecycle (0) is not asked against a non-empty lifecycle list
        \* every member, the non-members between them, below and above
        lcU    == IF 8 \in S THEN (IF Len(v[8].ids) = 0 THEN 0..3 ELSE 1..(LcMax(v[8].ids) + 2)) ELSE {1}
    IN {[ecu |-> e, ext |-> TRUE, apid |-> a, ctid |-> c, vmm |-> b, text |-> t, lc |-> l]
            : e \in ecuU, a \in apidU, c \in ctidU, b \in vmmU, t \in textU, l \in lcU}
       \cup {[ecu |-> e, ext |-> FALSE, apid |-> Zero4, ctid |-> Zero4, vmm |-> 0, text |-> t, lc |-> l]
            : e \in ecuU, t \in textU, l \in lcU}

-----------------------------------------------------------------------------
\* the model: one filter is chosen, one message is put to it and decided
VARIABLES sl, en, nt, m, pc
vars == <<sl, en, nt, m, pc>>
F == FromSlots(sl, 0, en, nt)
NoMsg == [ecu |-> Zero4, ext |-> FALSE, apid |-> Zero4, ctid |-> Zero4, vmm |-> 0, text |-> <<>>, lc |-> 0]

Init == /\ \E u \in EmitUniverse : sl = u[1] /\ en = u[2] /\ nt = u[3]
        /\ m = NoMsg
        /\ pc = "new"
Decide == pc = "new" /\ m' \in MsgsFor(sl) /\ pc' = "done" /\ UNCHANGED <<sl, en, nt>>
Next == Decide
Spec == Init /\ [][Next]_vars

\* invariants: what the statement says about Match, checked on every enumerated (filter, message)
DisabledNeverMatches0 == ~en => ~Match(F, m)
NegationInverts0 == en => (Match([F EXCEPT !.not = ~nt], m) = ~Match(F, m))
NoExtNeverHolds0 == (en /\ NeedsExt(F) /\ ~m.ext) => (Match(F, m) = nt)
\* conjunction: a non-negated filter matches iff it still matches after dropping any one criterion and that criterion holds
Only(s) == FromSlots([NoSlots EXCEPT ![s] = sl[s]], 0, TRUE, FALSE)
Conjunction0 == en => (Match([F EXCEPT !.not = FALSE], m) = (\A s \in Specified(sl) : Match(Only(s), m)))
\* one failing criterion alone decides: the result is the negation flag
OneFailing0 == (en /\ \E s \in Specified(sl) : ~Match(Only(s), m)) => (Match(F, m) = nt)
\* derivation rules of the type criterion
TypeRules0 == /\ (sl[4].k = "mstp" /\ m.ext) => (TypeHolds(sl[4], m) = (Mstp(m.vmm) = sl[4].v % 8))
              /\ (sl[4].k = "vmm" /\ m.ext /\ Mtin(sl[4].v) # 0) => (TypeHolds(sl[4], m) = (m.vmm = sl[4].v))
              /\ (sl[4].k = "vmm" /\ m.ext /\ Mtin(sl[4].v) = 0) => (TypeHolds(sl[4], m) = (m.vmm % 16 = sl[4].v))
\* a literal id is the regex that is anchored at both ends; ignoring case only adds matches (except for the negated class)
LiteralIsExact0 == \A s \in 1..3 : sl[s].k = "lit" =>
                     LET x == IF s = 1 THEN m.ecu ELSE IF s = 2 THEN m.apid ELSE m.ctid
                         p == Pad4(sl[s].w)
                     IN IdHolds(sl[s], x) = (PatAt(p, x, 1) /\ Len(p) = Len(x))
IgnoreCaseAdds0 == (sl[7].k # "none" /\ sl[7].cls # "nostar" /\ PayHolds(sl[7], m.text)) => PayHolds([sl[7] EXCEPT !.ic = TRUE], m.text)
\* the lifecycle lists decide by their set of ids only
LcSetSemantics0 == sl[8].k # "none" => \A n \in LcSizes \ {0} : LET mm == [m EXCEPT !.lc = (m.lc % (2 * n + 2)) + 1] IN
                     /\ LcHolds(LcList(LcAsc(n)), mm) = LcHolds(LcList(LcDesc(n)), mm)
                     /\ LcHolds(LcList(LcAsc(n)), mm) = LcHolds(LcList(LcZig(n)), mm)
                     /\ LcHolds(LcList(LcAsc(n)), mm) = LcHolds(LcList(LcDup(n)), mm)
                     /\ LcHolds(LcList(LcAsc(n)), mm) = (mm.lc % 2 = 0 /\ mm.lc <= 2 * n)
DisabledNeverMatches == pc = "done" => DisabledNeverMatches0
NegationInverts == pc = "done" => NegationInverts0
NoExtNeverHolds == pc = "done" => NoExtNeverHolds0
Conjunction == pc = "done" => Conjunction0
OneFailing == pc = "done" => OneFailing0
TypeRules == pc = "done" => TypeRules0
LiteralIsExact == pc = "done" => LiteralIsExact0
IgnoreCaseAdds == pc = "done" => IgnoreCaseAdds0
LcSetSemantics == pc = "done" => LcSetSemantics0

-----------------------------------------------------------------------------
\* scenario emission (separate config, SPECIFICATION ESpec: one behaviour per filter; m is not used)
EDone == pc = "new" /\ pc' = "done" /\ UNCHANGED <<sl, en, nt, m>>
ESpec == Init /\ [][EDone]_vars
EmitScn == pc = "done" =>
    PrintT(<<"SCN", ToJson([f   |-> F,
                            fes |-> FrontEndsOf(F),
                            syn |-> [ecu |-> Syn(sl[1]), apid |-> Syn(sl[2]), ctid |-> Syn(sl[3]), pay |-> Syn(sl[7])],
                            ms  |-> {[m |-> mm, exp |-> Match(F, mm)] : mm \in MsgsFor(sl)}])>>)
=============================================================================
