SPECIFICATION Spec
CONSTANTS
  MaxSteps = 7
  MaxStreams = 3
  Depth = 1
  Level = "multi"
  RecordHist = TRUE
INVARIANTS Emit
CHECK_DEADLOCK FALSE
