SPECIFICATION Spec
CONSTANTS
  Ecus <- EcusVal
  LcOfEcu <- LcOfEcuVal
  LcStart <- LcStartVal
  W = 2
  D = 2
  MaxMsgs = 4
  RxDeltas = {0, 3}
  Delays = {0, 2}
  CtrlDelays = {}
  Sec = 1
  TsGrid = 1
  TickUs = 1000000
  BaseTicks = 1640995200
  IndexMode = "mod2"
  Record = TRUE
INVARIANTS EmitScn
CHECK_DEADLOCK FALSE
