SPECIFICATION Spec
CONSTANTS
  Names <- NamesHist
  DirNames <- DirsQuick
  MaxMembers = 3
  GlobClasses <- HistClasses
  MinReq = 2
  MaxReq = 2
  AllowAlias = FALSE
  Emit = TRUE
INVARIANTS Confined NeverHostile DistinctTargets ExactMatchesItself EmitScn
CHECK_DEADLOCK FALSE
