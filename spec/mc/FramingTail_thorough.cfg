SPECIFICATION Spec
CHECK_DEADLOCK FALSE
CONSTANTS
  NT = 6
  Rule = "ge"
INVARIANTS LatchedIndep PrefixesFound PrefixIndep Emit
