SPECIFICATION Spec
CONSTANTS
  Ecus <- EcusOne
  LcOfEcu <- LcOfEcuOne
  LcStart <- LcStartVal
  W = 3
  D = 1
  MaxMsgs = 5
  RxDeltas = {0, 2}
  Delays = {0, 1, 3}
  CtrlDelays = {}
  Sec = 1
  TsGrid = 1
  TickUs = 1000000
  BaseTicks = 1640995200
  IndexMode = "pos"
  Record = TRUE
INVARIANTS EmitScn
CHECK_DEADLOCK FALSE
