SPECIFICATION Spec
CONSTANTS
  Ecus <- EcusOne
  LcOfEcu <- LcOfEcuOne
  LcStart <- LcStartVal
  W = 3
  D = 1
  MaxMsgs = 5
  RxDeltas = {0, 2}
  Delays = {0, 1, 3}
  CtrlDelays = {}
  IndexMode = "pos"
  Record = TRUE
INVARIANTS EmitScn
CHECK_DEADLOCK FALSE
