INIT RInit
NEXT RNext
CONSTANTS
  Ecus = {"A", "B"}
  MaxMsgs = 3
  RxDeltas = {0, 61}
  TsVals = {0, 70}
  Kinds = {"norm", "ctrl"}
  IdxDeltas = {1}
  FixMerged = TRUE
  Scheds = {0}
  FreePolls = TRUE
  PartialRecv = FALSE
  EacTimer = FALSE
  FixWithdraw = FALSE
VIEW RView
INVARIANTS NoMissingNoStale ExtraOnlyRemoved FileInfoOk EacOk CountsOk TableMirror
CHECK_DEADLOCK FALSE
