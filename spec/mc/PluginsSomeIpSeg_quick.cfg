SPECIFICATION Spec
CONSTANTS
  Ids = {1, 2}
  Counts = {0, 1, 2, 65535}
  Sizes = {0, 1, 3}
  Idxs = {0, 1, 65535}
  Lens = {0, 1, 3}
  MaxLen = 3
INVARIANTS StreamIntact DivisionDefined CollectedBounded OneEntryPerId
CHECK_DEADLOCK FALSE
