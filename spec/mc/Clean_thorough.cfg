SPECIFICATION CSpec
CONSTANTS
  Ecus = {"A"}
  MaxMsgs = 4
  RxDeltas = {0}
  TsVals = {0}
  Kinds = {"norm"}
  IdxDeltas = {1}
  FixMerged = TRUE
  Delays = {0, 5, 30, 65}
  OffTimes = {1, 15, 100}
  BootTs = {0, 1, 12, 40, 100}
  MaxBoots = 3
INVARIANTS ExactOutsideKF NoPanic C05 C06 C07
CHECK_DEADLOCK FALSE
