SPECIFICATION Spec
CONSTANTS
  Chars = {1, 2}
  TypeValsFull = {0, 1, 6, 7, 14, 15, 16, 22, 23, 38, 64, 65, 97, 255}
  TypeValsSmall = {6, 22, 65}
  RawFull = {0, 255, 1791, 16641, 16895, 270, 4336, 16624}
  RawSmall = {16624}
  VmmSmall = {0, 1, 6, 7, 22, 23, 32, 38, 64, 65, 70, 96, 97, 112, 128, 255}
  LevelsSmall = {1, 4, 6}
  MaxCrit = 2
  TripleSlots = {}
INVARIANTS DisabledNeverMatches NegationInverts NoExtNeverHolds Conjunction OneFailing TypeRules LiteralIsExact IgnoreCaseAdds LcSetSemantics
CHECK_DEADLOCK FALSE
