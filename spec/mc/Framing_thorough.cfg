SPECIFICATION Spec
CHECK_DEADLOCK FALSE
CONSTANTS
  MaxL = 3
  MaxG = 4
  N = 12
  MaxSegs = 5
  Starts = {0, 5}
  KFShortSerial = FALSE
  FixShortSerial = TRUE
INVARIANTS Property Bounded Numbered Emit
PROPERTY Terminates
