SPECIFICATION Spec
CONSTANTS
  Ecus = {"A", "B"}
  MaxMsgs = 4
  RxDeltas = {0, 1, 11, 61}
  TsVals = {0, 1, 20, 70}
  Kinds = {"norm", "ctrl"}
  IdxDeltas = {1}
  FixMerged = TRUE
VIEW View
INVARIANTS NoPanic C05 C05Safe C06 C07
CHECK_DEADLOCK FALSE
