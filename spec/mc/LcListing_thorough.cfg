SPECIFICATION Spec
CONSTANTS
  MaxLcs = 4
  Starts = {0, 1, 2, 3}
INVARIANTS TotalOrder ExistsUnique Obligations
CHECK_DEADLOCK FALSE
