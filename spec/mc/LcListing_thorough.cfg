SPECIFICATION Spec
CONSTANTS
  MaxLcs = 5
  Starts = {0, 1, 2, 3}
INVARIANTS TotalOrder ExistsUnique Obligations
CHECK_DEADLOCK FALSE
