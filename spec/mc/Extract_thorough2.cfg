SPECIFICATION Spec
CONSTANTS
  Names <- NamesFull
  DirNames <- DirsQuick
  MaxMembers = 2
  GlobClasses <- AllClasses
  Emit = TRUE
INVARIANTS Confined NeverHostile DistinctTargets ExactMatchesItself EmitScn
CHECK_DEADLOCK FALSE
