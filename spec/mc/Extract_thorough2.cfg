SPECIFICATION Spec
CONSTANTS
  Names <- NamesFull
  DirNames <- DirsQuick
  MaxMembers = 2
  GlobClasses <- AllClasses
  MinReq = 1
  MaxReq = 1
  Emit = TRUE
INVARIANTS Confined NeverHostile DistinctTargets ExactMatchesItself EmitScn
CHECK_DEADLOCK FALSE
