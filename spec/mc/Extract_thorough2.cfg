SPECIFICATION Spec
CONSTANTS
  Names <- NamesFull
  DirNames <- DirsQuick
  MaxMembers = 2
  GlobClasses <- AllClasses
  MinReq = 1
  MaxReq = 1
  AllowAlias = FALSE
  Emit = TRUE
INVARIANTS Confined NeverHostile DistinctTargets ExactMatchesItself EmitScn
CHECK_DEADLOCK FALSE
