SPECIFICATION Spec
CONSTANTS
  N = 4
  Coords <- CoordsThorough
  ChangeWins <- ChangesThorough
  SearchSets <- SearchSetsThorough
INVARIANTS DeliveredPrefix OldIdsSilent StreamExact QueryExact MarkerOnce EmitScn
CHECK_DEADLOCK FALSE
