SPECIFICATION Spec
CONSTANTS
  Names <- NamesAlias
  DirNames <- DirsQuick
  MaxMembers = 2
  GlobClasses <- AllClasses
  MinReq = 1
  MaxReq = 2
  AllowAlias = TRUE
  Emit = TRUE
INVARIANTS Confined NeverHostile DistinctTargets ExactMatchesItself EmitScn
CHECK_DEADLOCK FALSE
