SPECIFICATION Spec
CONSTANTS
  NMsgs = 4
  Kinds <- KindsLFS
  Styles <- StylesLFS
  CapAlphabet = {0, 1, 2}
  DropChoices <- DropsUpTo3
  H = 1
  PStalls = {0}
  ConsumerStyles = {"block", "poll"}
  StylesEverywhere = FALSE
  PollingHelper = FALSE
  Observe = FALSE
  SkipIdxStep = FALSE
  CStalls = {0}
INVARIANTS PrefixOfRef CompleteIfNoDrop DropExact ChanBound DoneIsFinal PublishIdxMonotone FoldUpToDate FinalTableComplete
PROPERTIES Termination DropTerminates
CHECK_DEADLOCK FALSE
