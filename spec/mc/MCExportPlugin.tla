--------------------------- MODULE MCExportPlugin ---------------------------
(* X03 - bounded scenario universes for spec/ExportPlugin.tla (one .cfg per universe, constants substituted with `<-`).

     match    containment rule on plain lifecycles: every combination of start in {s-1, s, s+1} and end in {e-1, e, e+1},
              other ECU, a second and third lifecycle of the same ECU, an all-embracing entry, a resume entry for a plain
              lifecycle; lists of 0..2 entries (order, duplicates, consumption of an entry by the first lifecycle it contains)
     resume   resumed lifecycles: entry with / without resume time against resumed / plain lifecycles (incl. a resume entry
              whose resume time equals a plain lifecycle's start), resume time 1.8 s / 1.9 s below and above, start and end
              on and one tick inside the boundary
     filters  0..2 filters of every kind (positive, negative, negated, event, marker, disabled) over ECU / APID / CTID criteria
              x messages with two APIDs and without extended header x lifecycle lists
     window   recorded-time window bounds on, one tick before and after a message's reception time; disabled plugin;
              info texts (none, one, an empty one)                                                                  *)
EXTENDS ExportPlugin

Lc(ecu, s, e) == [ecu |-> ecu, s |-> s, e |-> e]
Lci(ecu, s, e) == [ecu |-> ecu, start |-> s, end |-> e, hasres |-> FALSE, resume |-> 0]
LciR(ecu, s, e, r) == [ecu |-> ecu, start |-> s, end |-> e, hasres |-> TRUE, resume |-> r]
F(kind, neg, ecu, apid, ctid, en) == [kind |-> kind, neg |-> neg, ecu |-> ecu, apid |-> apid, ctid |-> ctid, en |-> en]
NoWin == [hasfrom |-> FALSE, from |-> 0, hasto |-> FALSE, to |-> 0]
Lists(A, n) == {[has |-> FALSE, l |-> <<>>]} \cup {[has |-> TRUE, l |-> s] : s \in SeqsUpTo(n, A)}

\* ---- match
LcAlpha_match == {Lc("EA", 100, 150), Lc("EA", 160, 200), Lc("EA", 210, 230), Lc("EB", 100, 150)}
LciAlpha_match == {Lci("EA", s, e) : s \in {99, 100, 101}, e \in {149, 150, 151}}
                  \cup {Lci("EA", 160, 200), Lci("EA", 0, 590), Lci("EB", 100, 150), LciR("EA", 100, 150, 100)}
LciChoices_match == Lists(LciAlpha_match, 2)
LciChoices_match_q == Lists({Lci("EA", s, e) : s \in {100, 101}, e \in {149, 150, 151}}
                            \cup {Lci("EA", 0, 590), Lci("EB", 100, 150), LciR("EA", 100, 150, 100)}, 2)

\* ---- resume: EA(240,300) resumes EA(100,150) (resume time 100 + 60 = 160) but is a plain lifecycle after EA(151,200)
LcAlpha_resume == {Lc("EA", 100, 150), Lc("EA", 151, 200), Lc("EA", 240, 300), Lc("EB", 100, 150)}
LciAlpha_resume == {LciR("EA", s, e, r) : s \in {240, 241}, e \in {299, 300}, r \in {141, 142, 160, 178, 179}}
                   \cup {Lci("EA", s, e) : s \in {240, 241}, e \in {299, 300}}
                   \cup {Lci("EA", 100, 150), LciR("EA", 100, 150, 100), LciR("EA", 240, 300, 240)}
LciChoices_resume == Lists(LciAlpha_resume, 2)
LciChoices_resume_q == Lists({LciR("EA", 240, e, r) : e \in {299, 300}, r \in {141, 142, 178, 179}}
                             \cup {Lci("EA", 240, 300), Lci("EA", 100, 150), LciR("EA", 241, 300, 160), LciR("EA", 240, 300, 240)}, 2)

\* ---- filters
LcAlpha_filters == {Lc("EA", 100, 150), Lc("EB", 120, 160)}
FilterAlpha == {F("pos", FALSE, "", "APA", "", TRUE),  F("pos", FALSE, "EB", "", "", TRUE),  F("neg", FALSE, "", "APB", "", TRUE),
                F("neg", TRUE, "", "APA", "", TRUE),   F("evt", FALSE, "", "APA", "", TRUE), F("pos", FALSE, "", "APB", "", FALSE),
                F("mrk", FALSE, "", "APA", "", TRUE),  F("pos", FALSE, "EA", "", "CTA", TRUE), F("neg", FALSE, "EA", "APA", "", TRUE)}
FilterChoices_filters == SeqsUpTo(2, FilterAlpha)
LciChoices_filters == {[has |-> FALSE, l |-> <<>>], [has |-> TRUE, l |-> <<>>], [has |-> TRUE, l |-> <<Lci("EA", 100, 150)>>],
                       [has |-> TRUE, l |-> <<Lci("EB", 120, 160)>>]}

\* ---- window / enabled / info texts
FilterChoices_window == {<<>>, <<F("pos", FALSE, "", "APA", "", TRUE)>>}
LciChoices_window == {[has |-> FALSE, l |-> <<>>], [has |-> TRUE, l |-> <<Lci("EA", 100, 150)>>]}
WindowChoices_window == {NoWin, [NoWin EXCEPT !.hasfrom = TRUE, !.from = 150], [NoWin EXCEPT !.hasfrom = TRUE, !.from = 151],
                         [NoWin EXCEPT !.hasto = TRUE, !.to = 150], [NoWin EXCEPT !.hasto = TRUE, !.to = 149],
                         [hasfrom |-> TRUE, from |-> 150, hasto |-> TRUE, to |-> 160],
                         [hasfrom |-> TRUE, from |-> 161, hasto |-> TRUE, to |-> 150]}
InfoChoices_window == {<<>>, <<TRUE>>, <<FALSE, TRUE>>}

\* ---- defaults
NoFilters == {<<>>}
NoWindow == {NoWin}
OnlyEnabled == {TRUE}
NoInfos == {<<>>}
OneApid == {"APA"}
ThreeApids == {"APA", "APB", "-"}
TwoApids == {"APA", "APB"}
=============================================================================
