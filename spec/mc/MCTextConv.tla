----------------------------- MODULE MCTextConv -----------------------------
(* TLC-only helpers for TextConv.tla: line alphabets and case sets (a .cfg cannot hold records / sequences). *)
EXTENDS TextConv

SeqsUpTo(n, S) == UNION {[1..k -> S] : k \in 0..n}
SeqsFromTo(a, n, S) == UNION {[1..k -> S] : k \in a..n}
Bytes(n, seed) == [j \in 1..n |-> (seed * 37 + j * 29) % 256]
File(start, hasref, ref, mod, lines) == [start |-> start, hasref |-> hasref, ref |-> ref, mod |-> mod, lines |-> lines]
C(s) == CASE s = "LMHAL" -> <<"L", "M", "H", "A", "L">>
          [] s = "NAVD" -> <<"N", "A", "V", "D">>
          [] s = "LogManager1" -> <<"L", "o", "g", "M", "a", "n", "a", "g", "e", "r", "1">>
          [] s = "LogManager2" -> <<"L", "o", "g", "M", "a", "n", "a", "g", "e", "r", "2">>
          [] s = "a_b_c" -> <<"a", "_", "b", "_", "c">>
          [] s = "abc" -> <<"a", "b", "c">>
          [] s = "auditd" -> <<"a", "u", "d", "i", "t", "d">>
          [] s = "conftest" -> <<"c", "o", "n", "f", "t", "e", "s", "t">>
          [] s = "xtf_common.proc_wrapper" -> <<"x", "t", "f", "_", "c", "o", "m", "m", "o", "n", ".", "p", "r", "o", "c", "_",
                                                "w", "r", "a", "p", "p", "e", "r">>
          [] s = "Ab" -> <<"A", "b">>
          [] s = "BusA" -> <<"B", "u", "s", "A">>
          [] s = "BusB 559" -> <<"B", "u", "s", "B", " ", "5", "5", "9">>

-----------------------------------------------------------------------------
\* ASC
DateL(y, mo, d, hh, mi, ss, ms, frac, lower) ==
  [k |-> "date", y |-> y, mo |-> mo, d |-> d, hh |-> hh, mi |-> mi, ss |-> ss, ms |-> ms, frac |-> frac, lower |-> lower,
   wd |-> Weekday(y, mo, d)]
OtherL(v) == [k |-> "other", v |-> v]
MapL(fd, ch, name) == [k |-> "map", fd |-> fd, ch |-> ch, name |-> name]
CanL(neg, s, us, ch, id, ext, up, tx, dlc, seed, trail, ws) ==
  [k |-> "can", neg |-> neg, s |-> s, us |-> us, ch |-> ch, id |-> id, ext |-> ext, up |-> up, tx |-> tx, dlc |-> dlc,
   data |-> Bytes(dlc, seed), trail |-> trail, ws |-> ws]
FdL(neg, s, us, ch, id, ext, up, tx, brs, esi, dlc, len, seed, trail) ==
  [k |-> "canfd", neg |-> neg, s |-> s, us |-> us, ch |-> ch, id |-> id, ext |-> ext, up |-> up, tx |-> tx, brs |-> brs, esi |-> esi,
   dlc |-> dlc, len |-> len, data |-> Bytes(len, seed), trail |-> trail]
ErrL(neg, s, us, ch, tx) == [k |-> "err", neg |-> neg, s |-> s, us |-> us, ch |-> ch, tx |-> tx]

D0 == DateL(2022, 4, 12, 8, 55, 37, 0, FALSE, FALSE)
D1 == DateL(2022, 4, 12, 18, 52, 12, 825, TRUE, TRUE)             \* offsets stay below 150000 s (32-bit 0.1 ms time stamps)
D2 == DateL(2022, 4, 13, 0, 0, 1, 0, FALSE, FALSE)               \* 12:00:01 AM
D3 == DateL(2022, 4, 13, 12, 30, 0, 5, TRUE, FALSE)              \* 12:30:00.005 PM
Ref0 == [s |-> Epoch(2022, 4, 12, 8, 54, 20), us |-> 0]          \* 77 s before D0
NoT == TZero

AscCore == {
  D1, OtherL(0), OtherL(1),
  MapL(FALSE, 1, C("BusA")), MapL(TRUE, 2, C("BusB 559")), MapL(FALSE, 2, C("BusA")),
  CanL(TRUE, 0, 985210, 1, 879, FALSE, FALSE, FALSE, 5, 1, 2, 0),
  CanL(TRUE, 0, 100, 1, 879, FALSE, FALSE, FALSE, 5, 2, 2, 0),
  CanL(FALSE, 0, 0, 1, 1, FALSE, FALSE, FALSE, 0, 3, 2, 0),
  CanL(FALSE, 0, 150, 2, 419361024, TRUE, FALSE, FALSE, 8, 4, 0, 0),          \* 18fef100x, line ends with the data
  CanL(FALSE, 2, 99, 1, 257, FALSE, FALSE, TRUE, 8, 5, 2, 1),
  CanL(FALSE, 2, 500000, 2, 416, FALSE, TRUE, FALSE, 2, 6, 2, 0),             \* 1A0 upper case
  FdL(FALSE, 1, 646664, 1, 45, FALSE, FALSE, FALSE, 1, 0, 9, 12, 7, 2),
  FdL(TRUE, 0, 169843, 2, 309, FALSE, FALSE, FALSE, 1, 0, 8, 8, 8, 1),
  ErrL(FALSE, 0, 17230, 1, FALSE), ErrL(TRUE, 0, 17230, 2, FALSE) }
AscMore == {
  D2, D3, OtherL(2), OtherL(3), OtherL(4), OtherL(5),
  CanL(TRUE, 1, 50, 2, 2047, FALSE, FALSE, FALSE, 1, 9, 1, 0),
  CanL(FALSE, 3600, 123456, 3, 536870911, TRUE, TRUE, TRUE, 8, 10, 2, 1),     \* 1FFFFFFFx upper case
  FdL(FALSE, 77, 774615, 1, 112, FALSE, FALSE, TRUE, 0, 1, 10, 16, 11, 0),    \* ends with the data
  FdL(FALSE, 0, 1, 3, 1194, FALSE, TRUE, FALSE, 1, 1, 15, 64, 12, 2) }        \* 4AA upper case, 64 bytes
AscHdrs == <<<<0, FALSE, TRUE>>, <<254, TRUE, TRUE>>, <<7, FALSE, FALSE>>>>     \* <<start, hasref, dated>>
AscFile(h, sq) == File(h[1], h[2], IF h[2] THEN Ref0 ELSE NoT, NoT, (IF h[3] THEN <<D0>> ELSE <<>>) \o sq)
AscKF == {x \in AscCore \cup AscMore : AscUpper(x) \/ AscNoTrail(x)}           \* lines that touch a known finding
AscPlain == AscCore \ AscKF
Hs(sel) == {AscHdrs[j] : j \in sel}
AscSingles(H, S) == {<<AscFile(h, sq)>> : h \in H, sq \in S}
With(S, X) == {x \in S : \E j \in 1..Len(x) : x[j] \in X}
\* two (three) files in one namespace: names and channels meet again
AscB == {MapL(FALSE, 1, C("BusA")), MapL(FALSE, 1, C("BusB 559")), MapL(TRUE, 2, C("BusA")),
         CanL(FALSE, 0, 100, 1, 879, FALSE, FALSE, FALSE, 5, 1, 2, 0), CanL(FALSE, 0, 200, 2, 880, FALSE, FALSE, FALSE, 1, 2, 2, 0)}
AscPairs(n) == {<<AscFile(<<0, FALSE, TRUE>>, a), AscFile(<<0, TRUE, TRUE>>, b)>> : a, b \in SeqsFromTo(1, n, AscB)}
\* (operators with a parameter: TLC evaluates every constant definition without parameters at start-up)
AscCases(tier, p) ==
  IF tier = "tiny" THEN (IF p = 1 THEN AscSingles(Hs(1..3), SeqsUpTo(2, AscCore)) ELSE IF p = 2 THEN AscPairs(1) ELSE {})
  ELSE IF tier = "quick" THEN
       (IF p = 1 THEN AscSingles(Hs({1}), SeqsUpTo(3, AscPlain)) \cup AscSingles(Hs({2, 3}), SeqsUpTo(2, AscPlain))
        ELSE IF p = 2 THEN AscPairs(2)
        ELSE AscSingles(Hs(1..3), With(SeqsUpTo(2, AscCore), AscKF)))
  ELSE (IF p = 1 THEN AscSingles(Hs({1}), SeqsUpTo(4, AscPlain)) \cup AscSingles(Hs({2, 3}), SeqsUpTo(3, AscPlain))
        ELSE IF p = 2 THEN AscPairs(3)
        ELSE AscSingles(Hs(1..3), With(SeqsUpTo(3, AscCore \cup AscMore), AscKF \cup AscMore)))

-----------------------------------------------------------------------------
\* logcat
MonoL(s, fr, fd, pad, pid, tid, lvl, tag, tagpad, msg) ==
  [k |-> "mono", s |-> s, fr |-> fr, fd |-> fd, pad |-> pad, pid |-> pid, tid |-> tid, lvl |-> lvl, tag |-> tag, tagpad |-> tagpad, msg |-> msg]
TtL(mo, d, hh, mi, ss, ms, pad, pid, tid, lvl, tag, tagpad, msg) ==
  [k |-> "tt", mo |-> mo, d |-> d, hh |-> hh, mi |-> mi, ss |-> ss, ms |-> ms, pad |-> pad, pid |-> pid, tid |-> tid, lvl |-> lvl,
   tag |-> tag, tagpad |-> tagpad, msg |-> msg]
M1 == [s |-> Epoch(2024, 1, 5, 10, 0, 0), us |-> 0]
M2 == [s |-> Epoch(2023, 2, 28, 23, 59, 59), us |-> 500000]       \* one second later is 1 March
M3 == [s |-> Epoch(2024, 12, 31, 12, 0, 0), us |-> 123456]
T1 == TtL(1, 1, 0, 0, 16, 626, 1, 512, 512, "W", C("LMHAL"), 3, "LogManager<< __func__ << before")
T2 == TtL(1, 1, 11, 59, 59, 999, 1, 512, 580, "I", C("LMHAL"), 3, "onLogUpdate applied 10M log buffer")
T3 == TtL(1, 1, 12, 0, 0, 0, 0, 1, 2, "I", C("NAVD"), 0, "getComponent: com.navsensd.gnss_hal")
T4 == TtL(1, 3, 8, 0, 0, 1, 1, 577, 577, "E", C("LogManager1"), 0, "a")
T5 == TtL(1, 3, 8, 0, 0, 1, 1, 577, 578, "D", C("LogManager2"), 0, "b: c")
T6 == TtL(12, 31, 23, 59, 59, 500, 1, 0, 0, "V", C("a_b_c"), 1, "uid=0(root) logd identical 3 lines")
T7 == TtL(2, 29, 10, 0, 0, 0, 1, 30, 31, "F", C("abc"), 2, "leap day")
T8 == TtL(3, 1, 0, 0, 0, 0, 1, 30, 31, "I", C("NAVD"), 1, "first of March")
T9 == TtL(3, 2, 0, 0, 0, 1, 1, 30, 31, "W", C("abc"), 0, "second of March")
Mo1 == MonoL(18, 62, 3, 1, 529, 529, "I", C("auditd"), 2, "type=1400 audit(0.0:35): avc: denied { open }")
Mo2 == MonoL(18, 62123, 6, 0, 1, 2, "F", C("a_b_c"), 0, "x")
Mo3 == MonoL(4, 917, 3, 1, 529, 530, "W", C("auditd"), 2, "earlier")
Mo4 == MonoL(20130, 0, 3, 1, 0, 0, "D", C("abc"), 0, "late")
LcTt == {T1, T2, T3, T4, T5, T6, T7, T8, T9, OtherL(0)}
LcMono == {Mo1, Mo2, Mo3, Mo4, OtherL(0), OtherL(1), OtherL(2)}
\* domain: dates the year rule covers; absolute times within 150000 s (time stamps are 32-bit in 0.1 ms: 119 h)
LcFileInDomain(fh) ==
  LET ref == LcRefDate(fh.mod)
      A == {j \in 1..Len(fh.lines) : fh.lines[j].k = "tt" /\ LcMode(ref, fh.lines[j]) # "up"}
  IN /\ \A j \in 1..Len(fh.lines) : fh.lines[j].k = "tt" => LcDateInDomain(ref, fh.lines[j].mo, fh.lines[j].d)
     /\ \A j1, j2 \in A : LcT(ref, fh.lines[j1]).s - LcT(ref, fh.lines[j2]).s <= 150000
LcSingles(n) == {<<fh>> : fh \in {File(sx, FALSE, NoT, m, sq) : sx \in {0}, m \in {M1, M2, M3}, sq \in SeqsUpTo(n, LcTt)} \cup
                                 {File(253, FALSE, NoT, M1, sq) : sq \in SeqsUpTo(n, LcMono)}}
LcB == {<<T4>>, <<T5>>, <<T4, T5>>, <<T5, T4>>, <<T3, T7>>}
LcPairsOf(B) == {<<File(0, FALSE, NoT, M3, a), File(100, FALSE, NoT, M3, b)>> : a, b \in B}
LcPairs == LcPairsOf(LcB)
LcCases(tier, p) ==
  IF p = 1 THEN {c \in LcSingles(IF tier = "tiny" THEN 2 ELSE IF tier = "quick" THEN 3 ELSE 4) : LcFileInDomain(c[1])}
  ELSE IF p = 2 THEN {c \in LcPairs : \A a \in 1..Len(c) : LcFileInDomain(c[a])}
  ELSE {}

-----------------------------------------------------------------------------
\* genlog
RecL(y, mo, d, hh, mi, ss, ms, lvl, tag, msg) ==
  [k |-> "rec", y |-> y, mo |-> mo, d |-> d, hh |-> hh, mi |-> mi, ss |-> ss, ms |-> ms, lvl |-> lvl, tag |-> tag, msg |-> msg]
GlA == {RecL(2024, 2, 29, 23, 1, 31, 627, "INF", C("conftest"), "RAM memory used: 3.44 %"),
        RecL(2024, 2, 29, 23, 1, 31, 628, "WRN", C("xtf_common.proc_wrapper"), "Starting [x] y"),
        RecL(2024, 2, 29, 23, 1, 31, 100, "DBG", C("conftest"), "earlier"),
        RecL(2024, 3, 1, 0, 0, 0, 0, "SEV", C("Ab"), "next day"),
        RecL(2024, 2, 28, 12, 0, 0, 1, "ERR", C("abc"), "day before"),
        RecL(2024, 3, 1, 12, 0, 0, 999, "VER", C("a_b_c"), "[x] [y] z"),
        RecL(2024, 2, 29, 23, 1, 32, 0, "FAT", C("Ab"), "fatal"),
        OtherL(0), OtherL(1), OtherL(2)}
GlSingles(n) == {<<File(sx, FALSE, NoT, NoT, sq)>> : sx \in {0}, sq \in SeqsUpTo(n, GlA)}
GlPairsOf(R) == {<<File(255, FALSE, NoT, NoT, a), File(5, FALSE, NoT, NoT, b)>> : a, b \in SeqsFromTo(1, 2, R)}
GlPairs == GlPairsOf({x \in GlA : x.k = "rec" /\ x.lvl \in {"INF", "SEV", "ERR"}})
GlCases(tier, p) ==
  IF p = 1 THEN GlSingles(IF tier = "tiny" THEN 2 ELSE IF tier = "quick" THEN 3 ELSE 4)
  ELSE IF p = 2 THEN (IF tier = "thorough" THEN GlPairsOf({x \in GlA : x.k = "rec"}) ELSE GlPairs) ELSE {}
MCCases(p) == IF Kind = "asc" THEN AscCases(Tier, p) ELSE IF Kind = "logcat" THEN LcCases(Tier, p) ELSE GlCases(Tier, p)

\* calendar self-check and anchors (evaluated once)
ASSUME \A z \in 10950..21000 : LET c == CivilFromDays(z) IN ValidDate(c.y, c.m, c.d) /\ DaysFromCivil(c.y, c.m, c.d) = z
ASSUME DaysFromCivil(1970, 1, 1) = 0 /\ DaysFromCivil(2022, 1, 1) = 18993 /\ Epoch(2022, 4, 12, 8, 55, 37) = 1649753737
ASSUME Weekday(2022, 4, 12) = 2 /\ Weekday(2024, 4, 26) = 5
=============================================================================
