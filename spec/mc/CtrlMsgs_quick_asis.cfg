SPECIFICATION Spec
CONSTANTS
  Tier = "quick"
  Fixed = FALSE
  Emit = TRUE
INVARIANT AllInOne
CHECK_DEADLOCK FALSE
