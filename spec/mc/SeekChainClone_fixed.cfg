SPECIFICATION Spec
CONSTANTS
  MaxLen = 4
  NC = 2
  Emit = FALSE
  Fixed = TRUE
  MaxOps = 5
  Gen = FALSE
VIEW View
INVARIANTS Ok Believes
CHECK_DEADLOCK FALSE
