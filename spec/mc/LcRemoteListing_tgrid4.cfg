\* thorough tier: the stream alphabet of Lc_emit_1ecu4.cfg
\* (the check derives the variant for the code as it is - ChainKey = FALSE, AsIsOnlyKf instead of ChainStrict ResumedAfterOrigin - from this
\*  file while the known finding KF_C07_ResumeChainKey is open)
SPECIFICATION Spec
CONSTANTS
  Ecus = {"A"}
  MaxMsgs = 4
  RxDeltas = {0, 1, 11, 61}
  TsVals = {0, 1, 20, 70}
  Kinds = {"norm"}
  IdxDeltas = {1}
  FixMerged = TRUE
  ChainKey = TRUE
INVARIANTS Emit ListingExists KeyIsStartIfNoResume ChainStrict ResumedAfterOrigin NoResumeByStart OriginStable CtrlOnlyNeverResume
CHECK_DEADLOCK FALSE
