------------------------------ MODULE MCSorter ------------------------------
(* TLC-only constants of the sorter model (a .cfg cannot hold functions): two ECUs, ECU A with two lifecycles
   (it may switch between them in any order), ECU B with one, all running in parallel.                      *)
EXTENDS Sorter
EcusVal == {"A", "B"}
LcOfEcuVal == [e \in {"A", "B"} |-> IF e = "A" THEN {1, 2} ELSE {3}]
LcStartVal == (1 :> 100) @@ (2 :> 190) @@ (3 :> 150)
\* sub-tick config (1 tick = 50 us, timestamps on a 2-tick grid): lifecycles 2 and 3 start an odd number of ticks off lifecycle 1
LcStartSub == (1 :> 100) @@ (2 :> 191) @@ (3 :> 151)
\* a single ECU switching between two lifecycles (deeper behaviours for the W = 3 window roll-over)
EcusOne == {"A"}
LcOfEcuOne == [e \in {"A"} |-> {1, 2}]
\* alphabets with negative numbers (a .cfg cannot hold them): reception deltas incl. going backwards; raw delays incl.
\* a timestamp one tick beyond the reception time (-1), the bound itself (D = 2) and beyond it (5)
RxBack == {-1, 0, 1, 3}
DelaysFull == {-1, 0, 1, 2, 5}
DelaysSmall == {-1, 0, 2, 5}
\* sub-tick config: raw delays in 50 us ticks: capped (-1, -2), none, 50..200 us (D = 4 ticks), beyond (6)
DelaysSubVal == {-2, -1, 0, 1, 2, 3, 4, 6}
=============================================================================
