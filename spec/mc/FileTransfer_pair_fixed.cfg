SPECIFICATION Spec
CONSTANTS
  NT = 2
  MaxPk = 2
  BufSizes = {2}
  MaxNoise = 0
  MaxFaults = 1
  Emit = FALSE
  FixDup = TRUE
  AutoSave = FALSE
  MaxEnv = 0
  FullLast = FALSE
  DupAlso = FALSE
INVARIANTS Safe SafeWire NeverCompleteOnDamage CompleteWhenInOrder DupIsTheOnlyDeviation ClassesAgree CompleteWithDup EmitScn
CHECK_DEADLOCK FALSE
