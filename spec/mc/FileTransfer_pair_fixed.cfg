SPECIFICATION Spec
CONSTANTS
  NT = 2
  MaxPk = 2
  BufSizes = {2}
  MaxNoise = 0
  MaxFaults = 1
  Emit = FALSE
  FixDup = TRUE
  AutoSave = FALSE
  MaxEnv = 0
  Names = FALSE
  RoundRobin = FALSE
  FullLast = FALSE
  DupAlso = FALSE
INVARIANTS Safe SafeWire NeverCompleteOnDamage CompleteWhenInOrder DupIsTheOnlyDeviation ClassesAgree CompleteWithDup IdxDesignates EmitScn
CHECK_DEADLOCK FALSE
