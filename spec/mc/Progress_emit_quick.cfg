SPECIFICATION Spec
CONSTANTS
  Scripts <- ScriptsVal
  Table <- TableVal
  StrictFin = TRUE
  NV = 2
  MaxBody = 2
  MaxOps = 3
  MaxOut = 1
  MaxSpin = 1
  Sync = TRUE
  Live = FALSE
  Mode = "free"
  CancelInLoop = FALSE
  DropCancels = FALSE
  Emit = TRUE
INVARIANTS ContractHolds EmitScn
CHECK_DEADLOCK FALSE
