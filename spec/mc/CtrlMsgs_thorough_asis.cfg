SPECIFICATION Spec
CONSTANTS
  Tier = "thorough"
  Fixed = FALSE
  Emit = TRUE
INVARIANT AllInOne
CHECK_DEADLOCK FALSE
