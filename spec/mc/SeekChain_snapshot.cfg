SPECIFICATION Spec
CONSTANTS
  MaxVol = 3
  MinSize = 0
  MaxSize = 3
  Emit = FALSE
  Fixed = FALSE
VIEW View
INVARIANTS Ok PosAgree
CHECK_DEADLOCK FALSE
