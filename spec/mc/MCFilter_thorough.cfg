SPECIFICATION Spec
CONSTANTS
  Chars = {1, 2, 3}
  TypeValsFull <- Bytes
  TypeValsSmall = {6, 22, 65, 7}
  RawFull = {0, 255, 1791, 16641, 16895, 270, 4336, 16624, 3598, 1550, 16896, 61680, 65535, 511}
  RawSmall = {16624, 1550}
  VmmSmall = {0, 1, 6, 7, 22, 23, 32, 38, 64, 65, 70, 96, 97, 112, 128, 255}
  LevelsSmall = {0, 1, 4, 6}
  MaxCrit = 3
  TripleSlots = {1, 2, 4, 5, 7, 8}
INVARIANTS DisabledNeverMatches NegationInverts NoExtNeverHolds Conjunction OneFailing TypeRules LiteralIsExact IgnoreCaseAdds LcSetSemantics
CHECK_DEADLOCK FALSE
