SPECIFICATION Spec
CONSTANTS
  Subs = {"rules1", "split", "pairs", "numericq", "factory", "direct", "enabled"}
  Paths <- MCPaths
  CfgLists <- MCCfgLists
  Streams <- MCStreams
  FixTextUnset = TRUE
INVARIANTS TypeOK PropertyHolds EmitScn
CHECK_DEADLOCK FALSE
