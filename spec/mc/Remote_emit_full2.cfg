SPECIFICATION Spec
CONSTANTS
  MaxSteps = 2
  MaxStreams = 2
  Depth = 1
  Level = "full"
  RecordHist = TRUE
INVARIANTS Emit
CHECK_DEADLOCK FALSE
