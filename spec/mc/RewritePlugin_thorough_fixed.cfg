SPECIFICATION Spec
CONSTANTS
  Subs = {"rules1", "rules3", "split", "split3", "pairs", "pairsL", "pairs3", "numeric", "factory", "factory3", "direct", "enabled"}
  Paths <- MCPaths
  CfgLists <- MCCfgLists
  Streams <- MCStreams
  FixTextUnset = TRUE
INVARIANTS TypeOK PropertyHolds EmitScn
CHECK_DEADLOCK FALSE
