SPECIFICATION Spec
CONSTANTS
  MaxLen = 4
  NC = 3
  Emit = FALSE
  Fixed = TRUE
  MaxOps = 6
  Gen = FALSE
VIEW View
INVARIANTS Ok Believes
CHECK_DEADLOCK FALSE
