SPECIFICATION Spec
CHECK_DEADLOCK FALSE
CONSTANTS
  NT = 5
  Rule = "gt"
INVARIANTS LatchedIndep PrefixesFound PrefixIndep
