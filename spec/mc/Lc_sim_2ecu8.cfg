\* deep sampling with tlc -simulate: two ECUs, up to 8 messages, wider alphabets; only rare-path behaviours are emitted (EmitRare)
SPECIFICATION Spec
CONSTANTS
  Ecus = {"A", "B"}
  MaxMsgs = 8
  RxDeltas = {0, 1, 2, 11, 38, 62}
  TsVals = {0, 1, 10, 50, 70, 100, 112, 113, 162}
  Kinds = {"norm", "ctrl"}
  IdxDeltas = {1}
  FixMerged = TRUE

INVARIANTS EmitRare NoPanic C05 C05Safe C06 C07
CHECK_DEADLOCK FALSE
