SPECIFICATION Spec
CONSTANTS
  Vers = {1, 0, 5}
  PayClasses = {0, 1, 2, 1001, 1000}
  MicrosSet = {0, 999999}
INVARIANTS DomainOk Thm_RoundTrip Thm_NormalForm Thm_Idempotent Thm_NoWrap Thm_RoundTripX XReached MaxReached EmitRecords
CHECK_DEADLOCK FALSE
