INIT RInit
NEXT RNext
CONSTANTS
  Ecus = {"A"}
  MaxMsgs = 4
  RxDeltas = {0, 11, 61}
  TsVals = {0, 70}
  Kinds = {"norm"}
  IdxDeltas = {1}
  FixMerged = TRUE
  Scheds = {0}
  FreePolls = TRUE
  PartialRecv = TRUE
  EacTimer = FALSE
  FixWithdraw = FALSE
VIEW RView
INVARIANTS NoMissingNoStale ExtraOnlyRemoved FileInfoOk EacOk CountsOk TableMirror
CHECK_DEADLOCK FALSE
