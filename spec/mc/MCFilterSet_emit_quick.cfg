SPECIFICATION ESpec
CONSTANTS
  MaxTotal = 3
  MaxPerKind = 3
INVARIANTS EmitScn
CHECK_DEADLOCK FALSE
