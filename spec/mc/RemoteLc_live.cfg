SPECIFICATION RSpec
CONSTANTS
  Ecus = {"A"}
  MaxMsgs = 3
  RxDeltas = {0, 11, 61}
  TsVals = {0, 70}
  Kinds = {"norm"}
  IdxDeltas = {1}
  FixMerged = TRUE
  Scheds = {0}
  FreePolls = TRUE
  PartialRecv = TRUE
  EacTimer = FALSE
  FixWithdraw = FALSE
INVARIANTS TableMirror
PROPERTY Terminates
CHECK_DEADLOCK FALSE
