SPECIFICATION FairSpec
CONSTANTS
  Scripts <- ScriptsVal
  Table <- TableVal
  StrictFin = TRUE
  NV = 2
  MaxBody = 3
  MaxOps = 3
  MaxOut = 2
  MaxSpin = 1
  Sync = FALSE
  Live = TRUE
  Mode = "free"
  CancelInLoop = FALSE
  DropCancels = FALSE
  Emit = FALSE
INVARIANTS TypeOK ContractHolds AtMostOnce ResultOnlyAfterEnd FinalValueAfterResult MonotoneObserved FlagOnlyByCancel
PROPERTIES WorkerWaitFree CancelTerminates
CHECK_DEADLOCK FALSE
