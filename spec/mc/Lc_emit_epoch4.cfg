\* reception times near the start of the epoch: a timestamp (2000 s) can exceed the reception time (RxBase = 1000 s + deltas)
SPECIFICATION Spec
CONSTANTS
  Ecus = {"A"}
  MaxMsgs = 4
  RxDeltas = {0, 11, 61}
  TsVals = {0, 20, 2000}
  Kinds = {"norm"}
  IdxDeltas = {1}
  FixMerged = TRUE

INVARIANTS EmitInv NoPanic C05 C05Safe C06 C07
CHECK_DEADLOCK FALSE
