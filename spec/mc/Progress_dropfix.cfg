SPECIFICATION FairSpec
CONSTANTS
  Scripts <- ScriptsVal
  Table <- TableVal
  StrictFin = TRUE
  NV = 2
  MaxBody = 2
  MaxOps = 2
  MaxOut = 1
  MaxSpin = 1
  Sync = FALSE
  Live = TRUE
  Mode = "free"
  CancelInLoop = FALSE
  DropCancels = TRUE
  Emit = FALSE
INVARIANTS TypeOK ContractHolds AtMostOnce ResultOnlyAfterEnd FinalValueAfterResult MonotoneObserved FlagOnlyByCancel
PROPERTIES DropNeverLeaks CancelTerminates WorkerWaitFree
CHECK_DEADLOCK FALSE
