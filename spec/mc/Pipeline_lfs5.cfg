SPECIFICATION Spec
CONSTANTS
  NMsgs = 5
  Kinds <- KindsLFS
  Styles <- StylesLFS
  CapAlphabet = {0, 1, 2}
  DropChoices <- DropsUpTo4
  H = 1
  PStalls = {0}
  ConsumerStyles = {"block", "poll"}
  StylesEverywhere = FALSE
  PollingHelper = FALSE
  Observe = TRUE
  SkipIdxStep = FALSE
  CStalls = {0}
INVARIANTS PrefixOfRef CompleteIfNoDrop DropExact ChanBound DoneIsFinal PublishIdxMonotone FoldUpToDate FinalTableComplete
PROPERTIES Termination DropTerminates
CHECK_DEADLOCK FALSE
