SPECIFICATION Spec
CONSTANTS
  LcAlphabet <- LcAlpha_filters
  MaxLcs = 2
  MaxMsgs = 3
  Apids <- ThreeApids
  LciChoices <- LciChoices_filters
  FilterChoices <- FilterChoices_filters
  WindowChoices <- NoWindow
  EnabledChoices <- OnlyEnabled
  InfoChoices <- NoInfos
INVARIANTS TypeOK PropertyHolds EmitScn
CHECK_DEADLOCK FALSE
