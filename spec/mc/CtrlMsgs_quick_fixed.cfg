SPECIFICATION Spec
CONSTANTS
  Tier = "quick"
  Fixed = TRUE
  Emit = FALSE
INVARIANT AllInOne
CHECK_DEADLOCK FALSE
