\* quick tier: one ECU, 4 messages; reception steps 0 / 11 s (11 s = resume gap), timestamps 0 / 11 / 30 s: a resume lifecycle is
\* lowered to exactly the start estimate of the lifecycle it resumes (11) or across it (30); chains of three
\* (the check derives the variant for the code as it is - ChainKey = FALSE, AsIsOnlyKf instead of ChainStrict ResumedAfterOrigin - from this
\*  file while the known finding KF_C07_ResumeChainKey is open)
SPECIFICATION Spec
CONSTANTS
  Ecus = {"A"}
  MaxMsgs = 4
  RxDeltas = {0, 11}
  TsVals = {0, 11, 30}
  Kinds = {"norm"}
  IdxDeltas = {1}
  FixMerged = TRUE
  ChainKey = TRUE
INVARIANTS Emit ListingExists KeyIsStartIfNoResume ChainStrict ResumedAfterOrigin NoResumeByStart OriginStable CtrlOnlyNeverResume
CHECK_DEADLOCK FALSE
