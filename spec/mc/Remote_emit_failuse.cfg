SPECIFICATION Spec
CONSTANTS
  MaxSteps = 5
  MaxStreams = 2
  Depth = 1
  Level = "failuse"
  RecordHist = TRUE
INVARIANTS Emit
CHECK_DEADLOCK FALSE
