SPECIFICATION Spec
CONSTANTS
  E = {1, 2}
  A = {1, 2}
  C = {1, 2}
  MaxLen = 3
  Emit = TRUE
  Alphabet <- AlphaQuick
INVARIANTS ContractHolds Sums KeysNested OrderIndependence Recomposed EmitScn
PROPERTY Monotone
CHECK_DEADLOCK FALSE
