SPECIFICATION Spec
CONSTANTS
  Tier = "tiny"
  Fixed = TRUE
  Emit = FALSE
INVARIANT AllInOne
CHECK_DEADLOCK FALSE
