\* thorough tier: the stream alphabet of Lc_emit_epoch4.cfg - reception times near the start of the Unix epoch (replayed with base 0:
\* a timestamp of 2000 s exceeds the reception time) plus timestamp 11
\* (the check derives the variant for the code as it is - ChainKey = FALSE, AsIsOnlyKf instead of ChainStrict ResumedAfterOrigin - from this
\*  file while the known finding KF_C07_ResumeChainKey is open)
SPECIFICATION Spec
CONSTANTS
  Ecus = {"A"}
  MaxMsgs = 4
  RxDeltas = {0, 11, 61}
  TsVals = {0, 11, 20, 2000}
  Kinds = {"norm"}
  IdxDeltas = {1}
  FixMerged = TRUE
  ChainKey = TRUE
INVARIANTS Emit ListingExists KeyIsStartIfNoResume ChainStrict ResumedAfterOrigin NoResumeByStart OriginStable CtrlOnlyNeverResume
CHECK_DEADLOCK FALSE
